(* AuthhelperProofs.v — proofs about AuthhelperModel.v (C47: helper reply reader; C46: Basic authentication). *)
Require Import SquidV.Bytes SquidV.AuthhelperModel.
Require Import ZifyBool ZifyN ZifyNat.
Local Open Scope N_scope.

(* ================================================================== generic list facts *)
Lemma span_app_inner {A} (p : A -> bool) a x :
  snd (span p a) <> [] -> span p (a ++ x) = (fst (span p a), snd (span p a) ++ x).
Proof.
  induction a as [|y a IH]; cbn [span app fst snd]; intros H; [congruence|].
  destruct (p y) eqn:E.
  - destruct (span p a) as [u v] eqn:S. cbn [fst snd] in *. rewrite (IH H). reflexivity.
  - reflexivity.
Qed.

Lemma span_app_stop {A} (p : A -> bool) a x :
  match x with [] => True | y :: _ => p y = false end ->
  span p (a ++ x) = (fst (span p a), snd (span p a) ++ x).
Proof.
  intros Hx. induction a as [|y a IH]; cbn [span app fst snd].
  - destruct x as [|z x]; cbn [span]; [reflexivity| rewrite Hx; reflexivity].
  - destruct (p y) eqn:E; [|reflexivity].
    rewrite IH. destruct (span p a) as [u v]. reflexivity.
Qed.

(* ================================================================== whitespace *)
Lemma skip_ws_nows l : hd_isspace l = false -> skip_ws l = l.
Proof. destruct l as [|c l]; cbn [hd_isspace skip_ws]; intros H; [reflexivity| now rewrite H]. Qed.

Lemma skip_ws_allws w x : forallb isspace w = true -> skip_ws (w ++ x) = skip_ws x.
Proof.
  induction w as [|c w IH]; cbn [forallb app skip_ws]; intros H; [reflexivity|].
  apply andb_prop in H as [H1 H2]. rewrite H1. auto.
Qed.

Lemma skip_ws_split e : exists w, forallb isspace w = true /\ e = w ++ skip_ws e.
Proof.
  induction e as [|c e [w [H1 H2]]]; [exists []; split; reflexivity|].
  cbn [skip_ws]. destruct (isspace c) eqn:E.
  - exists (c :: w). cbn [forallb app]. rewrite E, H1. split; [reflexivity| now f_equal].
  - exists []. split; reflexivity.
Qed.

Lemma skip_ws_idem x : skip_ws (skip_ws x) = skip_ws x.
Proof.
  induction x as [|c x IH]; cbn [skip_ws]; [reflexivity|].
  destruct (isspace c) eqn:E; [exact IH| cbn [skip_ws]; now rewrite E].
Qed.

Lemma skip_ws_hd x : hd_isspace (skip_ws x) = false.
Proof.
  induction x as [|c x IH]; cbn [skip_ws]; [reflexivity|].
  destruct (isspace c) eqn:E; [exact IH| cbn [hd_isspace]; exact E].
Qed.

Lemma skip_ws_snoc x c : isspace c = true ->
  skip_ws (x ++ [c]) = match skip_ws x with [] => [] | _ => skip_ws x ++ [c] end.
Proof.
  intros Hc. induction x as [|d x IH]; cbn [app skip_ws]; [now rewrite Hc|].
  destruct (isspace d) eqn:E; [exact IH| reflexivity].
Qed.

(* the reply text up to blanks at both ends *)
Definition trim (x : bytes) : bytes := rev (skip_ws (rev (skip_ws x))).

Lemma trim_skip_ws x : trim (skip_ws x) = trim x.
Proof. unfold trim. now rewrite skip_ws_idem. Qed.

Lemma trim_ws_prefix w x : forallb isspace w = true -> trim (w ++ x) = trim x.
Proof. intros H. unfold trim. now rewrite skip_ws_allws. Qed.

Lemma trim_snoc_ws x c : isspace c = true -> trim (x ++ [c]) = trim x.
Proof.
  intros Hc. unfold trim. rewrite skip_ws_snoc by exact Hc.
  destruct (skip_ws x) as [|d y] eqn:E; [reflexivity|].
  rewrite rev_app_distr. cbn [rev app skip_ws]. now rewrite Hc.
Qed.

(* ================================================================== strtol *)
Definition nows (l : bytes) : Prop := hd_isspace l = false.

Lemma sign_rest_app c s x : sign_rest ((c :: s) ++ x) = sign_rest (c :: s) ++ x.
Proof. cbn [app sign_rest]. destruct ((c =? 45) || (c =? 43)); reflexivity. Qed.

Lemma strtol_app_inner s x :
  hd_isspace (snd (strtol s)) = true -> nows s ->
  strtol (s ++ x) = (fst (strtol s), snd (strtol s) ++ x).
Proof.
  intros He Hs. destruct s as [|c s]; [discriminate He|].
  unfold nows in Hs. cbn [hd_isspace] in Hs.
  assert (K1 : skip_ws (c :: s) = c :: s) by (cbn [skip_ws]; now rewrite Hs).
  assert (K2 : skip_ws ((c :: s) ++ x) = (c :: s) ++ x) by (cbn [app skip_ws]; now rewrite Hs).
  unfold strtol in *. rewrite K1 in *. rewrite K2. rewrite sign_rest_app.
  destruct (span isdigit (sign_rest (c :: s))) as [ds e] eqn:S.
  destruct ds as [|d ds].
  - cbn [snd hd_isspace] in He. congruence.
  - cbn [snd fst] in *. assert (Hne : snd (span isdigit (sign_rest (c :: s))) <> []).
    { rewrite S. cbn [snd]. destruct e; [discriminate He| discriminate]. }
    rewrite (span_app_inner isdigit _ x Hne), S. reflexivity.
Qed.

Lemma strtol_app_stop s x :
  s <> [] -> nows s -> match x with [] => True | y :: _ => isdigit y = false end ->
  strtol (s ++ x) = (fst (strtol s), snd (strtol s) ++ x).
Proof.
  intros Hne Hs Hx. destruct s as [|c s]; [congruence|].
  unfold nows in Hs. cbn [hd_isspace] in Hs.
  assert (K1 : skip_ws (c :: s) = c :: s) by (cbn [skip_ws]; now rewrite Hs).
  assert (K2 : skip_ws ((c :: s) ++ x) = (c :: s) ++ x) by (cbn [app skip_ws]; now rewrite Hs).
  unfold strtol. rewrite K1, K2. rewrite sign_rest_app.
  rewrite (span_app_stop isdigit _ x Hx).
  destruct (span isdigit (sign_rest (c :: s))) as [ds e] eqn:S. cbn [fst snd].
  destruct ds as [|d ds]; reflexivity.
Qed.

(* ================================================================== lines *)
Definition noLF (l : bytes) : Prop := forallb (fun c => negb (c =? LF)) l = true.

Lemma split_lf_nolf a : noLF a -> split_lf a = ([], a).
Proof.
  unfold noLF. induction a as [|c a IH]; cbn [forallb split_lf]; intros H; [reflexivity|].
  apply andb_prop in H as [H1 H2]. rewrite (IH H2).
  destruct (c =? LF); [discriminate H1| reflexivity].
Qed.

Lemma split_lf_line a b : noLF a ->
  split_lf (a ++ LF :: b) = (a :: fst (split_lf b), snd (split_lf b)).
Proof.
  unfold noLF. induction a as [|c a IH]; cbn [forallb app]; intros H.
  - cbn [split_lf]. destruct (split_lf b) as [ls p]. rewrite N.eqb_refl. reflexivity.
  - apply andb_prop in H as [H1 H2]. cbn [split_lf]. rewrite (IH H2). cbn [fst snd].
    destruct (c =? LF); [discriminate H1| reflexivity].
Qed.

Lemma split_first_lf (x : bytes) : noLF x \/ exists a b, x = a ++ LF :: b /\ noLF a.
Proof.
  induction x as [|c x IH]; [left; reflexivity|].
  destruct (c =? LF) eqn:E.
  - right. exists [], x. apply N.eqb_eq in E. subst c. split; reflexivity.
  - destruct IH as [H|[a [b [H1 H2]]]].
    + left. unfold noLF. cbn [forallb]. rewrite E. exact H.
    + right. exists (c :: a), b. split; [now rewrite H1|]. unfold noLF. cbn [forallb]. rewrite E. exact H2.
Qed.

Lemma noLF_app a b : noLF a -> noLF b -> noLF (a ++ b).
Proof. unfold noLF. intros Ha Hb. rewrite forallb_app, Ha, Hb. reflexivity. Qed.

Lemma split_lf_tail_nolf x : noLF (snd (split_lf x)).
Proof.
  induction x as [|c x IH]; [reflexivity|]. cbn [split_lf].
  destruct (split_lf x) as [ls p]. cbn [snd] in *.
  destruct (c =? LF) eqn:E; [exact IH|].
  destruct ls; cbn [snd]; [|exact IH]. unfold noLF. cbn [forallb]. rewrite E. exact IH.
Qed.

Lemma split_lf_app x y :
  split_lf (x ++ y) =
  (fst (split_lf x) ++ fst (split_lf (snd (split_lf x) ++ y)), snd (split_lf (snd (split_lf x) ++ y))).
Proof.
  induction x as [|c x IH]; cbn [app split_lf fst snd].
  - destruct (split_lf y); reflexivity.
  - rewrite IH. destruct (split_lf x) as [ls p]. cbn [fst snd].
    destruct (split_lf (p ++ y)) as [ls2 p2] eqn:S2. cbn [fst snd].
    destruct (c =? LF) eqn:E; cbn [fst snd app]; [now rewrite S2|].
    destruct ls as [|l ls]; cbn [app fst snd].
    + cbn [split_lf]. rewrite S2, E. destruct ls2; reflexivity.
    + now rewrite S2.
Qed.

Lemma last_app_ne {A} (q c1 : list A) d : c1 <> [] -> last (q ++ c1) d = last c1 d.
Proof.
  intros H. induction q as [|y q IH]; [reflexivity|].
  cbn [app]. assert (E : q ++ c1 <> []) by (intros E; apply app_eq_nil in E as [_ E]; congruence).
  destruct (q ++ c1) as [|z r]; [congruence|]. exact IH.
Qed.

Lemma strip_cr_app q c1 : c1 <> [] -> strip_cr (q ++ c1) = q ++ strip_cr c1.
Proof.
  intros H. unfold strip_cr.
  destruct (q ++ c1) eqn:E; [apply app_eq_nil in E as [_ E]; congruence|]. rewrite <- E.
  destruct c1 as [|d c1]; [congruence|].
  rewrite last_app_ne by discriminate.
  destruct (last (d :: c1) 0 =? CR); [|reflexivity].
  apply removelast_app. discriminate.
Qed.

(* ================================================================== the per-line specification *)
(* What a helper reply stream means, line by line and independently of how it was read: the decimal number at the
   start of the line selects the waiting request (concurrent helpers; the oldest request otherwise), which is called
   back with the rest of the line; when no request is selected the line is dropped. *)
Definition spec_line (conc : bool) (rs : reqtab) (l : bytes) : reqtab * list disp :=
  let line := strip_cr l in
  let '(i, e) := if conc then strtol line else (0%Z, line) in
  let text := if conc then skip_ws e else line in
  match pop_request conc i rs with
  | Some (tag, rs') => (rs', [(tag, Some text)])
  | None => (rs, [])
  end.

Fixpoint spec_lines (conc : bool) (rs : reqtab) (ls : list bytes) : reqtab * list disp :=
  match ls with
  | [] => (rs, [])
  | l :: r => let '(rs1, o1) := spec_line conc rs l in
              let '(rs2, o2) := spec_lines conc rs1 r in (rs2, o1 ++ o2)
  end.

Definition spec_stream (conc : bool) (rs : reqtab) (stream : bytes) : list disp :=
  snd (spec_lines conc rs (fst (split_lf stream))).

Lemma spec_lines_app conc rs a b :
  spec_lines conc rs (a ++ b) =
  (fst (spec_lines conc (fst (spec_lines conc rs a)) b),
   snd (spec_lines conc rs a) ++ snd (spec_lines conc (fst (spec_lines conc rs a)) b)).
Proof.
  revert rs. induction a as [|l a IH]; intros rs; cbn [app spec_lines fst snd].
  - destruct (spec_lines conc rs b); reflexivity.
  - destruct (spec_line conc rs l) as [rs1 o1]. rewrite IH.
    destruct (spec_lines conc rs1 a) as [rs2 o2]. cbn [fst snd].
    destruct (spec_lines conc rs2 b) as [rs3 o3]. cbn [fst snd]. now rewrite app_assoc.
Qed.

(* equality of callbacks up to blanks at both ends of the text *)
Definition dsim1 (a b : disp) : Prop :=
  fst a = fst b /\
  match snd a, snd b with
  | Some x, Some y => trim x = trim y
  | None, None => True
  | _, _ => False
  end.
Definition dsim := Forall2 dsim1.

Lemma dsim_refl l : dsim l l.
Proof. induction l as [|[t [x|]] l IH]; constructor; try exact IH; split; reflexivity || exact I. Qed.

Lemma dsim_app a b c d : dsim a b -> dsim c d -> dsim (a ++ c) (b ++ d).
Proof. apply Forall2_app. Qed.

(* ================================================================== representation invariant *)
Definition fresh_st (rs : reqtab) (st : hstate) : Prop :=
  h_rbuf st = [] /\ h_cur st = None /\ h_ign st = false /\ h_reqs st = rs /\ h_closed st = false /\ h_queue st = [].

Definition decide (conc : bool) (q : bytes) : option (Z * bytes) :=
  if conc then (if hd_isspace (snd (strtol q)) then Some (strtol q) else None) else Some (0%Z, q).

(* st is the reader's state after the bytes q of a still unterminated line, the table having been rs0 at the
   start of that line *)
Definition RepNE (conc : bool) (rs0 : reqtab) (q : bytes) (st : hstate) : Prop :=
  match decide conc q with
  | None => h_rbuf st = q /\ h_cur st = None /\ h_ign st = false /\ h_reqs st = rs0
  | Some (i, e) =>
      h_rbuf st = [] /\
      match pop_request conc i rs0 with
      | Some (tag, rs1) =>
          h_ign st = false /\ h_reqs st = rs1 /\
          exists w acc, h_cur st = Some (tag, acc) /\ forallb isspace w = true /\ e = w ++ acc /\
                        (conc = false -> w = [])
      | None => h_cur st = None /\ h_ign st = true /\ h_reqs st = rs0
      end
  end.

Definition Rep (conc : bool) (rs0 : reqtab) (q : bytes) (st : hstate) : Prop :=
  h_closed st = false /\ h_queue st = [] /\
  match q with
  | [] => h_rbuf st = [] /\ h_cur st = None /\ h_ign st = false /\ h_reqs st = rs0
  | _ => RepNE conc rs0 q st
  end.

Lemma Rep_ne conc rs0 q st : q <> [] ->
  (Rep conc rs0 q st <-> h_closed st = false /\ h_queue st = [] /\ RepNE conc rs0 q st).
Proof. intros H. unfold Rep. destruct q; [congruence| tauto]. Qed.

Ltac hsimp := cbn [h_cur h_queue h_rbuf h_ign h_reqs h_next h_closed kick set_cur set_rbuf app fst snd clear_ign andb negb].

Lemma kick_nil lim st : h_queue st = [] -> kick lim (h_queue st) st = st.
Proof. intros H. rewrite H. destruct st; cbn in *. now subst. Qed.

(* L1: a complete line read by a reader in its initial state is handled exactly as the specification says *)
Lemma process_fresh c rs st l :
  fresh_st rs st ->
  exists st', process c true st l = Some (st', snd (spec_line (hc_conc c) rs l)) /\
              fresh_st (fst (spec_line (hc_conc c) rs l)) st'.
Proof.
  intros F. destruct st as [rb cu ig rq nx cl qu]. unfold fresh_st in F. cbn in F.
  destruct F as (-> & -> & -> & -> & -> & ->).
  unfold process, spec_line. cbn [h_cur h_ign h_reqs h_rbuf h_next h_closed h_queue negb andb].
  destruct (if hc_conc c then strtol (strip_cr l) else (0%Z, strip_cr l)) as [i e] eqn:Ei.
  rewrite andb_false_r. cbn [andb].
  destruct (pop_request (hc_conc c) i rs) as [[tag rs1]|] eqn:P.
  - unfold deliver. cbn. eexists. split; [reflexivity|]. unfold fresh_st. cbn. tauto.
  - unfold deliver. cbn. eexists. split; [reflexivity|]. unfold fresh_st. cbn. tauto.
Qed.

Lemma process_lines_fresh c rs st ls :
  fresh_st rs st ->
  exists st', process_lines c st ls = (st', snd (spec_lines (hc_conc c) rs ls)) /\
              fresh_st (fst (spec_lines (hc_conc c) rs ls)) st'.
Proof.
  revert rs st. induction ls as [|l ls IH]; intros rs st F; cbn [process_lines spec_lines].
  - exists st. split; [reflexivity| exact F].
  - destruct (process_fresh c rs st l F) as (st1 & E1 & F1). rewrite E1.
    destruct (spec_line (hc_conc c) rs l) as [rs1 o1]. cbn [fst snd] in *.
    destruct (IH rs1 st1 F1) as (st2 & E2 & F2). rewrite E2.
    destruct (spec_lines (hc_conc c) rs1 ls) as [rs2 o2]. cbn [fst snd] in *.
    exists st2. split; [reflexivity| exact F2].
Qed.

(* L3: the unterminated tail of a read, starting from the initial state *)
Lemma process_tail_fresh c rs st t :
  fresh_st rs st -> t <> [] -> (hc_conc c = true -> nows t) ->
  match process c false st t with
  | Some (st2, o2) => o2 = [] /\ Rep (hc_conc c) rs t st2
  | None => Rep (hc_conc c) rs t (set_rbuf st t)
  end.
Proof.
  intros F Ht Hn. destruct st as [rb cu ig rq nx cl qu]. unfold fresh_st in F. cbn in F.
  destruct F as (-> & -> & -> & -> & -> & ->).
  unfold process. hsimp.
  destruct (hc_conc c) eqn:Ec.
  - (* concurrent *)
    destruct (strtol t) as [i e] eqn:Es. hsimp.
    destruct (hd_isspace e) eqn:He; hsimp.
    + destruct (pop_request true i rs) as [[tag rs1]|] eqn:P; unfold deliver; hsimp.
      * split; [reflexivity|]. apply Rep_ne; [exact Ht|]. hsimp. split; [reflexivity|]. split; [reflexivity|].
        unfold RepNE, decide. rewrite Es. cbn [snd]. rewrite He, P. hsimp.
        repeat split; try reflexivity.
        destruct (skip_ws_split e) as (w & Hw1 & Hw2). exists w, (skip_ws e).
        repeat split; try assumption; try reflexivity. discriminate.
      * split; [reflexivity|]. apply Rep_ne; [exact Ht|]. hsimp. split; [reflexivity|]. split; [reflexivity|].
        unfold RepNE, decide. rewrite Es. cbn [snd]. rewrite He, P. hsimp. repeat split; reflexivity.
    + apply Rep_ne; [exact Ht|]. hsimp. split; [reflexivity|]. split; [reflexivity|].
      unfold RepNE, decide. rewrite Es. cbn [snd]. rewrite He. hsimp. repeat split; reflexivity.
  - (* one request at a time *)
    hsimp.
    destruct (pop_request false 0%Z rs) as [[tag rs1]|] eqn:P; unfold deliver; hsimp.
    + split; [reflexivity|]. apply Rep_ne; [exact Ht|]. hsimp. split; [reflexivity|]. split; [reflexivity|].
      unfold RepNE, decide. rewrite P. hsimp.
      repeat split; try reflexivity. exists [], t. repeat split; reflexivity.
    + split; [reflexivity|]. apply Rep_ne; [exact Ht|]. hsimp. split; [reflexivity|]. split; [reflexivity|].
      unfold RepNE, decide. rewrite P. hsimp. repeat split; reflexivity.
Qed.

Lemma Rep_fresh conc rs st : Rep conc rs [] st <-> fresh_st rs st.
Proof. unfold Rep, fresh_st. tauto. Qed.

Lemma decide_app conc q x i e :
  q <> [] -> (conc = true -> nows q) -> decide conc q = Some (i, e) ->
  decide conc (q ++ x) = Some (i, e ++ x).
Proof.
  unfold decide. intros Hq Hn. destruct conc.
  - destruct (hd_isspace (snd (strtol q))) eqn:He; [|discriminate].
    intros E. injection E as E. rewrite (strtol_app_inner q x He (Hn eq_refl)). rewrite E. cbn [fst snd].
    assert (He' : hd_isspace (e ++ x) = true).
    { rewrite E in He. cbn [snd] in He. destruct e; [discriminate He| exact He]. }
    now rewrite He'.
  - intros E. injection E as <- <-. reflexivity.
Qed.

Lemma nows_app q x : q <> [] -> nows (q ++ x) -> nows q.
Proof. destruct q; [congruence|]. unfold nows. cbn [app hd_isspace]. auto. Qed.

(* more bytes of the same line, no LF yet *)
Lemma tail_rep c rs0 q st x :
  Rep (hc_conc c) rs0 q st -> noLF x -> (hc_conc c = true -> nows (q ++ x)) ->
  exists st', body2 c (set_rbuf st []) [] (h_rbuf st ++ x) = (st', []) /\ Rep (hc_conc c) rs0 (q ++ x) st'.
Proof.
  intros R Hx Hn. unfold body2. cbn [process_lines].
  assert (Fr : forall st0, fresh_st rs0 st0 -> forall t, (hc_conc c = true -> nows t) ->
               exists st', match t with
                           | [] => (st0, [])
                           | _ :: _ => match process c false st0 t with
                                       | Some (st2, o2) => (st2, [] ++ o2)
                                       | None => (set_rbuf st0 t, [])
                                       end
                           end = (st', []) /\ Rep (hc_conc c) rs0 t st').
  { intros st0 F t Ht. destruct t as [|t0 t'].
    - exists st0. split; [reflexivity| now apply Rep_fresh].
    - pose proof (process_tail_fresh c rs0 st0 (t0 :: t') F ltac:(discriminate) Ht) as P.
      destruct (process c false st0 (t0 :: t')) as [[st2 o2]|].
      + destruct P as [-> P]. exists st2. split; [reflexivity| exact P].
      + eexists. split; [reflexivity| exact P]. }
  destruct (list_eq_dec N.eq_dec q []) as [->|Hq].
  - (* start of a line *)
    apply Rep_fresh in R. destruct st as [rb cu ig rq nx cl qu]. unfold fresh_st in R. cbn in R.
    destruct R as (-> & -> & -> & -> & -> & ->). hsimp.
    apply Fr; [unfold fresh_st; cbn; tauto| exact Hn].
  - apply Rep_ne in R; [|exact Hq]. destruct R as (Hc & Hqu & R). unfold RepNE in R.
    assert (Hnq : hc_conc c = true -> nows q) by (intros E; exact (nows_app q x Hq (Hn E))).
    assert (Hqx : q ++ x <> []) by (intros E; apply app_eq_nil in E as [E _]; congruence).
    destruct (decide (hc_conc c) q) as [[i e]|] eqn:D.
    + (* number already seen *)
      destruct R as (Hb & R). rewrite Hb. cbn [app].
      pose proof (decide_app (hc_conc c) q x i e Hq Hnq D) as D'.
      destruct x as [|x0 x'].
      * exists (set_rbuf st []). split; [reflexivity|]. rewrite app_nil_r.
        apply Rep_ne; [exact Hq|]. destruct st; cbn in *. subst. repeat split; try reflexivity.
        unfold RepNE. rewrite D. split; [reflexivity| exact R].
      * destruct (pop_request (hc_conc c) i rs0) as [[tag rs1]|] eqn:P.
        -- destruct R as (Hi & Hr & w & acc & Hcu & Hw & He & Hw0).
           destruct st as [rb cu ig rq nx cl qu]. cbn in Hc, Hqu, Hb, Hi, Hr, Hcu. subst.
           unfold process. hsimp. unfold deliver. hsimp. eexists. split; [reflexivity|].
           apply Rep_ne; [exact Hqx|]. hsimp. split; [reflexivity|]. split; [reflexivity|].
           unfold RepNE. rewrite D', P. hsimp.
           repeat split; try reflexivity. exists w, (acc ++ x0 :: x'). repeat split; try assumption.
           now rewrite app_assoc.
        -- destruct R as (Hcu & Hi & Hr).
           destruct st as [rb cu ig rq nx cl qu]. cbn in Hc, Hqu, Hb, Hi, Hr, Hcu. subst.
           unfold process. hsimp. unfold deliver. hsimp. eexists. split; [reflexivity|].
           apply Rep_ne; [exact Hqx|]. hsimp. split; [reflexivity|]. split; [reflexivity|].
           unfold RepNE. rewrite D', P. hsimp. repeat split; reflexivity.
    + (* number not complete yet: the line so far is still in rbuf *)
      destruct R as (Hb & Hcu & Hi & Hr). rewrite Hb.
      destruct st as [rb cu ig rq nx cl qu]. cbn in Hc, Hqu, Hb, Hi, Hr, Hcu. subst. hsimp.
      apply (Fr (mkH [] None false rs0 nx false [])); [unfold fresh_st; cbn; tauto| exact Hn].
Qed.

Lemma strip_cr_cases q : q <> [] ->
  (strip_cr q = q) \/ (exists q', q = q' ++ [CR] /\ strip_cr q = q').
Proof.
  intros H. unfold strip_cr. destruct q as [|q0 q1]; [congruence|].
  destruct (last (q0 :: q1) 0 =? CR) eqn:E; [|left; reflexivity].
  right. exists (removelast (q0 :: q1)). split; [|reflexivity].
  apply N.eqb_eq in E. rewrite <- E. apply app_removelast_last. discriminate.
Qed.

Lemma decide_conc q i e : decide true q = Some (i, e) -> strtol q = (i, e) /\ hd_isspace e = true.
Proof.
  unfold decide. destruct (hd_isspace (snd (strtol q))) eqn:H; [|discriminate].
  intros E. injection E as E. rewrite E in H. split; [exact E| exact H].
Qed.

(* the specification's reading of the complete line q ++ a, given what the reader decided after q *)
Lemma spec_line_determined conc rs0 q a i e w acc :
  q <> [] -> (conc = true -> nows q) -> decide conc q = Some (i, e) ->
  forallb isspace w = true -> e = w ++ acc -> (conc = false -> w = []) ->
  exists text', spec_line conc rs0 (q ++ a) =
                match pop_request conc i rs0 with
                | Some (tag, rs1) => (rs1, [(tag, Some text')])
                | None => (rs0, [])
                end /\ trim text' = trim (acc ++ strip_cr a).
Proof.
  intros Hq Hn D Hw He Hw0. unfold spec_line.
  destruct a as [|a0 a1].
  - (* the LF is the first byte of the read *)
    rewrite app_nil_r. cbn [strip_cr app]. rewrite app_nil_r.
    destruct (strip_cr_cases q Hq) as [Es|(q' & Eq & Es)]; rewrite Es.
    + destruct conc.
      * apply decide_conc in D as [D1 D2]. rewrite D1. exists (skip_ws e). split; [reflexivity|].
        rewrite trim_skip_ws, He. now apply trim_ws_prefix.
      * unfold decide in D. injection D as <- <-. rewrite (Hw0 eq_refl) in He. cbn [app] in He. subst acc.
        exists q. split; reflexivity.
    + destruct conc.
      * apply decide_conc in D as [D1 D2]. specialize (Hn eq_refl).
        assert (Hq' : q' <> []).
        { intros ->. subst q. cbn [app] in Hn. unfold nows in Hn. cbn in Hn. discriminate. }
        assert (Hn' : nows q') by (subst q; exact (nows_app q' [CR] Hq' Hn)).
        pose proof (strtol_app_stop q' [CR] Hq' Hn' ltac:(reflexivity)) as S.
        rewrite <- Eq, D1 in S. destruct (strtol q') as [i' e'] eqn:S'. cbn [fst snd] in S.
        injection S as -> ->. exists (skip_ws e'). split; [reflexivity|].
        rewrite trim_skip_ws. rewrite <- (trim_snoc_ws e' CR eq_refl). rewrite He. now apply trim_ws_prefix.
      * unfold decide in D. injection D as <- <-. rewrite (Hw0 eq_refl) in He. cbn [app] in He. subst acc.
        exists q'. split; [reflexivity|]. rewrite Eq. symmetry. now apply trim_snoc_ws.
  - set (a := a0 :: a1) in *. rewrite (strip_cr_app q a ltac:(discriminate)).
    destruct conc.
    + pose proof (decide_app true q (strip_cr a) i e Hq Hn D) as D'.
      apply decide_conc in D' as [D1 D2]. rewrite D1. exists (skip_ws (e ++ strip_cr a)). split; [reflexivity|].
      rewrite trim_skip_ws, He, <- app_assoc. now apply trim_ws_prefix.
    + unfold decide in D. injection D as <- <-. rewrite (Hw0 eq_refl) in He. cbn [app] in He. subst acc.
      exists (q ++ strip_cr a). split; reflexivity.
Qed.

(* L5: the LF of the current line arrives (after the bytes a) *)
Lemma finish_line c rs0 q st a :
  Rep (hc_conc c) rs0 q st -> (hc_conc c = true -> q <> [] -> nows q) ->
  exists st' d, process c true (set_rbuf st []) (h_rbuf st ++ a) = Some (st', d) /\
                dsim d (snd (spec_line (hc_conc c) rs0 (q ++ a))) /\
                fresh_st (fst (spec_line (hc_conc c) rs0 (q ++ a))) st'.
Proof.
  intros R Hn.
  assert (Fr : forall st0 l, fresh_st rs0 st0 ->
               exists st' d, process c true st0 l = Some (st', d) /\
                             dsim d (snd (spec_line (hc_conc c) rs0 l)) /\
                             fresh_st (fst (spec_line (hc_conc c) rs0 l)) st').
  { intros st0 l F. destruct (process_fresh c rs0 st0 l F) as (st' & E & F').
    exists st', (snd (spec_line (hc_conc c) rs0 l)). split; [exact E|]. split; [apply dsim_refl| exact F']. }
  destruct (list_eq_dec N.eq_dec q []) as [->|Hq].
  - apply Rep_fresh in R. destruct st as [rb cu ig rq nx cl qu]. unfold fresh_st in R. cbn in R.
    destruct R as (-> & -> & -> & -> & -> & ->). hsimp. apply Fr. unfold fresh_st. cbn. tauto.
  - apply Rep_ne in R; [|exact Hq]. destruct R as (Hc & Hqu & R). unfold RepNE in R.
    destruct (decide (hc_conc c) q) as [[i e]|] eqn:D.
    + destruct R as (Hb & R). rewrite Hb. cbn [app].
      destruct (pop_request (hc_conc c) i rs0) as [[tag rs1]|] eqn:P.
      * destruct R as (Hi & Hr & w & acc & Hcu & Hw & He & Hw0).
        destruct (spec_line_determined (hc_conc c) rs0 q a i e w acc Hq (fun E => Hn E Hq) D Hw He Hw0)
          as (text' & Es & Et). rewrite P in Es.
        destruct st as [rb cu ig rq nx cl qu]. cbn in Hc, Hqu, Hb, Hi, Hr, Hcu. subst rb cu ig rq cl qu.
        unfold process. hsimp. unfold deliver. hsimp. eexists. eexists. split; [reflexivity|].
        rewrite Es. cbn [fst snd]. split.
        -- constructor; [|constructor]. split; [reflexivity|]. cbn [snd]. now symmetry.
        -- unfold fresh_st. cbn. tauto.
      * destruct R as (Hcu & Hi & Hr).
        destruct (spec_line_determined (hc_conc c) rs0 q a i e [] e Hq (fun E => Hn E Hq) D eq_refl eq_refl
                    (fun _ => eq_refl)) as (text' & Es & Et). rewrite P in Es.
        destruct st as [rb cu ig rq nx cl qu]. cbn in Hc, Hqu, Hb, Hi, Hr, Hcu. subst rb cu ig rq cl qu.
        unfold process. hsimp. unfold deliver. hsimp. eexists. eexists. split; [reflexivity|].
        rewrite Es. cbn [fst snd]. split; [constructor|]. unfold fresh_st. cbn. tauto.
    + destruct R as (Hb & Hcu & Hi & Hr). rewrite Hb.
      destruct st as [rb cu ig rq nx cl qu]. cbn in Hc, Hqu, Hb, Hi, Hr, Hcu. subst. hsimp.
      apply Fr. unfold fresh_st. cbn. tauto.
Qed.

Lemma Rep_rbuf conc rs0 q st : Rep conc rs0 q st -> h_rbuf st = q \/ h_rbuf st = [].
Proof.
  intros R. destruct (list_eq_dec N.eq_dec q []) as [->|Hq].
  - apply Rep_fresh in R. left. apply R.
  - apply Rep_ne in R; [|exact Hq]. destruct R as (_ & _ & R). unfold RepNE in R.
    destruct (decide conc q) as [[i e]|]; [right|left]; apply R.
Qed.

Definition lines_all (s : bytes) : list bytes := fst (split_lf s) ++ [snd (split_lf s)].
(* every line of the stream (the unterminated last one included) starts with a byte that is not a blank *)
Definition wf (conc : bool) (s : bytes) : Prop := conc = true -> Forall nows (lines_all s).

Lemma body_sim c rs0 q st chunk :
  Rep (hc_conc c) rs0 q st -> noLF q -> wf (hc_conc c) (q ++ chunk) ->
  exists st' ds, hread_body c st (h_rbuf st ++ chunk) = (st', ds) /\
    dsim ds (snd (spec_lines (hc_conc c) rs0 (fst (split_lf (q ++ chunk))))) /\
    Rep (hc_conc c) (fst (spec_lines (hc_conc c) rs0 (fst (split_lf (q ++ chunk))))) (snd (split_lf (q ++ chunk))) st'.
Proof.
  intros R Hq W. unfold hread_body.
  assert (Hrb : noLF (h_rbuf st)) by (destruct (Rep_rbuf _ _ _ _ R) as [-> | ->]; [exact Hq| reflexivity]).
  destruct (split_first_lf chunk) as [Hc|(a & b & -> & Ha)].
  - rewrite (split_lf_nolf (h_rbuf st ++ chunk)) by (now apply noLF_app).
    rewrite (split_lf_nolf (q ++ chunk)) by (now apply noLF_app). cbn [fst snd spec_lines].
    assert (Hn : hc_conc c = true -> nows (q ++ chunk)).
    { intros E. specialize (W E). unfold lines_all in W.
      rewrite (split_lf_nolf (q ++ chunk)) in W by (now apply noLF_app). cbn [fst snd app] in W.
      now inversion W. }
    destruct (tail_rep c rs0 q st chunk R Hc Hn) as (st' & E & R'). exists st', []. split; [exact E|].
    split; [constructor| exact R'].
  - rewrite (app_assoc (h_rbuf st)), (app_assoc q).
    rewrite (split_lf_line (h_rbuf st ++ a) b) by (now apply noLF_app).
    rewrite (split_lf_line (q ++ a) b) by (now apply noLF_app). cbn [fst snd].
    assert (W1 : hc_conc c = true -> nows (q ++ a) /\ nows (snd (split_lf b))).
    { intros E. specialize (W E). unfold lines_all in W. rewrite (app_assoc q) in W.
      rewrite (split_lf_line (q ++ a) b) in W by (now apply noLF_app). cbn [fst snd app] in W.
      inversion W as [|? ? W2 W3]; subst. split; [exact W2|].
      apply Forall_app in W3 as [_ W3]. now inversion W3. }
    assert (Hn : hc_conc c = true -> q <> [] -> nows q).
    { intros E Hne. exact (nows_app q a Hne (proj1 (W1 E))). }
    destruct (finish_line c rs0 q st a R Hn) as (st1 & d1 & E1 & S1 & F1).
    unfold body2. cbn [process_lines]. rewrite E1. cbn [spec_lines].
    destruct (spec_line (hc_conc c) rs0 (q ++ a)) as [rs1 o1]. cbn [fst snd] in *.
    destruct (process_lines_fresh c rs1 st1 (fst (split_lf b)) F1) as (st2 & E2 & F2). rewrite E2.
    destruct (spec_lines (hc_conc c) rs1 (fst (split_lf b))) as [rs2 o2]. cbn [fst snd] in *.
    destruct (snd (split_lf b)) as [|t0 t1] eqn:Et.
    + exists st2, (d1 ++ o2). split; [reflexivity|]. split.
      * apply dsim_app; [exact S1| apply dsim_refl].
      * now apply Rep_fresh.
    + pose proof (process_tail_fresh c rs2 st2 (t0 :: t1) F2 ltac:(discriminate)
                    (fun E => proj2 (W1 E))) as P.
      destruct (process c false st2 (t0 :: t1)) as [[st3 o3]|].
      * destruct P as [-> P]. exists st3, ((d1 ++ o2) ++ []). split; [reflexivity|]. split; [|exact P].
        rewrite app_nil_r. apply dsim_app; [exact S1| apply dsim_refl].
      * eexists. exists (d1 ++ o2). split; [reflexivity|]. split; [|exact P].
        apply dsim_app; [exact S1| apply dsim_refl].
Qed.

Lemma hreads_cons c st ch r :
  hreads c st (ch :: r) = (fst (hreads c (fst (hread c st ch)) r), snd (hread c st ch) ++ snd (hreads c (fst (hread c st ch)) r)).
Proof.
  unfold hreads. cbn [map hrun hstep]. destruct (hread c st ch) as [st1 o1]. cbn [fst snd].
  destruct (hrun c st1 (map HRead r)) as [st2 o2]. reflexivity.
Qed.

Lemma hreads_closed c st chunks : h_closed st = true -> hreads c st chunks = (st, []).
Proof.
  intros H. induction chunks as [|ch r IH]; [reflexivity|].
  rewrite hreads_cons. unfold hread. rewrite H. cbn [fst snd]. rewrite IH. reflexivity.
Qed.

Lemma lines_all_app x y :
  lines_all (x ++ y) = fst (split_lf x) ++ lines_all (snd (split_lf x) ++ y).
Proof. unfold lines_all. rewrite split_lf_app. cbn [fst snd]. now rewrite app_assoc. Qed.

Lemma dsim_firstn_app a b c d k : dsim a b -> dsim c (firstn k d) -> dsim (a ++ c) (firstn (length b + k) (b ++ d)).
Proof.
  intros H1 H2. rewrite firstn_app_2. now apply dsim_app.
Qed.

(* the reads of a stream, cut in any way, call back what the specification says for its complete lines; if the
   helper gets killed on the way ("spoke without being spoken to") a prefix of it *)
Lemma frag_main c chunks : forall rs0 q st,
  Rep (hc_conc c) rs0 q st -> noLF q -> wf (hc_conc c) (q ++ concat chunks) ->
  (exists k, dsim (snd (hreads c st chunks))
                  (firstn k (snd (spec_lines (hc_conc c) rs0 (fst (split_lf (q ++ concat chunks))))))) /\
  (h_closed (fst (hreads c st chunks)) = false ->
   dsim (snd (hreads c st chunks)) (snd (spec_lines (hc_conc c) rs0 (fst (split_lf (q ++ concat chunks)))))).
Proof.
  induction chunks as [|ch r IH]; intros rs0 q st R Hq W.
  - cbn [concat]. rewrite app_nil_r. rewrite (split_lf_nolf q Hq). cbn [fst snd spec_lines hreads map hrun].
    split; [exists 0%nat; constructor| intros _; constructor].
  - rewrite hreads_cons. cbn [concat]. rewrite (app_assoc q).
    assert (Hcl : h_closed st = false) by apply R.
    destruct (h_pending st =? 0) eqn:Ep.
    + assert (Eh : hread c st ch = (mkH [] (h_cur st) (h_ign st) (h_reqs st) (h_next st) true (h_queue st), []))
        by (unfold hread; now rewrite Hcl, Ep).
      rewrite Eh. cbn [fst snd]. rewrite hreads_closed by reflexivity. cbn [fst snd app h_closed].
      split; [exists 0%nat; constructor| discriminate].
    + assert (Eh : hread c st ch = hread_body c st (h_rbuf st ++ ch)) by (unfold hread; now rewrite Hcl, Ep).
      rewrite Eh. clear Eh.
      destruct (body_sim c rs0 q st ch R Hq) as (st1 & o1 & E1 & S1 & R1).
      { intros E. specialize (W E). cbn [concat] in W. rewrite app_assoc, lines_all_app in W.
        apply Forall_app in W as [W1 W2]. unfold lines_all. apply Forall_app. split; [exact W1|].
        constructor; [|constructor].
        (* the tail of q ++ ch: a prefix of the first line of what follows *)
        destruct (snd (split_lf (q ++ ch))) as [|t0 t1] eqn:Et; [reflexivity|].
        unfold lines_all in W2. cbn [app] in W2.
        destruct (split_lf (t0 :: t1 ++ concat r)) as [ls p] eqn:Es.
        assert (Hh : match ls with l :: _ => hd_isspace l = isspace t0 | [] => hd_isspace p = isspace t0 end).
        { cbn [split_lf] in Es. destruct (split_lf (t1 ++ concat r)) as [ls' p'].
          pose proof (split_lf_tail_nolf (q ++ ch)) as Hnl. rewrite Et in Hnl. unfold noLF in Hnl. cbn [forallb] in Hnl.
          apply andb_prop in Hnl as [Hnl _]. destruct (t0 =? LF); [discriminate Hnl|].
          destruct ls'; injection Es as <- <-; reflexivity. }
        cbn [fst snd] in W2. unfold nows. cbn [hd_isspace].
        destruct ls as [|l ls]; cbn [app] in W2; inversion W2 as [|? ? W3 _]; subst; unfold nows in W3; congruence. }
      rewrite E1. cbn [fst snd].
      rewrite split_lf_app. cbn [fst snd]. rewrite spec_lines_app. cbn [fst snd].
      set (ls1 := fst (split_lf (q ++ ch))) in *. set (tl := snd (split_lf (q ++ ch))) in *.
      set (rs1 := fst (spec_lines (hc_conc c) rs0 ls1)) in *.
      assert (W' : wf (hc_conc c) (tl ++ concat r)).
      { intros E. specialize (W E). cbn [concat] in W. rewrite app_assoc, lines_all_app in W.
        apply Forall_app in W as [_ W2]. exact W2. }
      destruct (IH rs1 tl st1 R1 (split_lf_tail_nolf (q ++ ch)) W') as ((k & I1) & I2).
      split.
      * exists (length (snd (spec_lines (hc_conc c) rs0 ls1)) + k)%nat. now apply dsim_firstn_app.
      * intros Hc. apply dsim_app; [exact S1| exact (I2 Hc)].
Qed.

(* ================================================================== C47 statements *)
Lemma dsim_sym a b : dsim a b -> dsim b a.
Proof.
  induction 1 as [|x y a b H _ IH]; constructor; [|exact IH].
  destruct H as [H1 H2]. split; [now symmetry|]. destruct (snd x), (snd y); try tauto. now symmetry.
Qed.

Lemma dsim_trans a b c : dsim a b -> dsim b c -> dsim a c.
Proof.
  intros H. revert c. induction H as [|x y a b H _ IH]; intros c Hc; inversion Hc as [|y' z b' c' H' Hc']; subst; constructor.
  - destruct H as [H1 H2], H' as [H3 H4]. split; [congruence|].
    destruct (snd x), (snd y), (snd z); try tauto. congruence.
  - now apply IH.
Qed.

Lemma fresh_Rep conc st : fresh_st (h_reqs st) st -> Rep conc (h_reqs st) [] st.
Proof. intros F. now apply Rep_fresh. Qed.

(* T1: for every way of cutting the helper's byte stream into reads the callbacks are those of the per-line
   specification (up to blanks at the ends of the text): all of them if the helper was not killed, else a prefix *)
Theorem dispatch_is_spec c st chunks :
  fresh_st (h_reqs st) st -> wf (hc_conc c) (concat chunks) ->
  (exists k, dsim (snd (hreads c st chunks)) (firstn k (spec_stream (hc_conc c) (h_reqs st) (concat chunks)))) /\
  (h_closed (fst (hreads c st chunks)) = false ->
   dsim (snd (hreads c st chunks)) (spec_stream (hc_conc c) (h_reqs st) (concat chunks))).
Proof.
  intros F W. exact (frag_main c chunks (h_reqs st) [] st (fresh_Rep _ st F) eq_refl W).
Qed.

(* T1': two fragmentations of the same stream *)
Theorem fragmentation_independent c st chunks1 chunks2 :
  fresh_st (h_reqs st) st -> concat chunks1 = concat chunks2 -> wf (hc_conc c) (concat chunks1) ->
  h_closed (fst (hreads c st chunks1)) = false -> h_closed (fst (hreads c st chunks2)) = false ->
  dsim (snd (hreads c st chunks1)) (snd (hreads c st chunks2)).
Proof.
  intros F E W C1 C2.
  destruct (dispatch_is_spec c st chunks1 F W) as [_ H1].
  rewrite E in W. destruct (dispatch_is_spec c st chunks2 F W) as [_ H2].
  rewrite E in H1. exact (dsim_trans _ _ _ (H1 C1) (dsim_sym _ _ (H2 C2))).
Qed.

Lemma pop_id_split i rs t rs' :
  pop_id i rs = Some (t, rs') -> exists a b, rs = a ++ (i, t) :: b /\ rs' = a ++ b.
Proof.
  revert t rs'. induction rs as [|[j u] rs IH]; intros t rs'; cbn [pop_id]; [discriminate|].
  destruct (j =? i) eqn:E.
  - intros H. injection H as <- <-. apply N.eqb_eq in E. subst j. exists [], rs. split; reflexivity.
  - destruct (pop_id i rs) as [[t' r']|]; [|discriminate]. intros H. injection H as <- <-.
    destruct (IH t' r' eq_refl) as (a & b & -> & ->). exists ((j, u) :: a), b. split; reflexivity.
Qed.

Lemma pop_id_none i rs : (forall t, ~ In (i, t) rs) -> pop_id i rs = None.
Proof.
  induction rs as [|[j u] rs IH]; intros H; cbn [pop_id]; [reflexivity|].
  destruct (j =? i) eqn:E.
  - apply N.eqb_eq in E. subst j. exfalso. apply (H u). now left.
  - rewrite IH; [reflexivity|]. intros t Ht. apply (H t). now right.
Qed.

Lemma pop_request_split conc i rs t rs' :
  pop_request conc i rs = Some (t, rs') ->
  exists a j b, rs = a ++ (j, t) :: b /\ rs' = a ++ b /\ (conc = true -> (0 <= i)%Z /\ j = Z.to_N i).
Proof.
  unfold pop_request. destruct conc.
  - destruct (i <? 0)%Z eqn:E; [discriminate|]. intros H.
    destruct (pop_id_split _ _ _ _ H) as (a & b & -> & ->). exists a, (Z.to_N i), b.
    repeat split; try reflexivity. lia.
  - destruct rs as [|[j u] rs]; [discriminate|]. intros H. injection H as <- <-.
    exists [], j, rs. repeat split; try reflexivity; discriminate.
Qed.

(* the number at the start of a (complete) line *)
Definition line_number (l : bytes) : Z := fst (strtol (strip_cr l)).

Lemma spec_lines_sound rs ls tag d :
  In (tag, d) (snd (spec_lines true rs ls)) ->
  exists l, In l ls /\ (0 <= line_number l)%Z /\ In (Z.to_N (line_number l), tag) rs.
Proof.
  revert rs. induction ls as [|l ls IH]; intros rs; cbn [spec_lines snd]; [intros []|].
  destruct (spec_line true rs l) as [rs1 o1] eqn:E1.
  destruct (spec_lines true rs1 ls) as [rs2 o2] eqn:E2. cbn [snd]. intros H.
  unfold spec_line in E1. destruct (strtol (strip_cr l)) as [i e] eqn:Es.
  destruct (pop_request true i rs) as [[t r']|] eqn:P.
  - injection E1 as <- <-. destruct (pop_request_split _ _ _ _ _ P) as (a & j & b & -> & -> & Hj).
    destruct (Hj eq_refl) as [Hi ->].
    destruct H as [H|H].
    + injection H as <- _. exists l. split; [now left|]. unfold line_number. rewrite Es. cbn [fst].
      split; [exact Hi|]. apply in_or_app. right. now left.
    + specialize (IH (a ++ b)). rewrite E2 in IH. destruct (IH H) as (l' & L1 & L2 & L3).
      exists l'. split; [now right|]. split; [exact L2|].
      apply in_app_or in L3. apply in_or_app. destruct L3; [now left| right; now right].
  - injection E1 as <- <-. cbn [app] in H. specialize (IH rs). rewrite E2 in IH.
    destruct (IH H) as (l' & L1 & L2 & L3). exists l'. split; [now right|]. tauto.
Qed.

Lemma dsim_In a b t d : dsim a b -> In (t, d) a -> exists d', In (t, d') b.
Proof.
  induction 1 as [|x y a b H _ IH]; [intros []|]. intros [Hx|Hx].
  - subst x. destruct y as [t' d']. destruct H as [H _]. cbn in H. subst t'. exists d'. now left.
  - destruct (IH Hx) as (d' & Hd). exists d'. now right.
Qed.

Lemma In_firstn {A} k (l : list A) x : In x (firstn k l) -> In x l.
Proof.
  revert l. induction k as [|k IH]; intros [|y l]; cbn [firstn In]; try tauto.
  intros [H|H]; [now left| right; auto].
Qed.

(* T2: whoever is called back was waiting on the channel whose number starts that reply line *)
Theorem reply_applied_to_its_channel c st chunks tag d :
  hc_conc c = true -> fresh_st (h_reqs st) st -> wf true (concat chunks) ->
  In (tag, d) (snd (hreads c st chunks)) ->
  exists l, In l (fst (split_lf (concat chunks))) /\ (0 <= line_number l)%Z /\
            In (Z.to_N (line_number l), tag) (h_reqs st).
Proof.
  intros Ec F W H. rewrite <- Ec in W. destruct (dispatch_is_spec c st chunks F W) as [(k & Hk) _].
  destruct (dsim_In _ _ _ _ Hk H) as (d' & Hd). apply In_firstn in Hd.
  unfold spec_stream in Hd. rewrite Ec in Hd. exact (spec_lines_sound _ _ _ _ Hd).
Qed.

Lemma spec_lines_none conc rs ls :
  (forall l, In l ls -> pop_request conc (if conc then line_number l else 0%Z) rs = None) ->
  spec_lines conc rs ls = (rs, []).
Proof.
  induction ls as [|l ls IH]; intros H; cbn [spec_lines]; [reflexivity|].
  assert (E : spec_line conc rs l = (rs, [])).
  { unfold spec_line. specialize (H l (or_introl eq_refl)). unfold line_number in H.
    destruct conc.
    - destruct (strtol (strip_cr l)) as [i e]. cbn [fst] in H. now rewrite H.
    - now rewrite H. }
  rewrite E, IH; [reflexivity|]. intros l' Hl. apply H. now right.
Qed.

(* T3: lines whose number is not the id of a waiting request (unknown, negative) call nobody back *)
Theorem unknown_channel_dropped c st chunks :
  hc_conc c = true -> fresh_st (h_reqs st) st -> wf true (concat chunks) ->
  (forall l, In l (fst (split_lf (concat chunks))) ->
             (line_number l < 0)%Z \/ forall tag, ~ In (Z.to_N (line_number l), tag) (h_reqs st)) ->
  snd (hreads c st chunks) = [].
Proof.
  intros Ec F W H. rewrite <- Ec in W. destruct (dispatch_is_spec c st chunks F W) as [(k & Hk) _].
  unfold spec_stream in Hk. rewrite Ec in Hk. rewrite spec_lines_none in Hk.
  - cbn [snd] in Hk. destruct k; cbn [firstn] in Hk; now inversion Hk.
  - intros l Hl. unfold pop_request. destruct (H l Hl) as [Hn|Hn].
    + apply Z.ltb_lt in Hn. now rewrite Hn.
    + destruct (line_number l <? 0)%Z; [reflexivity|]. now apply pop_id_none.
Qed.

(* ================================================================== non-concurrent helpers: FIFO *)
(* the transactions that still wait for an answer, in the order in which they asked *)
Definition order (st : hstate) : list N :=
  match h_cur st with Some (t, _) => [t] | None => [] end ++ map snd (h_reqs st) ++ h_queue st.

Lemma kick_order lim q st :
  h_cur (kick lim q st) = h_cur st /\
  map snd (h_reqs (kick lim q st)) ++ h_queue (kick lim q st) = map snd (h_reqs st) ++ q /\
  h_closed (kick lim q st) = h_closed st.
Proof.
  revert st. induction q as [|t q IH]; intros st; cbn [kick].
  - cbn. now rewrite app_nil_r.
  - destruct (h_pending st <? lim).
    + destruct (IH (hdispatch st t)) as (I1 & I2 & I3). rewrite I1, I2, I3. unfold hdispatch. cbn.
      rewrite map_app. cbn. now rewrite <- app_assoc.
    + cbn. tauto.
Qed.

Lemma order_kick lim st : order (kick lim (h_queue st) st) = order st.
Proof.
  unfold order. destruct (kick_order lim (h_queue st) st) as (I1 & I2 & _). now rewrite I1, I2.
Qed.

Definition tags (ds : list disp) : list N := map fst ds.

Lemma order_kick_cur lim st t acc :
  h_cur st = Some (t, acc) -> order st = t :: order (kick lim (h_queue st) (set_cur st None)).
Proof.
  intros Hc. change (h_queue st) with (h_queue (set_cur st None)). rewrite order_kick.
  unfold order, set_cur. cbn. now rewrite Hc.
Qed.

Lemma process_order c eom st seg st' ds :
  hc_conc c = false -> process c eom st seg = Some (st', ds) -> order st = tags ds ++ order st'.
Proof.
  intros Ec. unfold process. rewrite Ec. cbn [andb].
  assert (D : forall s text s' o, deliver c s text eom = (s', o) -> order s = tags o ++ order s').
  { intros s text s' o. unfold deliver. destruct (h_cur s) as [[t acc]|] eqn:Hc.
    - destruct eom; intros H; injection H as <- <-.
      + cbn [tags map fst app]. exact (order_kick_cur (hc_limit c) s t acc Hc).
      + unfold order, set_cur. cbn. now rewrite Hc.
    - intros H. injection H as <- <-. cbn [tags map app]. symmetry. apply order_kick. }
  assert (C : forall s, order (clear_ign eom s) = order s).
  { intros s. unfold clear_ign. destruct (eom && h_ign s); reflexivity. }
  destruct (negb (h_ign st) && match h_cur st with None => true | Some _ => false end) eqn:Ef.
  - apply andb_prop in Ef as [_ Ef]. destruct (h_cur st) eqn:Hc; [discriminate|].
    destruct (pop_request false 0%Z (h_reqs st)) as [[tag rs]|] eqn:P.
    + match goal with |- context [deliver c ?s0 ?tx eom] => destruct (deliver c s0 tx eom) as [s2 o2] eqn:Ed end. intros H. injection H as <- <-.
      rewrite C, <- (D _ _ _ _ Ed). unfold order. cbn. rewrite Hc.
      unfold pop_request in P. destruct (h_reqs st) as [|[j u] r]; [discriminate|]. injection P as <- <-. reflexivity.
    + match goal with |- context [deliver c ?s0 ?tx eom] => destruct (deliver c s0 tx eom) as [s2 o2] eqn:Ed end. intros H. injection H as <- <-.
      rewrite C, <- (D _ _ _ _ Ed). unfold order. cbn. now rewrite Hc.
  - match goal with |- context [deliver c ?s0 ?tx eom] => destruct (deliver c s0 tx eom) as [s2 o2] eqn:Ed end.
    intros H. injection H as <- <-. rewrite C. exact (D _ _ _ _ Ed).
Qed.

Lemma process_lines_order c st ls st' ds :
  hc_conc c = false -> process_lines c st ls = (st', ds) -> order st = tags ds ++ order st'.
Proof.
  intros Ec. revert st st' ds. induction ls as [|l ls IH]; intros st st' ds; cbn [process_lines].
  - intros H. injection H as <- <-. reflexivity.
  - destruct (process c true st l) as [[st1 o1]|] eqn:E1.
    + destruct (process_lines c st1 ls) as [st2 o2] eqn:E2. intros H. injection H as <- <-.
      rewrite (process_order c true st l st1 o1 Ec E1), (IH st1 st2 o2 E2).
      unfold tags. now rewrite map_app, app_assoc.
    + intros H. injection H as <- <-. reflexivity.
Qed.

Lemma hread_order c st chunk :
  hc_conc c = false -> order st = tags (snd (hread c st chunk)) ++ order (fst (hread c st chunk)).
Proof.
  intros Ec. unfold hread. destruct (h_closed st); [reflexivity|].
  destruct (h_pending st =? 0); [reflexivity|].
  unfold hread_body. destruct (split_lf (h_rbuf st ++ chunk)) as [ls tl]. unfold body2.
  destruct (process_lines c (set_rbuf st []) ls) as [st1 o1] eqn:E1.
  pose proof (process_lines_order c _ ls st1 o1 Ec E1) as H1.
  change (order (set_rbuf st [])) with (order st) in H1.
  destruct tl as [|t0 t1]; [exact H1|].
  destruct (process c false st1 (t0 :: t1)) as [[st2 o2]|] eqn:E2; cbn [fst snd].
  - rewrite H1, (process_order c false st1 _ st2 o2 Ec E2). unfold tags. now rewrite map_app, app_assoc.
  - exact H1.
Qed.

Lemma hsubmit_order c st t : order (hsubmit c st t) = order st ++ [t].
Proof.
  unfold hsubmit. destruct (h_queue st) as [|q0 q] eqn:Eq.
  - destruct (h_pending st <? hc_limit c); unfold order, hdispatch; cbn; rewrite ?Eq, ?map_app; cbn;
      rewrite ?app_nil_r, <- ?app_assoc; reflexivity.
  - unfold order. cbn [h_cur h_reqs h_queue]. rewrite Eq. now rewrite <- !app_assoc.
Qed.

Fixpoint submitted (ops : list hop) : list N :=
  match ops with
  | [] => []
  | HSubmit t :: r => t :: submitted r
  | _ :: r => submitted r
  end.

(* T4: a helper without channels answers the transactions in the order in which they asked, whatever the reads
   look like and including the transactions that had to wait in squid's own queue *)
Theorem nonconcurrent_fifo c ops : forall st,
  hc_conc c = false -> (forall op, In op ops -> op <> HEof) ->
  order st ++ submitted ops = tags (snd (hrun c st ops)) ++ order (fst (hrun c st ops)).
Proof.
  induction ops as [|op ops IH]; intros st Ec Hn; cbn [hrun submitted].
  - cbn [snd fst tags map app]. now rewrite app_nil_r.
  - assert (Hn' : forall o, In o ops -> o <> HEof) by (intros o Ho; apply Hn; now right).
    destruct op as [t|ch|]; cbn [hstep].
    + specialize (IH (hsubmit c st t) Ec Hn'). destruct (hrun c (hsubmit c st t) ops) as [st2 o2]. cbn [fst snd app] in *.
      rewrite hsubmit_order, <- app_assoc in IH. exact IH.
    + pose proof (hread_order c st ch Ec) as H1. destruct (hread c st ch) as [st1 o1]. cbn [fst snd] in *.
      specialize (IH st1 Ec Hn'). destruct (hrun c st1 ops) as [st2 o2]. cbn [fst snd] in *.
      rewrite H1. unfold tags in *. rewrite map_app, <- !app_assoc. f_equal. exact IH.
    + exfalso. apply (Hn HEof); [now left| reflexivity].
Qed.

(* every callback of a non-concurrent helper carries a reply text (never the "dropped" marker) *)

(* ================================================================== witnesses for the reader's leniencies *)
Definition cfg16 : hcfg := mkHC true 16.
Definition two_waiting : hstate := submit_all cfg16 h_init 2 1.       (* tags 1, 2 on channels 1, 2 *)
Definition bytes_of (l : list nat) : bytes := map N.of_nat l.

(* "4294967298 X\n" (2^32 + 2) and "18446744073709551618 X\n" (2^64 + 2): not channel 2's reply, nobody is called *)
Lemma out_of_range_channel_number_dropped :
  snd (hreads cfg16 two_waiting [bytes_of [52;50;57;52;57;54;55;50;57;56;32;88;10]%nat]) = [] /\
  snd (hreads cfg16 two_waiting [bytes_of [49;56;52;52;54;55;52;52;48;55;51;55;48;57;53;53;49;54;49;56;32;88;10]%nat]) = [] /\
  line_number (bytes_of [52;50;57;52;57;54;55;50;57;56;32;88]%nat) = (-1)%Z.
Proof. vm_compute. repeat split; reflexivity. Qed.

(* the exact (unbounded) value of a digit string *)
Fixpoint dec_exact (acc : Z) (ds : bytes) : Z :=
  match ds with
  | [] => acc
  | d :: r => dec_exact (acc * 10 + (Z.of_N d - 48)) r
  end.

Lemma dec_exact_ge a ds : forallb isdigit ds = true -> (0 <= a)%Z -> (a <= dec_exact a ds)%Z.
Proof.
  revert a. induction ds as [|d r IH]; intros a Hd Ha; cbn [dec_exact]; [lia|].
  cbn [forallb] in Hd. apply andb_prop in Hd as [H1 H2]. unfold isdigit in H1.
  specialize (IH (a * 10 + (Z.of_N d - 48))%Z H2). lia.
Qed.

Lemma dec_acc_exact a ds : forallb isdigit ds = true -> (0 <= a <= 9223372036854775808)%Z ->
  dec_acc a ds = Z.min (dec_exact a ds) 9223372036854775808%Z.
Proof.
  revert a. induction ds as [|d r IH]; intros a Hd Ha; cbn [dec_acc dec_exact]; [lia|].
  cbn [forallb] in Hd. apply andb_prop in Hd as [H1 H2]. unfold isdigit in H1.
  rewrite IH by (try exact H2; lia).
  destruct (Z_le_gt_dec (a * 10 + (Z.of_N d - 48)) 9223372036854775808) as [Hle|Hgt].
  - rewrite (Z.min_l (a * 10 + (Z.of_N d - 48)) 9223372036854775808) by exact Hle. reflexivity.
  - rewrite (Z.min_r (a * 10 + (Z.of_N d - 48)) 9223372036854775808) by lia.
    pose proof (dec_exact_ge 9223372036854775808 r H2 ltac:(lia)).
    pose proof (dec_exact_ge (a * 10 + (Z.of_N d - 48)) r H2 ltac:(lia)). lia.
Qed.

(* the channel a reply line names is EXACTLY the decimal number it starts with, or no channel at all (-1) when
   that number does not fit an int: no wrap-around, whatever the number of digits *)
Lemma channel_number_exact ds rest :
  ds <> [] -> forallb isdigit ds = true -> match rest with [] => True | c :: _ => isdigit c = false end ->
  fst (strtol (ds ++ rest)) = dec_exact 0 ds \/
  (fst (strtol (ds ++ rest)) = (-1)%Z /\ (INT_MAX < dec_exact 0 ds)%Z).
Proof.
  intros Hne Hd Hr. destruct ds as [|d ds']; [congruence|]. set (ds := d :: ds') in *.
  assert (Hd0 : isdigit d = true) by (cbn [forallb] in Hd; now apply andb_prop in Hd as [H _]).
  assert (Hsp : isspace d = false) by (unfold isdigit, isspace in *; lia).
  assert (Hsg : (d =? 45) || (d =? 43) = false) by (unfold isdigit in Hd0; lia).
  assert (Hng : (d =? 45) = false) by (unfold isdigit in Hd0; lia).
  unfold strtol. change (ds ++ rest) with (d :: (ds' ++ rest)). cbn [skip_ws]. rewrite Hsp.
  cbn [sign_rest is_neg]. rewrite Hsg, Hng.
  change (d :: ds' ++ rest) with (ds ++ rest).
  assert (Hs : span isdigit (ds ++ rest) = (ds, rest)).
  { clear -Hd Hr. induction ds as [|x r IH]; cbn [app span].
    - destruct rest as [|c rest]; [reflexivity|]. cbn [span]. now rewrite Hr.
    - cbn [forallb] in Hd. apply andb_prop in Hd as [H1 H2]. rewrite H1, (IH H2). reflexivity. }
  rewrite Hs. unfold ds at 1. cbn [fst]. fold ds.
  rewrite (dec_acc_exact 0 ds Hd ltac:(lia)).
  pose proof (dec_exact_ge 0 ds Hd ltac:(lia)) as Hge.
  unfold chan_of, LONG_MAX, INT_MAX.
  destruct (Z_le_gt_dec (dec_exact 0 ds) 2147483647) as [Hle|Hgt].
  - left. rewrite !Z.min_l by lia.
    replace ((dec_exact 0 ds <? 0)%Z) with false by lia.
    replace ((2147483647 <? dec_exact 0 ds)%Z) with false by lia. reflexivity.
  - right. split; [|unfold INT_MAX; lia].
    replace ((2147483647 <? Z.min (Z.min (dec_exact 0 ds) 9223372036854775808) 9223372036854775807)%Z) with true by lia.
    now rewrite orb_true_r.
Qed.

(* "1 OK\r\n" in one read, and cut between CR and LF: different text, different result code *)
Lemma crlf_cut_changes_text :
  let one := snd (hreads cfg16 two_waiting [bytes_of [49;32;79;75;13;10]%nat]) in
  let two := snd (hreads cfg16 two_waiting [bytes_of [49;32;79;75;13]%nat; bytes_of [10]%nat]) in
  one = [(1, Some (bytes_of [79;75]%nat))] /\ two = [(1, Some (bytes_of [79;75;13]%nat))] /\
  fst (fst (finalize (bytes_of [79;75]%nat))) = ROkay /\ fst (fst (finalize (bytes_of [79;75;13]%nat))) = RUnknown.
Proof. vm_compute. repeat split; reflexivity. Qed.

(* " 1 OK\n": in one read it is channel 1's reply; cut after the blank it is read as channel 0 and dropped *)
Lemma leading_blank_cut_changes_channel :
  snd (hreads cfg16 two_waiting [bytes_of [32;49;32;79;75;10]%nat]) = [(1, Some (bytes_of [79;75]%nat))] /\
  snd (hreads cfg16 two_waiting [bytes_of [32]%nat; bytes_of [49;32;79;75;10]%nat]) = [].
Proof. vm_compute. split; reflexivity. Qed.

(* non-vacuity of the hypotheses used above *)
Lemma two_waiting_fresh : fresh_st (h_reqs two_waiting) two_waiting /\ h_reqs two_waiting = [(1, 1); (2, 2)].
Proof. vm_compute. repeat split; reflexivity. Qed.

Lemma example_stream_wf :
  wf true (concat [bytes_of [50;32;79]%nat; bytes_of [75;10;49]%nat; bytes_of [32;69;82;82;13;10]%nat]) /\
  snd (hreads cfg16 two_waiting [bytes_of [50;32;79]%nat; bytes_of [75;10;49]%nat; bytes_of [32;69;82;82;13;10]%nat])
  = [(2, Some (bytes_of [79;75]%nat)); (1, Some (bytes_of [69;82;82]%nat))].
Proof.
  split; [|vm_compute; reflexivity].
  intros _. vm_compute. repeat constructor.
Qed.

(* ================================================================== C46: Basic proxy authentication *)
Lemma leq_spec (a : bytes) : forall b, list_eqb a b = true <-> a = b.
Proof.
  induction a as [|x a IH]; intros [|y b]; cbn [list_eqb]; try (split; [discriminate| congruence]); [tauto|].
  rewrite andb_true_iff, N.eqb_eq, IH. split; [intros [-> ->]; reflexivity| intros H; injection H; auto].
Qed.
Lemma leq_refl (a : bytes) : list_eqb a a = true.
Proof. now apply leq_spec. Qed.

Lemma find_set_same k u us : find_user k (set_user k u us) = Some u.
Proof.
  induction us as [|[k' u'] us IH]; cbn [set_user find_user]; [now rewrite leq_refl|].
  destruct (list_eqb k k') eqn:E; cbn [find_user]; [now rewrite leq_refl| now rewrite E].
Qed.

Lemma find_set_other k k' u us : k <> k' -> find_user k' (set_user k u us) = find_user k' us.
Proof.
  intros Hne. induction us as [|[k2 u2] us IH]; cbn [set_user find_user].
  - destruct (list_eqb k' k) eqn:E; [apply leq_spec in E; congruence| reflexivity].
  - destruct (list_eqb k k2) eqn:E; cbn [find_user].
    + apply leq_spec in E. subst k2.
      destruct (list_eqb k' k) eqn:E2; [apply leq_spec in E2; congruence| reflexivity].
    + destruct (list_eqb k' k2); [reflexivity| exact IH].
Qed.

Lemma find_set_cases k k' u us :
  (k' = k /\ find_user k' (set_user k u us) = Some u) \/ (k' <> k /\ find_user k' (set_user k u us) = find_user k' us).
Proof.
  destruct (list_eq_dec N.eq_dec k' k) as [->|H]; [left; split; [reflexivity| apply find_set_same]|].
  right. split; [exact H| apply find_set_other; congruence].
Qed.

Lemma take_lookup_sound rid ls x rest :
  take_lookup rid ls = Some (x, rest) -> In (rid, x) ls /\ incl rest ls.
Proof.
  revert x rest. induction ls as [|[r y] ls IH]; intros x rest; cbn [take_lookup]; [discriminate|].
  destruct (r =? rid) eqn:E.
  - intros H. injection H as <- <-. apply N.eqb_eq in E. subst r. split; [now left| intros z Hz; now right].
  - destruct (take_lookup rid ls) as [[y' rest']|]; [|discriminate]. intros H. injection H as <- <-.
    destruct (IH y' rest' eq_refl) as [I1 I2]. split; [now right|].
    intros z [Hz|Hz]; [now left| right; now apply I2].
Qed.

(* the credentials a request presents: None when there is no header or it does not decode to user:password *)
Definition creds (cfg : acfg) (hdr : option bytes) : option (bytes * bytes) :=
  match hdr with None => None | Some h => decode_header (c_casesensitive cfg) h end.

Section AuthProofs.
  Variable good : bytes -> bytes -> bool.
  Variable cfg : acfg.

  (* valid arrivals seen so far: (request, user name, password) *)
  Fixpoint seen_of (evs : list aev) : list (N * bytes * bytes) :=
    match evs with
    | [] => []
    | Arrive rid hdr :: r => match creds cfg hdr with
                             | Some (u, p) => (rid, u, p) :: seen_of r
                             | None => seen_of r
                             end
    | _ :: r => seen_of r
    end.

  Definition named (seen : list (N * bytes * bytes)) (rid : N) (u : bytes) : Prop := exists p, In (rid, u, p) seen.
  Definition approved (seen : list (N * bytes * bytes)) (u : bytes) : Prop :=
    exists rid p, In (rid, u, p) seen /\ good u p = true.

  Definition Inv (st : astate) (seen : list (N * bytes * bytes)) : Prop :=
    (forall rid u, In (rid, Some u) (a_out st) -> named seen rid u /\ approved seen u) /\
    (forall rid u s, In (rid, (u, s)) (a_lookups st) -> named seen rid u /\ exists rid', In (rid', u, s) seen) /\
    (forall name usr, find_user name (a_users st) = Some usr ->
       (forall rid, In rid (u_queue usr) -> named seen rid name) /\
       (exists rid', In (rid', name, u_pass usr) seen) /\
       (u_cred usr = COk -> approved seen name)).

  Lemma Inv_mono st seen x : Inv st seen -> Inv st (seen ++ [x]).
  Proof.
    assert (N1 : forall rid u, named seen rid u -> named (seen ++ [x]) rid u).
    { intros rid u (p & H). exists p. apply in_or_app. now left. }
    assert (A1 : forall u, approved seen u -> approved (seen ++ [x]) u).
    { intros u (rid & p & H & G). exists rid, p. split; [apply in_or_app; now left| exact G]. }
    intros (I1 & I2 & I3). repeat split.
    - apply N1, (I1 rid u H).
    - apply A1, (I1 rid u H).
    - apply N1, (I2 rid u s H).
    - destruct (I2 rid u s H) as [_ (r' & Hr)]. exists r'. apply in_or_app. now left.
    - intros rid Hq. apply N1. exact (proj1 (I3 name usr H) rid Hq).
    - destruct (proj1 (proj2 (I3 name usr H))) as (r' & Hr). exists r'. apply in_or_app. now left.
    - intros Hc. apply A1. exact (proj2 (proj2 (I3 name usr H)) Hc).
  Qed.

  Definition UserOk (seen : list (N * bytes * bytes)) (name : bytes) (usr : user) : Prop :=
    (forall rid, In rid (u_queue usr) -> named seen rid name) /\
    (exists rid', In (rid', name, u_pass usr) seen) /\
    (u_cred usr = COk -> approved seen name).

  Lemma users_set seen us name u' :
    (forall n usr, find_user n us = Some usr -> UserOk seen n usr) -> UserOk seen name u' ->
    forall n usr, find_user n (set_user name u' us) = Some usr -> UserOk seen n usr.
  Proof.
    intros H Hu n usr Hf. destruct (find_set_cases name n u' us) as [[-> E]|[Hne E]]; rewrite E in Hf.
    - injection Hf as <-. exact Hu.
    - exact (H n usr Hf).
  Qed.

  Lemma out_app (P : N -> bytes -> Prop) out rid v :
    (forall r u, In (r, Some u) out -> P r u) -> (forall u, v = Some u -> P rid u) ->
    forall r u, In (r, Some u) (out ++ [(rid, v)]) -> P r u.
  Proof.
    intros H1 H2 r u Hin. apply in_app_or in Hin as [Hin|[Hin|[]]]; [exact (H1 r u Hin)|].
    injection Hin as E1 E2. subst r. apply H2. now symmetry.
  Qed.

  Lemma evaluate_inv st seen rid name :
    Inv st seen -> named seen rid name -> Inv (evaluate cfg st rid name) seen.
  Proof.
    intros (I1 & I2 & I3) Hn. unfold evaluate.
    assert (Deny : Inv (mkA (a_users st) (a_lookups st) (a_out st ++ [(rid, None)]) (a_now st)) seen).
    { split; [|split]; cbn [a_out a_lookups a_users]; [|exact I2|exact I3].
      apply out_app; [exact I1| discriminate]. }
    destruct (find_user name (a_users st)) as [u|] eqn:Fu; [|exact Deny].
    destruct (I3 name u Fu) as (Q1 & Q2 & Q3).
    assert (Lookup : Inv (mkA (set_user name (mkU (u_pass u) Pending (u_expire u) (u_queue u)) (a_users st))
                              (a_lookups st ++ [(rid, (name, u_pass u))]) (a_out st) (a_now st)) seen).
    { split; [|split]; cbn [a_out a_lookups a_users]; [exact I1| |].
      - intros r u0 s0 Hin. apply in_app_or in Hin as [Hin|[Hin|[]]]; [exact (I2 r u0 s0 Hin)|].
        injection Hin as <- <- <-. split; [exact Hn| exact Q2].
      - apply users_set; [exact I3|]. split; [|split]; cbn [u_queue u_pass u_cred]; [exact Q1| exact Q2| discriminate]. }
    destruct (user_authenticated cfg (a_now st) u) eqn:Ea.
    - (* authorised: the shared user is Ok *)
      assert (Hok : u_cred u = COk).
      { unfold user_authenticated in Ea. apply andb_prop in Ea as [Ea _]. destruct (u_cred u); try discriminate. reflexivity. }
      split; [|split]; cbn [a_out a_lookups a_users]; [|exact I2|exact I3].
      apply out_app; [exact I1|]. intros u0 E. injection E as <-. split; [exact Hn| exact (Q3 Hok)].
    - destruct (u_cred u) eqn:Ec; [exact Lookup| |exact Lookup|exact Deny].
      (* Pending: queued on the shared user *)
      split; [|split]; cbn [a_out a_lookups a_users]; [exact I1|exact I2|].
      apply users_set; [exact I3|]. split; [|split]; cbn [u_queue u_pass u_cred]; [|exact Q2|discriminate].
      intros r [<-|Hr]; [exact Hn| exact (Q1 r Hr)].
  Qed.

  Lemma fold_evaluate_inv seen name l : forall st,
    Inv st seen -> (forall q, In q l -> named seen q name) ->
    Inv (fold_left (fun s q => evaluate cfg s q name) l st) seen.
  Proof.
    induction l as [|q l IH]; intros st I H; cbn [fold_left]; [exact I|].
    apply IH; [apply evaluate_inv; [exact I| apply H; now left]| intros q' Hq; apply H; now right].
  Qed.

  Lemma seen_of_app a b : seen_of (a ++ b) = seen_of a ++ seen_of b.
  Proof.
    induction a as [|e a IH]; [reflexivity|]. cbn [app seen_of].
    destruct e as [rid hdr|rid|dt]; try exact IH. destruct (creds cfg hdr) as [[u p]|]; [cbn [app]; now rewrite IH| exact IH].
  Qed.

  Lemma decode_cache_inv st seen rid name pass :
    Inv st seen -> In (rid, name, pass) seen -> Inv (decode_into_cache st name pass) seen.
  Proof.
    intros (I1 & I2 & I3) Hin. unfold decode_into_cache.
    split; [|split]; cbn [a_out a_lookups a_users]; [exact I1| exact I2|].
    apply users_set; [exact I3|].
    destruct (find_user name (a_users st)) as [u|] eqn:Fu.
    - destruct (I3 name u Fu) as (Q1 & Q2 & Q3).
      destruct (list_eqb pass (u_pass u)) eqn:Ep.
      + destruct (u_cred u) eqn:Ec; split; try split; cbn [u_queue u_pass u_cred]; try assumption; try discriminate;
          rewrite ?Ec; try discriminate; try (intros _; now apply Q3).
      + cbn [u_cred u_pass u_queue]. split; [|split]; cbn [u_queue u_pass u_cred]; [exact Q1| now exists rid| discriminate].
    - split; [|split]; cbn [u_queue u_pass u_cred]; [intros r []| now exists rid| discriminate].
  Qed.

  Lemma astep_inv st pre ev : Inv st (seen_of pre) -> Inv (astep good cfg st ev) (seen_of (pre ++ [ev])).
  Proof.
    intros I. rewrite seen_of_app. destruct ev as [rid hdr|rid|dt]; cbn [seen_of astep].
    - (* arrival *)
      assert (Deny : Inv (mkA (a_users st) (a_lookups st) (a_out st ++ [(rid, None)]) (a_now st)) (seen_of pre)).
      { destruct I as (I1 & I2 & I3). split; [|split]; cbn [a_out a_lookups a_users]; [|exact I2|exact I3].
        apply out_app; [exact I1| discriminate]. }
      destruct hdr as [h|]; cbn [creds]; [|rewrite app_nil_r; exact Deny].
      destruct (decode_header (c_casesensitive cfg) h) as [[name pass]|]; [|rewrite app_nil_r; exact Deny].
      apply evaluate_inv; [|exists pass; apply in_or_app; right; now left].
      apply (decode_cache_inv _ _ rid); [now apply Inv_mono| apply in_or_app; right; now left].
    - (* helper reply *)
      rewrite app_nil_r. destruct (take_lookup rid (a_lookups st)) as [[[name sent] rest]|] eqn:Et; [|exact I].
      destruct (take_lookup_sound _ _ _ _ Et) as [T1 T2]. destruct I as (I1 & I2 & I3).
      destruct (I2 rid name sent T1) as [Hn (r' & Hs)].
      destruct (find_user name (a_users st)) as [u|] eqn:Fu.
      + destruct (I3 name u Fu) as (Q1 & Q2 & Q3).
        apply fold_evaluate_inv; [|intros q [<-|Hq]; [exact Hn| exact (Q1 q Hq)]].
        split; [|split]; cbn [a_out a_lookups a_users]; [exact I1| intros r u0 s0 Hin; apply I2, T2, Hin|].
        apply users_set; [exact I3|]. split; [|split]; cbn [u_queue u_pass u_cred]; [intros r []| exact Q2|].
        destruct (good name sent) eqn:G; [|discriminate]. intros _. exists r', sent. split; assumption.
      + split; [|split]; cbn [a_out a_lookups a_users]; [exact I1| intros r u0 s0 Hin; apply I2, T2, Hin| exact I3].
    - rewrite app_nil_r. destruct I as (I1 & I2 & I3). split; [|split]; assumption.
  Qed.

  Lemma arun_inv evs : forall pre st, Inv st (seen_of pre) -> Inv (arun good cfg st evs) (seen_of (pre ++ evs)).
  Proof.
    induction evs as [|ev evs IH]; intros pre st I; cbn [arun fold_left].
    - now rewrite app_nil_r.
    - change (fold_left (astep good cfg) evs (astep good cfg st ev)) with (arun good cfg (astep good cfg st ev) evs).
      replace (pre ++ ev :: evs) with ((pre ++ [ev]) ++ evs) by (now rewrite <- app_assoc).
      apply IH. now apply astep_inv.
  Qed.

  Lemma Inv_init : Inv a_init [].
  Proof. split; [|split]; cbn; [intros ? ? []| intros ? ? ? []| discriminate]. Qed.

  Lemma seen_of_In evs rid u p :
    In (rid, u, p) (seen_of evs) -> exists hdr, In (Arrive rid hdr) evs /\ creds cfg hdr = Some (u, p).
  Proof.
    induction evs as [|e evs IH]; cbn [seen_of]; [intros []|].
    destruct e as [r hdr|r|dt]; try (intros H; destruct (IH H) as (h & H1 & H2); exists h; split; [now right| exact H2]).
    destruct (creds cfg hdr) as [[u' p']|] eqn:Ec.
    - intros [H|H].
      + injection H as -> -> ->. exists hdr. split; [now left| exact Ec].
      + destruct (IH H) as (h & H1 & H2). exists h. split; [now right| exact H2].
    - intros H. destruct (IH H) as (h & H1 & H2). exists h. split; [now right| exact H2].
  Qed.

  (* T-B (all interleavings): whoever is authorised is authorised under the user name of its own credentials, and
     the helper has accepted some password presented for that user name *)
  Theorem authorised_under_own_name evs rid u :
    In (rid, Some u) (a_out (arun good cfg a_init evs)) ->
    (exists hdr p, In (Arrive rid hdr) evs /\ creds cfg hdr = Some (u, p)) /\
    (exists rid' hdr' p', In (Arrive rid' hdr') evs /\ creds cfg hdr' = Some (u, p') /\ good u p' = true).
  Proof.
    intros H. destruct (arun_inv evs [] a_init Inv_init) as (I1 & _ & _). cbn [app] in I1.
    destruct (I1 rid u H) as [(p & Hp) (r' & p' & Hp' & G)]. split.
    - destruct (seen_of_In _ _ _ _ Hp) as (hdr & H1 & H2). now exists hdr, p.
    - destruct (seen_of_In _ _ _ _ Hp') as (hdr & H1 & H2). now exists r', hdr, p'.
  Qed.

  (* T-A: no header, or a header that does not decode to user:password: 407 at once ... *)
  Theorem no_credentials_challenged st rid hdr :
    creds cfg hdr = None ->
    astep good cfg st (Arrive rid hdr) = mkA (a_users st) (a_lookups st) (a_out st ++ [(rid, None)]) (a_now st).
  Proof.
    destruct hdr as [h|]; cbn [creds astep]; [|reflexivity]. intros ->. reflexivity.
  Qed.

  (* ... and never authorised afterwards, whatever else happens *)
  Theorem no_credentials_never_forwarded evs rid :
    (forall hdr, In (Arrive rid hdr) evs -> creds cfg hdr = None) ->
    forall u, ~ In (rid, Some u) (a_out (arun good cfg a_init evs)).
  Proof.
    intros H u Hin. destruct (authorised_under_own_name evs rid u Hin) as [(hdr & p & H1 & H2) _].
    rewrite (H hdr H1) in H2. discriminate.
  Qed.

  (* ---------------------------------------------------------------- sequential histories *)
  (* every lookup is answered before the next request arrives (clock ticks anywhere between the rounds) *)
  Inductive seq_evs : list aev -> Prop :=
  | seq_nil : seq_evs []
  | seq_tick dt r : seq_evs r -> seq_evs (Tick dt :: r)
  | seq_round rid hdr r : seq_evs r -> seq_evs (Arrive rid hdr :: Reply rid :: r).

  Definition UQuiet (name : bytes) (usr : user) : Prop :=
    u_queue usr = [] /\ u_cred usr <> Pending /\ (u_cred usr = COk -> good name (u_pass usr) = true).

  Definition Quiet (st : astate) : Prop :=
    a_lookups st = [] /\ forall name usr, find_user name (a_users st) = Some usr -> UQuiet name usr.

  Lemma set_set k a b us : set_user k b (set_user k a us) = set_user k b us.
  Proof.
    induction us as [|[k' u'] us IH]; cbn [set_user]; [now rewrite leq_refl|].
    destruct (list_eqb k k') eqn:E; cbn [set_user]; [now rewrite leq_refl| now rewrite E, IH].
  Qed.

  Lemma quiet_set us name u' :
    (forall n usr, find_user n us = Some usr -> UQuiet n usr) -> UQuiet name u' ->
    forall n usr, find_user n (set_user name u' us) = Some usr -> UQuiet n usr.
  Proof.
    intros H Hu n usr Hf. destruct (find_set_cases name n u' us) as [[-> E]|[Hne E]]; rewrite E in Hf.
    - injection Hf as <-. exact Hu.
    - exact (H n usr Hf).
  Qed.

  Hypothesis ttl_pos : (0 < c_ttl cfg)%Z.

  Lemma round_quiet st rid hdr :
    Quiet st ->
    let st' := astep good cfg (astep good cfg st (Arrive rid hdr)) (Reply rid) in
    Quiet st' /\
    forall r u, In (r, Some u) (a_out st') ->
                In (r, Some u) (a_out st) \/ (r = rid /\ exists p, creds cfg hdr = Some (u, p) /\ good u p = true).
  Proof.
    intros [QL QU]. cbv zeta.
    assert (Deny : let s1 := mkA (a_users st) (a_lookups st) (a_out st ++ [(rid, None)]) (a_now st) in
                   Quiet (astep good cfg s1 (Reply rid)) /\
                   forall r u, In (r, Some u) (a_out (astep good cfg s1 (Reply rid))) -> In (r, Some u) (a_out st)).
    { cbv zeta. cbn [astep a_lookups]. rewrite QL. cbn [take_lookup]. split; [split; [reflexivity| exact QU]|].
      cbn [a_out]. intros r u Hin. apply in_app_or in Hin as [Hin|[Hin|[]]]; [exact Hin| discriminate Hin]. }
    cbv zeta in Deny. destruct Deny as [Dn1 Dn2].
    destruct hdr as [h|]; cbn [astep creds]; [|split; [exact Dn1| intros r u Hin; left; exact (Dn2 r u Hin)]].
    destruct (decode_header (c_casesensitive cfg) h) as [[name pass]|] eqn:Ed;
      [|split; [exact Dn1| intros r u Hin; left; exact (Dn2 r u Hin)]]. clear Dn1 Dn2.
    (* the cache entry after decode() *)
    set (st1 := decode_into_cache st name pass).
    assert (D : exists u', a_users st1 = set_user name u' (a_users st) /\ u_pass u' = pass /\ u_queue u' = [] /\
                           (u_cred u' = Unchecked \/ (u_cred u' = COk /\ good name pass = true))).
    { unfold st1, decode_into_cache. cbn [a_users]. eexists. split; [reflexivity|].
      destruct (find_user name (a_users st)) as [u|] eqn:Fu.
      - destruct (QU name u Fu) as (U1 & U2 & U3).
        destruct (list_eqb pass (u_pass u)) eqn:Ep.
        + apply leq_spec in Ep. destruct (u_cred u) eqn:Ec; cbn [u_pass u_queue u_cred]; rewrite ?Ec;
            repeat split; try (symmetry; exact Ep); try exact U1; try (now left); try congruence.
          right. split; [reflexivity|]. rewrite Ep. now apply U3.
        + cbn [u_pass u_queue u_cred]. repeat split; [exact U1| now left].
      - cbn [u_pass u_queue u_cred]. repeat split. now left. }
    destruct D as (u' & DU & DP & DQ & DC).
    assert (L1 : a_lookups st1 = []) by exact QL.
    assert (O1 : a_out st1 = a_out st) by reflexivity.
    assert (F1 : find_user name (a_users st1) = Some u') by (rewrite DU; apply find_set_same).
    unfold evaluate. rewrite F1.
    destruct (user_authenticated cfg (a_now st1) u') eqn:Ea.
    - (* served from the cache *)
      assert (Hok : u_cred u' = COk).
      { unfold user_authenticated in Ea. apply andb_prop in Ea as [Ea _]. destruct (u_cred u'); try discriminate. reflexivity. }
      destruct DC as [DC|[_ DG]]; [congruence|].
      cbn [astep a_lookups]. rewrite L1. cbn [take_lookup]. split.
      + split; [reflexivity|]. cbn [a_users]. rewrite DU. apply quiet_set; [exact QU|].
        split; [exact DQ|]. split; [congruence|]. intros _. now rewrite DP.
      + cbn [a_out]. rewrite O1. intros r u Hin. apply in_app_or in Hin as [Hin|[Hin|[]]]; [now left|].
        injection Hin as <- <-. right. split; [reflexivity|]. exists pass. split; [reflexivity| exact DG].
    - (* asks the helper, which answers before anything else happens *)
      assert (Ecr : (match u_cred u' with
                     | CFailed => mkA (a_users st1) (a_lookups st1) (a_out st1 ++ [(rid, None)]) (a_now st1)
                     | Pending => mkA (set_user name (mkU (u_pass u') Pending (u_expire u') (rid :: u_queue u')) (a_users st1))
                                      (a_lookups st1) (a_out st1) (a_now st1)
                     | _ => mkA (set_user name (mkU (u_pass u') Pending (u_expire u') (u_queue u')) (a_users st1))
                                (a_lookups st1 ++ [(rid, (name, u_pass u'))]) (a_out st1) (a_now st1)
                     end) =
                    mkA (set_user name (mkU pass Pending (u_expire u') []) (a_users st1)) [(rid, (name, pass))] (a_out st) (a_now st1)).
      { rewrite L1, DP, DQ, O1. destruct DC as [DC|[DC _]]; rewrite DC; reflexivity. }
      rewrite Ecr. clear Ecr. cbn [astep a_lookups take_lookup]. rewrite N.eqb_refl. cbn [a_users].
      rewrite find_set_same. cbn [u_pass u_queue fold_left a_now a_out].
      set (v := if good name pass then COk else CFailed).
      rewrite set_set, DU, set_set.
      set (us2 := set_user name (mkU pass v (a_now st1) []) (a_users st)).
      assert (QU2 : forall n usr, find_user n us2 = Some usr -> UQuiet n usr).
      { unfold us2. apply quiet_set; [exact QU|].
        split; [reflexivity|]. unfold v. cbn [u_cred u_pass]. destruct (good name pass) eqn:G; split; congruence. }
      assert (Fus2 : find_user name us2 = Some (mkU pass v (a_now st1) [])) by (unfold us2; apply find_set_same).
      unfold evaluate. cbn [a_users]. rewrite Fus2.
      unfold user_authenticated. cbn [u_cred u_expire a_now a_lookups].
      unfold v. destruct (good name pass) eqn:G; cbn [is_ok andb u_cred].
      + assert (Hlt : (a_now st1 <? a_now st1 + c_ttl cfg)%Z = true) by (apply Z.ltb_lt; lia).
        rewrite Hlt. split; [split; [reflexivity| exact QU2]|].
        cbn [a_out]. intros r u Hin. apply in_app_or in Hin as [Hin|[Hin|[]]]; [now left|].
        injection Hin as <- <-. right. split; [reflexivity|]. exists pass. split; [reflexivity| exact G].
      + split; [split; [reflexivity| exact QU2]|].
        cbn [a_out]. intros r u Hin. apply in_app_or in Hin as [Hin|[Hin|[]]]; [now left| discriminate Hin].
  Qed.

  Lemma seq_run evs : seq_evs evs -> forall st, Quiet st ->
    Quiet (arun good cfg st evs) /\
    forall r u, In (r, Some u) (a_out (arun good cfg st evs)) ->
      In (r, Some u) (a_out st) \/
      exists hdr p, In (Arrive r hdr) evs /\ creds cfg hdr = Some (u, p) /\ good u p = true.
  Proof.
    induction 1 as [|dt r _ IH|rid hdr r _ IH]; intros st Q.
    - split; [exact Q| intros r u H; now left].
    - assert (Q1 : Quiet (astep good cfg st (Tick dt))) by exact Q.
      destruct (IH _ Q1) as [I1 I2]. split; [exact I1|]. intros r0 u Hin.
      destruct (I2 r0 u Hin) as [Ho|(h & p & H1 & H2 & H3)]; [now left|].
      right. exists h, p. split; [now right| split; assumption].
    - destruct (round_quiet st rid hdr Q) as [Q1 R1]. cbv zeta in Q1, R1.
      destruct (IH _ Q1) as [I1 I2]. split; [exact I1|]. intros r0 u Hin.
      destruct (I2 r0 u Hin) as [Ho|(h & p & H1 & H2 & H3)].
      + destruct (R1 r0 u Ho) as [Ho'|[-> (p & H2 & H3)]]; [now left|].
        right. exists hdr, p. split; [now left| split; assumption].
      + right. exists h, p. split; [right; now right| split; assumption].
  Qed.

  (* T-C: in a sequential history whoever is authorised presented credentials that the helper accepts *)
  Theorem sequential_rejected_never_forwarded evs rid u :
    seq_evs evs -> In (rid, Some u) (a_out (arun good cfg a_init evs)) ->
    exists hdr p, In (Arrive rid hdr) evs /\ creds cfg hdr = Some (u, p) /\ good u p = true.
  Proof.
    intros S Hin. assert (Q0 : Quiet a_init) by (split; [reflexivity| discriminate]).
    destruct (seq_run evs S a_init Q0) as [_ I]. destruct (I rid u Hin) as [[]|H]. exact H.
  Qed.
End AuthProofs.

(* ---------------------------------------------------------------- the race (DESIGN F13) *)
Definition good_ok (_ p : bytes) : bool := starts_with p [111; 107].            (* passwords starting with "ok" *)
Definition cfg_w : acfg := mkCfg 3600 false.
Definition hdr_alice_ok : bytes := [66;97;115;105;99;32;89;87;120;112;89;50;85;54;98;50;115;61].        (* Basic base64("alice:ok") *)
Definition hdr_alice_no : bytes := [66;97;115;105;99;32;89;87;120;112;89;50;85;54;98;109;56;61].        (* Basic base64("alice:no") *)
Definition race_events : list aev :=
  [Arrive 1 (Some hdr_alice_ok); Arrive 2 (Some hdr_alice_no); Reply 1; Arrive 3 (Some hdr_alice_no); Reply 2].
Definition b_alice : bytes := [97; 108; 105; 99; 101].

Lemma race_witness :
  creds cfg_w (Some hdr_alice_no) = Some (b_alice, [110; 111]) /\ good_ok b_alice [110; 111] = false /\
  a_out (arun good_ok cfg_w a_init race_events) = [(1, Some b_alice); (3, Some b_alice); (2, None)].
Proof. vm_compute. repeat split; reflexivity. Qed.

Lemma seq_example :
  seq_evs [Arrive 1 (Some hdr_alice_ok); Reply 1; Tick 10; Arrive 2 (Some hdr_alice_no); Reply 2; Arrive 3 None; Reply 3] /\
  a_out (arun good_ok cfg_w a_init
           [Arrive 1 (Some hdr_alice_ok); Reply 1; Tick 10; Arrive 2 (Some hdr_alice_no); Reply 2; Arrive 3 None; Reply 3])
  = [(1, Some b_alice); (2, None); (3, None)].
Proof. split; [repeat constructor| vm_compute; reflexivity]. Qed.
