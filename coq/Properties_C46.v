(* Properties_C46.v — C46: proxy authentication gates forwarding and never mixes identities. Statements only; proofs
   in AuthhelperProofs.v. The Basic-scheme state machine (`astep`: arrivals, helper replies, clock ticks; user cache
   keyed by user name, shared user object, pending-lookup queue, HandleReply writing the verdict to the shared
   object) is in AuthhelperModel.v. `good u p` is the helper's verdict on the line "u p"; `creds cfg hdr` is what
   decodeCleartext/decode make of a Proxy-Authorization value (None: no header / other scheme / invalid base64 /
   NUL, CR, LF / no colon / empty password); an entry (rid, Some u) of `a_out` means request rid was authorised
   (forwarded and logged) as user u, (rid, None) means it was answered 407. *)
Require Import SquidV.Bytes SquidV.AuthhelperModel SquidV.AuthhelperProofs.
Local Open Scope N_scope.

(* no credentials => 407 at once: nothing is cached, no helper is asked *)
Theorem C46_no_credentials_challenged : forall good cfg st rid hdr,
  creds cfg hdr = None ->
  astep good cfg st (Arrive rid hdr) = mkA (a_users st) (a_lookups st) (a_out st ++ [(rid, None)]) (a_now st).
Proof. exact no_credentials_challenged. Qed.
Print Assumptions C46_no_credentials_challenged.

(* ... and over ALL event sequences such a request is never authorised later *)
Theorem C46_no_credentials_never_forwarded : forall good cfg evs rid,
  (forall hdr, In (Arrive rid hdr) evs -> creds cfg hdr = None) ->
  forall u, ~ In (rid, Some u) (a_out (arun good cfg a_init evs)).
Proof. exact no_credentials_never_forwarded. Qed.
Print Assumptions C46_no_credentials_never_forwarded.

(* SEQUENTIAL histories (every lookup answered before the next request arrives; ticks between the rounds): whoever
   is authorised presented credentials of its own that the helper accepts - across cache hits, password changes,
   failed attempts and TTL expiry *)
Theorem C46_rejected_never_forwarded_sequential : forall good cfg, (0 < c_ttl cfg)%Z ->
  forall evs rid u, seq_evs evs -> In (rid, Some u) (a_out (arun good cfg a_init evs)) ->
  exists hdr p, In (Arrive rid hdr) evs /\ creds cfg hdr = Some (u, p) /\ good u p = true.
Proof. exact sequential_rejected_never_forwarded. Qed.
Print Assumptions C46_rejected_never_forwarded_sequential.

(* ALL interleavings, what remains true (partial): the identity is never mixed across user NAMES - a request is
   authorised only under the user name of its own credentials, and only if the helper accepted some password that
   was presented for that very name. Missing for the full statement: "its own password" (refuted below). *)
Theorem C46_authorised_only_under_own_name_partial : forall good cfg evs rid u,
  In (rid, Some u) (a_out (arun good cfg a_init evs)) ->
  (exists hdr p, In (Arrive rid hdr) evs /\ creds cfg hdr = Some (u, p)) /\
  (exists rid' hdr' p', In (Arrive rid' hdr') evs /\ creds cfg hdr' = Some (u, p') /\ good u p' = true).
Proof. exact authorised_under_own_name. Qed.
Print Assumptions C46_authorised_only_under_own_name_partial.

(* REFUTED at full strength: request 1 alice:ok (lookup pending), request 2 alice:no (replaces the cached password,
   own lookup), the helper answers request 1's lookup OK, request 3 alice:no is authorised as alice although the
   helper rejects alice:no (and says so when it answers request 2's lookup). Known finding C46-shared-user-race
   (DESIGN F13), replayed against the running proxy by the check. *)
Theorem C46_authorised_only_by_own_credentials_refuted :
  creds cfg_w (Some hdr_alice_no) = Some (b_alice, [110; 111]) /\ good_ok b_alice [110; 111] = false /\
  a_out (arun good_ok cfg_w a_init race_events) = [(1, Some b_alice); (3, Some b_alice); (2, None)].
Proof. exact race_witness. Qed.
Print Assumptions C46_authorised_only_by_own_credentials_refuted.

(* the hypotheses are satisfiable: a sequential history with a cache fill, a tick, a rejected password and a
   request without header *)
Example C46_sequential_example :
  seq_evs [Arrive 1 (Some hdr_alice_ok); Reply 1; Tick 10; Arrive 2 (Some hdr_alice_no); Reply 2; Arrive 3 None; Reply 3] /\
  a_out (arun good_ok cfg_w a_init
           [Arrive 1 (Some hdr_alice_ok); Reply 1; Tick 10; Arrive 2 (Some hdr_alice_no); Reply 2; Arrive 3 None; Reply 3])
  = [(1, Some b_alice); (2, None); (3, None)].
Proof. exact seq_example. Qed.
