(* Extract_acldom.v — extraction of the acldom area (C41) to OCaml.
   Only ExtrOcamlBasic is used; N, Z, positive and nat stay extracted datatypes. *)
Require Import ExtrOcamlBasic.
Require Import SquidV.Bytes SquidV.SplayModel SquidV.AcldomModel.
Extraction "m_acldom.ml"
  lower lower_str matchDomainName dcompare is_subset
  merge acl_parse acl_match acl_match_seq int_run.
