(* HitsProofs.v — proofs for the cache-hit data path model (C10).

   1. N-indexed list lemmas and the chain walk (seek / chain_read).
   2. The machine invariant [Inv] and its preservation by every helper and every operation.
   3. The main statements: a finished reader holds one completed write; readers hold prefixes of their own entry;
      slots are never shared.
   4. The ghost log is written by CloseW only; Append adds exactly the appended bytes; the stored format. *)
Require Import SquidV.Bytes SquidV.gen.Hits_gen SquidV.gen.HitsPage_gen SquidV.HitsModel.
Require Import Lia ZifyBool ZifyN ZifyNat.
Local Open Scope N_scope.

(* ---------- N-indexed list functions as firstn/skipn ---------- *)
Lemma takeN_firstn {A} (l : list A) : forall n, takeN n l = firstn (N.to_nat n) l.
Proof.
  induction l as [|x l IH]; intros n; cbn [takeN].
  - now rewrite firstn_nil.
  - destruct (n =? 0) eqn:E.
    + apply N.eqb_eq in E. subst. reflexivity.
    + apply N.eqb_neq in E. replace (N.to_nat n) with (S (N.to_nat (N.pred n))) by lia.
      cbn [firstn]. now rewrite IH.
Qed.
Lemma dropN_skipn {A} (l : list A) : forall n, dropN n l = skipn (N.to_nat n) l.
Proof.
  induction l as [|x l IH]; intros n; cbn [dropN].
  - now rewrite skipn_nil.
  - destruct (n =? 0) eqn:E.
    + apply N.eqb_eq in E. subst. reflexivity.
    + apply N.eqb_neq in E. replace (N.to_nat n) with (S (N.to_nat (N.pred n))) by lia.
      cbn [skipn]. now rewrite IH.
Qed.
Lemma lenN_nat {A} (l : list A) : N.to_nat (lenN l) = length l.
Proof. rewrite lenN_length. lia. Qed.

Lemma takeN_app_le {A} (a b : list A) n : n <= lenN a -> takeN n (a ++ b) = takeN n a.
Proof.
  intros H. rewrite !takeN_firstn. rewrite firstn_app.
  replace (N.to_nat n - length a)%nat with 0%nat by (rewrite <- lenN_nat; lia).
  cbn. now rewrite app_nil_r.
Qed.
Lemma takeN_all {A} (a : list A) n : lenN a <= n -> takeN n a = a.
Proof. intros H. rewrite takeN_firstn. apply firstn_all2. rewrite <- lenN_nat. lia. Qed.
Lemma takeN_add {A} (l : list A) a b : takeN a l ++ takeN b (dropN a l) = takeN (a + b) l.
Proof.
  rewrite !takeN_firstn, dropN_skipn.
  replace (N.to_nat (a + b)) with (N.to_nat a + N.to_nat b)%nat by lia.
  revert l. generalize (N.to_nat a) as i, (N.to_nat b) as j. clear.
  induction i as [|i IH]; intros j l; cbn.
  - reflexivity.
  - destruct l as [|x l]; cbn.
    + now rewrite firstn_nil.
    + now rewrite IH.
Qed.
Lemma dropN_app_ge {A} (a b : list A) n : lenN a <= n -> dropN n (a ++ b) = dropN (n - lenN a) b.
Proof.
  intros H. rewrite !dropN_skipn, skipn_app.
  rewrite (skipn_all2 a) by (rewrite <- lenN_nat; lia).
  cbn. f_equal. rewrite <- lenN_nat. lia.
Qed.
Lemma dropN_app_le {A} (a b : list A) n : n <= lenN a -> dropN n (a ++ b) = dropN n a ++ b.
Proof.
  intros H. rewrite !dropN_skipn, skipn_app.
  replace (N.to_nat n - length a)%nat with 0%nat by (rewrite <- lenN_nat; lia).
  reflexivity.
Qed.
Lemma lenN_dropN {A} (l : list A) n : lenN (dropN n l) = lenN l - n.
Proof. rewrite dropN_skipn, !lenN_length, skipn_length. lia. Qed.
Lemma takeN_takeN {A} (l : list A) a b : takeN a (takeN b l) = takeN (N.min a b) l.
Proof.
  rewrite !takeN_firstn, firstn_firstn. f_equal. lia.
Qed.

(* ---------- the chain walk ---------- *)
Lemma seek_some sl : forall o off s o', o <= off -> seek sl o off = Some (s, o') ->
  exists pre post, sl = pre ++ s :: post /\ o' = o + lenN (concat pre) /\ o' <= off /\ off < o' + lenN s.
Proof.
  induction sl as [|x sl IH]; intros o off s o' Hle H; cbn [seek] in H.
  - discriminate.
  - destruct (off <? o + lenN x) eqn:E.
    + inversion H; subst. exists [], sl. cbn. repeat split; lia.
    + apply IH in H; [|lia]. destruct H as (pre & post & -> & -> & H1 & H2).
      exists (x :: pre), post. cbn [concat app]. rewrite lenN_app. repeat split; try lia; try reflexivity.
Qed.
Lemma seek_none sl : forall o off, o <= off -> seek sl o off = None -> o + lenN (concat sl) <= off.
Proof.
  induction sl as [|x sl IH]; intros o off Hle H; cbn [seek] in H; cbn [concat].
  - cbn. lia.
  - destruct (off <? o + lenN x) eqn:E; [discriminate|].
    apply IH in H; [|lia]. rewrite lenN_app. lia.
Qed.

(* chain_read returns exactly the bytes [off, off+n) of the concatenated chain, n = min(len, rest of the slot) *)
Lemma chain_read_spec sl off len :
  exists n, chain_read sl off len = takeN n (dropN off (concat sl)) /\ n <= len /\
            (off < lenN (concat sl) -> 0 < len -> 0 < n /\ off + n <= lenN (concat sl)).
Proof.
  unfold chain_read. destruct (seek sl 0 off) as [[s o]|] eqn:E.
  - apply seek_some in E; [|lia]. destruct E as (pre & post & -> & -> & H1 & H2).
    cbn [N.add] in *. set (o := lenN (concat pre)) in *.
    exists (N.min len (o + lenN s - off)). split; [|split].
    + rewrite concat_app. cbn [concat]. rewrite dropN_app_ge by (fold o; lia). fold o.
      rewrite dropN_app_le by lia.
      rewrite takeN_app_le; [reflexivity|]. rewrite lenN_dropN. lia.
    + lia.
    + intros _ Hl. rewrite concat_app. cbn [concat]. rewrite !lenN_app. fold o. lia.
  - apply seek_none in E; [|lia]. exists 0. split; [|split].
    + rewrite takeN_firstn. reflexivity.
    + lia.
    + intros. lia.
Qed.

Lemma chain_read_extends sl off len stream pre :
  concat sl = stream -> pre = takeN off stream -> off <= lenN stream ->
  let d := chain_read sl off len in
  pre ++ d = takeN (off + lenN d) stream /\ off + lenN d <= lenN stream.
Proof.
  intros Hs Hp Ho d.
  destruct (chain_read_spec sl off len) as (n & Hn & _ & _).
  fold d in Hn. rewrite Hs in Hn. subst pre.
  assert (lenN d = N.min n (lenN stream - off)) by (rewrite Hn, lenN_takeN, lenN_dropN; reflexivity).
  split.
  - rewrite Hn. rewrite takeN_add. rewrite <- Hn, H.
    destruct (N.le_ge_cases n (lenN stream - off)).
    + now rewrite N.min_l.
    + rewrite N.min_r by assumption. rewrite !takeN_all; auto; lia.
  - lia.
Qed.
(* ---------- the invariant ---------- *)
Definition stream_of (st : state) (e : entry) : bytes := concat (chain_of st e).

Record Inv (st : state) : Prop := mkInv {
  I_free_nd : NoDup (s_free st);
  I_slots_nd : forall a e, s_ents st a = Some e -> NoDup (e_rslots e);
  I_slots_free : forall a e s, s_ents st a = Some e -> In s (e_rslots e) -> ~ In s (s_free st);
  I_disj : forall a b ea eb s, a <> b -> s_ents st a = Some ea -> s_ents st b = Some eb ->
                               In s (e_rslots ea) -> ~ In s (e_rslots eb);
  I_data : forall a e, s_ents st a = Some e -> stream_of st e = sent e /\ e_len e = lenN (sent e);
  I_compl : forall a e, s_ents st a = Some e -> e_complete e = true ->
                        e_writing e = false /\ In (e_key e, e_ver e, sent e) (s_log st);
  I_rdr : forall r rd, s_rdrs st r = Some rd -> r_open rd = true ->
            exists e, s_ents st (r_ent rd) = Some e /\ In r (e_rdrs e) /\ e_key e = r_key rd /\
                      acc rd = takeN (r_off rd) (sent e) /\ r_off rd <= e_len e;
  I_done : forall r rd, s_rdrs st r = Some rd -> r_done rd = true ->
            exists v, In (r_key rd, v, acc rd) (s_log st)
}.

Lemma upd_eq {A} (f : N -> A) k v : upd f k v k = v.
Proof. unfold upd. now rewrite N.eqb_refl. Qed.
Lemma upd_neq {A} (f : N -> A) k v x : x <> k -> upd f k v x = f x.
Proof. unfold upd. intros H. apply N.eqb_neq in H. now rewrite H. Qed.

Ltac case_upd x k :=
  let E := fresh "E" in
  destruct (N.eq_dec x k) as [E|E];
  [subst; rewrite ?upd_eq in * | rewrite ?(upd_neq _ _ _ _ E) in *].

Lemma map_ext_in' {A B} (f g : A -> B) l : (forall x, In x l -> f x = g x) -> map f l = map g l.
Proof. intros H. apply map_ext_in. exact H. Qed.

Lemma chain_ext (c1 c2 : N -> bytes) sl :
  (forall s, In s sl -> c1 s = c2 s) -> map c1 (rev sl) = map c2 (rev sl).
Proof. intros H. apply map_ext_in. intros x Hx. apply H. now apply in_rev. Qed.

Lemma nodup_app {A} (l l' : list A) :
  NoDup l -> NoDup l' -> (forall x, In x l -> ~ In x l') -> NoDup (l ++ l').
Proof.
  induction l as [|x l IH]; intros H1 H2 H; cbn; [assumption|].
  inversion H1; subst. constructor.
  - intros Hin. apply in_app_or in Hin. destruct Hin; [contradiction|]. apply (H x); [now left|assumption].
  - apply IH; auto. intros y Hy. apply H. now right.
Qed.

Lemma sent_cons e now : concat (rev (now :: e_sent e)) = sent e ++ now.
Proof. unfold sent. cbn [rev]. rewrite concat_app. cbn. now rewrite app_nil_r. Qed.
Lemma concat_rev_cons (x : bytes) l : concat (rev (x :: l)) = concat (rev l) ++ x.
Proof. cbn [rev]. rewrite concat_app. cbn. now rewrite app_nil_r. Qed.
Lemma takeN_0 {A} (l : list A) : takeN 0 l = [].
Proof. destruct l; reflexivity. Qed.

Lemma init_inv cap free scan : NoDup free -> Inv (init cap free scan).
Proof.
  intros H. constructor; cbn; try discriminate; auto.
Qed.

Lemma log_inv st x : Inv st ->
  Inv (mkS (s_cap st) (s_content st) (s_free st) (s_scan st) (s_ents st) (s_rdrs st) (x :: s_log st)).
Proof.
  intros [F1 F2 F3 F4 F5 F6 F7 F8]. constructor; cbn; auto.
  - intros a e H Hc. destruct (F6 a e H Hc). split; [assumption|now right].
  - intros r rd H Hd. destruct (F8 r rd H Hd) as (v & Hv). exists v. now right.
Qed.

Lemma release_inv st a e e' :
  Inv st -> s_ents st a = Some e -> e_rslots e' = e_rslots e ->
  (forall r rd, s_rdrs st r = Some rd -> r_open rd = true -> r_ent rd <> a) ->
  Inv (release st a e').
Proof.
  intros [F1 F2 F3 F4 F5 F6 F7 F8] Ha Hs Hr. unfold release. rewrite Hs.
  constructor; cbn.
  - apply nodup_app; eauto.
  - intros b eb H. case_upd b a; [discriminate|]. eauto.
  - intros b eb s H Hin Hf. case_upd b a; [discriminate|].
    apply in_app_or in Hf. destruct Hf as [Hf|Hf].
    + exact (F4 b a eb e s E H Ha Hin Hf).
    + exact (F3 b eb s H Hin Hf).
  - intros b c eb ec s Hbc H1 H2. case_upd b a; [discriminate|]. case_upd c a; [discriminate|]. eauto.
  - intros b eb H. case_upd b a; [discriminate|]. apply (F5 b eb H).
  - intros b eb H. case_upd b a; [discriminate|]. eauto.
  - intros r rd H Ho. destruct (F7 r rd H Ho) as (e1 & H1 & H2). exists e1. split; auto.
    rewrite upd_neq by (eapply Hr; eauto). assumption.
  - eauto.
Qed.

Definition same_data (e e' : entry) : Prop :=
  e_key e' = e_key e /\ e_ver e' = e_ver e /\ e_rslots e' = e_rslots e /\ e_len e' = e_len e /\ e_sent e' = e_sent e.

Lemma same_data_sent e e' : same_data e e' -> sent e' = sent e.
Proof. intros (_ & _ & _ & _ & H). unfold sent. now rewrite H. Qed.

Lemma set_inv st a e e' :
  Inv st -> s_ents st a = Some e -> same_data e e' ->
  (e_complete e' = true -> e_writing e' = false /\ In (e_key e, e_ver e, sent e) (s_log st)) ->
  (forall r rd, s_rdrs st r = Some rd -> r_open rd = true -> r_ent rd = a -> In r (e_rdrs e')) ->
  Inv (set_ent st a (Some e')).
Proof.
  intros [F1 F2 F3 F4 F5 F6 F7 F8] Ha Hsd Hc Hr.
  pose proof (same_data_sent _ _ Hsd) as Hsent.
  destruct Hsd as (Hk & Hv & Hs & Hl & Hse).
  constructor; cbn.
  - assumption.
  - intros b eb H. case_upd b a; [inversion H; subst; rewrite Hs|]; eauto.
  - intros b eb s H. case_upd b a; [inversion H; subst; rewrite Hs|]; eauto.
  - intros b c eb ec s Hbc H1 H2.
    case_upd b a; case_upd c a; try congruence.
    + inversion H1; subst. rewrite Hs. eauto.
    + inversion H2; subst. rewrite Hs. eauto.
    + eauto.
  - intros b eb H. case_upd b a.
    + inversion H; subst. unfold stream_of, chain_of in *. cbn. rewrite Hs, Hsent, Hl. apply (F5 a e Ha).
    + apply (F5 b eb H).
  - intros b eb H Hcm. case_upd b a.
    + inversion H; subst. rewrite Hk, Hv, Hsent. auto.
    + eauto.
  - intros r rd H Ho. destruct (F7 r rd H Ho) as (e1 & H1 & H2 & H3 & H4 & H5).
    case_upd (r_ent rd) a.
    + exists e'. rewrite H1 in Ha. inversion Ha; subst. rewrite Hk, Hsent, Hl. repeat split; auto.
      apply (Hr r rd); auto.
    + exists e1. repeat split; auto.
  - eauto.
Qed.

Lemma put_inv st a e e' :
  Inv st -> s_ents st a = Some e -> same_data e e' ->
  (e_complete e' = true -> e_writing e' = false /\ In (e_key e, e_ver e, sent e) (s_log st)) ->
  (forall r rd, s_rdrs st r = Some rd -> r_open rd = true -> r_ent rd = a -> In r (e_rdrs e')) ->
  Inv (put_ent st a e').
Proof.
  intros HI Ha Hsd Hc Hr. unfold put_ent.
  destruct (e_dead e' && idle e') eqn:E.
  - apply andb_prop in E. destruct E as [_ E]. unfold idle in E. apply andb_prop in E. destruct E as [_ E].
    destruct (e_rdrs e') eqn:Er; [|discriminate].
    apply (release_inv st a e e'); [assumption|assumption|destruct Hsd as (_ & _ & H & _); exact H|].
    intros r rd H Ho Hent. specialize (Hr r rd H Ho Hent). rewrite ?Er in Hr. destruct Hr.
  - apply (set_inv st a e e'); auto.
Qed.

Lemma new_inv st a k v : Inv st -> s_ents st a = None -> Inv (set_ent st a (Some (new_entry k v))).
Proof.
  intros [F1 F2 F3 F4 F5 F6 F7 F8] Ha. constructor; cbn.
  - assumption.
  - intros b eb H. case_upd b a; [inversion H; subst; constructor|]; eauto.
  - intros b eb s H. case_upd b a; [inversion H; subst; cbn; tauto|]; eauto.
  - intros b c eb ec s Hbc H1 H2.
    case_upd b a; case_upd c a; try congruence.
    + inversion H1; subst. cbn. tauto.
    + inversion H2; subst. cbn. tauto.
    + eauto.
  - intros b eb H. case_upd b a.
    + inversion H; subst. cbn. auto.
    + apply (F5 b eb H).
  - intros b eb H Hcm. case_upd b a; [inversion H; subst; discriminate|]. eauto.
  - intros r rd H Ho. destruct (F7 r rd H Ho) as (e1 & H1 & H2). exists e1. split; auto.
    rewrite upd_neq; auto. congruence.
  - eauto.
Qed.

Lemma set_rdr_inv st r rd :
  Inv st ->
  (r_open rd = true -> exists e, s_ents st (r_ent rd) = Some e /\ In r (e_rdrs e) /\ e_key e = r_key rd /\
                                 acc rd = takeN (r_off rd) (sent e) /\ r_off rd <= e_len e) ->
  (r_done rd = true -> exists v, In (r_key rd, v, acc rd) (s_log st)) ->
  Inv (set_rdr st r rd).
Proof.
  intros [F1 F2 F3 F4 F5 F6 F7 F8] H1 H2. constructor; cbn; auto.
  - intros r' rd' H Ho. case_upd r' r; [inversion H; subst|]; eauto.
  - intros r' rd' H Hd. case_upd r' r; [inversion H; subst|]; eauto.
Qed.

Lemma idle_no_readers st a e :
  Inv st -> s_ents st a = Some e -> idle e = true ->
  forall r rd, s_rdrs st r = Some rd -> r_open rd = true -> r_ent rd <> a.
Proof.
  intros HI Ha Hi r rd H Ho Hent. destruct (I_rdr st HI r rd H Ho) as (e1 & H1 & H2 & _).
  rewrite Hent, Ha in H1. inversion H1; subst. unfold idle in Hi. apply andb_prop in Hi.
  destruct Hi as [_ Hi]. destruct (e_rdrs e1); [destruct H2|discriminate].
Qed.

Lemma writing_not_complete st a e : Inv st -> s_ents st a = Some e -> e_writing e = true -> e_complete e = false.
Proof.
  intros HI Ha Hw. destruct (e_complete e) eqn:E; auto.
  destruct (I_compl st HI a e Ha E). congruence.
Qed.

(* ---------- slot supply ---------- *)
Lemma pop_free_inv st s st1 : Inv st -> pop_free st = Some (s, st1) ->
  Inv st1 /\ s_ents st1 = s_ents st /\ s_cap st1 = s_cap st /\ s_content st1 s = [] /\ ~ In s (s_free st1) /\
  (forall b eb, s_ents st1 b = Some eb -> ~ In s (e_rslots eb)).
Proof.
  intros [F1 F2 F3 F4 F5 F6 F7 F8] H. unfold pop_free in H. destruct (s_free st) as [|x f] eqn:Ef; [discriminate|].
  inversion H; subst; clear H. cbn. inversion F1; subst.
  assert (Hfresh : forall b eb, s_ents st b = Some eb -> ~ In s (e_rslots eb)).
  { intros b eb Hb Hin. apply (F3 b eb s Hb Hin). now left. }
  refine (conj _ (conj eq_refl (conj eq_refl (conj (upd_eq _ _ _) (conj H1 Hfresh))))).
  constructor; cbn; auto.
  - intros b eb x Hb Hin Hf. apply (F3 b eb x Hb Hin). now right.
  - intros b eb Hb. destruct (F5 b eb Hb) as [G1 G2]. split; auto.
    unfold stream_of, chain_of in *. cbn. rewrite <- G1. f_equal. apply chain_ext.
    intros x Hx. apply upd_neq. intros ->. exact (Hfresh b eb Hb Hx).
Qed.

Lemma purge_one_inv st : forall scan st', Inv st -> purge_one st scan = Some st' ->
  Inv st' /\ s_cap st' = s_cap st /\ s_content st' = s_content st /\
  (forall a e, s_ents st a = Some e -> idle e = false -> s_ents st' a = Some e).
Proof.
  induction scan as [|b scan IH]; intros st' HI H; cbn in H; [discriminate|].
  destruct (s_ents st b) as [eb|] eqn:Eb; [|eauto].
  destruct (idle eb) eqn:Ei; [|eauto].
  inversion H; subst; clear H. refine (conj _ (conj eq_refl (conj eq_refl _))).
  - apply (release_inv st b eb eb); auto. eapply idle_no_readers; eauto.
  - intros a e Ha Hi. cbn. rewrite upd_neq; auto. intros ->. congruence.
Qed.

Lemma alloc_inv st s st1 a e : Inv st -> alloc st = Some (s, st1) -> s_ents st a = Some e -> e_writing e = true ->
  Inv st1 /\ s_ents st1 a = Some e /\ s_cap st1 = s_cap st /\ s_content st1 s = [] /\ ~ In s (s_free st1) /\
  (forall b eb, s_ents st1 b = Some eb -> ~ In s (e_rslots eb)).
Proof.
  intros HI H Ha Hw. unfold alloc in H. destruct (pop_free st) as [[s' st']|] eqn:Ep.
  - inversion H; subst. destruct (pop_free_inv _ _ _ HI Ep) as (G1 & G2 & G3 & G4 & G5 & G6).
    refine (conj G1 (conj _ (conj G3 (conj G4 (conj G5 G6))))). now rewrite G2.
  - destruct (purge_one st (s_scan st)) as [st2|] eqn:Eq; [|discriminate].
    destruct (purge_one_inv st _ _ HI Eq) as (K1 & K2 & K3 & K4).
    destruct (pop_free_inv _ _ _ K1 H) as (G1 & G2 & G3 & G4 & G5 & G6).
    refine (conj G1 (conj _ (conj _ (conj G4 (conj G5 G6))))).
    + rewrite G2. apply K4; auto. unfold idle. now rewrite Hw.
    + congruence.
Qed.

(* ---------- the writer ---------- *)
Definition same_but_slots (e0 e : entry) : Prop :=
  e_key e = e_key e0 /\ e_ver e = e_ver e0 /\ e_len e = e_len e0 /\ e_writing e = e_writing e0 /\
  e_complete e = e_complete e0 /\ e_dead e = e_dead e0 /\ e_rdrs e = e_rdrs e0 /\ e_sent e = e_sent e0.

Lemma fill_inv st a e0 e s rest d :
  Inv st -> s_ents st a = Some e0 -> e_complete e0 = false -> same_but_slots e0 e -> e_rslots e = s :: rest ->
  ~ In s rest -> NoDup rest -> ~ In s (s_free st) ->
  (forall b eb, b <> a -> s_ents st b = Some eb -> ~ In s (e_rslots eb)) ->
  (forall x, In x rest -> In x (e_rslots e0)) ->
  concat (map (s_content st) (rev rest)) ++ s_content st s = sent e0 ->
  Inv (fst (fill st a e s d)) /\
  exists e', s_ents (fst (fill st a e s d)) a = Some e' /\ e_writing e' = e_writing e0 /\
             s_cap (fst (fill st a e s d)) = s_cap st.
Proof.
  intros [F1 F2 F3 F4 F5 F6 F7 F8] Ha Hnc (Hk & Hv & Hl & Hw & Hc & Hd & Hr & Hse) Hs Hsr Hnd Hsf Hso Hsub Hcat.
  unfold fill. set (now := takeN (space_in st s d) d). cbn [fst].
  split; [|eexists; cbn; rewrite upd_eq; split; [reflexivity|split; [exact Hw|reflexivity]]].
  assert (Hsent : sent e = sent e0) by (unfold sent; now rewrite Hse).
  destruct (F5 a e0 Ha) as [D1 D2].
  constructor; cbn.
  - assumption.
  - intros b eb H. case_upd b a; [inversion H; subst; cbn; rewrite Hs; now constructor|]; eauto.
  - intros b eb x H Hin. case_upd b a.
    + inversion H; subst; cbn in Hin. rewrite Hs in Hin. destruct Hin as [<-|Hin]; auto.
      apply (F3 a e0 x Ha). auto.
    + eauto.
  - intros b c eb ec x Hbc H1 H2 Hin.
    case_upd b a; case_upd c a; try congruence.
    + inversion H1; subst; cbn in Hin. rewrite Hs in Hin. destruct Hin as [<-|Hin]; [eauto|].
      apply (F4 a c e0 ec x); auto.
    + inversion H2; subst; cbn. rewrite Hs. intros [<-|Hin2].
      * exact (Hso b eb Hbc H1 Hin).
      * apply (F4 b a eb e0 x); auto.
    + eauto.
  - intros b eb H. case_upd b a.
    + inversion H; subst. unfold stream_of, chain_of. cbn. rewrite Hs. cbn [rev]. rewrite map_app, concat_app. cbn.
      rewrite upd_eq, app_nil_r. rewrite Hse. rewrite concat_app. cbn [concat]. rewrite app_nil_r.
      change (concat (rev (e_sent e0))) with (sent e0).
      replace (map (upd (s_content st) s (s_content st s ++ now)) (rev rest)) with (map (s_content st) (rev rest)).
      2:{ apply chain_ext. intros x Hx. symmetry. apply upd_neq. intros ->. contradiction. }
      rewrite app_assoc, Hcat. split; [reflexivity|]. rewrite lenN_app, Hl, D2. reflexivity.
    + destruct (F5 b eb H) as [G1 G2]. split; auto. unfold stream_of, chain_of in *. cbn. rewrite <- G1. f_equal.
      apply chain_ext. intros x Hx. apply upd_neq. intros ->. exact (Hso b eb E H Hx).
  - intros b eb H Hcm. case_upd b a; [inversion H; subst; cbn in Hcm; congruence|]. eauto.
  - intros r rd H Ho. destruct (F7 r rd H Ho) as (e1 & H1 & H2 & H3 & H4 & H5).
    case_upd (r_ent rd) a.
    + rewrite H1 in Ha. inversion Ha; subst. eexists. split; [reflexivity|]. unfold sent at 1. cbn [e_rdrs e_key e_sent e_len]. rewrite Hr, Hk, Hse, concat_rev_cons.
      change (concat (rev (e_sent e0))) with (sent e0).
      repeat split; auto.
      * rewrite takeN_app_le; auto. lia.
      * lia.
    + exists e1. repeat split; auto.
  - eauto.
Qed.
Lemma with_flags_same e w c d rs : same_data e (with_flags e w c d rs).
Proof. unfold same_data, with_flags; cbn. repeat split; reflexivity. Qed.

Lemma readers_listed st a e : Inv st -> s_ents st a = Some e ->
  forall r rd, s_rdrs st r = Some rd -> r_open rd = true -> r_ent rd = a -> In r (e_rdrs e).
Proof.
  intros HI Ha r rd H Ho Hent. destruct (I_rdr st HI r rd H Ho) as (e1 & H1 & H2 & _).
  rewrite Hent, Ha in H1. now inversion H1; subst.
Qed.

Lemma abort_inv st a : Inv st -> Inv (abort st a).
Proof.
  intros HI. unfold abort. destruct (s_ents st a) as [e|] eqn:Ha; [|assumption].
  apply (put_inv st a e); auto.
  - apply with_flags_same.
  - cbn. discriminate.
  - cbn. apply (readers_listed st a e HI Ha).
Qed.

Lemma append1_inv st a d st' rest e :
  Inv st -> s_ents st a = Some e -> e_writing e = true -> append1 st a d = Some (st', rest) ->
  Inv st' /\ s_cap st' = s_cap st /\ exists e', s_ents st' a = Some e' /\ e_writing e' = true.
Proof.
  intros HI Ha Hw H. unfold append1 in H. rewrite Ha in H.
  pose proof (writing_not_complete st a e HI Ha Hw) as Hnc.
  assert (Hfresh : match alloc st with
                   | None => None
                   | Some (s, st1) =>
                     match s_ents st1 a with
                     | None => None
                     | Some e1 => Some (fill st1 a (mkE (e_key e1) (e_ver e1) (s :: e_rslots e1) (e_len e1) (e_writing e1)
                                                        (e_complete e1) (e_dead e1) (e_rdrs e1) (e_sent e1)) s d)
                     end
                   end = Some (st', rest) ->
                   Inv st' /\ s_cap st' = s_cap st /\ exists e', s_ents st' a = Some e' /\ e_writing e' = true).
  { clear H. intros H. destruct (alloc st) as [[s st1]|] eqn:Ea; [|discriminate].
    destruct (alloc_inv st s st1 a e HI Ea Ha Hw) as (G1 & G2 & G3 & G4 & G5 & G6).
    rewrite G2 in H.
    match type of H with Some (fill ?st ?a ?e2 ?s ?d) = _ =>
      assert (Hst : st' = fst (fill st a e2 s d)) by (inversion H as [Hq]; now rewrite Hq);
      destruct (fill_inv st a e e2 s (e_rslots e) d) as (K1 & e' & K2 & K3 & K4) end; auto; try rewrite Hst.
    - unfold same_but_slots; cbn; repeat split; reflexivity.
    - exact (G6 a e G2).
    - exact (I_slots_nd st1 G1 a e G2).
    - intros b eb _ Hb. exact (G6 b eb Hb).
    - rewrite G4, app_nil_r. apply (I_data st1 G1 a e G2).
    - split; [assumption|]. split; [congruence|]. exists e'. split; [assumption|congruence]. }
  destruct (e_rslots e) as [|s rs] eqn:Es; [auto|].
  destruct (0 <? space_in st s d); [|auto].
  assert (Hst : st' = fst (fill st a e s d)) by (inversion H as [Hq]; now rewrite Hq).
  pose proof (I_slots_nd st HI a e Ha) as Hnd. rewrite Es in Hnd. inversion Hnd; subst.
  destruct (fill_inv st a e e s rs d) as (K1 & e' & K2 & K3 & K4); auto.
  - unfold same_but_slots; repeat split; reflexivity.
  - apply (I_slots_free st HI a e s Ha). rewrite Es. now left.
  - intros b eb Hb Heb Hin. apply (I_disj st HI b a eb e s Hb Heb Ha Hin). rewrite Es. now left.
  - intros x Hx. rewrite Es. now right.
  - destruct (I_data st HI a e Ha) as [D _]. unfold stream_of, chain_of in D. rewrite Es in D. cbn [rev] in D.
    rewrite map_app, concat_app in D. cbn in D. rewrite app_nil_r in D. exact D.
  - split; [assumption|]. split; [assumption|]. exists e'. split; [assumption|congruence].
Qed.

Lemma append_loop_inv fuel : forall st a d e,
  Inv st -> s_ents st a = Some e -> e_writing e = true -> Inv (append_loop fuel st a d).
Proof.
  induction fuel as [|f IH]; intros st a d e HI Ha Hw; destruct d as [|c d]; cbn [append_loop]; auto.
  - now apply abort_inv.
  - destruct (append1 st a (c :: d)) as [[st' rest]|] eqn:E1; [|now apply abort_inv].
    destruct (append1_inv _ _ _ _ _ _ HI Ha Hw E1) as (K1 & _ & e' & K2 & K3).
    eapply IH; eauto.
Qed.

Lemma step_inv st o : Inv st -> Inv (step st o).
Proof.
  intros HI. destruct o as [a k v|a d|a|a|r a k|r len|r|a]; cbn [step].
  - (* OpenW *)
    destruct (s_ents st a) as [e|] eqn:Ha.
    + destruct (idle e) eqn:Ei; [|assumption].
      apply new_inv.
      * apply (release_inv st a e e); auto. eapply idle_no_readers; eauto.
      * cbn. apply upd_eq.
    + now apply new_inv.
  - (* Append *)
    destruct (s_ents st a) as [e|] eqn:Ha; [|assumption].
    destruct (e_writing e) eqn:Hw; [|assumption].
    eapply append_loop_inv; eauto.
  - (* CloseW *)
    destruct (s_ents st a) as [e|] eqn:Ha; [|assumption].
    destruct (e_writing e) eqn:Hw; [|assumption].
    apply (put_inv _ a e).
    + now apply log_inv.
    + exact Ha.
    + apply with_flags_same.
    + cbn. intros _. split; [reflexivity|now left].
    + cbn. apply (readers_listed st a e HI Ha).
  - (* AbortW *)
    destruct (s_ents st a) as [e|] eqn:Ha; [|assumption].
    destruct (e_writing e); [now apply abort_inv|assumption].
  - (* OpenR *)
    destruct (s_rdrs st r) as [rd0|] eqn:Hr; [assumption|].
    destruct (s_ents st a) as [e|] eqn:Ha; [|assumption].
    destruct ((e_key e =? k) && negb (e_dead e) && (e_complete e || e_writing e)) eqn:Ec; [|assumption].
    apply andb_prop in Ec. destruct Ec as [Ec _]. apply andb_prop in Ec. destruct Ec as [Ek _].
    apply N.eqb_eq in Ek.
    apply set_rdr_inv.
    + apply (set_inv st a e); auto.
      * apply with_flags_same.
      * cbn. intros Hc. apply (I_compl st HI a e Ha Hc).
      * cbn. intros r' rd' H1 H2 H3. right. eapply readers_listed; eauto.
    + cbn. intros _. eexists. rewrite upd_eq. split; [reflexivity|]. cbn.
      split; [now left|]. split; [assumption|]. split; [now rewrite takeN_0|lia].
    + cbn. discriminate.
  - (* Read *)
    destruct (s_rdrs st r) as [rd|] eqn:Hr; [|assumption].
    destruct (r_open rd && negb (r_done rd)) eqn:Eo; [|assumption].
    apply andb_prop in Eo. destruct Eo as [Eo Ed].
    destruct (s_ents st (r_ent rd)) as [e|] eqn:Ha; [|assumption].
    destruct (I_rdr st HI r rd Hr Eo) as (e1 & H1 & H2 & H3 & H4 & H5).
    rewrite Ha in H1. inversion H1; subst e1; clear H1.
    destruct (I_data st HI _ e Ha) as [D1 D2].
    destruct (e_complete e && (r_off rd =? e_len e)) eqn:Ec.
    + apply andb_prop in Ec. destruct Ec as [Ec El]. apply N.eqb_eq in El.
      apply set_rdr_inv; auto.
      * intros _. exists e. cbn [r_ent r_key r_off]. unfold acc; cbn [r_racc]; fold (acc rd). repeat split; auto.
      * intros _. exists (e_ver e). cbn [r_key]. unfold acc; cbn [r_racc]; fold (acc rd).
        rewrite H4, El, D2, takeN_all by lia. rewrite <- H3. apply (I_compl st HI _ e Ha Ec).
    + apply set_rdr_inv; auto.
      * intros _. exists e. cbn [r_ent r_key r_off].
        destruct (chain_read_extends (chain_of st e) (r_off rd) len (sent e) (acc rd)) as [X1 X2]; auto; [lia|].
        unfold acc at 1. cbn [r_racc]. rewrite concat_rev_cons. fold (acc rd).
        repeat split; auto. lia.
      * cbn [r_done]. discriminate.
  - (* CloseR *)
    destruct (s_rdrs st r) as [rd|] eqn:Hr; [|assumption].
    destruct (r_open rd) eqn:Eo; [|assumption].
    set (st1 := set_rdr st r (mkR (r_ent rd) (r_key rd) (r_off rd) (r_racc rd) false (r_done rd))).
    assert (HI1 : Inv st1).
    { apply set_rdr_inv; auto; cbn; [discriminate|]. intros Hd. apply (I_done st HI r rd Hr Hd). }
    destruct (s_ents st1 (r_ent rd)) as [e|] eqn:Ha; [|assumption].
    apply (put_inv st1 _ e); auto.
    + apply with_flags_same.
    + cbn. intros Hc. apply (I_compl st1 HI1 _ e Ha Hc).
    + cbn. intros r' rd' G1 G2 G3. apply filter_In. split.
      * eapply readers_listed; eauto.
      * destruct (N.eq_dec r' r) as [->|Hne].
        -- subst st1. cbn in G1. rewrite upd_eq in G1. inversion G1; subst. discriminate.
        -- apply N.eqb_neq in Hne. now rewrite Hne.
  - (* Evict *)
    destruct (s_ents st a) as [e|] eqn:Ha; [|assumption].
    apply (put_inv st a e); auto.
    + apply with_flags_same.
    + cbn. intros Hc. apply (I_compl st HI a e Ha Hc).
    + cbn. apply (readers_listed st a e HI Ha).
Qed.

Lemma run_inv ops : forall st, Inv st -> Inv (run st ops).
Proof. induction ops as [|o ops IH]; intros st HI; cbn; auto. apply IH. now apply step_inv. Qed.

(* the log only grows, and only at CloseW with the bytes appended to the closed entry *)

(* ---------- the main statements ---------- *)
Theorem hit_is_one_completed_write cap free scan ops r rd :
  NoDup free ->
  let st := run (init cap free scan) ops in
  s_rdrs st r = Some rd -> r_done rd = true ->
  exists v, In (r_key rd, v, acc rd) (s_log st).
Proof.
  intros Hf st Hr Hd. apply (I_done st (run_inv ops _ (init_inv cap free scan Hf)) r rd Hr Hd).
Qed.

Theorem reader_holds_prefix_of_its_entry cap free scan ops r rd :
  NoDup free ->
  let st := run (init cap free scan) ops in
  s_rdrs st r = Some rd -> r_open rd = true ->
  exists e, s_ents st (r_ent rd) = Some e /\ e_key e = r_key rd /\ In r (e_rdrs e) /\
            acc rd = takeN (r_off rd) (sent e) /\ r_off rd <= lenN (sent e) /\ stream_of st e = sent e.
Proof.
  intros Hf st Hr Ho.
  pose proof (run_inv ops _ (init_inv cap free scan Hf)) as HI. fold st in HI.
  destruct (I_rdr st HI r rd Hr Ho) as (e & H1 & H2 & H3 & H4 & H5).
  destruct (I_data st HI _ e H1) as [D1 D2].
  exists e. repeat split; auto. lia.
Qed.

Theorem slots_are_never_shared cap free scan ops :
  NoDup free ->
  let st := run (init cap free scan) ops in
  (forall a e s, s_ents st a = Some e -> In s (e_rslots e) -> ~ In s (s_free st)) /\
  (forall a b ea eb s, a <> b -> s_ents st a = Some ea -> s_ents st b = Some eb ->
                       In s (e_rslots ea) -> ~ In s (e_rslots eb)) /\
  (forall a e, s_ents st a = Some e -> NoDup (e_rslots e)).
Proof.
  intros Hf st. pose proof (run_inv ops _ (init_inv cap free scan Hf)) as HI. fold st in HI.
  split; [|split].
  - apply (I_slots_free st HI).
  - apply (I_disj st HI).
  - apply (I_slots_nd st HI).
Qed.
(* ---------- the ghost log is written by CloseW only ---------- *)
Lemma log_put_ent st a e : s_log (put_ent st a e) = s_log st.
Proof. unfold put_ent. destruct (e_dead e && idle e); reflexivity. Qed.
Lemma log_abort st a : s_log (abort st a) = s_log st.
Proof. unfold abort. destruct (s_ents st a); [apply log_put_ent|reflexivity]. Qed.
Lemma log_purge st : forall scan st', purge_one st scan = Some st' -> s_log st' = s_log st.
Proof.
  induction scan as [|b scan IH]; intros st' H; cbn in H; [discriminate|].
  destruct (s_ents st b) as [eb|]; [|auto]. destruct (idle eb); [|auto]. now inversion H.
Qed.
Lemma log_pop st s st1 : pop_free st = Some (s, st1) -> s_log st1 = s_log st.
Proof. unfold pop_free. destruct (s_free st); [discriminate|]. intros H. now inversion H. Qed.
Lemma log_alloc st s st1 : alloc st = Some (s, st1) -> s_log st1 = s_log st.
Proof.
  unfold alloc. destruct (pop_free st) as [[s' st']|] eqn:Ep.
  - intros H. inversion H; subst. eapply log_pop; eauto.
  - destruct (purge_one st (s_scan st)) as [st2|] eqn:Eq; [|discriminate].
    intros H. rewrite (log_pop _ _ _ H). eapply log_purge; eauto.
Qed.
Lemma log_append1 st a d st' rest : append1 st a d = Some (st', rest) -> s_log st' = s_log st.
Proof.
  unfold append1. destruct (s_ents st a) as [e|]; [|discriminate].
  assert (Hfresh : forall x, match alloc st with
                   | None => None
                   | Some (s, st1) =>
                     match s_ents st1 a with
                     | None => None
                     | Some e1 => Some (fill st1 a (mkE (e_key e1) (e_ver e1) (s :: e_rslots e1) (e_len e1) (e_writing e1)
                                                        (e_complete e1) (e_dead e1) (e_rdrs e1) (e_sent e1)) s d)
                     end
                   end = Some x -> s_log (fst x) = s_log st).
  { intros x H. destruct (alloc st) as [[s st1]|] eqn:Ea; [|discriminate].
    destruct (s_ents st1 a); [|discriminate]. inversion H; subst. cbn. eapply log_alloc; eauto. }
  destruct (e_rslots e) as [|s rs]; [intros H; apply (Hfresh _ H)|].
  destruct (0 <? space_in st s d); [|intros H; apply (Hfresh _ H)].
  intros H. inversion H; subst. reflexivity.
Qed.
Lemma log_append_loop fuel : forall st a d, s_log (append_loop fuel st a d) = s_log st.
Proof.
  induction fuel as [|f IH]; intros st a d; destruct d as [|c d]; cbn [append_loop]; auto using log_abort.
  destruct (append1 st a (c :: d)) as [[st' rest]|] eqn:E1; [|apply log_abort].
  rewrite IH. eapply log_append1; eauto.
Qed.

Definition closes (st : state) (o : op) : list (N * N * bytes) :=
  match o with
  | CloseW a => match s_ents st a with
                | Some e => if e_writing e then [(e_key e, e_ver e, sent e)] else []
                | None => []
                end
  | _ => []
  end.

Lemma log_step st o : s_log (step st o) = closes st o ++ s_log st.
Proof.
  destruct o as [a k v|a d|a|a|r a k|r len|r|a]; cbn [step closes app].
  - destruct (s_ents st a) as [e|]; [destruct (idle e)|]; reflexivity.
  - destruct (s_ents st a) as [e|]; [destruct (e_writing e)|]; auto using log_append_loop.
  - destruct (s_ents st a) as [e|]; [destruct (e_writing e)|]; try reflexivity. now rewrite log_put_ent.
  - destruct (s_ents st a) as [e|]; [destruct (e_writing e)|]; auto using log_abort.
  - destruct (s_rdrs st r); [reflexivity|]. destruct (s_ents st a) as [e|]; [|reflexivity].
    destruct ((e_key e =? k) && negb (e_dead e) && (e_complete e || e_writing e)); reflexivity.
  - destruct (s_rdrs st r) as [rd|]; [|reflexivity]. destruct (r_open rd && negb (r_done rd)); [|reflexivity].
    destruct (s_ents st (r_ent rd)) as [e|]; [|reflexivity].
    destruct (e_complete e && (r_off rd =? e_len e)); reflexivity.
  - destruct (s_rdrs st r) as [rd|]; [|reflexivity]. destruct (r_open rd); [|reflexivity].
    match goal with |- context [s_ents ?s ?x] => destruct (s_ents s x) end; [now rewrite log_put_ent|reflexivity].
  - destruct (s_ents st a) as [e|]; [now rewrite log_put_ent|reflexivity].
Qed.

(* every logged write is the [sent] of an entry that a CloseW closed while it was being written *)
Theorem log_only_completed_writes ops : forall st x, In x (s_log (run st ops)) ->
  In x (s_log st) \/
  exists pre a post e, ops = pre ++ CloseW a :: post /\ s_ents (run st pre) a = Some e /\ e_writing e = true /\
                       x = (e_key e, e_ver e, sent e).
Proof.
  induction ops as [|o ops IH]; intros st x H; cbn [run] in H; [now left|].
  apply IH in H. destruct H as [H|(pre & a & post & e & -> & H1 & H2 & H3)].
  - rewrite log_step in H. apply in_app_or in H. destruct H as [H|H]; [|now left].
    right. destruct o; cbn in H; try contradiction.
    destruct (s_ents st a) as [e|] eqn:Ha; [|contradiction]. destruct (e_writing e) eqn:Hw; [|contradiction].
    destruct H as [<-|[]]. exists [], a, ops, e. repeat split; auto.
  - right. exists (o :: pre), a, post, e. repeat split; auto.
Qed.

(* ---------- what Append adds ---------- *)
Lemma abort_not_writing st a e' : s_ents (abort st a) a = Some e' -> e_writing e' = false.
Proof.
  unfold abort. destruct (s_ents st a) as [e|] eqn:Ha; [|congruence].
  unfold put_ent. destruct (_ && _); cbn; rewrite upd_eq; [discriminate|]. intros H. now inversion H.
Qed.

Lemma append1_sent st a d st' rest e :
  Inv st -> s_ents st a = Some e -> e_writing e = true -> append1 st a d = Some (st', rest) ->
  exists e' n, s_ents st' a = Some e' /\ sent e' = sent e ++ takeN n d /\ rest = dropN n d /\
               e_key e' = e_key e /\ e_ver e' = e_ver e.
Proof.
  intros HI Ha Hw H. unfold append1 in H. rewrite Ha in H.
  assert (Hfresh : match alloc st with
                   | None => None
                   | Some (s, st1) =>
                     match s_ents st1 a with
                     | None => None
                     | Some e1 => Some (fill st1 a (mkE (e_key e1) (e_ver e1) (s :: e_rslots e1) (e_len e1) (e_writing e1)
                                                        (e_complete e1) (e_dead e1) (e_rdrs e1) (e_sent e1)) s d)
                     end
                   end = Some (st', rest) ->
                   exists e' n, s_ents st' a = Some e' /\ sent e' = sent e ++ takeN n d /\ rest = dropN n d /\
                                e_key e' = e_key e /\ e_ver e' = e_ver e).
  { clear H. intros H. destruct (alloc st) as [[s st1]|] eqn:Ea; [|discriminate].
    destruct (alloc_inv st s st1 a e HI Ea Ha Hw) as (G1 & G2 & _).
    rewrite G2 in H. unfold fill in H. inversion H; subst; clear H. cbn. rewrite upd_eq.
    eexists. eexists. split; [reflexivity|]. unfold sent at 1. cbn [e_sent]. rewrite concat_rev_cons.
    repeat split; reflexivity. }
  destruct (e_rslots e) as [|s rs] eqn:Es; [auto|].
  destruct (0 <? space_in st s d); [|auto].
  unfold fill in H. inversion H; subst; clear H. cbn. rewrite upd_eq.
  eexists. eexists. split; [reflexivity|]. unfold sent at 1. cbn [e_sent]. rewrite concat_rev_cons.
  repeat split; reflexivity.
Qed.

Lemma append_loop_sent fuel : forall st a d e e',
  Inv st -> s_ents st a = Some e -> e_writing e = true ->
  s_ents (append_loop fuel st a d) a = Some e' -> e_writing e' = true ->
  sent e' = sent e ++ d /\ e_key e' = e_key e /\ e_ver e' = e_ver e.
Proof.
  induction fuel as [|f IH]; intros st a d e e' HI Ha Hw H Hw'; destruct d as [|c d]; cbn [append_loop] in H.
  - rewrite Ha in H. inversion H; subst. now rewrite app_nil_r.
  - apply abort_not_writing in H. congruence.
  - rewrite Ha in H. inversion H; subst. now rewrite app_nil_r.
  - destruct (append1 st a (c :: d)) as [[st' rest]|] eqn:E1; [|apply abort_not_writing in H; congruence].
    destruct (append1_inv _ _ _ _ _ _ HI Ha Hw E1) as (K1 & _ & e1 & K2 & K3).
    destruct (append1_sent _ _ _ _ _ _ HI Ha Hw E1) as (e2 & n & L1 & L2 & L3 & L4 & L5).
    rewrite K2 in L1. inversion L1; subst e2; clear L1.
    destruct (IH st' a rest e1 e' K1 K2 K3 H Hw') as (M1 & M2 & M3).
    rewrite M1, L2, L3, <- app_assoc, takeN_dropN. repeat split; congruence.
Qed.

Theorem append_adds_exactly cap free scan ops a d e e' :
  NoDup free ->
  let st := run (init cap free scan) ops in
  s_ents st a = Some e -> e_writing e = true ->
  s_ents (step st (Append a d)) a = Some e' -> e_writing e' = true ->
  sent e' = sent e ++ d /\ e_key e' = e_key e /\ e_ver e' = e_ver e.
Proof.
  intros Hf st Ha Hw H Hw'. cbn [step] in H. rewrite Ha, Hw in H.
  eapply append_loop_sent; eauto. apply run_inv. now apply init_inv.
Qed.

(* ---------- the stored format ---------- *)
Lemma headers_end_from_app b : forall st e t, headers_end_from st e b <> 0 ->
  headers_end_from st e (b ++ t) = headers_end_from st e b.
Proof.
  induction b as [|c b IH]; intros st e t H; cbn [headers_end_from app] in *; [congruence|].
  match goal with |- (if ?x =? 3 then _ else _) = _ => destruct (x =? 3) end; auto.
Qed.

Theorem parse_memory_stream key hdr body :
  headers_end hdr = lenN hdr -> hdr <> [] ->
  parse_stored false key (hdr ++ body) = Some (hdr, body).
Proof.
  intros H Hne. unfold parse_stored. unfold headers_end in *.
  assert (lenN hdr <> 0) by (destruct hdr; [congruence|cbn; lia]).
  rewrite headers_end_from_app by congruence. rewrite H.
  destruct (lenN hdr =? 0) eqn:E; [apply N.eqb_eq in E; congruence|].
  rewrite takeN_app_le, takeN_all, dropN_app_ge by lia.
  replace (lenN hdr - lenN hdr) with 0 by lia. f_equal. f_equal. destruct body; reflexivity.
Qed.

Theorem parse_disk_stream key meta hdr body :
  unpack_hit_meta key (takeN (N.min hits_reqbuf_size hits_sm_page_size) (meta ++ hdr ++ body)) = Some (lenN meta) ->
  headers_end hdr = lenN hdr -> hdr <> [] ->
  parse_stored true key (meta ++ hdr ++ body) = Some (hdr, body).
Proof.
  intros Hm H Hne. unfold parse_stored. rewrite Hm.
  rewrite dropN_app_ge by lia. replace (lenN meta - lenN meta) with 0 by lia.
  replace (dropN 0 (hdr ++ body)) with (hdr ++ body) by (destruct (hdr ++ body); reflexivity).
  apply (parse_memory_stream key hdr body H Hne).
Qed.

(* a disk stream whose first metadata field is another key is refused (swap-in validation) *)
Theorem other_key_is_refused key key' rest buf n :
  unpack_prefix buf = Some n ->
  takeN (n - hits_meta_prefix) (dropN hits_meta_prefix buf) = hits_meta_key_md5 :: le32_enc hits_md5_len ++ key' ++ rest ->
  lenN key' = hits_md5_len -> list_eqb key' key = false ->
  unpack_hit_meta key buf = None.
Proof.
  intros Hp Hm Hl Hk. unfold unpack_hit_meta. rewrite Hp, Hm.
  assert (Hv : takeN hits_md5_len (dropN hits_meta_len_size (le32_enc hits_md5_len ++ key' ++ rest)) = key').
  { unfold le32_enc. rewrite dropN_app_ge by (vm_compute; discriminate).
    replace (dropN _ (key' ++ rest)) with (key' ++ rest) by (destruct (key' ++ rest); reflexivity).
    rewrite takeN_app_le by lia. apply takeN_all. lia. }
  cbn [length check_fields].
  replace (le32 (le32_enc hits_md5_len ++ key' ++ rest)) with (Some hits_md5_len) by reflexivity.
  rewrite Hv, Hk, N.eqb_refl.
  destruct (int_max <? hits_md5_len); [reflexivity|].
  destruct (hits_meta_value_max <? hits_md5_len); [reflexivity|].
  destruct (lenN (le32_enc hits_md5_len ++ key' ++ rest) <? hits_meta_len_size + hits_md5_len); reflexivity.
Qed.

(* ---------- refreshing the stored header (Rock::HeaderUpdater / MemStore::updateHeaders) ---------- *)
Lemma chunks_concat fuel : forall sizes dflt d, concat (chunks fuel sizes dflt d) = d.
Proof.
  induction fuel as [|f IH]; intros sizes dflt d; destruct d as [|c d]; cbn [chunks concat]; auto.
  - now rewrite app_nil_r.
  - destruct sizes as [|x r]; cbn [concat]; rewrite IH; apply takeN_dropN.
Qed.

Lemma splice_tail_concat sl : forall n, n <= lenN (concat sl) ->
  fst (splice_tail sl n) ++ concat (snd (splice_tail sl n)) = dropN n (concat sl).
Proof.
  induction sl as [|s t IH]; intros n H; cbn [splice_tail concat] in *.
  - destruct n; reflexivity.
  - rewrite lenN_app in H. destruct (n <=? lenN s) eqn:E; cbn [fst snd].
    + rewrite dropN_app_le by lia. reflexivity.
    + rewrite IH by lia. rewrite dropN_app_ge by lia. reflexivity.
Qed.

(* whatever the slot boundaries are, the spliced chain spells: fresh prefix, then the old stream minus its prefix *)
Theorem update_chain_spec cap sl oldprefix body newp :
  concat sl = oldprefix ++ body ->
  concat (update_chain cap sl (lenN oldprefix) newp) = newp ++ body.
Proof.
  intros H. unfold update_chain.
  pose proof (splice_tail_concat sl (lenN oldprefix)) as K.
  destruct (splice_tail sl (lenN oldprefix)) as [tl rest]. cbn [fst snd] in K.
  rewrite concat_app, chunks_concat, <- app_assoc, K by (rewrite H, lenN_app; lia).
  rewrite H, dropN_app_ge by lia. replace (lenN oldprefix - lenN oldprefix) with 0 by lia.
  destruct body; reflexivity.
Qed.
