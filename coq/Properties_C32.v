(* Properties_C32.v — C32: HTML quoting neutralises markup and is reversible.
   Statements only; proofs live in QuoteProofs.v. *)
Require Import SquidV.Bytes SquidV.QuoteModel SquidV.QuoteProofs.
Require Import SquidV.gen.ByteMaps_gen.
Local Open Scope N_scope.

(* decoding the entity references of the quoted form (reference decoder html_unquote, strict:
   it rejects any raw markup metacharacter and any malformed or unknown reference) gives back the
   C string that was quoted; bytes_ok s says every element is a byte (< 256) *)
Theorem C32_unquote_quote_is_identity : forall s, bytes_ok s ->
  html_unquote (html_quote s) = Some (cstr s).
Proof. exact html_unquote_quote. Qed.

Theorem C32_unquote_quote_is_identity_nul_free : forall s, bytes_ok s -> nul_free s ->
  html_unquote (html_quote s) = Some s.
Proof. exact html_unquote_quote_nul_free. Qed.

Print Assumptions C32_unquote_quote_is_identity.
Print Assumptions C32_unquote_quote_is_identity_nul_free.
