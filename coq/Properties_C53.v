(* Properties_C53.v — C53: the shared page allocator (src/ipc/mem/PageStack.cc: PageStack over the lock-free
   tree-of-counters IdSet) never double-allocates or loses pages. Statements only; proofs live in PagestackProofs.v.

   Vocabulary (PagestackModel.v / PagestackProofs.v):
     cfg c                 capacity `cap c` and number of inner levels `ilc c` of the tree (ANY height 1..26, any capacity that fits)
     state                 shared words (size_, all tree nodes) + any number of processes = (program counter, held page numbers, script)
     exec / reach c st0 s  each schedule entry lets the named process perform ONE atomic operation (load, CAS, fetch_add, fetch_or,
                           ++/--size_) or its between-calls step; reach = the state after schedule s (any interleaving)
     Start c total inU st0 st0 is a legal start: the parameters fit (WF c), `inU` = the page indexes of the pool, `total` = their number,
                           and the invariant holds in st0 (shown below for "created full" and "created empty, pages dealt to clients")
     wH x th               1 iff page index x is in the hands of process th: in its held list (as number x+1), or carried by its pop()
                           between the leaf CAS and return, or by its push() before the leaf fetch_or
     quiescent l           every process is between two calls (or ended)
     Inv                   the inductive invariant: per-node counting equations, per-page ownership equation, size_ equations *)
Require Import SquidV.Bytes SquidV.PagestackModel SquidV.PagestackProofs.
Local Open Scope N_scope.

(* --- start states --- *)
(* created full: any word array that passes the (executable) consistency check, all processes between calls holding nothing *)
Theorem C53_start_created_full : forall c m l, WF c -> init_okb c m = true ->
  all_ready l -> (forall th, In th l -> theld th = []) ->
  Start c (cap c) (all_in_pool (cap c)) (mkState (mkShared (cap c) m) l).
Proof. exact start_full. Qed.
Print Assumptions C53_start_created_full.

(* created empty (zero-filled tree, size_ = 0): the pages of the pool are in the hands of the processes, each exactly once *)
Theorem C53_start_created_empty : forall c inU l, WF c ->
  all_ready l -> (forall th, In th l -> Forall (fun n => 1 <= n <= cap c) (theld th)) ->
  (forall x, tsum (fun th => countN (x + 1) (theld th)) l = b2n (inU x)) ->
  (forall x, inU x = true -> x < cap c) ->
  tsum (fun th => lenN (theld th)) l <= cap c ->
  Start c (tsum (fun th => lenN (theld th)) l) inU (mkState (mkShared 0 (zeros (N.to_nat (node_count c)))) l).
Proof. exact start_empty. Qed.
Print Assumptions C53_start_created_empty.

(* the constructor as it is written (IdSetMeasurements, fillAllNodes, truncateExtras incl. the last leaf it leaves set on the
   right) produces a start state. PARTIAL: checked by computation for every capacity
   0..1100 (tree heights 2..6), not proved for all capacities *)
Theorem C53_constructor_gives_start_state_upto_1100_partial : forall capacity l, capacity <= 1100 ->
  all_ready l -> (forall th, In th l -> theld th = []) ->
  exists s0, construct (measure capacity) true = Some s0 /\
             Start (measure capacity) capacity (all_in_pool capacity) (mkState s0 l).
Proof. exact ctor_start_upto. Qed.
Print Assumptions C53_constructor_gives_start_state_upto_1100_partial.

(* --- the inductive invariant holds after every schedule --- *)
Theorem C53_invariant_all_interleavings : forall c total inU st0, Start c total inU st0 ->
  forall sched, Inv c total inU (reach c st0 sched).
Proof. exact reach_invariant. Qed.
Print Assumptions C53_invariant_all_interleavings.

(* none of the assert()s of PageStack.cc can fail for protocol-following clients: no empty inner node or leaf is ever found
   below a non-empty counter, no counter overflows, size_ never wraps, every id popped is a page of the pool *)
Theorem C53_no_assertion_fires : forall c total inU st0, Start c total inU st0 ->
  forall sched i th, nthN i (ths (reach c st0 sched)) = Some th -> tpc th <> Crashed.
Proof. exact reach_no_crash. Qed.
Print Assumptions C53_no_assertion_fires.

(* every allocated page is a valid page of the pool *)
Theorem C53_allocated_pages_are_pool_pages : forall c total inU st0, Start c total inU st0 ->
  forall sched i th n, nthN i (ths (reach c st0 sched)) = Some th -> In n (theld th) -> 1 <= n <= cap c.
Proof. exact reach_held_valid. Qed.
Print Assumptions C53_allocated_pages_are_pool_pages.

(* no page is held by two processes at the same time *)
Theorem C53_no_page_with_two_holders : forall c total inU st0, Start c total inU st0 ->
  forall sched n i j a b, i <> j ->
  nthN i (ths (reach c st0 sched)) = Some a -> nthN j (ths (reach c st0 sched)) = Some b ->
  In n (theld a) -> In n (theld b) -> False.
Proof. exact reach_no_page_held_twice. Qed.
Print Assumptions C53_no_page_with_two_holders.

(* ... nor handed twice to the same process without a push in between *)
Theorem C53_no_page_twice_in_one_hand : forall c total inU st0, Start c total inU st0 ->
  forall sched n i a, nthN i (ths (reach c st0 sched)) = Some a -> countN n (theld a) <= 1.
Proof. exact reach_held_once. Qed.
Print Assumptions C53_no_page_twice_in_one_hand.

(* the same including calls in progress: a page index popped from its leaf but not yet returned, or given to push() but not
   yet inserted, is in nobody else's hands *)
Theorem C53_no_double_allocation_in_flight : forall c total inU st0, Start c total inU st0 ->
  forall sched x i j a b, x < cap c -> i <> j ->
  nthN i (ths (reach c st0 sched)) = Some a -> nthN j (ths (reach c st0 sched)) = Some b ->
  1 <= wH x a -> 1 <= wH x b -> False.
Proof. exact reach_no_double_holder. Qed.
Print Assumptions C53_no_double_allocation_in_flight.

(* no page is lost: a page of the pool that is in nobody's hands is a set bit of its leaf *)
Theorem C53_unheld_page_is_in_the_stack : forall c total inU st0, Start c total inU st0 ->
  forall sched x, inU x = true -> tsum (wH x) (ths (reach c st0 sched)) = 0 ->
  N.testbit (word (nodes (sh (reach c st0 sched))) (leafpos c x)) (x mod 64) = true.
Proof. exact reach_free_page_in_leaf. Qed.
Print Assumptions C53_unheld_page_is_in_the_stack.

(* capacity accounting, at every moment: size_ + pages held + push() calls that have not yet incremented size_ = pool size *)
Theorem C53_size_accounting : forall c total inU st0, Start c total inU st0 ->
  forall sched, sz (sh (reach c st0 sched)) + tsum wHeld (ths (reach c st0 sched)) = total.
Proof. exact reach_size_accounting. Qed.
Print Assumptions C53_size_accounting.

(* every page of the pool is accounted for at every moment, under any interleaving: what the root counters offer + the pages
   in the hands of processes = pool size, where a process has in its hands (wBusy): the pages it holds, one page per push() in
   progress (wherever it is between ++size_ and the root), and one page per pop() in progress that has committed at the root
   (wherever it is between the root CAS and its return) *)
Theorem C53_pool_accounting_all_interleavings : forall c total inU st0, Start c total inU st0 ->
  forall sched,
  (if 0 <? cap c then unpack_left (word (nodes (sh (reach c st0 sched))) root) +
                      unpack_right (word (nodes (sh (reach c st0 sched))) root) else 0)
  + tsum wBusy (ths (reach c st0 sched)) = total.
Proof. exact reach_pool_accounting. Qed.
Print Assumptions C53_pool_accounting_all_interleavings.

(* an allocation fails only if, at some point during it, no page was free: the step in which pop() answers false (process t, any
   reachable state, any concurrent activity) is a read of the root that finds both counters zero and changes nothing, and in the
   state it reads every one of the `total` pages of the pool is in the hands of some process: held, being pushed, or reserved
   by a pop() that has already committed. (For capacity 0 pop() fails without touching anything: there is no page.) *)
Theorem C53_pop_fails_only_when_no_page_free : forall c total inU st0, Start c total inU st0 ->
  forall sched t st' evs b,
  step c (reach c st0 sched) t = (st', evs, b) -> In (t, EvRetPop None) evs -> cap c <> 0 ->
  sh st' = sh (reach c st0 sched) /\
  unpack_left (word (nodes (sh (reach c st0 sched))) root) = 0 /\
  unpack_right (word (nodes (sh (reach c st0 sched))) root) = 0 /\
  tsum wBusy (ths (reach c st0 sched)) = total.
Proof. exact reach_pop_fails_only_when_no_page_free. Qed.
Print Assumptions C53_pop_fails_only_when_no_page_free.

(* once activity stops: size_ = pool size - pages held, and the root counters add up to exactly that number *)
Theorem C53_quiescent_counts_exact : forall c total inU st0, Start c total inU st0 ->
  forall sched, quiescent (ths (reach c st0 sched)) ->
  sz (sh (reach c st0 sched)) + tsum (fun th => lenN (theld th)) (ths (reach c st0 sched)) = total /\
  sz (sh (reach c st0 sched)) =
    (if 0 <? cap c then unpack_left (word (nodes (sh (reach c st0 sched))) root) +
                        unpack_right (word (nodes (sh (reach c st0 sched))) root) else 0).
Proof. exact reach_quiescent_counts. Qed.
Print Assumptions C53_quiescent_counts_exact.

(* ... and every counter of the tree is exact: each inner counter equals what the subtree below offers, so the descent of a
   pop() from a non-zero root counter reaches a set bit (every released page can be allocated again).
   PARTIAL: the run of that pop() to completion is not a theorem (the check drains the real stack instead) *)
Theorem C53_quiescent_tree_exact_partial : forall c total inU st0, Start c total inU st0 ->
  forall sched, quiescent (ths (reach c st0 sched)) ->
  forall p, valid c p -> 1 <= level p -> live c (ascend p) = true ->
  cnt_to (nodes (sh (reach c st0 sched))) p = gav c (nodes (sh (reach c st0 sched))) p.
Proof. exact reach_quiescent_tree_exact. Qed.
Print Assumptions C53_quiescent_tree_exact_partial.

(* --- the hypotheses are satisfiable, non-trivially --- *)
(* a three-level tree (capacity 130: 4 leaves, the last page in the third leaf) is a start state *)
Example C53_ex_start_130 : exists s0, construct (measure 130) true = Some s0 /\
  Start (measure 130) 130 (all_in_pool 130) (mkState s0 [mkT Ready [] [OpPop; OpPushFirst]; mkT Ready [] [OpPop]]).
Proof.
  apply C53_constructor_gives_start_state_upto_1100_partial; [lia | |].
  - intros th [E|[E|[]]]; subst; reflexivity.
  - intros th [E|[E|[]]]; subst; reflexivity.
Qed.

(* two processes contend for the only page: one gets it, the other is refused, nobody crashes *)
Example C53_ex_contention :
  match run_case 1 true [[OpPop]; [OpPop]] [0; 1; 0; 1; 0; 1; 0; 1; 0; 1] with
  | OutRun st evs _ _ =>
      map (fun th => theld th) (ths st) = [[1]; []] /\
      In (1, EvRetPop None) evs /\ In (0, EvRetPop (Some 1)) evs /\ sz (sh st) = 0
  | _ => False
  end.
Proof. vm_compute. repeat split; auto 20. Qed.

(* the hypotheses of C53_pop_fails_only_when_no_page_free occur: with one page and two clients, the step in which client 1 is refused *)
Example C53_ex_refusal_step :
  exists s0, construct (measure 1) true = Some s0 /\
  let st := reach (measure 1) (mkState s0 [mkT Ready [] [OpPop]; mkT Ready [] [OpPop]]) [0; 0; 0; 1] in
  In (1, EvRetPop None) (snd (fst (step (measure 1) st 1))).
Proof. eexists. split; [vm_compute; reflexivity|]. vm_compute. auto. Qed.

(* created empty: two clients hold pages 1,3 and 2; after pushing and popping, quiescent, counts exact *)
Example C53_ex_empty_start :
  match run_case 3 false [[OpPushFirst; OpPop]; [OpPushFirst]] [0; 1; 0; 1; 0; 1; 0; 1] with
  | OutRun st evs _ d =>
      forallb (fun th => match tpc th with Done => true | _ => false end) (ths st) = true /\
      sz (sh st) + lenN (concat (map (fun th => theld th) (ths st))) = 3
  | _ => False
  end.
Proof. vm_compute. split; reflexivity. Qed.
