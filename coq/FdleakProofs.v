(* FdleakProofs.v — C08: proofs about the descriptor accounting / ownership protocol model. *)
Require Import SquidV.Bytes SquidV.FdleakModel.
From Coq Require Import Arith Lia ZifyBool ZifyNat.

(* ------------------------------------------------------------------ maps *)
Lemma upd_same : forall A (m : nat -> A) k v, upd m k v k = v.
Proof. intros. unfold upd. now rewrite Nat.eqb_refl. Qed.

Lemma upd_other : forall A (m : nat -> A) k v x, x <> k -> upd m k v x = m x.
Proof. intros. unfold upd. destruct (Nat.eqb_spec x k); congruence. Qed.

Ltac updc :=
  repeat match goal with
         | |- context [upd _ ?k _ ?x] =>
           destruct (Nat.eq_dec x k) as [?E|?N];
           [ subst; rewrite ?upd_same in * | rewrite (upd_other _ _ k _ x) in * by assumption ]
         | H : context [upd _ ?k _ ?x] |- _ =>
           destruct (Nat.eq_dec x k) as [?E|?N];
           [ subst; rewrite ?upd_same in * | rewrite (upd_other _ _ k _ x) in * by assumption ]
         end.

(* ------------------------------------------------------------------ counting open flags *)
Definition b2n (b : bool) : nat := if b then 1 else 0.

Lemma count_S : forall n o, count_open (S n) o = count_open n o + b2n (o n).
Proof.
  intros. unfold count_open. rewrite seq_S, filter_app, app_length. cbn [filter Nat.add].
  destruct (o n); reflexivity.
Qed.

Lemma count_ext : forall n o o', (forall i, i < n -> o i = o' i) -> count_open n o = count_open n o'.
Proof.
  induction n as [|n IH]; intros o o' H; [reflexivity|].
  rewrite !count_S. rewrite (IH o o') by (intros; apply H; lia). rewrite (H n) by lia. reflexivity.
Qed.

Lemma count_upd : forall n o f v, f < n ->
  count_open n (upd o f v) + b2n (o f) = count_open n o + b2n v.
Proof.
  induction n as [|n IH]; intros o f v Hf; [lia|].
  rewrite !count_S. destruct (Nat.eq_dec f n) as [->|Hn].
  - rewrite upd_same. rewrite (count_ext n (upd o n v) o); [lia|].
    intros i Hi. apply upd_other. lia.
  - rewrite (upd_other _ o f v n) by lia. specialize (IH o f v). lia.
Qed.

Lemma count_le : forall n o, count_open n o <= n.
Proof. induction n; intros; [reflexivity|]. rewrite count_S. specialize (IHn o). destruct (o n); cbn; lia. Qed.

Lemma count_ltb : forall n k, k <= n -> count_open n (fun f => f <? k) = k.
Proof.
  induction n as [|n IH]; intros k Hk.
  - assert (k = 0) by lia. subst. reflexivity.
  - rewrite count_S. destruct (Nat.eq_dec k (S n)) as [->|Hn].
    + rewrite (count_ext n _ (fun f => f <? n)).
      * rewrite IH by lia. assert (n <? S n = true) by (apply Nat.ltb_lt; lia). rewrite H. cbn. lia.
      * intros i Hi. assert (i <? S n = true) by (apply Nat.ltb_lt; lia).
        assert (i <? n = true) by (apply Nat.ltb_lt; lia). congruence.
    + rewrite IH by lia. assert (n <? k = false) by (apply Nat.ltb_ge; lia). rewrite H. cbn. lia.
Qed.

(* ------------------------------------------------------------------ Biggest_FD scan *)
Lemma lower_range : forall o n, (-1 <= lower o n < Z.of_nat n)%Z.
Proof. induction n; cbn [lower]; [lia|]. destruct (o n); lia. Qed.

Lemma lower_open : forall o n, (0 <= lower o n)%Z -> o (Z.to_nat (lower o n)) = true.
Proof.
  induction n; cbn [lower]; intros H; [lia|].
  destruct (o n) eqn:E; [now rewrite Nat2Z.id | auto].
Qed.

Lemma lower_max : forall o n i, i < n -> o i = true -> (Z.of_nat i <= lower o n)%Z.
Proof.
  induction n; intros i Hi Ho; [lia|]. cbn [lower].
  destruct (Nat.eq_dec i n) as [->|Hn]; [rewrite Ho; lia|].
  destruct (o n); [lia|]. apply IHn; [lia|assumption].
Qed.

Lemma lower_unique : forall o n m,
  (-1 <= m < Z.of_nat n)%Z -> ((0 <= m)%Z -> o (Z.to_nat m) = true) ->
  (forall i, i < n -> o i = true -> (Z.of_nat i <= m)%Z) -> lower o n = m.
Proof.
  intros o n m Hr Ho Hmax.
  pose proof (lower_range o n) as Hl.
  destruct (Z_lt_le_dec (lower o n) 0) as [Hneg|Hpos].
  - destruct (Z_lt_le_dec m 0) as [|Hm]; [lia|].
    specialize (Ho Hm). pose proof (lower_max o n (Z.to_nat m) ltac:(lia) Ho). lia.
  - pose proof (lower_open o n Hpos) as H1.
    pose proof (Hmax (Z.to_nat (lower o n)) ltac:(lia) H1) as H2.
    assert (Hm : (0 <= m)%Z) by lia. specialize (Ho Hm).
    pose proof (lower_max o n (Z.to_nat m) ltac:(lia) Ho). lia.
Qed.

(* ------------------------------------------------------------------ src/fd.cc invariant *)
Definition fds_inv (maxfd : nat) (d : fds) : Prop :=
  fnum d = Z.of_nat (count_open maxfd (fopen d)) /\
  (forall f, fopen d f = true -> f < maxfd) /\
  fbig d = lower (fopen d) maxfd.

Lemma fd_close_ok : forall maxfd d f, fds_inv maxfd d -> fopen d f = true ->
  exists d', fd_close maxfd d f = Some d' /\ fds_inv maxfd d' /\
             fopen d' = upd (fopen d) f false /\ fnum d' = (fnum d - 1)%Z.
Proof.
  intros maxfd d f (Hn & Hb & Hg) Hf.
  pose proof (Hb f Hf) as Hlt.
  pose proof (lower_max (fopen d) maxfd f Hlt Hf) as Hle. rewrite <- Hg in Hle.
  pose proof (lower_range (fopen d) maxfd) as Hr. rewrite <- Hg in Hr.
  unfold fd_close. rewrite Hf. cbn [negb].
  assert (Hcnt : (fnum d - 1)%Z = Z.of_nat (count_open maxfd (upd (fopen d) f false))).
  { pose proof (count_upd maxfd (fopen d) f false Hlt) as C. rewrite Hf in C. cbn [b2n] in C. lia. }
  assert (Hb' : forall g, upd (fopen d) f false g = true -> g < maxfd).
  { intros g Hg'. unfold upd in Hg'. destruct (Nat.eqb g f); [discriminate|auto]. }
  unfold fd_update_biggest.
  destruct (Z.of_nat f <? fbig d)%Z eqn:E1.
  - eexists. split; [reflexivity|]. split; [|split; reflexivity].
    split; [exact Hcnt|]. split; [exact Hb'|]. cbn [fbig fopen]. symmetry. apply lower_unique.
    + lia.
    + intros _. rewrite upd_other by lia. rewrite Hg. apply lower_open. lia.
    + intros i Hi Ho. unfold upd in Ho. destruct (Nat.eqb i f); [discriminate|].
      rewrite Hg. now apply lower_max.
  - assert (Hlt' : (f <? maxfd) = true) by (apply Nat.ltb_lt; exact Hlt). rewrite Hlt'. cbn [negb].
    assert (E2 : (fbig d <? Z.of_nat f)%Z = false) by lia. rewrite E2.
    assert (Hbf : fbig d = Z.of_nat f) by lia.
    eexists. split; [reflexivity|]. split; [|split; reflexivity].
    split; [exact Hcnt|]. split; [exact Hb'|]. cbn [fbig fopen].
    rewrite Hbf. replace (Z.to_nat (Z.of_nat f + 1)) with (S f) by lia.
    symmetry. apply lower_unique.
    + pose proof (lower_range (upd (fopen d) f false) (S f)). lia.
    + apply lower_open.
    + intros i Hi Ho. apply lower_max; [|exact Ho].
      assert (Hoi : fopen d i = true) by (unfold upd in Ho; destruct (Nat.eqb i f); [discriminate|auto]).
      assert (i <> f) by (intros ->; rewrite upd_same in Ho; discriminate).
      pose proof (lower_max (fopen d) maxfd i Hi Hoi). lia.
Qed.

Lemma fd_open_ok : forall maxfd d f, fds_inv maxfd d -> f < maxfd ->
  exists d', fd_open maxfd d f = Some d' /\ fds_inv maxfd d' /\
             (forall g, fopen d' g = upd (fopen d) f true g) /\
             fnum d' = (fnum d + (if fopen d f then 0 else 1))%Z.
Proof.
  intros maxfd d f Hinv Hlt.
  assert (H1 : exists d1, (if fopen d f then fd_close maxfd d f else Some d) = Some d1 /\ fds_inv maxfd d1 /\
                          fopen d1 f = false /\ (forall g, g <> f -> fopen d1 g = fopen d g) /\
                          fnum d1 = (fnum d - (if fopen d f then 1 else 0))%Z).
  { destruct (fopen d f) eqn:Ef.
    - destruct (fd_close_ok maxfd d f Hinv Ef) as (d1 & Hc & Hi & Ho & Hn).
      exists d1. split; [exact Hc|]. split; [exact Hi|]. rewrite Ho.
      split; [apply upd_same|]. split; [intros; now apply upd_other|exact Hn].
    - exists d. split; [reflexivity|]. split; [exact Hinv|]. split; [exact Ef|]. split; [auto|lia]. }
  destruct H1 as (d1 & Hd1 & (Hn & Hb & Hg) & Hf1 & Hoth & Hnum).
  unfold fd_open. rewrite Hd1.
  pose proof (lower_range (fopen d1) maxfd) as Hr. rewrite <- Hg in Hr.
  assert (Hne : fbig d1 <> Z.of_nat f).
  { intros Heq. assert (Hp : (0 <= lower (fopen d1) maxfd)%Z) by lia.
    pose proof (lower_open _ _ Hp) as Ho. rewrite <- Hg, Heq, Nat2Z.id in Ho. congruence. }
  assert (Hcnt : (fnum d1 + 1)%Z = Z.of_nat (count_open maxfd (upd (fopen d1) f true))).
  { pose proof (count_upd maxfd (fopen d1) f true Hlt) as C. rewrite Hf1 in C. cbn [b2n] in C. lia. }
  assert (Hb' : forall g, upd (fopen d1) f true g = true -> g < maxfd).
  { intros g Hg'. unfold upd in Hg'. destruct (Nat.eqb_spec g f); [subst; exact Hlt|auto]. }
  assert (Hfl : forall g, upd (fopen d1) f true g = upd (fopen d) f true g).
  { intros g. unfold upd. destruct (Nat.eqb_spec g f); [reflexivity|auto]. }
  unfold fd_update_biggest.
  destruct (Z.of_nat f <? fbig d1)%Z eqn:E1.
  - eexists. split; [reflexivity|]. split; [|split; [exact Hfl|cbn [fnum]; destruct (fopen d f); lia]].
    split; [exact Hcnt|]. split; [exact Hb'|]. cbn [fbig fopen]. symmetry. apply lower_unique.
    + lia.
    + intros _. rewrite upd_other by lia. rewrite Hg. apply lower_open. lia.
    + intros i Hi Ho. unfold upd in Ho. destruct (Nat.eqb_spec i f); [subst; lia|].
      rewrite Hg. now apply lower_max.
  - assert (Hlt' : (f <? maxfd) = true) by (apply Nat.ltb_lt; exact Hlt). rewrite Hlt'. cbn [negb].
    assert (E2 : (fbig d1 <? Z.of_nat f)%Z = true) by lia. rewrite E2.
    eexists. split; [reflexivity|]. split; [|split; [exact Hfl|cbn [fnum]; destruct (fopen d f); lia]].
    split; [exact Hcnt|]. split; [exact Hb'|]. cbn [fbig fopen]. symmetry. apply lower_unique.
    + lia.
    + intros _. rewrite Nat2Z.id. apply upd_same.
    + intros i Hi Ho. unfold upd in Ho. destruct (Nat.eqb_spec i f); [subst; lia|].
      pose proof (lower_max (fopen d1) maxfd i Hi Ho). lia.
Qed.

(* ------------------------------------------------------------------ op sequences on src/fd.cc *)
Fixpoint replay (o : nat -> bool) (ops : list fdop) : nat -> bool :=
  match ops with
  | [] => o
  | FOpen f :: r => replay (upd o f true) r
  | FClose f :: r => replay (upd o f false) r
  end.

(* the callers' obligations: descriptors lie inside the table; only open descriptors are closed *)
Fixpoint ops_valid (maxfd : nat) (o : nat -> bool) (ops : list fdop) : Prop :=
  match ops with
  | [] => True
  | FOpen f :: r => f < maxfd /\ ops_valid maxfd (upd o f true) r
  | FClose f :: r => o f = true /\ ops_valid maxfd (upd o f false) r
  end.

Lemma upd_ext : forall A (o o' : nat -> A) f v, (forall g, o g = o' g) -> forall g, upd o f v g = upd o' f v g.
Proof. intros. unfold upd. destruct (Nat.eqb g f); auto. Qed.

Lemma replay_ext : forall ops o o', (forall g, o g = o' g) -> forall g, replay o ops g = replay o' ops g.
Proof.
  induction ops as [|[f|f] r IH]; intros o o' H g; cbn [replay]; auto; apply IH; now apply upd_ext.
Qed.

Lemma ops_valid_ext : forall maxfd ops o o', (forall g, o g = o' g) -> ops_valid maxfd o ops -> ops_valid maxfd o' ops.
Proof.
  induction ops as [|[f|f] r IH]; intros o o' H V; cbn [ops_valid] in *; auto.
  - destruct V as [V1 V2]. split; [exact V1|]. eapply IH; [|exact V2]. now apply upd_ext.
  - destruct V as [V1 V2]. split; [now rewrite <- H|]. eapply IH; [|exact V2]. now apply upd_ext.
Qed.

Lemma run_fdops_ok : forall maxfd ops d, fds_inv maxfd d -> ops_valid maxfd (fopen d) ops ->
  exists d', run_fdops maxfd d ops = Some d' /\ fds_inv maxfd d' /\
             (forall g, fopen d' g = replay (fopen d) ops g).
Proof.
  induction ops as [|[f|f] r IH]; intros d Hinv V; cbn [ops_valid run_fdops replay] in *.
  - exists d. auto.
  - destruct V as [V1 V2].
    destruct (fd_open_ok maxfd d f Hinv V1) as (d1 & Ho & Hi & Hfl & _). rewrite Ho.
    destruct (IH d1 Hi) as (d' & Hr & Hi' & Hfl').
    { eapply ops_valid_ext; [|exact V2]. intros g. symmetry. apply Hfl. }
    exists d'. split; [exact Hr|]. split; [exact Hi'|]. intros g. rewrite Hfl'. now apply replay_ext.
  - destruct V as [V1 V2].
    destruct (fd_close_ok maxfd d f Hinv V1) as (d1 & Ho & Hi & Hfl & _). rewrite Ho.
    destruct (IH d1 Hi) as (d' & Hr & Hi' & Hfl').
    { rewrite Hfl. exact V2. }
    exists d'. split; [exact Hr|]. split; [exact Hi'|]. intros g. rewrite Hfl', Hfl. reflexivity.
Qed.

Lemma fds_empty_inv : forall maxfd, fds_inv maxfd fds_empty.
Proof.
  intros maxfd. unfold fds_inv, fds_empty. cbn [fnum fopen fbig]. split; [|split].
  - rewrite (count_ext maxfd _ (fun f => f <? 0)) by reflexivity. rewrite count_ltb by lia. reflexivity.
  - discriminate.
  - symmetry. apply lower_unique; [pose proof (Nat2Z.is_nonneg maxfd); lia|lia|discriminate].
Qed.

(* Number_FD and Biggest_FD after any valid sequence, from the empty table *)
Lemma fd_accounting : forall maxfd ops d,
  ops_valid maxfd (fun _ => false) ops -> run_fdops maxfd fds_empty ops = Some d ->
  (forall g, fopen d g = replay (fun _ => false) ops g) /\
  fnum d = Z.of_nat (count_open maxfd (fopen d)) /\
  (forall g, fopen d g = true -> (Z.of_nat g <= fbig d)%Z) /\
  ((0 <= fbig d)%Z -> fopen d (Z.to_nat (fbig d)) = true) /\
  (-1 <= fbig d < Z.of_nat maxfd)%Z.
Proof.
  intros maxfd ops d V R.
  destruct (run_fdops_ok maxfd ops fds_empty (fds_empty_inv maxfd) V) as (d' & R' & (Hn & Hb & Hg) & Hfl).
  rewrite R in R'. inversion R'; subst d'. split; [exact Hfl|]. split; [exact Hn|]. rewrite Hg.
  split; [intros g Ho; apply lower_max; auto|]. split; [apply lower_open|apply lower_range].
Qed.

Lemma fd_valid_never_asserts : forall maxfd ops,
  ops_valid maxfd (fun _ => false) ops -> run_fdops maxfd fds_empty ops <> None.
Proof.
  intros maxfd ops V.
  destruct (run_fdops_ok maxfd ops fds_empty (fds_empty_inv maxfd) V) as (d' & R' & _). congruence.
Qed.

(* fd_open on an entry that is already open ("WARNING: Closing open FD"): a close followed by an open *)
Lemma fd_open_on_open_entry : forall maxfd d f, fds_inv maxfd d -> fopen d f = true ->
  exists d', fd_open maxfd d f = Some d' /\ fds_inv maxfd d' /\ fnum d' = fnum d /\
             (forall g, fopen d' g = fopen d g).
Proof.
  intros maxfd d f Hinv Hf. destruct Hinv as (Hn & Hb & Hg). pose proof (Hb f Hf) as Hlt.
  destruct (fd_open_ok maxfd d f (conj Hn (conj Hb Hg)) Hlt) as (d' & Ho & Hi & Hfl & Hnum).
  exists d'. split; [exact Ho|]. split; [exact Hi|]. rewrite Hf in Hnum. split; [lia|].
  intros g. rewrite Hfl. unfold upd. destruct (Nat.eqb_spec g f); [subst; auto|reflexivity].
Qed.

(* ------------------------------------------------------------------ the protocol invariant *)
Definition is_complete (f : nat) (c : call) : bool :=
  match c with CComplete g => Nat.eqb g f | _ => false end.
Definition ncomplete (f : nat) (l : list call) : nat := length (filter (is_complete f) l).

Lemma ncomplete_app : forall f a b, ncomplete f (a ++ b) = ncomplete f a + ncomplete f b.
Proof. intros. unfold ncomplete. now rewrite filter_app, app_length. Qed.

Lemma ncomplete_handlers : forall f l, ncomplete f (map CHandler l) = 0.
Proof. induction l; cbn; auto. Qed.

Lemma ncomplete_one : forall f g, ncomplete f [CComplete g] = if Nat.eqb g f then 1 else 0.
Proof. intros. unfold ncomplete. cbn. destruct (Nat.eqb g f); reflexivity. Qed.

Lemma remove_first_in : forall f g l, In g (remove_first f l) -> In g l.
Proof.
  induction l as [|x r IH]; cbn; auto. destruct (Nat.eqb x f); cbn; intuition.
Qed.

Lemma remove_first_in_other : forall f g l, g <> f -> In g l -> In g (remove_first f l).
Proof.
  induction l as [|x r IH]; cbn; auto. intros Hne [->|Hin].
  - destruct (Nat.eqb_spec g f); [contradiction|]. now left.
  - destruct (Nat.eqb x f); [assumption|]. right. auto.
Qed.

Lemma remove_first_nodup : forall f l, NoDup l -> NoDup (remove_first f l) /\ ~ In f (remove_first f l).
Proof.
  induction l as [|x r IH]; intros ND; cbn.
  - split; [constructor|auto].
  - inversion ND as [|? ? Hx Hr]; subst. destruct (Nat.eqb_spec x f) as [->|Hne].
    + split; assumption.
    + destruct (IH Hr) as [I1 I2]. split.
      * constructor; [|assumption]. intros Hin. apply Hx. eapply remove_first_in; eauto.
      * intros [E|Hin]; [congruence|auto].
Qed.

Lemma remove_first_notin : forall f l, ~ In f l -> remove_first f l = l.
Proof.
  induction l as [|x r IH]; cbn; auto. intros H. destruct (Nat.eqb_spec x f) as [->|Hne].
  - exfalso. apply H. now left.
  - f_equal. apply IH. intros Hin. apply H. now right.
Qed.

Lemma remove_first_length : forall f l, In f l -> S (length (remove_first f l)) = length l.
Proof.
  induction l as [|x r IH]; cbn; [contradiction|]. intros H.
  destruct (Nat.eqb_spec x f) as [->|Hne]; [reflexivity|]. cbn. f_equal. apply IH. destruct H; [congruence|assumption].
Qed.

Lemma existsb_eqb_in : forall f l, existsb (Nat.eqb f) l = true <-> In f l.
Proof.
  intros. rewrite existsb_exists. split.
  - intros (x & Hin & E). apply Nat.eqb_eq in E. now subst.
  - intros Hin. exists f. split; [assumption|apply Nat.eqb_refl].
Qed.

Lemma owner_eqb_eq : forall a b, owner_eqb a b = true <-> a = b.
Proof.
  destruct a, b; cbn; split; intros H; try reflexivity; try discriminate;
    try (apply Nat.eqb_eq in H; now subst); try (inversion H; apply Nat.eqb_refl).
Qed.

Section ProtoProofs.
Variable maxfd : nat.
Variable ninfra : nat.
Variable reserved : Z.
Hypothesis Hinfra : ninfra <= maxfd.

(* what must hold for a descriptor that is open and not being closed *)
Definition act_ok (s : st) (f : nat) : Prop :=
  match own s f with
  | OInfra => True
  | OCli c => hs s f = [OCli c] /\ tmo s f = true /\ ~ In f (pool s)
  | OSrv c => hs s f = [OSrv c] /\ tmo s f = true /\ ~ In f (pool s)
  | OIdle => hs s f = [] /\ tmo s f = true /\ In f (pool s)
  | ONone => False
  end.

Record InvX (ex : nat -> Prop) (s : st) : Prop := {
  i_fds : fds_inv maxfd (tbl s);                                   (* Number_FD, Biggest_FD, table bounds *)
  i_kern : forall f, kern s f = fopen (tbl s) f;                   (* the kernel and the table agree *)
  i_infra : forall f, f < ninfra -> fopen (tbl s) f = true /\ closing s f = false /\ own s f = OInfra;
  i_infra2 : forall f, own s f = OInfra -> f < ninfra;
  i_closing : forall f, closing s f = true -> fopen (tbl s) f = true /\ hs s f = [] /\ tmo s f = false;
  i_q : forall f, ncomplete f (q s) = if closing s f then 1 else 0;  (* exactly one pending comm_close_complete *)
  i_act : forall f, ~ ex f -> active s f = true -> act_ok s f;
  i_pool : NoDup (pool s) /\ (forall f, In f (pool s) -> active s f = true /\ own s f = OIdle) /\
           pcount s = Z.of_nat (length (pool s));
  i_uniq : forall f g, active s f = true -> active s g = true -> own s f = own s g ->
                       is_job (own s f) = true -> f = g
}.

Definition Inv := InvX (fun _ => False).

Lemma active_spec : forall s f, active s f = true <-> fopen (tbl s) f = true /\ closing s f = false.
Proof. intros. unfold active. destruct (fopen (tbl s) f), (closing s f); cbn; intuition congruence. Qed.

Lemma find_own_some : forall s o f, find_own maxfd s o = Some f -> f < maxfd /\ active s f = true /\ own s f = o.
Proof.
  intros s o f H. unfold find_own in H. apply find_some in H. destruct H as [Hin Hp].
  apply in_seq in Hin. apply andb_true_iff in Hp. destruct Hp as [Ha Ho]. apply owner_eqb_eq in Ho.
  split; [lia|auto].
Qed.

Lemma find_own_none : forall s o, Inv s -> find_own maxfd s o = None -> forall g, active s g = true -> own s g <> o.
Proof.
  intros s o I H g Ha Ho. unfold find_own in H.
  assert (Hlt : g < maxfd).
  { apply active_spec in Ha. destruct Ha as [Hop _]. destruct (i_fds _ _ I) as (_ & Hb & _). auto. }
  pose proof (find_none _ _ H g ltac:(apply in_seq; lia)) as Hn. cbn beta in Hn.
  rewrite Ha in Hn. cbn [andb] in Hn. assert (owner_eqb (own s g) o = true) by (now apply owner_eqb_eq). congruence.
Qed.

Lemma alloc_some : forall s f, alloc maxfd s = Some f -> f < maxfd /\ kern s f = false.
Proof.
  intros s f H. unfold alloc in H. apply find_some in H. destruct H as [Hin Hp]. apply in_seq in Hin.
  split; [lia|]. destruct (kern s f); [discriminate|reflexivity].
Qed.

(* a job owner is never an infrastructure descriptor *)
Lemma job_not_infra : forall ex s f, InvX ex s -> own s f <> OInfra -> ninfra <= f.
Proof.
  intros ex s f I H. destruct (le_lt_dec ninfra f); [assumption|].
  destruct (i_infra _ _ I f l) as (_ & _ & E). congruence.
Qed.

(* ------------------------------------------------------------------ _comm_close *)
Lemma comm_close_inv : forall s f, InvX (eq f) s -> ~ In f (pool s) -> ninfra <= f -> Inv (comm_close s f).
Proof.
  intros s f I Hnp Hge. unfold comm_close.
  destruct (closing s f) eqn:Ec.
  { destruct I. constructor; auto. intros g _ Ha. apply i_act0; [|assumption].
    intros <-. apply active_spec in Ha. destruct Ha. congruence. }
  destruct (fopen (tbl s) f) eqn:Eo; cbn [negb].
  2:{ destruct I. constructor; auto. intros g _ Ha. apply i_act0; [|assumption].
      intros <-. apply active_spec in Ha. destruct Ha. congruence. }
  destruct I as [Ifds Ikern Iinfra Iinfra2 Iclosing Iq Iact Ipool Iuniq].
  assert (Hact : forall g, active (mkSt (tbl s) (kern s) (upd (closing s) f true) (own s) (upd (hs s) f [])
                                     (upd (tmo s) f false) (q s ++ map CHandler (hs s f) ++ [CComplete f]) (pool s) (pcount s)) g = true
                           -> g <> f /\ active s g = true).
  { intros g Ha. apply active_spec in Ha. cbn [tbl closing] in Ha. destruct Ha as [H1 H2].
    destruct (Nat.eq_dec g f) as [->|Hne]; [rewrite upd_same in H2; discriminate|].
    rewrite upd_other in H2 by assumption. split; [assumption|]. apply active_spec. auto. }
  constructor; cbn [tbl kern closing own hs tmo q pool pcount]; auto.
  - intros g Hg. destruct (Iinfra g Hg) as (A & B & C). rewrite upd_other by lia. auto.
  - intros g Hg. destruct (Nat.eq_dec g f) as [->|Hne].
    + rewrite !upd_same. auto.
    + rewrite !upd_other in * by assumption. auto.
  - intros g. rewrite !ncomplete_app, ncomplete_handlers, ncomplete_one, Iq.
    destruct (Nat.eq_dec g f) as [->|Hne].
    + rewrite upd_same, Ec, Nat.eqb_refl. reflexivity.
    + rewrite upd_other by assumption. destruct (Nat.eqb_spec f g); [congruence|]. lia.
  - intros g _ Ha. destruct (Hact g Ha) as [Hne Ha']. specialize (Iact g ltac:(congruence) Ha').
    unfold act_ok in *. cbn [own hs tmo pool]. rewrite !upd_other by assumption. exact Iact.
  - destruct Ipool as (P1 & P2 & P3). split; [assumption|]. split; [|assumption].
    intros g Hin. destruct (P2 g Hin) as [A B]. split; [|assumption].
    assert (g <> f) by congruence. apply active_spec in A. apply active_spec. cbn [tbl closing].
    rewrite upd_other by assumption. assumption.
  - intros g h Hg Hh. destruct (Hact g Hg), (Hact h Hh). apply Iuniq; assumption.
Qed.

(* the state between "the owner lets go of f" and comm_close(f): f's handler list and timeout are cleared and
   f is taken out of the pool *)
Definition detached (f : nat) (s s' : st) : Prop :=
  tbl s' = tbl s /\ kern s' = kern s /\ closing s' = closing s /\ own s' = own s /\ q s' = q s /\
  (forall g, g <> f -> hs s' g = hs s g /\ tmo s' g = tmo s g) /\
  pool s' = remove_first f (pool s) /\ pcount s' = Z.of_nat (length (pool s')).

Lemma detach_invx : forall s s' f, Inv s -> active s f = true -> detached f s s' ->
  InvX (eq f) s' /\ ~ In f (pool s').
Proof.
  intros s s' f I Ha (D1 & D2 & D3 & D4 & D5 & D6 & D7 & D8).
  destruct I as [Ifds Ikern Iinfra Iinfra2 Iclosing Iq Iact Ipool Iuniq].
  destruct Ipool as (P1 & P2 & P3). destruct (remove_first_nodup f _ P1) as [R1 R2].
  assert (Hactive : forall g, active s' g = active s g) by (intros; unfold active; now rewrite D1, D3).
  split; [|now rewrite D7].
  constructor; rewrite ?D1, ?D2, ?D3, ?D4, ?D5; auto.
  - intros g Hg. destruct (Iclosing g Hg) as (A & B & C).
    assert (g <> f). { intros ->. apply active_spec in Ha. destruct Ha. congruence. }
    destruct (D6 g H) as [E1 E2]. rewrite E1, E2. auto.
  - intros g Hne Hg. rewrite Hactive in Hg. specialize (Iact g (fun x => x) Hg).
    assert (Hgf : g <> f) by congruence. destruct (D6 g Hgf) as [E1 E2].
    unfold act_ok in *. rewrite D4, E1, E2, D7.
    destruct (own s g); auto; destruct Iact as (A & B & C); repeat split; auto.
    + intros Hin. apply C. eapply remove_first_in; eauto.
    + intros Hin. apply C. eapply remove_first_in; eauto.
    + now apply remove_first_in_other.
  - rewrite D7. split; [assumption|]. split; [|now rewrite D8, D7].
    intros g Hin. rewrite Hactive. apply P2. eapply remove_first_in; eauto.
  - intros g h Hg Hh. rewrite !Hactive in *. apply Iuniq; assumption.
Qed.

Lemma inv_weaken : forall s ex, Inv s -> InvX ex s.
Proof. intros s ex I. destruct I. constructor; auto. Qed.

(* HttpStateData::closeServer *)
Lemma close_server_inv : forall s f c, Inv s -> active s f = true -> own s f = OSrv c -> Inv (close_server s f).
Proof.
  intros s f c I Ha Ho. unfold close_server.
  pose proof (i_act _ _ I f (fun x => x) Ha) as Hact. unfold act_ok in Hact. rewrite Ho in Hact.
  destruct Hact as (H1 & H2 & H3).
  assert (D : detached f s (set_hs s (upd (hs s) f []))).
  { unfold detached, set_hs; cbn [tbl kern closing own hs tmo q pool pcount].
    repeat split; auto.
    - now rewrite upd_other.
    - now rewrite remove_first_notin.
    - apply (i_pool _ _ I). }
  destruct (detach_invx _ _ _ I Ha D) as [IX Hn].
  apply comm_close_inv; [assumption|assumption|].
  eapply job_not_infra; [exact I|congruence].
Qed.

(* comm_close of a descriptor owned by a job (handlers left in place: they are scheduled) *)
Lemma comm_close_job_inv : forall s f, Inv s -> active s f = true -> is_job (own s f) = true -> Inv (comm_close s f).
Proof.
  intros s f I Ha Hj.
  pose proof (i_act _ _ I f (fun x => x) Ha) as Hact. unfold act_ok in Hact.
  apply comm_close_inv.
  - now apply inv_weaken.
  - destruct (own s f); try discriminate; tauto.
  - eapply job_not_infra; [exact I|]. destruct (own s f); discriminate.
Qed.

(* IdleConnList::findAndClose *)
Lemma find_and_close_inv : forall s f, Inv s -> Inv (find_and_close s f).
Proof.
  intros s f I. unfold find_and_close. destruct (existsb (Nat.eqb f) (pool s)) eqn:E; [|assumption].
  apply existsb_eqb_in in E. destruct (i_pool _ _ I) as (P1 & P2 & P3). destruct (P2 f E) as [Ha Ho].
  match goal with |- Inv (comm_close ?x f) => set (s1 := x) end.
  assert (D : detached f s s1).
  { unfold detached, s1; cbn [tbl kern closing own hs tmo q pool pcount]. repeat split; auto.
    - now rewrite upd_other.
    - pose proof (remove_first_length f _ E). lia. }
  destruct (detach_invx _ _ _ I Ha D) as [IX Hn].
  apply comm_close_inv; [assumption|assumption|].
  eapply job_not_infra; [exact I|congruence].
Qed.

Definition ok (r : option st) : Prop := match r with Some s' => Inv s' | None => False end.

Definition set_q (s : st) (r : list call) : st :=
  mkSt (tbl s) (kern s) (closing s) (own s) (hs s) (tmo s) r (pool s) (pcount s).

Lemma dequeue_handler_inv : forall s o r, Inv s -> q s = CHandler o :: r -> Inv (set_q s r).
Proof.
  intros s o r I Hq. destruct I. unfold set_q. constructor; cbn [tbl kern closing own hs tmo q pool pcount]; auto.
  intros f. rewrite <- i_q0, Hq. reflexivity.
Qed.

(* comm_close_complete: fd_close + close(2) *)
Lemma close_complete_inv : forall s f r, Inv s -> q s = CComplete f :: r -> ok (close_complete maxfd (set_q s r) f).
Proof.
  intros s f r I Hq.
  destruct I as [Ifds Ikern Iinfra Iinfra2 Iclosing Iq Iact Ipool Iuniq].
  assert (Hc : closing s f = true).
  { pose proof (Iq f) as H. rewrite Hq in H. unfold ncomplete in H. cbn [filter is_complete] in H.
    rewrite Nat.eqb_refl in H. cbn [length] in H. destruct (closing s f); [reflexivity|discriminate]. }
  destruct (Iclosing f Hc) as (Ho & _ & _).
  unfold close_complete, set_q. cbn [tbl kern closing own hs tmo q pool pcount].
  destruct (fd_close_ok maxfd (tbl s) f Ifds Ho) as (d' & Hcl & Hi & Hfl & Hnum). rewrite Hcl. cbn [ok].
  assert (Hge : ninfra <= f).
  { destruct (le_lt_dec ninfra f); [assumption|]. destruct (Iinfra f l) as (_ & E & _). congruence. }
  assert (Hact : forall g, active (mkSt d' (upd (kern s) f false) (upd (closing s) f false) (upd (own s) f ONone)
                                     (upd (hs s) f []) (upd (tmo s) f false) r (pool s) (pcount s)) g = true
                           -> g <> f /\ active s g = true).
  { intros g Ha. apply active_spec in Ha. cbn [tbl closing] in Ha. rewrite Hfl in Ha. destruct Ha as [H1 H2].
    destruct (Nat.eq_dec g f) as [->|Hne]; [rewrite upd_same in H1; discriminate|].
    rewrite upd_other in H1, H2 by assumption. split; [assumption|]. apply active_spec. auto. }
  constructor; cbn [tbl kern closing own hs tmo q pool pcount]; auto.
  - intros g. rewrite Hfl. unfold upd. destruct (Nat.eqb g f); auto.
  - intros g Hg. destruct (Iinfra g Hg) as (A & B & C). rewrite Hfl, !upd_other by lia. auto.
  - intros g Hg. destruct (Nat.eq_dec g f) as [->|Hne]; [rewrite upd_same in Hg; discriminate|].
    rewrite upd_other in Hg by assumption. auto.
  - intros g Hg. destruct (Nat.eq_dec g f) as [->|Hne]; [rewrite upd_same in Hg; discriminate|].
    rewrite Hfl. rewrite !upd_other in * by assumption. auto.
  - intros g. pose proof (Iq g) as H. rewrite Hq in H. unfold ncomplete in H. cbn [filter is_complete] in H.
    destruct (Nat.eq_dec g f) as [->|Hne].
    + rewrite upd_same. rewrite Nat.eqb_refl, Hc in H. cbn [length] in H. unfold ncomplete. lia.
    + rewrite upd_other by assumption. destruct (Nat.eqb_spec f g); [congruence|]. exact H.
  - intros g _ Ha. destruct (Hact g Ha) as [Hne Ha']. specialize (Iact g (fun x => x) Ha').
    unfold act_ok in *. cbn [own hs tmo pool]. rewrite !upd_other by assumption. exact Iact.
  - destruct Ipool as (P1 & P2 & P3). split; [assumption|]. split; [|assumption].
    intros g Hin. destruct (P2 g Hin) as [A B].
    assert (g <> f). { intros ->. apply active_spec in A. destruct A. congruence. }
    rewrite upd_other by assumption. split; [|assumption].
    apply active_spec in A. apply active_spec. cbn [tbl closing]. rewrite Hfl, !upd_other by assumption. assumption.
  - intros g h Hg Hh. destruct (Hact g Hg) as [N1 A1], (Hact h Hh) as [N2 A2].
    rewrite !upd_other by assumption. apply Iuniq; assumption.
Qed.

(* accept(2)/socket(2) + fd_open + the owner job's close handler and timeout *)
Lemma open_new_inv : forall s f o, Inv s -> alloc maxfd s = Some f -> is_job o = true ->
  (forall g, active s g = true -> own s g <> o) -> ok (open_new maxfd s f o).
Proof.
  intros s f o I Hal Hj Hfresh.
  destruct (alloc_some _ _ Hal) as [Hlt Hk].
  destruct I as [Ifds Ikern Iinfra Iinfra2 Iclosing Iq Iact Ipool Iuniq].
  assert (Hop : fopen (tbl s) f = false) by (now rewrite <- Ikern).
  assert (Hcl : closing s f = false).
  { destruct (closing s f) eqn:E; [|reflexivity]. destruct (Iclosing f E). congruence. }
  assert (Hge : ninfra <= f).
  { destruct (le_lt_dec ninfra f); [assumption|]. destruct (Iinfra f l) as (E & _). congruence. }
  destruct Ipool as (P1 & P2 & P3).
  assert (Hnp : ~ In f (pool s)).
  { intros Hin. destruct (P2 f Hin) as [A _]. apply active_spec in A. destruct A. congruence. }
  unfold open_new. destruct (fd_open_ok maxfd (tbl s) f Ifds Hlt) as (d' & Hopn & Hi & Hfl & Hnum).
  rewrite Hopn. cbn [ok].
  assert (Hact : forall g, g <> f ->
     active (mkSt d' (upd (kern s) f true) (upd (closing s) f false) (upd (own s) f o)
                  (upd (hs s) f [o]) (upd (tmo s) f true) (q s) (pool s) (pcount s)) g = active s g).
  { intros g Hne. unfold active. cbn [tbl closing]. rewrite Hfl, !upd_other by assumption. reflexivity. }
  constructor; cbn [tbl kern closing own hs tmo q pool pcount]; auto.
  - intros g. rewrite Hfl. unfold upd. destruct (Nat.eqb g f); auto.
  - intros g Hg. destruct (Iinfra g Hg) as (A & B & C). rewrite Hfl, !upd_other by lia. auto.
  - intros g Hg. destruct (Nat.eq_dec g f) as [->|Hne].
    + rewrite upd_same in Hg. subst o. discriminate.
    + rewrite upd_other in Hg by assumption. auto.
  - intros g Hg. destruct (Nat.eq_dec g f) as [->|Hne]; [rewrite upd_same in Hg; discriminate|].
    rewrite Hfl. rewrite !upd_other in * by assumption. auto.
  - intros g. rewrite Iq. destruct (Nat.eq_dec g f) as [->|Hne].
    + now rewrite upd_same, Hcl.
    + now rewrite upd_other.
  - intros g _ Ha. destruct (Nat.eq_dec g f) as [->|Hne].
    + unfold act_ok. cbn [own hs tmo pool]. rewrite !upd_same. destruct o; try discriminate; auto.
    + rewrite Hact in Ha by assumption. specialize (Iact g (fun x => x) Ha).
      unfold act_ok in *. cbn [own hs tmo pool]. rewrite !upd_other by assumption. exact Iact.
  - split; [assumption|]. split; [|assumption]. intros g Hin. destruct (P2 g Hin) as [A B].
    assert (g <> f) by congruence. rewrite Hact, upd_other by assumption. auto.
  - intros g h Hg Hh Heq Hjob.
    destruct (Nat.eq_dec g f) as [->|Ng], (Nat.eq_dec h f) as [->|Nh]; auto.
    + rewrite upd_same, upd_other in Heq by assumption. rewrite Hact in Hh by assumption.
      exfalso. eapply Hfresh; eauto.
    + rewrite upd_same, upd_other in Heq by assumption. rewrite Hact in Hg by assumption.
      exfalso. eapply Hfresh; eauto.
    + rewrite !upd_other in * by assumption. rewrite Hact in Hg, Hh by assumption. apply Iuniq; assumption.
Qed.

(* COMPLETE_PERSISTENT_MSG -> PconnPool::push *)
Lemma pool_push_inv : forall s f c, Inv s -> active s f = true -> own s f = OSrv c ->
  Inv (pool_push maxfd reserved s f).
Proof.
  intros s f c I Ha Ho.
  pose proof (i_act _ _ I f (fun x => x) Ha) as Hact. unfold act_ok in Hact. rewrite Ho in Hact.
  destruct Hact as (H1 & H2 & H3).
  assert (Hge : ninfra <= f) by (eapply job_not_infra; [exact I|congruence]).
  unfold pool_push. destruct (fd_usage_high maxfd reserved (fnum (tbl s))).
  - match goal with |- Inv (comm_close ?x f) => set (s1 := x) end.
    assert (D : detached f s s1).
    { unfold detached, s1; cbn [tbl kern closing own hs tmo q pool pcount]. repeat split; auto.
      - now rewrite upd_other.
      - now rewrite upd_other.
      - now rewrite remove_first_notin.
      - apply (i_pool _ _ I). }
    destruct (detach_invx _ _ _ I Ha D) as [IX Hn]. apply comm_close_inv; assumption.
  - destruct I as [Ifds Ikern Iinfra Iinfra2 Iclosing Iq Iact Ipool Iuniq].
    destruct Ipool as (P1 & P2 & P3).
    assert (Hactive : forall g, active (mkSt (tbl s) (kern s) (closing s) (upd (own s) f OIdle) (upd (hs s) f [])
                                             (upd (tmo s) f true) (q s) (f :: pool s) (pcount s + 1)) g = active s g)
      by reflexivity.
    constructor; cbn [tbl kern closing own hs tmo q pool pcount]; auto.
    + intros g Hg. destruct (Iinfra g Hg) as (A & B & C). rewrite upd_other by lia. auto.
    + intros g Hg. destruct (Nat.eq_dec g f) as [->|Hne]; [rewrite upd_same in Hg; discriminate|].
      rewrite upd_other in Hg by assumption. auto.
    + intros g Hg. assert (g <> f). { intros ->. apply active_spec in Ha. destruct Ha. congruence. }
      rewrite !upd_other by assumption. auto.
    + intros g _ Hg. rewrite Hactive in Hg. destruct (Nat.eq_dec g f) as [->|Hne].
      * unfold act_ok. cbn [own hs tmo pool]. rewrite !upd_same. repeat split; auto. now left.
      * specialize (Iact g (fun x => x) Hg). unfold act_ok in *. cbn [own hs tmo pool].
        rewrite !upd_other by assumption.
        destruct (own s g); auto; destruct Iact as (A & B & C); repeat split; auto.
        -- intros [E|Hin]; [congruence|auto].
        -- intros [E|Hin]; [congruence|auto].
        -- now right.
    + split; [constructor; assumption|]. split.
      * intros g [<-|Hin]; [rewrite upd_same; auto|].
        destruct (P2 g Hin) as [A B]. assert (g <> f) by congruence. rewrite upd_other by assumption. auto.
      * cbn [length]. lia.
    + intros g h Hg Hh Heq Hjob. rewrite Hactive in Hg, Hh.
      destruct (Nat.eq_dec g f) as [->|Ng]; [rewrite upd_same in Hjob; discriminate|].
      destruct (Nat.eq_dec h f) as [->|Nh].
      * rewrite upd_same, upd_other in Heq by assumption. rewrite upd_other in Hjob by assumption.
        rewrite Heq in Hjob. discriminate.
      * rewrite !upd_other in * by assumption. apply Iuniq; assumption.
Qed.

(* PconnPool::pop with keepOpen: the newest idle connection becomes the server connection of transaction c *)
Lemma pop_keep_inv : forall s f rest c, Inv s -> pool s = f :: rest -> find_own maxfd s (OSrv c) = None ->
  Inv (mkSt (tbl s) (kern s) (closing s) (upd (own s) f (OSrv c)) (upd (hs s) f [OSrv c])
            (upd (upd (tmo s) f false) f true) (q s) rest (pcount s - 1)).
Proof.
  intros s f rest c I Hp Hnone.
  pose proof (find_own_none _ _ I Hnone) as Hfresh.
  destruct I as [Ifds Ikern Iinfra Iinfra2 Iclosing Iq Iact Ipool Iuniq].
  destruct Ipool as (P1 & P2 & P3). rewrite Hp in P1, P2, P3.
  destruct (P2 f ltac:(now left)) as [Ha Ho].
  inversion P1 as [|? ? Hnin Hnd]; subst.
  assert (Hge : ninfra <= f).
  { destruct (le_lt_dec ninfra f); [assumption|]. destruct (Iinfra f l) as (_ & _ & E). congruence. }
  constructor; cbn [tbl kern closing own hs tmo q pool pcount]; auto.
  - intros g Hg. destruct (Iinfra g Hg) as (A & B & C). rewrite upd_other by lia. auto.
  - intros g Hg. destruct (Nat.eq_dec g f) as [->|Hne]; [rewrite upd_same in Hg; discriminate|].
    rewrite upd_other in Hg by assumption. auto.
  - intros g Hg. assert (g <> f). { intros ->. apply active_spec in Ha. destruct Ha. congruence. }
    rewrite !upd_other by assumption. auto.
  - intros g _ Hg. change (active s g = true) in Hg. destruct (Nat.eq_dec g f) as [->|Hne].
    + unfold act_ok. cbn [own hs tmo pool]. rewrite !upd_same. auto.
    + specialize (Iact g (fun x => x) Hg). unfold act_ok in *. cbn [own hs tmo pool].
      rewrite !upd_other by assumption. rewrite Hp in Iact.
      destruct (own s g); auto; destruct Iact as (A & B & C); repeat split; auto.
      * intros Hin. apply C. now right.
      * intros Hin. apply C. now right.
      * destruct C; [congruence|assumption].
  - split; [assumption|]. split.
    + intros g Hin. destruct (P2 g ltac:(now right)) as [A B].
      assert (g <> f) by congruence. rewrite upd_other by assumption. auto.
    + cbn [length] in P3. lia.
  - intros g h Hg Hh Heq Hjob. change (active s g = true) in Hg. change (active s h = true) in Hh.
    destruct (Nat.eq_dec g f) as [->|Ng], (Nat.eq_dec h f) as [->|Nh]; auto.
    + rewrite upd_same, upd_other in Heq by assumption. exfalso. exact (Hfresh h Hh (eq_sym Heq)).
    + rewrite upd_same, upd_other in Heq by assumption. exfalso. exact (Hfresh g Hg Heq).
    + rewrite !upd_other in * by assumption. apply Iuniq; assumption.
Qed.

(* PconnPool::pop without keepOpen: the popped connection is closed *)
Lemma pop_kill_inv : forall s f rest, Inv s -> pool s = f :: rest ->
  Inv (comm_close (mkSt (tbl s) (kern s) (closing s) (own s) (hs s) (upd (tmo s) f false) (q s) rest (pcount s - 1)) f).
Proof.
  intros s f rest I Hp.
  destruct (i_pool _ _ I) as (P1 & P2 & P3). rewrite Hp in P2, P3.
  destruct (P2 f ltac:(now left)) as [Ha Ho].
  match goal with |- Inv (comm_close ?x f) => set (s1 := x) end.
  assert (D : detached f s s1).
  { unfold detached, s1; cbn [tbl kern closing own hs tmo q pool pcount]. repeat split; auto.
    - now rewrite upd_other.
    - rewrite Hp. cbn [remove_first]. now rewrite Nat.eqb_refl.
    - cbn [length] in P3. lia. }
  destruct (detach_invx _ _ _ I Ha D) as [IX Hn].
  apply comm_close_inv; [assumption|assumption|].
  eapply job_not_infra; [exact I|congruence].
Qed.

Lemma is_job_fresh : forall s o, Inv s -> find_own maxfd s o = None -> forall g, active s g = true -> own s g <> o.
Proof. intros. eapply find_own_none; eauto. Qed.

(* every event preserves the invariant, and no assertion of fd.cc fires *)
Lemma step_inv : forall s e, Inv s -> ok (step maxfd reserved s e).
Proof.
  intros s e I. destruct e as [c|c|c keep|c pers|c|c keep|c|f|f|f|ab]; unfold step.
  - (* EAccept *)
    destruct (find_own maxfd s (OCli c)) eqn:F; [exact I|].
    destruct (alloc maxfd s) eqn:A; [|exact I].
    apply open_new_inv; auto. eapply is_job_fresh; eauto.
  - (* EConnect *)
    destruct (find_own maxfd s (OSrv c)) eqn:F; [exact I|].
    destruct (alloc maxfd s) eqn:A; [|exact I].
    apply open_new_inv; auto. eapply is_job_fresh; eauto.
  - (* EPop *)
    destruct (pool s) as [|f rest] eqn:P; [exact I|].
    destruct keep.
    + destruct (find_own maxfd s (OSrv c)) eqn:F; [exact I|]. cbn [ok tbl kern closing own hs tmo q pool pcount].
      now apply pop_keep_inv.
    + cbn [ok]. now apply pop_kill_inv.
  - (* ESrvDone *)
    destruct (find_own maxfd s (OSrv c)) eqn:F; [|exact I].
    destruct (find_own_some _ _ _ F) as (_ & Ha & Ho). cbn [ok].
    destruct pers; [eapply pool_push_inv; eauto|eapply close_server_inv; eauto].
  - (* ESrvFail *)
    destruct (find_own maxfd s (OSrv c)) eqn:F; [|exact I].
    destruct (find_own_some _ _ _ F) as (_ & Ha & Ho). cbn [ok]. eapply close_server_inv; eauto.
  - (* ECliDone *)
    destruct (find_own maxfd s (OCli c)) eqn:F; [|exact I].
    destruct (find_own_some _ _ _ F) as (_ & Ha & Ho). cbn [ok].
    destruct keep; [exact I|]. apply comm_close_job_inv; auto. now rewrite Ho.
  - (* ECliEOF *)
    destruct (find_own maxfd s (OCli c)) eqn:F; [|exact I].
    destruct (find_own_some _ _ _ F) as (_ & Ha & Ho). cbn [ok].
    apply comm_close_job_inv; auto. now rewrite Ho.
  - (* ETimeout *)
    destruct (active s f && tmo s f) eqn:E; [|exact I].
    apply andb_true_iff in E. destruct E as [Ha Ht].
    destruct (own s f) eqn:Ho; cbn [ok]; try exact I.
    + apply comm_close_job_inv; auto. now rewrite Ho.
    + eapply close_server_inv; eauto.
    + now apply find_and_close_inv.
  - (* EIdleRead *)
    destruct (active s f) eqn:Ha; [|exact I].
    destruct (own s f) eqn:Ho; cbn [ok]; try exact I. now apply find_and_close_inv.
  - (* EClose *)
    destruct (active s f && is_job (own s f)) eqn:E; [|exact I].
    apply andb_true_iff in E. destruct E as [Ha Hj]. cbn [ok]. now apply comm_close_job_inv.
  - (* ERun *)
    destruct (q s) as [|[o|f] r] eqn:Q; [exact I| |].
    + pose proof (dequeue_handler_inv _ _ _ I Q) as I1. unfold set_q in I1.
      destruct o; try exact I1. destruct ab; [|exact I1].
      match goal with |- ok (match find_own maxfd ?x _ with _ => _ end) => set (s1 := x) in * end.
      destruct (find_own maxfd s1 (OSrv c)) eqn:F; [|exact I1].
      destruct (find_own_some _ _ _ F) as (_ & Ha & Ho). cbn [ok]. eapply close_server_inv; eauto.
    + now apply (close_complete_inv s f r).
Qed.

Lemma run_inv : forall evs s, Inv s -> ok (run maxfd reserved s evs).
Proof.
  induction evs as [|e r IH]; intros s I; cbn [run]; [exact I|].
  pose proof (step_inv s e I) as H. destruct (step maxfd reserved s e); [|contradiction]. now apply IH.
Qed.

Lemma init_inv : Inv (init ninfra).
Proof.
  unfold init. constructor; cbn [tbl kern closing own hs tmo q pool pcount fopen fnum fbig]; auto.
  - unfold fds_inv. cbn [fnum fopen fbig]. split; [|split].
    + now rewrite count_ltb.
    + intros f Hf. apply Nat.ltb_lt in Hf. lia.
    + symmetry. apply lower_unique.
      * lia.
      * intros Hp. apply Nat.ltb_lt. lia.
      * intros i _ Hi. apply Nat.ltb_lt in Hi. lia.
  - intros f Hf. apply Nat.ltb_lt in Hf. rewrite Hf. auto.
  - intros f Hf. destruct (f <? ninfra) eqn:E; [now apply Nat.ltb_lt|discriminate].
  - discriminate.
  - intros f _ Ha. unfold act_ok. cbn [own]. apply active_spec in Ha. cbn [tbl fopen] in Ha.
    destruct Ha as [Ha _]. now rewrite Ha.
  - split; [constructor|]. split; [contradiction|reflexivity].
  - intros f g Hf _ _ Hj. apply active_spec in Hf. cbn [tbl fopen] in Hf. destruct Hf as [Hf _].
    rewrite Hf in Hj. discriminate.
Qed.

(* reachable states *)
Lemma reachable_inv : forall evs s, run maxfd reserved (init ninfra) evs = Some s -> Inv s.
Proof.
  intros evs s H. pose proof (run_inv evs (init ninfra) init_inv) as R. rewrite H in R. exact R.
Qed.

Lemma never_asserts : forall evs, run maxfd reserved (init ninfra) evs <> None.
Proof.
  intros evs H. pose proof (run_inv evs (init ninfra) init_inv) as R. rewrite H in R. exact R.
Qed.

(* ------------------------------------------------------------------ quiescence *)
(* every open descriptor outside the infrastructure is being closed *)
Definition all_closing (s : st) : Prop :=
  forall f, fopen (tbl s) f = true -> f < ninfra \/ closing s f = true.

Lemma comm_close_effect : forall s f,
  tbl (comm_close s f) = tbl s /\
  (forall g, closing s g = true -> closing (comm_close s f) g = true) /\
  (fopen (tbl s) f = true -> closing (comm_close s f) f = true).
Proof.
  intros s f. unfold comm_close. destruct (closing s f) eqn:Ec; [auto|].
  destruct (fopen (tbl s) f) eqn:Eo; cbn [negb tbl closing].
  - split; [reflexivity|]. split; [|intros; apply upd_same].
    intros g Hg. destruct (Nat.eq_dec g f) as [->|Hne]; [apply upd_same|now rewrite upd_other].
  - split; [reflexivity|]. split; [auto|discriminate].
Qed.

Lemma timeout_step : forall s f, Inv s ->
  exists s', step maxfd reserved s (ETimeout f) = Some s' /\ Inv s' /\ tbl s' = tbl s /\
             (forall g, closing s g = true -> closing s' g = true) /\
             (fopen (tbl s) f = true -> f < ninfra \/ closing s' f = true).
Proof.
  intros s f I. pose proof (step_inv s (ETimeout f) I) as Hok. unfold step in *.
  destruct (active s f && tmo s f) eqn:E.
  - apply andb_true_iff in E. destruct E as [Ha Ht].
    pose proof (i_act _ _ I f (fun x => x) Ha) as Hact. unfold act_ok in Hact.
    destruct (own s f) eqn:Ho.
    + contradiction.
    + exists s. split; [reflexivity|]. split; [exact I|]. split; [reflexivity|]. split; [auto|].
      intros _. left. now apply (i_infra2 _ _ I).
    + eexists. split; [reflexivity|]. split; [exact Hok|].
      destruct (comm_close_effect s f) as (A & B & C). repeat split; auto.
    + eexists. split; [reflexivity|]. split; [exact Hok|]. unfold close_server.
      destruct (comm_close_effect (set_hs s (upd (hs s) f [])) f) as (A & B & C). repeat split; auto.
    + eexists. split; [reflexivity|]. split; [exact Hok|]. unfold find_and_close.
      destruct Hact as (_ & _ & Hin). apply existsb_eqb_in in Hin. rewrite Hin.
      match goal with |- context [comm_close ?x f] => destruct (comm_close_effect x f) as (A & B & C) end.
      repeat split; auto.
  - exists s. split; [reflexivity|]. split; [exact I|]. split; [reflexivity|]. split; [auto|]. intros Hop.
    apply andb_false_iff in E. destruct E as [E|E].
    + right. unfold active in E. rewrite Hop in E. cbn [andb] in E. destruct (closing s f); [reflexivity|discriminate].
    + destruct (closing s f) eqn:Ec; [now right|].
      assert (Ha : active s f = true) by (apply active_spec; auto).
      pose proof (i_act _ _ I f (fun x => x) Ha) as Hact. unfold act_ok in Hact.
      destruct (own s f) eqn:Ho; try (destruct Hact as (_ & T & _); congruence).
      * contradiction.
      * left. now apply (i_infra2 _ _ I).
Qed.

Lemma fire_list : forall l s, Inv s ->
  exists s1, run maxfd reserved s (map ETimeout l) = Some s1 /\ Inv s1 /\ tbl s1 = tbl s /\
             (forall g, closing s g = true -> closing s1 g = true) /\
             (forall f, In f l -> fopen (tbl s) f = true -> f < ninfra \/ closing s1 f = true).
Proof.
  induction l as [|f r IH]; intros s I; cbn [map run].
  - exists s. split; [reflexivity|]. split; [exact I|]. split; [reflexivity|]. split; [auto|]. contradiction.
  - destruct (timeout_step s f I) as (s' & Hs & I' & Ht & Hm & Hf). rewrite Hs.
    destruct (IH s' I') as (s1 & Hr & I1 & Ht1 & Hm1 & Hf1).
    exists s1. split; [exact Hr|]. split; [exact I1|]. split; [congruence|]. split; [auto|].
    intros g [<-|Hin] Hop.
    + destruct (Hf Hop) as [L|C]; [now left|right; auto].
    + apply Hf1; [assumption|]. now rewrite Ht.
Qed.

Lemma fire_timeouts_ok : forall s, Inv s ->
  exists s1, fire_timeouts maxfd reserved s = Some s1 /\ Inv s1 /\ all_closing s1.
Proof.
  intros s I. unfold fire_timeouts. destruct (fire_list (seq 0 maxfd) s I) as (s1 & Hr & I1 & Ht & _ & Hf).
  exists s1. split; [exact Hr|]. split; [exact I1|]. intros f Hop. rewrite Ht in Hop.
  apply Hf; [|assumption]. apply in_seq. destruct (i_fds _ _ I) as (_ & Hb & _). specialize (Hb f Hop). lia.
Qed.

Lemma run_step_allc : forall s c r, Inv s -> all_closing s -> q s = c :: r ->
  exists s1, step maxfd reserved s (ERun true) = Some s1 /\ Inv s1 /\ all_closing s1 /\ q s1 = r.
Proof.
  intros s c r I AC Hq. pose proof (step_inv s (ERun true) I) as Hok. unfold step in *. rewrite Hq in *.
  assert (Hnone : forall o, o <> OInfra ->
            find_own maxfd (mkSt (tbl s) (kern s) (closing s) (own s) (hs s) (tmo s) r (pool s) (pcount s)) o = None).
  { intros o Hne. match goal with |- ?x = None => destruct x eqn:F end; [|reflexivity].
    destruct (find_own_some _ _ _ F) as (_ & Ha & Ho). apply active_spec in Ha. cbn [tbl closing own] in *.
    destruct Ha as [A1 A2]. destruct (AC n A1) as [L|C]; [|congruence].
    destruct (i_infra _ _ I n L) as (_ & _ & E). congruence. }
  destruct c as [o|f].
  - assert (Hres : forall x, x = Some (mkSt (tbl s) (kern s) (closing s) (own s) (hs s) (tmo s) r (pool s) (pcount s)) ->
                   ok x -> exists s1, x = Some s1 /\ Inv s1 /\ all_closing s1 /\ q s1 = r).
    { intros x -> Hx. eexists. split; [reflexivity|]. split; [exact Hx|]. split; [exact AC|reflexivity]. }
    destruct o; try (apply Hres; [reflexivity|exact Hok]).
    rewrite Hnone in * by discriminate. apply Hres; [reflexivity|exact Hok].
  - unfold close_complete in *. cbn [tbl kern closing own hs tmo q pool pcount] in *.
    destruct (fd_close maxfd (tbl s) f) as [d|] eqn:Fc; [|contradiction].
    eexists. split; [reflexivity|]. split; [exact Hok|]. split; [|reflexivity].
    intros g Hop. cbn [tbl closing] in *.
    assert (Hcl : closing s f = true).
    { pose proof (i_q _ _ I f) as H. rewrite Hq in H. unfold ncomplete in H. cbn [filter is_complete] in H.
      rewrite Nat.eqb_refl in H. cbn [length] in H. destruct (closing s f); [reflexivity|discriminate]. }
    destruct (i_closing _ _ I f Hcl) as (Hof & _ & _).
    destruct (fd_close_ok maxfd (tbl s) f (i_fds _ _ I) Hof) as (d' & Hc' & _ & Hfl & _).
    rewrite Fc in Hc'. inversion Hc'; subst d'. rewrite Hfl in Hop.
    destruct (Nat.eq_dec g f) as [->|Hne]; [rewrite upd_same in Hop; discriminate|].
    rewrite upd_other in Hop |- * by assumption. now apply AC.
Qed.

Lemma drain_allc : forall n s, Inv s -> all_closing s -> length (q s) <= n ->
  exists s', drain maxfd reserved n s = Some s' /\ Inv s' /\ all_closing s' /\ q s' = [].
Proof.
  induction n as [|n IH]; intros s I AC Hl; cbn [drain].
  - exists s. split; [reflexivity|]. split; [exact I|]. split; [exact AC|]. destruct (q s); [reflexivity|cbn in Hl; lia].
  - destruct (q s) as [|c r] eqn:Hq; [exists s; auto|].
    destruct (run_step_allc s c r I AC Hq) as (s1 & Hs & I1 & AC1 & Hq1). rewrite Hs.
    apply IH; auto. rewrite Hq1. cbn in Hl. lia.
Qed.

(* the quiescent state: only the infrastructure descriptors are open, in the table and in the kernel *)
Definition quiescent (s : st) : Prop :=
  q s = [] /\ (forall f, fopen (tbl s) f = true <-> f < ninfra) /\
  (forall f, kern s f = fopen (tbl s) f) /\ (forall f, closing s f = false) /\
  fnum (tbl s) = Z.of_nat ninfra /\ fbig (tbl s) = (Z.of_nat ninfra - 1)%Z /\
  pool s = [] /\ pcount s = 0%Z.

Lemma allc_empty_quiescent : forall s, Inv s -> all_closing s -> q s = [] -> quiescent s.
Proof.
  intros s I AC Hq.
  assert (Hnc : forall f, closing s f = false).
  { intros f. pose proof (i_q _ _ I f) as H. rewrite Hq in H. cbn in H. destruct (closing s f); [discriminate|reflexivity]. }
  assert (Hopen : forall f, fopen (tbl s) f = true <-> f < ninfra).
  { intros f. split.
    - intros Hop. destruct (AC f Hop) as [L|C]; [assumption|]. rewrite Hnc in C. discriminate.
    - intros L. apply (i_infra _ _ I f L). }
  assert (Hext : forall i, i < maxfd -> fopen (tbl s) i = (i <? ninfra)).
  { intros i _. destruct (i <? ninfra) eqn:E.
    - apply Hopen. now apply Nat.ltb_lt.
    - destruct (fopen (tbl s) i) eqn:Eo; [|reflexivity]. apply Hopen in Eo. apply Nat.ltb_ge in E. lia. }
  destruct (i_fds _ _ I) as (Hn & Hb & Hg).
  assert (Hpool : pool s = []).
  { destruct (pool s) as [|f r] eqn:Hp; [reflexivity|].
    destruct (i_pool _ _ I) as (_ & P2 & _). rewrite Hp in P2. destruct (P2 f ltac:(now left)) as [A B].
    apply active_spec in A. destruct A as [A _]. apply Hopen in A.
    destruct (i_infra _ _ I f A) as (_ & _ & E). congruence. }
  repeat split; auto.
  - apply Hopen.
  - apply Hopen.
  - apply (i_kern _ _ I).
  - rewrite Hn, (count_ext maxfd _ (fun f => f <? ninfra)) by exact Hext. now rewrite count_ltb.
  - rewrite Hg. apply lower_unique.
    + lia.
    + intros Hp. apply Hopen. lia.
    + intros i _ Hi. apply Hopen in Hi. lia.
  - destruct (i_pool _ _ I) as (_ & _ & P3). rewrite P3, Hpool. reflexivity.
Qed.

Lemma settle_quiescent : forall s, Inv s -> exists s', settle maxfd reserved s = Some s' /\ Inv s' /\ quiescent s'.
Proof.
  intros s I. unfold settle. destruct (fire_timeouts_ok s I) as (s1 & Hf & I1 & AC1). rewrite Hf.
  destruct (drain_allc (length (q s1)) s1 I1 AC1 (le_n _)) as (s' & Hd & I' & AC' & Hq').
  exists s'. split; [exact Hd|]. split; [exact I'|]. now apply allc_empty_quiescent.
Qed.

(* after ANY history of events: when every armed timeout has fired and the call queue has run dry, exactly the
   descriptors that were open before traffic are open *)
Lemma quiescence : forall evs s, run maxfd reserved (init ninfra) evs = Some s ->
  exists s', settle maxfd reserved s = Some s' /\ quiescent s'.
Proof.
  intros evs s H. destruct (settle_quiescent s (reachable_inv evs s H)) as (s' & A & _ & B). eauto.
Qed.

Lemma init_quiescent : quiescent (init ninfra).
Proof.
  apply allc_empty_quiescent; [exact init_inv| |reflexivity].
  intros f Hf. left. cbn in Hf. now apply Nat.ltb_lt.
Qed.

(* with an empty call queue, every open descriptor is accounted for: infrastructure, a live job with an armed
   timeout and its close handler, or an idle pool entry with an armed timeout *)
Lemma no_orphans : forall s f, Inv s -> q s = [] -> fopen (tbl s) f = true ->
  kern s f = true /\ closing s f = false /\
  ((f < ninfra /\ own s f = OInfra) \/
   (exists c, (own s f = OCli c \/ own s f = OSrv c) /\ hs s f = [own s f] /\ tmo s f = true /\ ~ In f (pool s)) \/
   (own s f = OIdle /\ In f (pool s) /\ tmo s f = true /\ hs s f = [])).
Proof.
  intros s f I Hq Hop.
  assert (Hnc : closing s f = false).
  { pose proof (i_q _ _ I f) as H. rewrite Hq in H. cbn in H. destruct (closing s f); [discriminate|reflexivity]. }
  split; [now rewrite (i_kern _ _ I)|]. split; [exact Hnc|].
  assert (Ha : active s f = true) by (apply active_spec; auto).
  pose proof (i_act _ _ I f (fun x => x) Ha) as Hact. unfold act_ok in Hact.
  destruct (own s f) eqn:Ho.
  - contradiction.
  - left. split; [now apply (i_infra2 _ _ I)|reflexivity].
  - right. left. exists c. destruct Hact as (A & B & C). repeat split; auto.
  - right. left. exists c. destruct Hact as (A & B & C). repeat split; auto.
  - right. right. destruct Hact as (A & B & C). auto.
Qed.

(* one owner per descriptor, one descriptor per job *)
Lemma one_descriptor_per_job : forall s f g, Inv s -> active s f = true -> active s g = true ->
  own s f = own s g -> is_job (own s f) = true -> f = g.
Proof. intros s f g I. apply (i_uniq _ _ I). Qed.

(* the table, Number_FD, Biggest_FD and the kernel agree in every reachable state *)
Lemma reachable_accounting : forall evs s, run maxfd reserved (init ninfra) evs = Some s ->
  fnum (tbl s) = Z.of_nat (count_open maxfd (fopen (tbl s))) /\
  fbig (tbl s) = lower (fopen (tbl s)) maxfd /\
  (forall f, kern s f = fopen (tbl s) f) /\
  (forall f, fopen (tbl s) f = true -> f < maxfd) /\
  (forall f, ncomplete f (q s) = if closing s f then 1 else 0) /\
  pcount s = Z.of_nat (length (pool s)).
Proof.
  intros evs s H. pose proof (reachable_inv evs s H) as I. destruct (i_fds _ _ I) as (A & B & C).
  repeat split; auto; try apply I.
Qed.

(* closing a client connection from anywhere notifies its owner before the descriptor is released *)
Lemma close_notifies_owner : forall s f o, Inv s -> active s f = true -> own s f = o -> is_job o = true ->
  exists s', step maxfd reserved s (EClose f) = Some s' /\
             q s' = q s ++ [CHandler o; CComplete f] /\ closing s' f = true /\ fopen (tbl s') f = true.
Proof.
  intros s f o I Ha Ho Hj. unfold step. rewrite Ha, Ho, Hj. cbn [andb].
  pose proof (i_act _ _ I f (fun x => x) Ha) as Hact. unfold act_ok in Hact. rewrite Ho in Hact.
  assert (Hh : hs s f = [o]) by (destruct o; try discriminate; tauto).
  eexists. split; [reflexivity|]. apply active_spec in Ha. destruct Ha as [A B].
  unfold comm_close. rewrite B, A. cbn [negb q closing tbl]. rewrite Hh, upd_same. auto.
Qed.

(* when the client's close handler runs and the transaction is aborted, its server connection is released too *)
Lemma owner_end_releases_server : forall s c r f, Inv s -> q s = CHandler (OCli c) :: r ->
  active s f = true -> own s f = OSrv c ->
  exists s', step maxfd reserved s (ERun true) = Some s' /\ closing s' f = true /\
             q s' = r ++ [CComplete f].
Proof.
  intros s c r f I Hq Ha Ho. unfold step. rewrite Hq.
  pose proof (dequeue_handler_inv _ _ _ I Hq) as I1. unfold set_q in I1.
  match goal with |- context [find_own maxfd ?x _] => set (s1 := x) in * end.
  destruct (find_own maxfd s1 (OSrv c)) as [g|] eqn:F.
  - destruct (find_own_some _ _ _ F) as (_ & Hag & Hog).
    assert (g = f).
    { apply (i_uniq _ _ I1 g f); auto. rewrite Hog. exact (eq_sym Ho). now rewrite Hog. }
    subst g. eexists. split; [reflexivity|]. unfold close_server.
    apply active_spec in Hag. destruct Hag as [A B]. unfold comm_close.
    cbn [closing tbl set_hs hs q] in *. rewrite B, A. cbn [negb closing q hs]. rewrite !upd_same. auto.
  - exfalso. eapply (find_own_none _ _ I1 F f); auto.
Qed.

(* PconnPool::push refuses (closes) the connection when descriptor usage is high *)
Lemma push_refused_when_fd_usage_high : forall s c f, Inv s -> find_own maxfd s (OSrv c) = Some f ->
  fd_usage_high maxfd reserved (fnum (tbl s)) = true ->
  exists s', step maxfd reserved s (ESrvDone c true) = Some s' /\ pool s' = pool s /\ closing s' f = true.
Proof.
  intros s c f I F Hh. unfold step. rewrite F. destruct (find_own_some _ _ _ F) as (_ & Ha & Ho).
  eexists. split; [reflexivity|]. unfold pool_push. rewrite Hh.
  apply active_spec in Ha. destruct Ha as [A B]. unfold comm_close. cbn [closing tbl]. rewrite B, A.
  cbn [negb pool closing]. rewrite upd_same. auto.
Qed.

(* ------------------------------------------------------------------ the history driver of the runner *)
Lemma drain_inv : forall n s, Inv s -> ok (drain maxfd reserved n s).
Proof.
  induction n as [|n IH]; intros s I; cbn [drain]; [exact I|].
  destruct (q s); [exact I|].
  pose proof (step_inv s (ERun true) I) as H. destruct (step maxfd reserved s (ERun true)); [|contradiction].
  now apply IH.
Qed.

Lemma run_macro_inv : forall s m, Inv s -> ok (run_macro maxfd reserved s m).
Proof.
  intros s m I. destruct m as [e|c retr| |]; unfold run_macro.
  - now apply step_inv.
  - destruct (pool s); [now apply step_inv|]. destruct retr; [now apply step_inv|].
    pose proof (step_inv s (EPop c false) I) as H.
    destruct (step maxfd reserved s (EPop c false)); [|contradiction]. now apply step_inv.
  - destruct (pool s); [exact I|now apply step_inv].
  - now apply drain_inv.
Qed.

Lemma run_macros_inv : forall ms s, Inv s -> ok (run_macros maxfd reserved s ms).
Proof.
  induction ms as [|m r IH]; intros s I; cbn [run_macros]; [exact I|].
  pose proof (run_macro_inv s m I) as H. destruct (run_macro maxfd reserved s m); [|contradiction]. now apply IH.
Qed.

Lemma run_seq_inv : forall txs s, Inv s ->
  match run_seq maxfd reserved s txs with Some (s', _) => Inv s' | None => False end.
Proof.
  induction txs as [|t r IH]; intros s I; cbn [run_seq]; [exact I|].
  pose proof (run_macros_inv (t ++ [MDrain]) s I) as H.
  destruct (run_macros maxfd reserved s (t ++ [MDrain])) as [s1|]; [|contradiction].
  specialize (IH s1 H). destruct (run_seq maxfd reserved s1 r) as [[s2 l]|]; [exact IH|contradiction].
Qed.

Lemma observe_quiescent : forall s, quiescent s ->
  qo_leak (observe maxfd (init ninfra) s) = 0%Z /\ qo_kleak (observe maxfd (init ninfra) s) = 0%Z /\
  qo_acct (observe maxfd (init ninfra) s) = true /\ qo_idle (observe maxfd (init ninfra) s) = 0 /\
  qo_queue (observe maxfd (init ninfra) s) = 0.
Proof.
  intros s (Hq & Hop & Hk & Hc & Hn & Hb & Hp & Hpc).
  assert (Hext : forall i, i < maxfd -> fopen (tbl s) i = (i <? ninfra)).
  { intros i _. destruct (i <? ninfra) eqn:E.
    - apply Hop. now apply Nat.ltb_lt.
    - destruct (fopen (tbl s) i) eqn:Eo; [|reflexivity]. apply Hop in Eo. apply Nat.ltb_ge in E. lia. }
  assert (C1 : count_open maxfd (fopen (tbl s)) = ninfra).
  { rewrite (count_ext maxfd _ (fun f => f <? ninfra)) by exact Hext. now apply count_ltb. }
  assert (C2 : count_open maxfd (kern s) = ninfra).
  { rewrite (count_ext maxfd _ (fopen (tbl s))) by (intros; apply Hk). exact C1. }
  assert (C3 : count_open maxfd (fun f => f <? ninfra) = ninfra) by now apply count_ltb.
  unfold observe. cbn [qo_leak qo_kleak qo_acct qo_idle qo_queue init tbl kern fnum].
  rewrite C1, C2, C3, Hn, Hp, Hq. rewrite Z.eqb_refl, Nat.eqb_refl. cbn [andb length].
  repeat split; lia.
Qed.

(* the prediction printed by the runner: for EVERY list of transactions the model runs without a failed assertion
   and ends with no extra descriptor, consistent accounting, an empty pool and an empty call queue *)
Lemma hist_prediction : forall seqmode txs,
  exists o idle, hist_result maxfd ninfra reserved seqmode txs = Some (o, idle) /\
                 qo_leak o = 0%Z /\ qo_kleak o = 0%Z /\ qo_acct o = true /\ qo_idle o = 0 /\ qo_queue o = 0.
Proof.
  intros seqmode txs. unfold hist_result. destruct seqmode.
  - pose proof (run_seq_inv txs (init ninfra) init_inv) as H.
    destruct (run_seq maxfd reserved (init ninfra) txs) as [[s1 idle]|]; [|contradiction].
    destruct (settle_quiescent s1 H) as (s2 & Hs & _ & Q). rewrite Hs.
    exists (observe maxfd (init ninfra) s2), idle. split; [reflexivity|]. now apply observe_quiescent.
  - pose proof (run_macros_inv (rr (length (concat txs)) txs) (init ninfra) init_inv) as H.
    destruct (run_macros maxfd reserved (init ninfra) (rr (length (concat txs)) txs)) as [s1|]; [|contradiction].
    destruct (settle_quiescent s1 H) as (s2 & Hs & _ & Q). rewrite Hs.
    exists (observe maxfd (init ninfra) s2), []. split; [reflexivity|]. now apply observe_quiescent.
Qed.

End ProtoProofs.

(* ------------------------------------------------------------------ _comm_close in isolation *)
Lemma comm_close_idempotent : forall s f, comm_close (comm_close s f) f = comm_close s f.
Proof.
  intros s f.
  assert (H : forall s', closing s' f = true -> comm_close s' f = s').
  { intros s' Hc. unfold comm_close. now rewrite Hc. }
  destruct (closing s f) eqn:Ec.
  - now rewrite !(H s Ec).
  - destruct (fopen (tbl s) f) eqn:Eo.
    + apply H. unfold comm_close. rewrite Ec, Eo. cbn [negb closing]. apply upd_same.
    + assert (E : comm_close s f = s) by (unfold comm_close; now rewrite Ec, Eo). now rewrite !E.
Qed.

(* the close handlers are scheduled once each, in list order (most recently added first), followed by
   comm_close_complete; the handler list is left empty and the timeout removed *)
Lemma comm_close_schedules : forall s f, active s f = true ->
  q (comm_close s f) = q s ++ map CHandler (hs s f) ++ [CComplete f] /\
  hs (comm_close s f) f = [] /\ tmo (comm_close s f) f = false /\ closing (comm_close s f) f = true.
Proof.
  intros s f Ha. apply andb_true_iff in Ha. destruct Ha as [Ho Hc].
  unfold comm_close. destruct (closing s f); [discriminate|]. rewrite Ho. cbn [negb q hs tmo closing].
  rewrite !upd_same. auto.
Qed.

(* ------------------------------------------------------------------ statements over reachable states *)
Section Reach.
Variable maxfd : nat.
Variable ninfra : nat.
Variable reserved : Z.
Hypothesis Hinfra : ninfra <= maxfd.

Definition reachable (s : st) : Prop := exists evs, run maxfd reserved (init ninfra) evs = Some s.

Lemma reach_inv : forall s, reachable s -> Inv maxfd ninfra s.
Proof. intros s [evs H]. eapply reachable_inv; eauto. Qed.

Lemma reach_step : forall s e, reachable s -> exists s', step maxfd reserved s e = Some s' /\ reachable s'.
Proof.
  intros s e [evs H]. pose proof (step_inv maxfd ninfra reserved Hinfra s e (reachable_inv _ _ _ Hinfra evs s H)) as Hok.
  destruct (step maxfd reserved s e) as [s'|] eqn:E; [|contradiction].
  exists s'. split; [reflexivity|]. exists (evs ++ [e]).
  clear Hok. revert H. generalize (init ninfra). induction evs as [|x r IH]; intros s0 H; cbn [run app] in *.
  - inversion H; subst. now rewrite E.
  - destruct (step maxfd reserved s0 x); [now apply IH|discriminate].
Qed.

Lemma reach_quiescence : forall s, reachable s -> exists s', settle maxfd reserved s = Some s' /\ quiescent ninfra s'.
Proof. intros s [evs H]. eapply quiescence; eauto. Qed.

Lemma reach_no_orphans : forall s f, reachable s -> q s = [] -> fopen (tbl s) f = true ->
  kern s f = true /\ closing s f = false /\
  ((f < ninfra /\ own s f = OInfra) \/
   (exists c, (own s f = OCli c \/ own s f = OSrv c) /\ hs s f = [own s f] /\ tmo s f = true /\ ~ In f (pool s)) \/
   (own s f = OIdle /\ In f (pool s) /\ tmo s f = true /\ hs s f = [])).
Proof. intros s f R. apply (no_orphans maxfd ninfra). now apply reach_inv. Qed.

Lemma reach_one_descriptor_per_job : forall s f g, reachable s -> active s f = true -> active s g = true ->
  own s f = own s g -> is_job (own s f) = true -> f = g.
Proof. intros s f g R. apply (one_descriptor_per_job maxfd ninfra). now apply reach_inv. Qed.

Lemma reach_close_notifies_owner : forall s f o, reachable s -> active s f = true -> own s f = o -> is_job o = true ->
  exists s', step maxfd reserved s (EClose f) = Some s' /\
             q s' = q s ++ [CHandler o; CComplete f] /\ closing s' f = true /\ fopen (tbl s') f = true.
Proof. intros s f o R. apply (close_notifies_owner maxfd ninfra). now apply reach_inv. Qed.

Lemma reach_owner_end_releases_server : forall s c r f, reachable s -> q s = CHandler (OCli c) :: r ->
  active s f = true -> own s f = OSrv c ->
  exists s', step maxfd reserved s (ERun true) = Some s' /\ closing s' f = true /\ q s' = r ++ [CComplete f].
Proof. intros s c r f R. apply (owner_end_releases_server maxfd ninfra reserved Hinfra). now apply reach_inv. Qed.

Lemma reach_push_refused : forall s c f, reachable s -> find_own maxfd s (OSrv c) = Some f ->
  fd_usage_high maxfd reserved (fnum (tbl s)) = true ->
  exists s', step maxfd reserved s (ESrvDone c true) = Some s' /\ pool s' = pool s /\ closing s' f = true.
Proof. intros s c f R. apply (push_refused_when_fd_usage_high maxfd ninfra reserved Hinfra). now apply reach_inv. Qed.

(* a pending comm_close_complete exists for exactly the descriptors being closed, so each close(2) happens once *)
Lemma reach_close_once : forall s f, reachable s ->
  ncomplete f (q s) = (if closing s f then 1 else 0) /\
  (closing s f = true -> fopen (tbl s) f = true /\ hs s f = [] /\ tmo s f = false).
Proof.
  intros s f R. pose proof (reach_inv s R) as I. split; [apply (i_q _ _ _ _ I)|apply (i_closing _ _ _ _ I)].
Qed.

End Reach.
