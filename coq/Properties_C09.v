(* Properties_C09.v -- C09: adversarial HTTP peers cannot cause memory errors or crashes.
   Statements only; proofs live in AdversarialHttpProofs.v (compositions) and in the proof files of the imported
   parser models: ReqparseProofs.v (C21/C22/C62), RespparseProofs.v (C23), ChunkedProofs.v (C24).

   The models are total functions over byte lists: their only way to look at the input is list pattern matching, so
   "no access outside the received bytes" is a property of their RESULTS -- what they consume, keep and hand on is
   always a piece of what they were given.  That is what is stated here, for ALL byte streams; that the C++ parsers
   compute the same results without touching other memory rests on the sanitizer-backed correspondence
   (checks/c09.py) -- hence "partial". *)
Require Import SquidV.Bytes SquidV.TokModel SquidV.Incremental SquidV.ReqparseModel SquidV.ReqparseProofs.
Require Import SquidV.gen.CharSets_gen SquidV.gen.ReqTabs_gen.
Require Import SquidV.AdversarialHttpProofs.
Require SquidV.RespparseModel SquidV.RespparseProofs SquidV.ChunkedModel SquidV.ChunkedProofs.
Module RS := SquidV.RespparseModel.
Module RP := SquidV.RespparseProofs.
Module CM := SquidV.ChunkedModel.
Module CP := SquidV.ChunkedProofs.
Local Open Scope N_scope.

(* --- client side: every request byte stream, in every segmentation, ends in exactly one of
       accept (a split of the received bytes) / reject with 400, 414 or 431 (an HTTP response) / wait below the limit ---
   [request_outcome_ok limit input o]:
     Done f rest : exists lead line block, input = lead ++ line ++ [10] ++ block ++ rest /\ |line| < limit /\ ...
     Bad (c, _)  : c = 400 \/ c = 414 \/ c = 431
     More _ keep : |keep| < limit *)
Theorem C09_request_stream_accept_reject_or_wait_partial : forall relaxed limit, req_max_method + 2 <= limit ->
  forall segs, segs <> [] -> lenN (concat segs) <= npos ->
  request_outcome_ok limit (concat segs) (parse_segments relaxed limit segs).
Proof. exact request_stream_trichotomy. Qed.
Print Assumptions C09_request_stream_accept_reject_or_wait_partial.

(* --- server side: the decision on a reply head (HttpStateData::processReplyHeader -> grabMimeBlock) for EVERY buffer:
       relay n bytes with n inside the buffer and the limit / too big (502) / wait below the limit --- *)
Theorem C09_reply_head_relay_toobig_or_wait_partial : forall limit fls buf,
  match resp_head_decision limit fls buf with
  | RHrelay n => fls + n < limit /\ 0 < n /\ n <= lenN buf
  | RHtoobig => True
  | RHmore => lenN buf + fls < limit
  end.
Proof. exact reply_head_trichotomy. Qed.
Print Assumptions C09_reply_head_relay_toobig_or_wait_partial.

(* --- an accepted reply head is HTTP/0.9 gatewaying of the untouched buffer or a split of the received bytes --- *)
Theorem C09_accepted_reply_head_is_a_split_of_the_input_partial : forall relaxed limit b f rest, lenN b < npos ->
  RS.step relaxed limit RS.pst0 b = RS.Done f rest ->
  (RP.no_magic_relation b /\ f = RP.gateway_fields /\ rest = b) \/
  (exists line proto major minor status reason block,
     b = line ++ block ++ rest /\ RP.status_line relaxed line proto major minor status reason /\
     RP.ends_with_empty_line block /\
     RS.f_proto f = proto /\ RS.f_major f = major /\ RS.f_minor f = minor /\ RS.f_status f = status /\
     RS.f_reason f = reason).
Proof. exact RP.accepted_reply_shape. Qed.
Print Assumptions C09_accepted_reply_head_is_a_split_of_the_input_partial.

(* --- chunked bodies (from either peer): for every well-formed encoding followed by arbitrary bytes, under every
       read / output-space schedule, the decoder never produces more than the body and never uses more than it was given --- *)
Theorem C09_chunked_decoder_never_overruns_partial : forall relaxed m, CP.message_ok m -> forall tail sched rest,
  CP.segs sched ++ rest = CP.encode m ++ tail ->
  let r := CM.run_chunked relaxed sched in
  (CM.r_status r = CM.RDone /\ CM.r_out r = CP.body m /\
   exists used later, CP.segs sched = used ++ later /\ used = CP.encode m ++ CM.r_rest r)
  \/ (CM.r_status r = CM.RMore /\ exists B', CP.body m = CM.r_out r ++ B').
Proof. exact CP.dechunk_safe. Qed.
Print Assumptions C09_chunked_decoder_never_overruns_partial.

(* --- the hypotheses are satisfiable --- *)
Example C09_request_example_accepted_in_two_segments : exists f,
  parse_segments true 64 [[71;69;84;32;47;97;32;72;84;84]; [80;47;49;46;49;13;10;72;58;32;118;13;10;13;10]] = Done f [].
Proof. eexists. vm_compute. reflexivity. Qed.

Example C09_request_example_rejected_431 : exists f,
  parse_segments true 64 [[71;69;84;32;47;97;32;72;84;84;80;47;49;46;49;13;10;72;58;32]; repeat 118 44 ++ [13;10;13;10]]
  = Bad (rq_sc_fields_too_large, f).
Proof. eexists. vm_compute. reflexivity. Qed.
