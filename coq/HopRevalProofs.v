Require Import SquidV.Bytes SquidV.HopModel SquidV.HopProofs SquidV.CondModel SquidV.HopRevalModel.
Require Import SquidV.gen.HdrTable_gen.
Local Open Scope N_scope.

Lemma map_snd_tag_from {A} (l : list A) i : map snd (tag_from i l) = l.
Proof. revert i; induction l as [|x r IH]; intros i; cbn [tag_from map snd]; [reflexivity|now rewrite IH]. Qed.

Lemma filter_map_snd {A} (p : A -> bool) (l : list (N * A)) :
  map snd (filter (fun q => p (snd q)) l) = filter p (map snd l).
Proof. induction l as [|[i x] r IH]; cbn [filter map snd]; [reflexivity|]. destruct (p x); cbn [map snd]; now rewrite IH. Qed.

(* sequential deletion = one filter against all non-skipped fresh entries *)
Lemma filter_true {A} (l : list A) : filter (fun _ => true) l = l.
Proof. induction l as [|x r IH]; cbn [filter]; [reflexivity|now rewrite IH]. Qed.

Lemma filter_filter {A} (p q : A -> bool) l : filter p (filter q l) = filter (fun x => q x && p x) l.
Proof.
  induction l as [|x r IH]; cbn [filter]; [reflexivity|].
  destruct (q x); cbn [filter andb]; [destruct (p x); now rewrite IH|exact IH].
Qed.

Lemma filter_ext' {A} (p q : A -> bool) l : (forall x, p x = q x) -> filter p l = filter q l.
Proof. intros H. induction l as [|x r IH]; cbn [filter]; [reflexivity|]. rewrite H, IH. reflexivity. Qed.

Lemma update_delete_sk_filter sk fresh : forall cur,
  update_delete_sk sk fresh cur =
  filter (fun h => negb (existsb (fun e => negb (sk e) && deleted_by e h) fresh)) cur.
Proof.
  induction fresh as [|e r IH]; intros cur; cbn [update_delete_sk existsb].
  - cbn [negb]. now rewrite filter_true.
  - destruct (sk e) eqn:Es; cbn [negb andb orb].
    + apply IH.
    + rewrite IH, filter_filter. apply filter_ext'. intros h.
      destruct (deleted_by e h); cbn [negb andb orb]; reflexivity.
Qed.
Lemma update_delete_filter fresh cur :
  update_delete fresh cur =
  filter (fun h => negb (existsb (fun e => negb (skip_entry fresh e) && deleted_by e h) fresh)) cur.
Proof. unfold update_delete. apply update_delete_sk_filter. Qed.

(* the index-tracking merge is HttpHeader::update (CondModel.hdr_update) *)
Theorem merged_tagged_is_update old fresh : map snd (merged_tagged old fresh) = hdr_update old fresh.
Proof.
  unfold merged_tagged, hdr_update, update_added. rewrite map_app.
  rewrite (filter_map_snd (fun h => negb (existsb (fun e => negb (skip_entry fresh e) && deleted_by e h) fresh))).
  rewrite (filter_map_snd (fun h => negb (skip_entry fresh h))).
  rewrite !map_snd_tag_from. now rewrite update_delete_filter.
Qed.

(* after a revalidation the client still receives no hop-by-hop / Connection-named field: the response
   filter guarantee applies to the merged header whatever the stored and the 304 header sets were *)
Theorem reval_filter_sound old fresh e :
  In e (resp_filter false (hdr_update old fresh)) ->
  is_hopbyhop (hdr_id e) = false /\
  (hdr_id e =? ID_PROXY_AUTHENTICATE) = false /\
  is_member (conn_value (filter (fun h => negb (hdr_id h =? ID_PROXY_AUTHENTICATE)) (hdr_update old fresh))) (h_name e) = false /\
  (In e old \/ In e fresh).
Proof.
  intros H. apply resp_filter_sound in H. destruct H as (H1 & H2 & H3 & H4).
  repeat split; try assumption.
  unfold hdr_update in H4. apply in_app_or in H4. destruct H4 as [H4|H4].
  - left. rewrite update_delete_filter in H4. apply filter_In in H4. tauto.
  - right. unfold update_added in H4. apply filter_In in H4. tauto.
Qed.

(* ---- repaired update() (/repo 5d5369d): the 304's hop-by-hop fields, its Connection field included, are skipped ---- *)
Lemma connection_is_hopbyhop : is_hopbyhop ID_CONNECTION = true.
Proof. vm_compute. reflexivity. Qed.
Lemma connection_not_other : (ID_CONNECTION =? hdr_OTHER) = false.
Proof. vm_compute. reflexivity. Qed.
Lemma connection_not_pa : (ID_CONNECTION =? ID_PROXY_AUTHENTICATE) = false.
Proof. vm_compute. reflexivity. Qed.

(* a non-skipped 304 field never deletes a stored Connection entry *)
Lemma connection_not_deleted fresh e c :
  hdr_id c = ID_CONNECTION -> skip_entry fresh e = false -> deleted_by e c = false.
Proof.
  intros Hc Hs. unfold skip_entry in Hs. apply orb_false_iff in Hs. destruct Hs as [Hs _].
  apply orb_false_iff in Hs. destruct Hs as [_ Hh].
  unfold deleted_by. destruct (hdr_id e =? hdr_OTHER) eqn:Eo; cbn [negb].
  - destruct (ci_eqb (h_name c) (h_name e)) eqn:Ec; [|reflexivity].
    exfalso. assert (Hid : hdr_id c = hdr_id e) by (unfold hdr_id; now apply lookup_id_ci).
    apply N.eqb_eq in Eo. rewrite <- Hid, Hc in Eo. pose proof connection_not_other as Hn.
    apply N.eqb_neq in Hn. contradiction.
  - destruct (hdr_id c =? hdr_id e) eqn:Ei; [|reflexivity]. exfalso.
    apply N.eqb_eq in Ei. rewrite <- Ei, Hc, connection_is_hopbyhop in Hh. discriminate.
Qed.
Lemma existsb_all_false {A} (f : A -> bool) l : (forall x, f x = false) -> existsb f l = false.
Proof. intros H. induction l as [|x r IH]; cbn [existsb]; [reflexivity|]. now rewrite H, IH. Qed.
Lemma connection_survives_pred fresh c :
  hdr_id c = ID_CONNECTION ->
  negb (existsb (fun e => negb (skip_entry fresh e) && deleted_by e c) fresh) = true.
Proof.
  intros Hc. apply negb_true_iff. apply existsb_all_false. intros e.
  destruct (skip_entry fresh e) eqn:Es; cbn [negb andb]; [reflexivity|]. now apply (connection_not_deleted fresh).
Qed.

(* the stored Connection entries survive the update: they keep nominating the stored hop-by-hop fields *)
Theorem reval_stored_connection_survives old fresh c :
  In c old -> hdr_id c = ID_CONNECTION -> In c (hdr_update old fresh).
Proof.
  intros Hin Hc. unfold hdr_update. apply in_or_app. left. rewrite update_delete_filter.
  apply filter_In. split; [exact Hin|]. now apply connection_survives_pred.
Qed.

(* ... and none of the 304's fields becomes a Connection entry of the merged header *)
Lemma added_no_connection fresh e : In e (update_added fresh) -> (hdr_id e =? ID_CONNECTION) = false.
Proof.
  unfold update_added. intros H. apply filter_In in H. destruct H as [_ Hs]. apply negb_true_iff in Hs.
  unfold skip_entry in Hs. apply orb_false_iff in Hs. destruct Hs as [Hs _]. apply orb_false_iff in Hs. destruct Hs as [_ Hh].
  destruct (hdr_id e =? ID_CONNECTION) eqn:E; [|reflexivity]. apply N.eqb_eq in E.
  rewrite E, connection_is_hopbyhop in Hh. discriminate.
Qed.
Lemma filter_none' {A} (p : A -> bool) l : (forall x, In x l -> p x = false) -> filter p l = [].
Proof.
  induction l as [|x r IH]; intros H; [reflexivity|]. cbn [filter]. rewrite (H x (or_introl eq_refl)). apply IH.
  intros y Hy. apply H. now right.
Qed.
(* so the Connection entries the response filter sees after the merge are exactly the stored ones, in order *)
Lemma merged_connection_entries old fresh :
  filter (fun h => hdr_id h =? ID_CONNECTION)
         (filter (fun h => negb (hdr_id h =? ID_PROXY_AUTHENTICATE)) (hdr_update old fresh)) =
  filter (fun h => hdr_id h =? ID_CONNECTION) old.
Proof.
  rewrite filter_filter. unfold hdr_update. rewrite filter_app, update_delete_filter, filter_filter.
  rewrite (filter_none' _ (update_added fresh)).
  2:{ intros e He. rewrite (added_no_connection fresh e He). now rewrite andb_false_r. }
  rewrite app_nil_r. apply filter_ext'. intros h.
  destruct (hdr_id h =? ID_CONNECTION) eqn:Ec; [|now rewrite !andb_false_r].
  apply N.eqb_eq in Ec. rewrite (connection_survives_pred fresh h Ec). rewrite Ec, connection_not_pa. reflexivity.
Qed.
Lemma merged_conn_value old fresh :
  conn_value (filter (fun h => negb (hdr_id h =? ID_PROXY_AUTHENTICATE)) (hdr_update old fresh)) = conn_value old.
Proof. unfold conn_value. now rewrite merged_connection_entries. Qed.

(* the property on the revalidation path (formerly refuted, now a theorem of the repaired code): a stored field that the
   stored response's own Connection field nominates is never relayed after a 304 has been merged, whatever the 304
   carries. No extra hypothesis is needed. *)
Theorem reval_stored_field_dropped old fresh e :
  In e old -> is_member (conn_value old) (h_name e) = true ->
  ~ In e (resp_filter false (hdr_update old fresh)).
Proof.
  intros _ Hm Hin. apply resp_filter_sound in Hin. destruct Hin as (_ & _ & H3 & _).
  rewrite merged_conn_value in H3. congruence.
Qed.

(* non-vacuity / regression witness: the scenario of the former finding *)
Definition wit_old : list hdr :=
  [ {| h_name := map N.of_nat [67;111;110;110;101;99;116;105;111;110]%nat; h_value := map N.of_nat [88;45;70;111;111]%nat |};
    {| h_name := map N.of_nat [88;45;70;111;111]%nat; h_value := [118] |} ].
Definition wit_fresh : list hdr :=
  [ {| h_name := map N.of_nat [67;111;110;110;101;99;116;105;111;110]%nat; h_value := map N.of_nat [120;45;111;116;104;101;114]%nat |} ].
Lemma reval_witness_now_filtered :
  is_member (conn_value wit_old) (h_name (nth 1 wit_old {| h_name := []; h_value := [] |})) = true /\
  resp_filter false (hdr_update wit_old wit_fresh) = [].
Proof. vm_compute. split; reflexivity. Qed.
