"""C19: SMP workers share cache entries consistently (end to end: 3 workers, shared memory cache + rock cache_dir)."""
import concurrent.futures, os, time
from vlib import std, lab
from checks import smp_common as sc

PID = "C19"
META = {
    "text": "Theorems (Properties_C19.v, closed under the global context). (a) One Ipc::StoreMap anchor used by ANY number of "
            "processes calling openForReading / openOrCreateForReading / openForWriting(+setKey) / startAppending / append / "
            "closeForWriting / switchWritingToReading / abortWriting / closeForReading / closeForReadingAndFreeIdle / "
            "freeEntry / freeEntryByKey in ANY order (method-atomic; the atomic-operation interleavings inside the methods "
            "are properties C54/C55): the lock counts equal the holders, there is at most one writer, readers coexist with "
            "a writer only after its startAppending; every successful openForReading saw an entry that is in use, not "
            "marked for deletion, and either complete (no writer) or being appended by the one writer whose version it "
            "reports; after freeEntry/freeEntryByKey by anybody no openForReading succeeds until some process creates the "
            "entry anew. (b) Shared pages, for every page size > 0, every object and every way of delivering it in "
            "pieces: MemStore::copyToShm leaves in the slice chain exactly the bytes written so far; MemStore::copyFromShm "
            "called by a reader holding any earlier prefix reconstructs exactly what the chain holds (a prefix of the object "
            "while it is being written, the whole object once the writer is done), for every split point. "
            "(c) the method-level lock equals the C54 atomic model run solo, method by method (all flags, up to 4 readers). "
            "Tie: histories on one URL through the REAL squid with 3 workers (individually addressed), a shared memory "
            "cache and a rock cache_dir (disker process): GETs, forced reloads (new origin version), PURGEs, bursts of "
            "simultaneous GETs over all workers, object sizes below / across the 32 KB page size and above "
            "maximum_object_size_in_memory (served from rock through the disker); the extracted protocol model (SmpModel.v, "
            "shared with C18) predicts which origin version every response carries; diffed on every run.",
    "note": "partial: (a)-(c) are component theorems; the composition MemStore + Transients + client side is the protocol "
            "model of C18 whose agreement with the proxy rests on the end-to-end correspondence. Rock/IpcIoFile are "
            "exercised by the end-to-end runs only (the model treats the disk cache as a second shared store with the "
            "same anchor semantics and no partial readers). One key per history; concurrent writers on different URLs are "
            "exercised by running histories in parallel. KNOWN FINDING C19-reload-keeps-old-rock-entry (real squid, reproduced on "
            "every run from corpus/C19/known.jsonl): for objects cached in rock only, a forced reload fetches the new response "
            "but the old one keeps being served (StoreEntry::mayStartSwapOut treats the old readable disk entry as its own "
            "swap-out); rock is not modelled in Coq, so there is no _refuted theorem for it and rock-sized histories are "
            "model-blind (oracle only). Trusted: Coq kernel, extraction, vlib/lab.py, checks/smp_common.py.",
    "technique": "Coq proof (counting invariant over all method sequences of a process population; induction over the "
                 "writer's delivery pieces and the reader's polling moments for the page chain) + end-to-end differential "
                 "correspondence against the running SMP squid + independent oracle",
}

MEMMAX = 96 * 1024
SHARED_MAX = 1024 * 1024     # the model's one shared store stands for memory cache + rock (max-size 1 MB)
SIZES = [300, 20000, 32768 - 200, 32768 + 500, 65536 + 100, 80000, 150000, 200000]


def gen_one(rng, k):
    size = rng.choice(SIZES)
    ops = []
    n = rng.randrange(4, 11)
    w = lambda: rng.randrange(1, 4)
    for i in range(n):
        r = rng.random()
        if i == 0 or r < 0.45:
            ops.append(["G", w()])
        elif r < 0.6:
            ops.append(["R", w()])
        elif r < 0.78:
            ops.append(["P", w()])
        else:
            ops.append(["B", [w() for _ in range(rng.randrange(2, 7))]])
    return {"size": size, "ops": ops, "chunked": rng.random() < 0.25}


def gen_scenarios(rng, n):
    return [gen_one(rng, k) for k in range(n)]


def to_case(s):
    def enc(op):
        if op[0] == "B":
            return "B" + ".".join(map(str, op[1]))
        return "%s%d" % (op[0], op[1])
    return "smp.c19 %d %d %d %s" % (SHARED_MAX, s["size"], 0 if s["chunked"] else 1, " ".join(enc(o) for o in s["ops"]))


_state = {}


def spec_of(s, salt):
    sp = {"vsize": s["size"], "vsalt": salt, "headers": [["Cache-Control", "max-age=1000"]]}
    if s["chunked"]:
        sp["framing"] = "chunked"; sp["chunks"] = [9000]
    return sp


def canon(c, s, salt):
    return sc.classify(c, s["size"], salt)


def run_one(args):
    s, rid, salt = args
    org, ports = _state["org"], _state["ports"]
    url = org.url(spec_of(s, salt), rid)
    out = []
    for op in s["ops"]:
        if op[0] == "G" or op[0] == "R":
            hs = [("Cache-Control", "no-cache")] if op[0] == "R" else []
            c = sc.Client(ports[op[1]], url, headers=hs); c.start(); c.finished.wait(25)
            out.append(op[0] + ":" + canon(c, s, salt))
        elif op[0] == "P":
            c = sc.Client(ports[op[1]], url, method="PURGE"); c.start(); c.finished.wait(25)
            r = c.resp()
            out.append("P:%s" % (r.status if r else "none"))
        else:
            cs = [sc.Client(ports[w], url) for w in op[1]]
            for c in cs: c.start()
            for c in cs: c.finished.wait(25)
            out.append("B:" + ",".join(canon(c, s, salt) for c in cs))
        time.sleep(0.05)
    return "n=%d %s" % (len(org.arrivals(rid)), " ".join(out))


def ensure(L):
    if "org" not in _state:
        sc.ensure_ipc_dir()
        _state["org"] = sc.gated_origin(L)
        _state["n"] = 0
    if "sq" not in _state or not _state["sq"].alive():
        base = sc.free_port_base()
        name = "vc19p%d" % os.getpid()
        d = os.path.join(L.dir, name, "rock")
        conf = ("collapsed_forwarding on\nmaximum_object_size_in_memory %d KB\nmaximum_object_size 1 MB\n"
                "cache_dir rock %s 64 max-size=1048576\nhttp_port 127.0.0.1:%d${process_number}\n" % (MEMMAX // 1024, d, base))
        sq = lab.Squid(L, conf, 3, None, name, "8 MB", "",
                       "acl PURGE method PURGE\nhttp_access allow PURGE\nhttp_access allow all")
        L.procs.append(sq)
        os.makedirs(d, exist_ok=True)
        import shutil
        shutil.chown(d, "nobody")
        sq.run_z()
        sq.start(40)
        _state["sq"] = sq
        _state["ports"] = {k: base * 10 + k for k in (1, 2, 3)}
        for k in (1, 2, 3):
            sc.wait_port(_state["ports"][k], 30)
        time.sleep(2.0)      # rock rebuild / disker registration


def run_impl(L, scenarios):
    ensure(L)
    jobs = []
    for s in scenarios:
        _state["n"] += 1
        jobs.append((s, "u%d" % _state["n"], _state["n"]))
    with concurrent.futures.ThreadPoolExecutor(max_workers=int(os.environ.get("VERIF_C19_PAR", "6"))) as ex:
        out = list(ex.map(run_one, jobs))
    bad = _state["sq"].log_has("assertion failed", "FATAL: Received", "FATAL: dying")
    if bad:
        out = [o + " squid-log:" + "+".join(bad) for o in out]
    return out


def oracle(s, obs):
    """C19 on what squid did: every response is a complete copy of exactly one origin version (never a mixture, never a
    short body presented as complete); along the (sequential) history no response carries a version older than one
    already served, none carries a version that was purged or replaced by a forced reload before the request was sent,
    and a forced reload is answered by a new origin request."""
    if not obs.startswith("n="):
        return ("oracle:no-transaction", "the history did not run: " + obs)
    if "squid-log:" in obs:
        return ("oracle:squid-assertion", "squid logged an assertion/FATAL during the run: " + obs)
    store = "rock" if s["size"] > MEMMAX else "mem"
    parts = obs.split()[1:]
    last = 0          # highest version seen so far
    purged = 0        # versions <= purged were purged
    replaced = 0      # versions <= replaced were replaced by a reload
    for op, p in zip(s["ops"], parts):
        kind, val = p.split(":", 1)
        if kind == "P":
            if val not in ("200", "404"):
                return ("oracle:purge-status", "PURGE answered " + val)
            purged = last
            continue
        for o in val.split(","):
            if not (o.startswith("F") and o[1:].isdigit()):
                return ("oracle:bad-copy:" + o.rstrip("0123456789:"),
                        "a response was `%s`: not a complete copy of one origin version" % o)
            v = int(o[1:])
            if v <= purged:
                return ("oracle:served-purged-version:" + store, "version %d was served after it had been purged (history %s)" % (v, obs))
            if v <= replaced:
                return ("oracle:served-replaced-version:" + store,
                        "version %d was served after a forced reload had fetched version %d (history %s)" % (v, replaced + 1, obs))
            if v < last:
                return ("oracle:version-went-back:" + store, "version %d served after version %d (history %s)" % (v, last, obs))
            if kind == "R" and v <= last:
                return ("oracle:reload-not-forwarded", "a forced reload was answered with the cached version %d" % v)
        vs = [int(o[1:]) for o in val.split(",")]
        if kind == "R":
            replaced = max(vs) - 1
        last = max([last] + vs)
    return None


def run(res, tier):
    res.rule = ("histories of 4..10 operations on one URL through a 3-worker SMP squid (shared memory cache + rock): GET, forced "
                "reload, PURGE via random workers, bursts of 2..6 simultaneous GETs over the workers; sizes 300 B .. 200 KB (below, "
                "across and above the 32 KB shared page, above maximum_object_size_in_memory => rock only), Content-Length or "
                "chunked; 6 histories run concurrently on different URLs; non-trivial = the history reads through a worker other "
                "than the one that fetched")
    std.run_lab(res, PID, tier, area="smp", gen_scenarios=gen_scenarios, run_impl=run_impl, to_case=to_case, oracle=oracle,
                corr_name="SmpModel (history) vs the running SMP squid", n_quick=int(os.environ.get("VERIF_C19_N", "30")),
                n_thorough=600, seed_salt=19,
                kind_fn=lambda s, o: "mem" if s["size"] <= MEMMAX else "rock",
                # objects above maximum_object_size_in_memory live in rock only: whether a later request is a hit depends on
                # when the disker finished the swap-out, so the served version is not predicted (the oracle still applies)
                model_blind=lambda s: s["size"] > MEMMAX,
                nontrivial_fn=lambda s, o: len(set(sum([[op[1]] if op[0] != "B" else op[1] for op in s["ops"]], []))) > 1)
    _state.clear()
