"""C48: byte-string values (SBuf) behave as independent values."""
import random
from vlib import std, hbuild, coq, recipes, common

PID = "C48"
META = {
    "text": "Theorems (Properties_C48.v, 8, closed under the global context) are about a Gallina transcription of "
            "src/sbuf/SBuf.cc + MemBlob.cc at /repo HEAD (with the four C48 fixes): a heap of ref-counted blobs and SBuf "
            "objects (blob, off, len) with the real copy-on-write / in-place-append / reserve / Locker logic, RefCount "
            "lock/unlock explicit, pointer arguments read when the code reads them, uint32 arithmetic where caller-supplied "
            "sizes enter. For ALL heaps satisfying the representation invariant (lock count = number of referring "
            "variables + other holders; every variable inside its blob's used area; used <= capacity < 2^32), any number "
            "of variables: (1) cow keeps every variable's contents and every doubly-held blob byte-for-byte whether it "
            "returns or throws, and leaves the target sole owner at the blob's end with the requested room; (2) lowAppend "
            "makes the target old++source for ANY source pointer incl. the target's own storage under the Locker, leaves "
            "every other variable unchanged, never reads outside a live object; (3) setAt writes only the target; "
            "(4) C48_step/run_refines_values_partial: every covered operation, and every sequence of them from any "
            "invariant state, acts on the variables' contents exactly like the same operation on a list of independent "
            "byte strings, keeps the invariant, never reads outside a live object, and a throw changes no contents (except "
            "that assign(ptr,n) has cleared its target). Covered: assign(ptr,n), assign(SBuf) incl. self, append(SBuf) incl. "
            "a.append(a), append(ptr,n), append/assign from a pointer into another or the same SBuf's storage, push_back, "
            "consume, chop (all arguments), substr, trim incl. a.trim(a), setAt, clear, reserveSpace, reserveCapacity, "
            "reserve(req), rawAppendStart+Finish, all const operations; (5) the regenerated ctype maps are the ASCII case "
            "maps and case-insensitive comparison is byte-wise comparison of lower-cased values. Tie: differential run of "
            "the extracted model against SBuf.cc/MemBlob.cc compiled from the working tree under ASan+UBSan (return value, "
            "contents of every variable, off/len/blob size/capacity/lock count of the target after every operation), and "
            "an independent Python bytes shadow (std::string semantics) evaluated on the code's answers.",
    "note": "PARTIAL: not lifted into the step/run refinement theorem (modelled and differentially tested only): toLower, "
            "toUpper (a loop of setAt; setAt itself is proved), c_str. Not stated: specification theorems for find/rfind/"
            "findFirstOf/../compare/startsWith (differentially tested against the Python shadow), and the 'throws exactly "
            "when over the size limit' theorem (the oracle checks it on the implementation; the step theorem proves that a "
            "throw leaves all values unchanged). Trusted: Coq kernel, extraction, gen/gen_sbuf.cc (SBuf::maxSize/npos and the "
            "<cctype> maps), harness/h_sbuf.cc (memAllocBuf wrapper with the size classes of src/mem/old_api.cc; prototype "
            "store reset between sequences), ml/run_sbuf.ml glue. The allocator is a Section variable (contract n <= "
            "capacity used only for cow's room guarantee). SbufModel.v is validated against the code only on the generated "
            "sequences. Print Assumptions: closed under the global context for all 8 theorems. Former findings (chop length "
            "wrap, rawAppendFinish(p,0), rawSpace limit, casecmp 0xff) are fixed in /repo (1f0fba6, 042a457, a2c4212, "
            "9d80e16); their reproducers are in corpus/C48/regress.txt.",
    "technique": "Coq proof (representation invariant with ghost lock holders, per-method effect lemmas, refinement lifted to "
                 "operation sequences by induction; 256-entry table sweep by vm_compute) + extracted-model differential "
                 "correspondence under ASan + Python shadow oracle",
}
NPOS = 4294967295
MAXSIZE = 0xfffffff
FRESH = hbuild.glob_fresh("src/sbuf")
LINK = ("tests/stub_StatHist.o tests/stub_debug.o tests/stub_libmem.o base/libbase.la "
        "../compat/libcompatsquid.la -Wl,--wrap=_Z11memAllocBufmPm").split()


def impl(sanitize="asan"):
    return hbuild.build("h_sbuf", "h_sbuf.cc", fresh=FRESH, link=LINK, sanitize=sanitize)


def prebuild():
    impl()


def hx(b):
    return bytes(b).hex() if len(b) else "-"


def unhx(h):
    return b"" if h in ("-", "") else bytes.fromhex(h)


def sethex(members):
    raw = bytearray(32)
    for c in members:
        raw[c // 8] |= 1 << (c % 8)
    return raw.hex()


def setof(h):
    raw = bytes.fromhex(h)
    return set(c for c in range(256) if raw[c // 8] >> (c % 8) & 1)


# ---------------------------------------------------------------------------
# the specification: independent byte-string values (std::string semantics)
# ---------------------------------------------------------------------------
def lower(b):
    return bytes(c + 32 if 65 <= c <= 90 else c for c in b)


def upper(b):
    return bytes(c - 32 if 97 <= c <= 122 else c for c in b)


def sign(x):
    return (x > 0) - (x < 0)


def clip(v, pos, n):
    """std::string::substr with SBuf's documented clamping of pos (pos > size -> empty)"""
    pos = min(pos, len(v))
    if n == NPOS or n > len(v) - pos:
        n = len(v) - pos
    return v[pos:pos + n]


def spec_step(v, f):
    """Applies op token f (list of fields) to the list of byte strings v.
    Returns the expected return token: '-' | number | 'x<hex>' | 'T' | 'SKIP' | None (= any number)."""
    op = f[0]
    i = int(f[1])
    if op == "set": v[i] = unhx(f[2]); return "-"
    if op == "asg": v[i] = v[int(f[2])]; return "-"
    if op == "app": v[i] = v[i] + v[int(f[2])]; return "-"
    if op == "apl": v[i] = v[i] + unhx(f[2]); return "-"
    if op in ("apr", "asr"):
        j, off, n = int(f[2]), int(f[3]), int(f[4])
        if off + n > len(v[j]): return "SKIP"
        piece = v[j][off:off + n]
        v[i] = v[i] + piece if op == "apr" else piece
        return "-"
    if op == "psh": v[i] = v[i] + bytes([int(f[2])]); return "-"
    if op == "con":
        d, i2, n = i, int(f[2]), int(f[3])
        k = len(v[i2]) if n == NPOS else min(n, len(v[i2]))
        pre = v[i2][:k]; v[i2] = v[i2][k:]; v[d] = pre
        return "-"
    if op == "chp": v[i] = clip(v[i], int(f[2]), int(f[3])); return "-"
    if op == "sub": v[i] = clip(v[int(f[2])], int(f[3]), int(f[4])); return "-"
    if op == "trm":
        rem = set(v[int(f[2])]); s = v[i]
        if f[4] == "1":
            while s and s[-1] in rem: s = s[:-1]
        if f[3] == "1":
            while s and s[0] in rem: s = s[1:]
        v[i] = s; return "-"
    if op == "sat":
        pos = int(f[2])
        if pos >= len(v[i]): return "T"
        b = bytearray(v[i]); b[pos] = int(f[3]); v[i] = bytes(b); return "-"
    if op == "low": v[i] = lower(v[i]); return "-"
    if op == "upp": v[i] = upper(v[i]); return "-"
    if op == "clr": v[i] = b""; return "-"
    if op == "rsv":
        n = int(f[2]); return "T" if (n > MAXSIZE or len(v[i]) + n > MAXSIZE) else "-"
    if op == "rcp":
        return "T" if int(f[2]) > MAXSIZE else "-"
    if op == "rsq": return None
    if op == "raw":
        n = int(f[2]); w = unhx(f[3])
        if n > MAXSIZE or len(v[i]) + n > MAXSIZE: return "T"
        v[i] = v[i] + w; return "-"
    if op == "cst": return "x" + hx(v[i].split(b"\0")[0])
    if op == "len": return str(len(v[i]))
    if op == "at":
        pos = int(f[2]); return "T" if pos >= len(v[i]) else str(v[i][pos])
    if op == "cpy": return "x" + hx(v[i][:min(int(f[2]), len(v[i]))])
    s = v[i]
    def idx(k): return str(NPOS if k < 0 else k)
    if op == "fdc":
        pos = int(f[3]); return idx(-1 if pos > len(s) else s.find(bytes([int(f[2])]), pos))
    if op == "fds":
        pos = int(f[3]); return idx(-1 if pos > len(s) else s.find(v[int(f[2])], pos))
    if op == "rfc":
        pos = int(f[3]); return idx(-1 if not s else s.rfind(bytes([int(f[2])]), 0, min(pos, len(s) - 1) + 1))
    if op == "rfs":
        nd = v[int(f[2])]; pos = int(f[3])
        if len(nd) > len(s): return idx(-1)
        return idx(s.rfind(nd, 0, min(pos, len(s) - len(nd)) + len(nd)))
    if op in ("ffo", "ffn"):
        st = setof(f[2]); pos = int(f[3]); want = op == "ffo"
        for k in range(min(pos, len(s)), len(s)):
            if (s[k] in st) == want: return str(k)
        return str(NPOS)
    if op in ("flo", "fln"):
        st = setof(f[2]); pos = int(f[3]); want = op == "flo"
        for k in range(min(pos, len(s) - 1), -1, -1):
            if (s[k] in st) == want: return str(k)
        return str(NPOS)
    if op == "cmp":
        t = v[int(f[2])]; n = int(f[4])
        a, b = (s, t) if n == NPOS else (s[:n], t[:n])
        if f[3] == "1": a, b = lower(a), lower(b)
        return str(sign((a > b) - (a < b)))
    if op == "stw":
        t = v[int(f[2])]
        a, b = (lower(s), lower(t)) if f[3] == "1" else (s, t)
        return "1" if a.startswith(b) else "0"
    if op == "eq": return "1" if s == v[int(f[2])] else "0"
    raise ValueError("unknown op " + op)


def oracle(case, out):
    """The property itself on the implementation's answer: replay the sequence on independent Python
    byte strings and demand the same return values and the same contents of every variable after every
    operation. Returns None or (signature, description)."""
    a = case.split()
    if a[0] != "seq":
        return None
    nv = int(a[1]); ops = a[2:]
    if out.startswith(("CRASH", "EXC", "ERR")):
        return ("oracle:seq:crash", "implementation crashed / sanitizer abort / harness error: " + out[:300])
    toks = out.split(" ")
    v = [b""] * nv
    seen = [b""] * nv
    for k, optok in enumerate(ops):
        f = optok.split(":")
        name = f[0]
        if k >= len(toks) or not toks[k]:
            return ("oracle:%s:missing" % name, "no output for op %d (%s)" % (k, optok))
        parts = toks[k].split("/")
        ret = parts[0]
        before = list(v)
        try:
            exp = spec_step(v, f)
        except Exception as ex:
            return ("oracle:%s:spec-error" % name, "cannot evaluate spec on %s: %s" % (optok, ex))
        if len(parts) >= 2 and parts[1].startswith("BROKEN"):
            kind = "broken"
            if name in ("chp", "sub") and f[-1] != str(NPOS) and min(int(f[-2]), len(before[int(f[1 if name == 'chp' else 2])])) + int(f[-1]) >= 2 ** 32:
                kind = "len-wrap"
            elif name == "raw" and f[2] == "0":
                kind = "zero-raw-truncates"
            return ("oracle:%s:%s" % (name, kind),
                    "after op %d (%s) variable %s is left with off+len beyond its blob's used size (or size > capacity): "
                    "its contents are no longer those of an independent value" % (k, optok, parts[1][7:]))
        if ret == "SHORT":
            return ("oracle:raw:short-space", "op %d (%s): rawAppendStart(n) beyond the size limit returned normally with "
                    "fewer than n writable bytes instead of throwing" % (k, optok))
        if ret == "UNDEF":
            return ("oracle:%s:undef" % name, "undefined access reported")
        if exp == "T" and ret != "T":
            return ("oracle:%s:nothrow" % name, "op %d (%s) must throw, returned %s" % (k, optok, ret))
        if exp is not None and exp != "T" and ret == "T":
            return ("oracle:%s:throw" % name, "op %d (%s) threw; independent values give %s" % (k, optok, exp))
        if exp is not None and ret != exp:
            if name == "cmp" and f[3] == "1" and (255 in before[int(f[1])] or 255 in before[int(f[2])]):
                return ("oracle:cmp:ci-0xff-order", "op %d (%s): case-insensitive compare returned %s; byte-wise comparison of the "
                        "lower-cased values gives %s (an operand contains byte 0xff, which tolower() maps to -1)" % (k, optok, ret, exp))
            return ("oracle:%s:ret" % name, "op %d (%s) returned %s; independent values give %s" % (k, optok, ret, exp))
        if ret == "T":
            v[:] = before  # a throwing operation leaves every value as it was
        # contents
        if len(parts) < 3:
            return ("oracle:%s:format" % name, "malformed token " + toks[k][:80])
        if parts[1]:
            for d in parts[1].split(","):
                idx, _, h = d.partition("=")
                seen[int(idx)] = unhx(h)
        for x in range(nv):
            if seen[x] != v[x]:
                who = "target" if x == int(f[1]) else "OTHER variable"
                return ("oracle:%s:content" % name,
                        "after op %d (%s) %s v%d holds %s; independent values give %s"
                        % (k, optok, who, x, hx(seen[x])[:80], hx(v[x])[:80]))
        st = parts[2].split(".")
        if len(st) == 5:
            off, ln, size, cap, locks = map(int, st)
            if off + ln > size or size > cap or locks < 1:
                return ("oracle:%s:internal" % name, "inconsistent internals %s after op %d" % (parts[2], k))
    return None


# ---------------------------------------------------------------------------
# generators
# ---------------------------------------------------------------------------
ALPHA = [97, 98, 99, 65, 66, 32, 0, 128, 255, 122, 90, 47]
SETS = [set(b"ab"), set(b" \t"), set(range(65, 91)), {0}, {128, 255}, set(range(256)), set(), set(b"abcAB /")]


def rbytes(rng, maxlen=12):
    n = rng.choice([0, 1, 1, 2, 3, 3, 5, 8, maxlen, 40])
    if rng.random() < 0.85:
        pool = ALPHA[:rng.choice([2, 3, 5, len(ALPHA)])]
        return bytes(rng.choice(pool) for _ in range(n))
    return bytes(rng.randrange(256) for _ in range(n))


def rpos(rng, ln, risky=False):
    c = [0, 0, 1, 2, max(ln - 1, 0), ln, ln + 1, NPOS, rng.randrange(0, ln + 2), rng.randrange(0, ln + 2)]
    if risky:
        c += [NPOS - 1, NPOS - ln, MAXSIZE, MAXSIZE + 1, 2 ** 31, rng.randrange(0, 2 ** 32)]
    return rng.choice(c)


MUTATORS = ["set", "set", "asg", "asg", "asg", "app", "app", "app", "apl", "apl", "apr", "asr", "psh", "con", "con",
            "chp", "chp", "sub", "sub", "sub", "trm", "sat", "sat", "low", "upp", "clr", "rsv", "rsv", "rcp", "rsq",
            "raw", "raw", "cst"]
QUERIES = ["len", "at", "cpy", "fdc", "fds", "rfc", "rfs", "ffo", "ffn", "flo", "fln", "cmp", "cmp", "stw", "eq"]


def gen_seq(rng, risky=False, nops=None):
    nv = rng.choice([1, 2, 2, 3, 3, 4, 5, 6])
    v = [b""] * nv
    ops = []
    nops = nops or rng.choice([4, 8, 16, 30, 30, 30])
    for _ in range(nops):
        name = rng.choice(MUTATORS) if rng.random() < 0.72 else rng.choice(QUERIES)
        i = rng.randrange(nv); j = rng.randrange(nv)
        if rng.random() < 0.25: j = i
        ln = len(v[i]); lj = len(v[j])
        R = risky and rng.random() < 0.12
        if name in ("set", "apl"): f = [name, i, hx(rbytes(rng))]
        elif name in ("asg", "app"): f = [name, i, j]
        elif name in ("apr", "asr"):
            off = rng.randrange(0, lj + 1); n = rng.choice([0, 1, lj - off, rng.randrange(0, lj - off + 1)])
            if rng.random() < 0.03: n = lj - off + 1
            f = [name, i, j, off, n]
        elif name == "psh": f = [name, i, rng.choice(ALPHA)]
        elif name == "con": f = [name, i, j, rpos(rng, lj, R)]
        elif name == "chp": f = [name, i, rpos(rng, ln, R), rpos(rng, ln, R)]
        elif name == "sub": f = [name, i, j, rpos(rng, lj, R), rpos(rng, lj, R)]
        elif name == "trm": f = [name, i, j, rng.choice([0, 1, 1]), rng.choice([0, 1, 1])]
        elif name == "sat": f = [name, i, rpos(rng, ln, R), rng.choice(ALPHA)]
        elif name in ("low", "upp", "clr", "cst", "len"): f = [name, i]
        elif name == "rsv":
            n = rng.choice([0, 1, 5, 20, 33, 100, rng.randrange(0, 300)])
            if R: n = rng.choice([MAXSIZE - ln + 1, MAXSIZE - ln + 1, MAXSIZE, MAXSIZE + 1, NPOS, NPOS - ln, 70000, 2 ** 31,
                                  MAXSIZE - ln if rng.random() < 0.3 else MAXSIZE + 2])
            f = [name, i, n]
        elif name == "rcp":
            n = rng.choice([0, 1, ln, ln + 7, 64, 200])
            if R: n = rng.choice([MAXSIZE if rng.random() < 0.3 else MAXSIZE + 1, MAXSIZE + 1, NPOS, 70000])
            f = [name, i, n]
        elif name == "rsq":
            mx = rng.choice([MAXSIZE, MAXSIZE, 0, ln, ln + 10, 64, 1000])
            if R: mx = rng.choice([NPOS, MAXSIZE + 1, 2 ** 31])
            f = [name, i, rng.choice([0, 16, 100, 5000]), rng.choice([0, 1, 10, 40, 300]), mx, rng.choice([0, 1])]
            if R and rng.random() < 0.3: f[2] = rng.choice([NPOS, MAXSIZE, f[2]]); f[3] = rng.choice([NPOS, MAXSIZE, f[3]])
        elif name == "raw":
            w = rbytes(rng, 6); n = len(w) + rng.choice([0, 0, 1, 10, 100])
            if n == 0 and not risky: n = 1
            if R and rng.random() < 0.5: n = rng.choice([MAXSIZE - ln + 1, MAXSIZE + 1, NPOS - ln + 1, NPOS - ln, NPOS - 1, NPOS, 2 ** 31])
            f = [name, i, n, hx(w)]
        elif name == "at": f = [name, i, rpos(rng, ln, R)]
        elif name == "cpy": f = [name, i, rpos(rng, ln, R)]
        elif name in ("fdc", "rfc"):
            c = rng.choice(list(v[i])) if v[i] and rng.random() < 0.7 else rng.choice(ALPHA)
            f = [name, i, c, rpos(rng, ln, R)]
        elif name in ("fds", "rfs"): f = [name, i, j, rpos(rng, ln, R)]
        elif name in ("ffo", "ffn", "flo", "fln"): f = [name, i, sethex(rng.choice(SETS)), rpos(rng, ln, R)]
        elif name == "cmp": f = [name, i, j, rng.choice([0, 1]), rng.choice([NPOS, NPOS, 0, 1, 2, lj, ln, rpos(rng, ln, R)])]
        elif name == "stw": f = [name, i, j, rng.choice([0, 1])]
        elif name == "eq": f = [name, i, j]
        f = [str(min(x, NPOS)) if isinstance(x, int) else str(x) for x in f]
        ops.append(":".join(f))
        try:
            before = list(v)
            if spec_step(v, f) == "T":
                v[:] = before
        except Exception:
            pass
        # keep strings short so that outputs stay small
        if any(len(x) > 4000 for x in v):
            break
    return "seq %d %s" % (nv, " ".join(ops))


def gen_cases(rng, n):
    cases = []
    for k in range(n):
        cases.append(gen_seq(rng, risky=(k % 25 == 24)))
    return cases


def mutate(rng, case):
    a = case.split()
    if len(a) <= 3:
        return case
    k = rng.randrange(2, len(a))
    r = rng.random()
    if r < 0.3:
        del a[k]
    elif r < 0.5:
        a.insert(k, a[rng.randrange(2, len(a))])
    else:
        f = a[k].split(":")
        nums = [x for x in range(2, len(f)) if f[x].isdigit() and len(f[x]) < 11 and f[0] not in ("asg", "app", "trm", "eq")]
        if nums:
            x = rng.choice(nums)
            f[x] = str(rng.choice([0, 1, 2, 3, NPOS, NPOS - 1, MAXSIZE, MAXSIZE + 1, int(f[x]) + 1, max(int(f[x]) - 1, 0)]))
            if f[0] in ("apr", "asr", "con", "sub", "fds", "rfs", "cmp", "stw") and x == 2:
                f[x] = str(int(f[x]) % int(a[1]))
            a[k] = ":".join(f)
    return " ".join(a)


def kind(case, out):
    if "BROKEN" in out: return "seq:broken-object"
    if out.startswith("CRASH"): return "seq:crash"
    toks = out.split(" ")
    if any(t.startswith("T/") for t in toks): return "seq:with-throw"
    return "seq:no-throw"


def nontrivial(case, out):
    # at least one operation changed some variable's contents
    return "=" in out


def run(res, tier):
    res.rule = ("operation sequences (4..30 ops) over 1..6 SBuf variables: assign/append from each other, from themselves and "
                "from pointers into their own storage, consume/chop/substr/trim/setAt/case changes/clear/reserve*/raw append/"
                "c_str and searches/comparisons, with positions drawn from {0,1,len-1,len,len+1,npos,..} and, in every 25th "
                "sequence, size-limit values (maxSize+-1, npos-1, 2^31,..); a sequence is non-trivial when some operation "
                "changed some variable's contents")
    std.run_standard(res, PID, tier, area="sbuf", build_impl=impl, gen_cases=gen_cases, oracle=oracle,
                     corr_name="SbufModel vs src/sbuf/SBuf.cc, src/sbuf/MemBlob.cc",
                     gens=["sbuf"], n_quick=4000, n_thorough=100000, seed_salt=48, mutate=mutate,
                     kind_fn=kind, nontrivial_fn=nontrivial)
