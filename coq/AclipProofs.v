(* AclipProofs.v — theorems about the model of IP-address ACLs (AclipModel.v), property C42.

   1. Prefix masks: for mask = 2^128 - 2^h, [a & mask = a / 2^h * 2^h] and filling in the host
      bits of an aligned address adds 2^h - 1.
   2. Configured values [cval] (network a/(128-h), range of addresses/networks) stated
      independently of the code: cv_in; the stored triple cv_val; firstAddress/lastAddress
      are the ends of the set (cv_first/cv_last); aclIpAddrNetworkCompare() has the sign
      of the position of the address relative to the set (good_cv).
   3. Compare/IsSubset/MakeCombinedValue (all on matchIPAddr(), a total order, since 98f97cc)
      are interval order/inclusion/union; Merge() terminates within its fuel, keeps the stored
      sequence sorted and pairwise disjoint and adds exactly the new value's addresses to the
      union (merge_spec); parse() and match() follow (shared splay library theorems of
      SplayProofs.v).
   4. The statements over lists of configured values; "/0" and reversed-range witnesses. *)
Require Import SquidV.Bytes SquidV.SplayModel SquidV.SplayProofs SquidV.AclipModel.
Require Import ZifyBool ZifyN.
Local Open Scope N_scope.

Require Import SquidV.Bytes SquidV.SplayModel SquidV.SplayProofs SquidV.AclipModel.
Require Import ZifyBool ZifyN.
Local Open Scope N_scope.

Definition pmask (h : N) : N := TOP - 2 ^ h.

Lemma ones_bit n i : N.testbit (N.ones n) i = (i <? n).
Proof.
  destruct (N.ltb_spec i n) as [H|H]; [apply N.ones_spec_low, H| apply N.ones_spec_high, H].
Qed.

Lemma pow2_pos h : 0 < 2 ^ h.
Proof. apply N.neq_0_lt_0, N.pow_nonzero. discriminate. Qed.

Lemma pow2_le_top h : h <= 128 -> 2 ^ h <= TOP.
Proof. intros H. unfold TOP. apply N.pow_le_mono_r; [discriminate| exact H]. Qed.

Lemma pmask_ldiff h : h <= 128 -> pmask h = N.ldiff ALL1 (N.ones h).
Proof.
  intros H. unfold pmask, ALL1. 
  assert (E : N.ldiff (N.ones h) (N.ones 128) = 0).
  { apply N.bits_inj. intros i. rewrite N.ldiff_spec, !ones_bit, N.bits_0.
    destruct (N.ltb_spec i h), (N.ltb_spec i 128); try reflexivity; lia. }
  rewrite <- (N.sub_nocarry_ldiff _ _ E). rewrite !N.ones_equiv.
  pose proof (pow2_pos h). pose proof (pow2_le_top h H). unfold TOP in *. lia.
Qed.

Lemma land_pmask a h : a < TOP -> h <= 128 -> N.land a (pmask h) = a / 2 ^ h * 2 ^ h.
Proof.
  intros Ha Hh. rewrite (pmask_ldiff h Hh).
  rewrite <- N.shiftr_div_pow2, <- N.shiftl_mul_pow2, <- N.ldiff_ones_r.
  apply N.bits_inj. intros i. unfold ALL1. rewrite N.land_spec, !N.ldiff_spec, !ones_bit.
  destruct (N.ltb_spec i 128) as [H|H]; cbn [andb negb]; [reflexivity|].
  assert (E : N.testbit a i = false).
  { destruct (N.eq_dec a 0) as [->|Na]; [apply N.bits_0|].
    apply N.bits_above_log2. unfold TOP in Ha. apply N.log2_lt_pow2 in Ha; [|lia]. lia. }
  rewrite E. reflexivity.
Qed.

Lemma hostbits_pmask h : h <= 128 -> N.ldiff ALL1 (pmask h) = N.ones h.
Proof.
  intros Hh. rewrite (pmask_ldiff h Hh). apply N.bits_inj. intros i. unfold ALL1.
  rewrite !N.ldiff_spec, !ones_bit.
  destruct (N.ltb_spec i 128), (N.ltb_spec i h); cbn [andb negb]; try reflexivity; lia.
Qed.

(* filling in the host bits of an address that has none *)
Lemma lor_ones_aligned a h : a mod 2 ^ h = 0 -> N.lor a (N.ones h) = a + (2 ^ h - 1).
Proof.
  intros Ha. assert (E : N.land a (N.ones h) = 0) by (rewrite N.land_ones; exact Ha).
  rewrite <- (N.lxor_lor _ _ E), <- (N.add_nocarry_lxor _ _ E), N.ones_equiv.
  pose proof (pow2_pos h). lia.
Qed.

Lemma turn_on_pmask a h : h <= 128 -> a mod 2 ^ h = 0 -> turnMaskedBitsOn a (pmask h) = a + (2 ^ h - 1).
Proof. intros Hh Ha. unfold turnMaskedBitsOn. rewrite (hostbits_pmask h Hh). apply lor_ones_aligned, Ha. Qed.

Lemma aligned_mul a P : P <> 0 -> a mod P = 0 -> a = a / P * P.
Proof. intros HP Ha. apply (N.div_exact a P HP) in Ha. lia. Qed.

(* comparisons of x rounded down to a multiple of P with multiples of P *)
Lemma round_cmp P k x : 0 < P ->
  (x / P * P < k * P <-> x < k * P) /\
  (k * P < x / P * P <-> (k + 1) * P <= x) /\
  (k * P <= x / P * P <-> k * P <= x) /\
  (x / P * P <= k * P <-> x < (k + 1) * P) /\
  (x / P * P = k * P <-> k * P <= x < (k + 1) * P).
Proof.
  intros HP. pose proof (N.div_mod x P ltac:(lia)) as E. pose proof (N.mod_lt x P ltac:(lia)) as L.
  set (q := x / P) in *. set (r := x mod P) in *. clearbody q r.
  destruct (N.lt_trichotomy q k) as [H|[H|H]].
  - assert (H1 : (q + 1) * P <= k * P) by (apply N.mul_le_mono_r; lia).
    repeat split; intros; lia.
  - subst k. repeat split; intros; lia.
  - assert (H1 : (k + 1) * P <= q * P) by (apply N.mul_le_mono_r; lia).
    repeat split; intros; lia.
Qed.
(* ---------- constants; matchIPAddr() is the numeric order ---------- *)
Lemma V4ANY_val : V4ANY = 281470681743360. Proof. reflexivity. Qed.
Lemma V4NO_val : V4NO = 281474976710655. Proof. reflexivity. Qed.
Lemma ALL1_val : ALL1 = 340282366920938463463374607431768211455. Proof. reflexivity. Qed.
Lemma TOP_val : TOP = 340282366920938463463374607431768211456. Proof. reflexivity. Qed.

Ltac consts := rewrite ?V4ANY_val, ?V4NO_val, ?ALL1_val, ?TOP_val in *.

Lemma mip_sign l r :
  ((matchIPAddr l r < 0)%Z <-> l < r) /\ ((matchIPAddr l r > 0)%Z <-> r < l).
Proof. unfold matchIPAddr. destruct (N.compare_spec l r); split; split; intros; lia. Qed.

Lemma mip_ltb l r : (matchIPAddr l r <? 0)%Z = (l <? r).
Proof. unfold matchIPAddr. destruct (N.compare_spec l r), (N.ltb_spec l r); try reflexivity; lia. Qed.
Lemma mip_gtb l r : (matchIPAddr l r >? 0)%Z = (r <? l).
Proof. unfold matchIPAddr. destruct (N.compare_spec l r), (N.ltb_spec r l); try reflexivity; lia. Qed.
Lemma mip_leb l r : (matchIPAddr l r <=? 0)%Z = (l <=? r).
Proof. unfold matchIPAddr. destruct (N.compare_spec l r), (N.leb_spec l r); try reflexivity; lia. Qed.
Lemma mip_geb l r : (matchIPAddr l r >=? 0)%Z = (r <=? l).
Proof. unfold matchIPAddr. destruct (N.compare_spec l r), (N.leb_spec r l); try reflexivity; lia. Qed.

Lemma land_ALL1 x : x < TOP -> N.land x ALL1 = x.
Proof. intros H. unfold ALL1. rewrite N.land_ones. apply N.mod_small. exact H. Qed.

(* ---------- configured values, stated independently of the code's representation ---------- *)
(* CNet a h   : the network a/(128-h) (h host bits): a single address when h = 0
   CRange a b h : the addresses a .. b when h = 0; the networks a/(128-h) .. b/(128-h) otherwise *)
Inductive cval : Type := CNet (a h : N) | CRange (a b h : N).

Definition cv_ok (c : cval) : Prop :=
  match c with
  | CNet a h => h <= 128 /\ a < TOP /\ a mod 2 ^ h = 0
  | CRange a b h => h <= 128 /\ a <= b /\ b < TOP /\ a mod 2 ^ h = 0 /\ b mod 2 ^ h = 0 /\ (b = V4ANY -> a = V4ANY)
  end.

(* the set of addresses a configured value stands for *)
Definition cv_lo (c : cval) : N := match c with CNet a _ => a | CRange a _ _ => a end.
Definition cv_hi (c : cval) : N := match c with CNet a h => a + (2 ^ h - 1) | CRange _ b h => b + (2 ^ h - 1) end.
Definition cv_in (x : N) (c : cval) : Prop := cv_lo c <= x <= cv_hi c.

(* the triple FactoryParse() stores for it *)
Definition cv_val (c : cval) : ipval :=
  match c with CNet a h => IpVal a 0 (pmask h) | CRange a b h => IpVal a b (pmask h) end.

(* membership in a network, the CIDR way: same (128-h)-bit prefix *)
Lemma cv_in_net a h x : a mod 2 ^ h = 0 -> (cv_in x (CNet a h) <-> x / 2 ^ h = a / 2 ^ h).
Proof.
  intros Ha. unfold cv_in, cv_lo, cv_hi. pose proof (pow2_pos h) as HP.
  rewrite (aligned_mul a (2 ^ h) ltac:(lia) Ha) at 1 2.
  destruct (round_cmp (2 ^ h) (a / 2 ^ h) x HP) as (_ & _ & _ & _ & R5).
  split.
  - intros [H1 H2]. assert (E : x / 2 ^ h * 2 ^ h = a / 2 ^ h * 2 ^ h) by (apply R5; lia).
    apply N.mul_cancel_r in E; [exact E| lia].
  - intros E. assert (E2 : x / 2 ^ h * 2 ^ h = a / 2 ^ h * 2 ^ h) by (rewrite E; reflexivity).
    apply R5 in E2. lia.
Qed.

Lemma aligned_top k h : h <= 128 -> k < TOP -> k mod 2 ^ h = 0 -> k + 2 ^ h <= TOP.
Proof.
  intros Hh Hk Hm. pose proof (pow2_pos h) as HP.
  assert (ET : TOP = 2 ^ (128 - h) * 2 ^ h) by (unfold TOP; rewrite <- N.pow_add_r; f_equal; lia).
  pose proof (aligned_mul k (2 ^ h) ltac:(lia) Hm) as Ek. rewrite ET in *.
  set (q := k / 2 ^ h) in *. set (Q := 2 ^ (128 - h)) in *. set (P := 2 ^ h) in *.
  assert (q < Q) by (apply (N.mul_lt_mono_pos_r P); [lia| lia]).
  assert ((q + 1) * P <= Q * P) by (apply N.mul_le_mono_r; lia). lia.
Qed.

Lemma pmask_noaddr h : h <= 128 -> isNoAddr (pmask h) = true -> h = 0.
Proof.
  intros Hh. unfold isNoAddr, pmask. pose proof (pow2_pos h) as HP. pose proof (pow2_le_top h Hh) as HT.
  destruct (N.eq_dec h 0) as [->|Hn]; [reflexivity|].
  assert (E : 2 ^ h = 2 * 2 ^ (h - 1)) by (rewrite <- N.pow_succ_r'; f_equal; lia).
  pose proof (pow2_pos (h - 1)).
  destruct (N.eqb_spec (TOP - 2 ^ h) ALL1), (N.eqb_spec (TOP - 2 ^ h) V4NO); cbn [orb]; intros; try discriminate;
    exfalso; consts; lia.
Qed.

Lemma pmask_0 : pmask 0 = ALL1. Proof. reflexivity. Qed.

Lemma cv_first c : cv_ok c -> first_addr (cv_val c) = cv_lo c.
Proof.
  destruct c as [a h|a b h]; cbn [cv_ok cv_val cv_lo]; unfold first_addr; cbn [mk a1].
  - intros (Hh & Ha & Hm). destruct (isNoAddr (pmask h)); [reflexivity|].
    unfold applyMask. rewrite (land_pmask a h Ha Hh). symmetry. apply aligned_mul; [pose proof (pow2_pos h); lia| exact Hm].
  - intros (Hh & Hab & Hb & Hm & _). destruct (isNoAddr (pmask h)); [reflexivity|].
    unfold applyMask. rewrite (land_pmask a h ltac:(lia) Hh). symmetry. apply aligned_mul; [pose proof (pow2_pos h); lia| exact Hm].
Qed.

Lemma cv_last c : cv_ok c -> last_addr (cv_val c) = cv_hi c.
Proof.
  destruct c as [a h|a b h]; cbn [cv_ok cv_val cv_hi]; unfold last_addr; cbn [mk a1 a2].
  - intros (Hh & Ha & Hm). change (isAnyAddr 0) with true. cbn iota.
    destruct (isNoAddr (pmask h)) eqn:E.
    + apply (pmask_noaddr h Hh) in E. subst h. cbn. lia.
    + apply turn_on_pmask; assumption.
  - intros (Hh & Hab & Hb & Hma & Hmb & Hany).
    assert (E2 : (if isAnyAddr b then a else b) = b).
    { unfold isAnyAddr. destruct (N.eqb_spec b 0); [cbn [orb]; lia|].
      destruct (N.eqb_spec b V4ANY); cbn [orb]; [symmetry; rewrite Hany at 1; auto| reflexivity]. }
    rewrite E2.
    destruct (isNoAddr (pmask h)) eqn:E.
    + apply (pmask_noaddr h Hh) in E. subst h. cbn. lia.
    + apply turn_on_pmask; assumption.
Qed.
(* ---------- what the proofs need of a stored value ---------- *)
Definition inR (x : N) (w : ipval) : Prop := first_addr w <= x <= last_addr w.

Definition good (w : ipval) : Prop :=
  first_addr w <= last_addr w /\ last_addr w < TOP /\
  (last_addr w = V4ANY -> first_addr w = V4ANY) /\
  (forall x, x < TOP ->
     ((net_cmp x w < 0)%Z <-> x < first_addr w) /\ ((net_cmp x w > 0)%Z <-> last_addr w < x)).

Lemma isAny_iff b : isAnyAddr b = true <-> b = 0 \/ b = V4ANY.
Proof. unfold isAnyAddr. destruct (N.eqb_spec b 0), (N.eqb_spec b V4ANY); cbn [orb]; split; intros; try tauto; try discriminate; destruct H; contradiction. Qed.

Lemma good_cv c : cv_ok c -> good (cv_val c).
Proof.
  intros Hok. unfold good. rewrite (cv_first c Hok), (cv_last c Hok).
  destruct c as [a h|a b h]; cbn [cv_ok cv_lo cv_hi cv_val] in *.
  - destruct Hok as (Hh & Ha & Hm). pose proof (pow2_pos h) as HP.
    pose proof (aligned_top a h Hh Ha Hm) as HT.
    pose proof (aligned_mul a (2 ^ h) ltac:(lia) Hm) as Ea.
    split; [lia|]. split; [lia|]. split.
    + intros E. destruct (N.eq_dec h 0) as [->|Hn]; [cbn in E; lia|].
      exfalso. assert (E2 : 2 ^ h = 2 * 2 ^ (h - 1)) by (rewrite <- N.pow_succ_r'; f_equal; lia).
      rewrite E2 in *. set (P' := 2 ^ (h - 1)) in *. set (q := a / (2 * P')) in *. consts. lia.
    + intros x Hx. unfold net_cmp. cbn [mk a1 a2]. change (isAnyAddr 0) with true. cbn iota.
      unfold applyMask. rewrite (land_pmask x h Hx Hh).
      destruct (mip_sign (x / 2 ^ h * 2 ^ h) a) as [M1 M2]. rewrite M1, M2.
      destruct (round_cmp (2 ^ h) (a / 2 ^ h) x HP) as (R1 & R2 & _).
      set (k := a / 2 ^ h) in *. clearbody k. set (P := 2 ^ h) in *. set (A := x / P * P) in *. subst a.
      rewrite R1, R2. split; split; intros; lia.
  - destruct Hok as (Hh & Hab & Hb & Hma & Hmb & Hany). pose proof (pow2_pos h) as HP.
    pose proof (aligned_top b h Hh Hb Hmb) as HT.
    pose proof (aligned_mul a (2 ^ h) ltac:(lia) Hma) as Ea.
    pose proof (aligned_mul b (2 ^ h) ltac:(lia) Hmb) as Eb.
    split; [lia|]. split; [lia|]. split.
    + intros E. destruct (N.eq_dec h 0) as [->|Hn]; [cbn in E; apply Hany; lia|].
      exfalso. assert (E2 : 2 ^ h = 2 * 2 ^ (h - 1)) by (rewrite <- N.pow_succ_r'; f_equal; lia).
      rewrite E2 in *. set (P' := 2 ^ (h - 1)) in *. set (q := b / (2 * P')) in *. consts. lia.
    + intros x Hx. unfold net_cmp. cbn [mk a1 a2] in *.
      unfold applyMask. rewrite (land_pmask x h Hx Hh) in *.
      destruct (mip_sign (x / 2 ^ h * 2 ^ h) a) as [M1 M2].
      destruct (round_cmp (2 ^ h) (a / 2 ^ h) x HP) as (R1 & R2 & R3 & _).
      destruct (round_cmp (2 ^ h) (b / 2 ^ h) x HP) as (_ & S2 & _ & S4 & _).
      destruct (isAnyAddr b) eqn:EA.
      * apply isAny_iff in EA. assert (Eab : a = b) by (destruct EA as [E|E]; [lia| rewrite Hany; auto]).
        rewrite M1, M2.
        set (ka := a / 2 ^ h) in *. clearbody ka. set (P := 2 ^ h) in *. set (A := x / P * P) in *.
        rewrite <- Eab in *. rewrite Ea in *. rewrite R1, R2. split; split; intros; lia.
      * rewrite mip_geb, mip_leb.
        set (ka := a / 2 ^ h) in *. set (kb := b / 2 ^ h) in *. clearbody ka kb.
        set (P := 2 ^ h) in *. set (A := x / P * P) in *. subst a b.
        destruct (N.leb_spec (ka * P) A) as [L1|L1], (N.leb_spec A (kb * P)) as [L2|L2]; cbn [andb].
        -- apply R3 in L1. apply S4 in L2. split; split; intros; lia.
        -- rewrite M1, M2. apply S2 in L2. split; split; intros; lia.
        -- rewrite M1, M2. apply R1 in L1. split; split; intros; lia.
        -- rewrite M1, M2. apply R1 in L1. split; split; intros; lia.
Qed.
(* ---------- sequences sorted by "entirely before", and sign monotonicity ---------- *)
Definition before (a b : ipval) : Prop := last_addr a < first_addr b.

Fixpoint sd (l : list ipval) : Prop :=
  match l with
  | [] => True
  | x :: r => Forall (before x) r /\ sd r
  end.

Lemma sd_app a b : sd (a ++ b) <-> sd a /\ sd b /\ (forall x y, In x a -> In y b -> before x y).
Proof.
  induction a as [|x a IH]; cbn [app sd].
  - split; [intros H; repeat split; [exact H| intros x y []] | intros (_ & H & _); exact H].
  - rewrite IH. rewrite Forall_app. split.
    + intros ((Fa & Fb) & Ma & Mb & Hc). repeat split; try assumption.
      intros x0 y [<-|Hx] Hy; [rewrite Forall_forall in Fb; apply Fb, Hy| apply Hc; assumption].
    + intros ((Fa & Ma) & Mb & Hc). repeat split; try assumption.
      * rewrite Forall_forall. intros y Hy. apply Hc; [left; reflexivity| exact Hy].
      * intros x0 y Hx Hy. apply Hc; [right; exact Hx| exact Hy].
Qed.

Lemma mono_of_sd (P : ipval -> Prop) (c : ipval -> Z) l :
  (forall x y, P x -> P y -> before x y -> (Z.sgn (c y) <= Z.sgn (c x))%Z) ->
  Forall P l -> sd l -> mono c l.
Proof.
  intros Hc. induction l as [|x l IH]; intros W S; cbn [mono]; [exact I|].
  inversion W as [|? ? Wx Wl]; subst. destruct S as [F S]. split; [|apply IH; assumption].
  rewrite Forall_forall in *. intros y Hy. apply Hc; [exact Wx| apply Wl, Hy| apply F, Hy].
Qed.

Definition covered (x : N) (l : list ipval) : Prop := exists w, In w l /\ inR x w.

Lemma covered_app q a b : covered q (a ++ b) <-> covered q a \/ covered q b.
Proof.
  unfold covered. split.
  - intros (x & Hx & Hq). apply in_app_or in Hx. destruct Hx; [left|right]; exists x; auto.
  - intros [(x & Hx & Hq)|(x & Hx & Hq)]; exists x; split; auto using in_or_app.
Qed.

Lemma covered_cons q x l : covered q (x :: l) <-> inR q x \/ covered q l.
Proof.
  unfold covered. split.
  - intros (y & [<-|Hy] & Hq); [left; exact Hq| right; exists y; auto].
  - intros [Hq|(y & Hy & Hq)]; [exists x; split; [left; reflexivity| exact Hq]| exists y; split; [right; exact Hy| exact Hq]].
Qed.

Lemma covered_nil q : ~ covered q [].
Proof. intros (x & [] & _). Qed.

Lemma mono_net_cmp p l : p < TOP -> Forall good l -> sd l -> mono (net_cmp p) l.
Proof.
  intros Hp. apply mono_of_sd. intros x y (Gx1 & _ & _ & Gx4) (Gy1 & _ & _ & Gy4) B.
  destruct (Gx4 p Hp) as (X1 & X2). destruct (Gy4 p Hp) as (Y1 & Y2). unfold before in B.
  destruct (Z.lt_trichotomy (net_cmp p x) 0) as [H|[H|H]].
  - assert (net_cmp p y < 0)%Z by (apply Y1; apply X1 in H; lia). lia.
  - destruct (Z.lt_trichotomy (net_cmp p y) 0) as [G|[G|G]]; lia.
  - assert (Z.sgn (net_cmp p y) <= 1)%Z by (destruct (net_cmp p y); cbn; lia). lia.
Qed.

(* ---------- Compare / IsSubset / MakeCombinedValue on intervals ---------- *)
Lemma icompare_spec a b : good a -> good b ->
  ((icompare a b < 0)%Z <-> before a b) /\ ((icompare a b > 0)%Z <-> before b a) /\
  ((icompare a b = 0)%Z <-> ~ before a b /\ ~ before b a).
Proof.
  intros (Ga1 & _) (Gb1 & _). unfold icompare, before. rewrite mip_ltb, mip_gtb.
  destruct (N.ltb_spec (last_addr a) (first_addr b)), (N.ltb_spec (last_addr b) (first_addr a));
    repeat split; intros; try lia.
Qed.

Lemma icompare_refl a : good a -> icompare a a = 0%Z.
Proof.
  intros G. destruct (icompare_spec a a G G) as (_ & _ & H). apply H.
  destruct G as (G1 & _). unfold before. lia.
Qed.

Lemma is_subset_spec a b :
  (is_subset a b = true <-> first_addr b <= first_addr a /\ last_addr a <= last_addr b).
Proof.
  unfold is_subset. rewrite !mip_leb.
  destruct (N.leb_spec (first_addr b) (first_addr a)), (N.leb_spec (last_addr a) (last_addr b));
    cbn [andb]; split; intros; try lia; try discriminate.
Qed.

Lemma mono_icompare v l : good v -> Forall good l -> sd l -> mono (icompare v) l.
Proof.
  intros Gv. apply mono_of_sd. intros x y Gx Gy B.
  destruct (icompare_spec v x Gv Gx) as (X1 & X2 & X3).
  destruct (icompare_spec v y Gv Gy) as (Y1 & Y2 & Y3).
  destruct Gx as (Gx1 & _). destruct Gy as (Gy1 & _). destruct Gv as (Gv1 & _).
  unfold before in *.
  destruct (Z.lt_trichotomy (icompare v x) 0) as [H|[H|H]].
  - assert (icompare v y < 0)%Z by (apply Y1; apply X1 in H; lia). lia.
  - destruct (Z.lt_trichotomy (icompare v y) 0) as [G|[G|G]]; lia.
  - assert (Z.sgn (icompare v y) <= 1)%Z by (destruct (icompare v y); cbn; lia). lia.
Qed.

(* MakeCombinedValue() on two partially overlapping values *)
Lemma combined_good a b : good a -> good b ->
  ~ before a b -> ~ before b a -> is_subset a b = false -> is_subset b a = false ->
  good (combined a b) /\
  first_addr (combined a b) = N.min (first_addr a) (first_addr b) /\
  last_addr (combined a b) = N.max (last_addr a) (last_addr b).
Proof.
  intros Ga Gb Nab Nba Sab Sba.
  assert (S1 : ~ (first_addr b <= first_addr a /\ last_addr a <= last_addr b))
    by (intros H; apply (is_subset_spec a b) in H; congruence).
  assert (S2 : ~ (first_addr a <= first_addr b /\ last_addr b <= last_addr a))
    by (intros H; apply (is_subset_spec b a) in H; congruence).
  destruct Ga as (Ga1 & Ga2 & Ga3 & _). destruct Gb as (Gb1 & Gb2 & Gb3 & _).
  unfold before in *.
  set (f := addr_min (first_addr a) (first_addr b)).
  set (l := addr_max (last_addr a) (last_addr b)).
  assert (Ef : f = N.min (first_addr a) (first_addr b)).
  { unfold f, addr_min, addr_less. rewrite mip_ltb. destruct (N.ltb_spec (first_addr b) (first_addr a)); lia. }
  assert (El : l = N.max (last_addr a) (last_addr b)).
  { unfold l, addr_max, addr_less. rewrite mip_ltb. destruct (N.ltb_spec (last_addr a) (last_addr b)); lia. }
  assert (Hfl : f < l) by lia.
  assert (Hany : isAnyAddr l = false).
  { destruct (isAnyAddr l) eqn:E; [|reflexivity]. exfalso. apply isAny_iff in E. destruct E as [E|E]; [lia|].
    destruct (N.max_spec (last_addr a) (last_addr b)) as [[_ M]|[_ M]]; rewrite <- El, E in M; symmetry in M;
      [apply Gb3 in M| apply Ga3 in M]; lia. }
  assert (Fc : first_addr (combined a b) = f) by reflexivity.
  assert (Lc : last_addr (combined a b) = l).
  { unfold last_addr, combined. cbn [a1 a2 mk]. fold f l. rewrite Hany. reflexivity. }
  split; [|rewrite Fc, Lc; auto].
  unfold good. rewrite Fc, Lc. split; [lia|]. split; [lia|].
  split; [intros E; exfalso; assert (X : isAnyAddr l = true) by (apply isAny_iff; right; exact E); congruence|].
  intros x Hx. unfold net_cmp, combined. cbn [a1 a2 mk]. fold f l. unfold applyMask. rewrite (land_ALL1 x Hx).
  rewrite Hany, mip_geb, mip_leb. destruct (mip_sign x f) as [M1 M2].
  destruct (N.leb_spec f x), (N.leb_spec x l); cbn [andb]; rewrite ?M1, ?M2; split; split; intros; lia.
Qed.

(* ---------- Merge(): the stored sequence stays sorted and disjoint, its union grows by the new value ---------- *)
Definition inv (t : tree ipval) : Prop := Forall good (inorder t) /\ sd (inorder t).

Lemma inv_leaf : inv Leaf.
Proof. split; [constructor| exact I]. Qed.

Theorem merge_spec : forall fuel t n v, inv t -> good v -> (tree_size t < fuel)%nat ->
  exists t' n', merge fuel t n v = MOk t' n' /\ inv t' /\
    (forall q, covered q (inorder t') <-> covered q (inorder t) \/ inR q v).
Proof.
  induction fuel as [|f IH]; intros t n v [W S] Gv Hf; [lia|].
  cbn [merge].
  pose proof (mono_icompare v (inorder t) Gv W S) as M.
  destruct (sp_insert (icompare v) v t) as [t1 [old|]] eqn:Ei.
  - destruct (sp_insert_found _ _ _ _ _ Ei) as (Hi & Hz & Hin).
    assert (Gold : good old) by (rewrite Forall_forall in W; apply W, Hin).
    destruct (icompare_spec v old Gv Gold) as (_ & _ & C0). apply C0 in Hz. destruct Hz as [Nvo Nov].
    pose proof (is_subset_spec v old) as SS1.
    pose proof (is_subset_spec old v) as SS2.
    (* the removal of old, common to the two "continue" branches *)
    assert (Rem : exists A B t2, inorder t = A ++ old :: B /\ sp_remove (icompare old) t1 = (t2, true) /\
                    inorder t2 = A ++ B /\ inv t2 /\ (tree_size t2 < f)%nat).
    { destruct (in_split old (inorder t1)) as (A & B & HAB); [rewrite Hi; exact Hin|].
      rewrite Hi in HAB. pose proof W as W0. pose proof S as S0. rewrite HAB in W0, S0.
      apply Forall_app in W0. destruct W0 as [WA WB']. inversion WB' as [|? ? _ WB]; subst.
      apply sd_app in S0. destruct S0 as (SA & SB' & Hc). cbn [sd] in SB'. destruct SB' as [FB SB].
      assert (BA : forall y, In y A -> before y old) by (intros y Hy; apply Hc; [exact Hy| left; reflexivity]).
      assert (BB : forall y, In y B -> before old y) by (intros y Hy; rewrite Forall_forall in FB; apply FB, Hy).
      assert (PA : Forall (fun y => (icompare old y > 0)%Z) A).
      { rewrite Forall_forall in *. intros y Hy. apply (icompare_spec old y Gold (WA y Hy)). apply BA, Hy. }
      assert (PB : Forall (fun y => (icompare old y < 0)%Z) B).
      { rewrite Forall_forall in *. intros y Hy. apply (icompare_spec old y Gold (WB y Hy)). apply BB, Hy. }
      destruct (sp_remove_spec (icompare old) t1 A old B ltac:(rewrite Hi; exact HAB) (icompare_refl old Gold) PA PB)
        as (t2 & Er & Hi2).
      exists A, B, t2. split; [exact HAB|]. split; [exact Er|]. split; [exact Hi2|]. split.
      - unfold inv. rewrite Hi2. split; [apply Forall_app; auto|].
        apply sd_app. repeat split; try assumption.
        intros x y Hx Hy. specialize (BA x Hx). specialize (BB y Hy).
        destruct Gold as (G1 & _). unfold before in *. lia.
      - rewrite <- (inorder_length t2), Hi2. rewrite <- (inorder_length t), HAB in Hf.
        rewrite app_length in *. cbn [length] in Hf. lia. }
    destruct (is_subset v old) eqn:S1.
    + exists t1, n. split; [reflexivity|]. split; [unfold inv; rewrite Hi; auto|].
      intros q. rewrite Hi. split; [auto|]. intros [H|H]; [exact H|].
      exists old. split; [exact Hin|]. pose proof (proj1 SS1 eq_refl) as S1'. unfold inR in *. lia.
    + destruct Rem as (A & B & t2 & HAB & Er & Hi2 & Inv2 & Sz). rewrite Er.
      destruct (is_subset old v) eqn:S2.
      * destruct (IH t2 (n - 1)%Z v Inv2 Gv Sz) as (t' & n' & Em & Inv' & Hcov).
        exists t', n'. split; [exact Em|]. split; [exact Inv'|].
        intros q. rewrite Hcov, Hi2, HAB. rewrite !covered_app, covered_cons.
        pose proof (proj1 SS2 eq_refl) as S2'. unfold inR. split; [tauto|]. intros [[H|[H|H]]|H]; try tauto. right. lia.
      * destruct (combined_good old v Gold Gv Nov Nvo S2 S1) as (Gc & Fc & Lc).
        destruct (IH t2 (n - 1)%Z (combined old v) Inv2 Gc Sz) as (t' & n' & Em & Inv' & Hcov).
        exists t', n'. split; [exact Em|]. split; [exact Inv'|].
        intros q. rewrite Hcov, Hi2, HAB. rewrite !covered_app, covered_cons.
        assert (Hu : inR q (combined old v) <-> inR q old \/ inR q v).
        { unfold inR. rewrite Fc, Lc. unfold before in *.
          destruct Gold as (Go1 & _). destruct Gv as (Gv1 & _). lia. }
        rewrite Hu. tauto.
  - destruct (sp_insert_new _ v t t1 M Ei) as (A & B & HAB & Hi & PA & PB).
    rewrite HAB in W, S. apply Forall_app in W. destruct W as [WA WB].
    apply sd_app in S. destruct S as (SA & SB & Hc).
    exists t1, (n + 1)%Z. split; [reflexivity|]. split.
    + unfold inv. rewrite Hi. split; [apply Forall_app; split; [exact WA| constructor; assumption]|].
      rewrite Forall_forall in *.
      apply sd_app. split; [exact SA|]. split.
      * cbn [sd]. split; [|exact SB]. rewrite Forall_forall. intros y Hy.
        apply (icompare_spec v y Gv (WB y Hy)). apply PB, Hy.
      * intros x y Hx [<-|Hy]; [|apply Hc; assumption].
        apply (icompare_spec v x Gv (WA x Hx)). apply PA, Hx.
    + intros q. rewrite Hi, HAB. rewrite !covered_app, covered_cons. tauto.
Qed.

Theorem merge_all_spec : forall vals t n, inv t -> Forall good vals ->
  exists t' n', merge_all t n vals = MOk t' n' /\ inv t' /\
    (forall q, covered q (inorder t') <-> covered q (inorder t) \/ covered q vals).
Proof.
  induction vals as [|v vals IH]; intros t n Hinv W.
  - exists t, n. split; [reflexivity|]. split; [exact Hinv|].
    intros q. split; [auto|]. intros [H|H]; [exact H| destruct (covered_nil q H)].
  - inversion W as [|? ? Wv Wr]; subst. cbn [merge_all].
    destruct (merge_spec (merge_fuel t) t n v Hinv Wv ltac:(unfold merge_fuel; lia)) as (t1 & n1 & Em & Inv1 & Hc1).
    rewrite Em. destruct (IH t1 n1 Inv1 Wr) as (t' & n' & Ep & Inv' & Hc').
    exists t', n'. split; [exact Ep|]. split; [exact Inv'|].
    intros q. rewrite Hc', Hc1, covered_cons. tauto.
Qed.

(* ---------- match(): lookup in a sorted, disjoint sequence ---------- *)
Theorem acl_lookup_spec t p : inv t -> p < TOP ->
  inorder (fst (acl_lookup t p)) = inorder t /\
  (snd (acl_lookup t p) = true <-> covered p (inorder t)).
Proof.
  intros [W S] Hp. unfold acl_lookup.
  pose proof (sp_find_inorder (net_cmp p) t) as Hi.
  pose proof (sp_find_iff (net_cmp p) t (mono_net_cmp p _ Hp W S)) as Hiff.
  destruct (sp_find (net_cmp p) t) as [t' r]. cbn [fst snd] in *. split; [exact Hi|].
  assert (E : (match r with Some _ => true | None => false end) = true <-> exists x, r = Some x).
  { destruct r as [x|]; split; intros H; [exists x; reflexivity| reflexivity| discriminate| destruct H; discriminate]. }
  rewrite E, Hiff. unfold covered.
  split; intros (x & Hin & Hx); exists x; (split; [exact Hin|]);
    rewrite Forall_forall in W; destruct (W x Hin) as (G1 & _ & _ & G4);
    destruct (G4 p Hp) as (X1 & X2); unfold inR in *; lia.
Qed.

(* a lookup re-shapes the tree but keeps the invariant *)
Lemma inv_lookup t p : inv t -> inv (fst (acl_lookup t p)).
Proof.
  intros [W S]. unfold acl_lookup. pose proof (sp_find_inorder (net_cmp p) t) as Hi.
  destruct (sp_find (net_cmp p) t) as [t' r]. cbn [fst] in *. unfold inv. rewrite Hi. auto.
Qed.

(* ---------- ACLIP::parse() ---------- *)
Definition tok_vals (tk : bytes * spec) : list ipval :=
  match parse_global (fst tk) with
  | Some _ => []
  | None => match snd tk with SV vals => vals | _ => [] end
  end.
Definition vals_of (toks : list (bytes * spec)) : list ipval := flat_map tok_vals toks.
Definition any4 (toks : list (bytes * spec)) : bool :=
  existsb (fun tk => match parse_global (fst tk) with Some (g4, _) => g4 | None => false end) toks.
Definition any6 (toks : list (bytes * spec)) : bool :=
  existsb (fun tk => match parse_global (fst tk) with Some (_, g6) => g6 | None => false end) toks.
(* the token was understood: a global word, or FactoryParse() returned values *)
Definition tok_parsed (tk : bytes * spec) : Prop :=
  parse_global (fst tk) <> None \/ exists vals, snd tk = SV vals.

Theorem acl_parse_from_spec : forall toks f4 f6 t n, inv t -> Forall tok_parsed toks -> Forall good (vals_of toks) ->
  exists t' n', acl_parse_from f4 f6 t n toks = POk (f4 || any4 toks) (f6 || any6 toks) t' n' /\ inv t' /\
    (forall q, covered q (inorder t') <-> covered q (inorder t) \/ covered q (vals_of toks)).
Proof.
  induction toks as [|[tok sp] toks IH]; intros f4 f6 t n Hinv HP HG.
  - exists t, n. cbn. rewrite !orb_false_r. split; [reflexivity|]. split; [exact Hinv|].
    intros q. split; [auto|]. intros [H|H]; [exact H| destruct (covered_nil q H)].
  - inversion HP as [|? ? P1 PR]; subst. unfold vals_of in HG. cbn [flat_map] in HG.
    apply Forall_app in HG. destruct HG as [G1 GR].
    cbn [acl_parse_from any4 any6 existsb fst]. unfold tok_vals in G1. cbn [fst snd] in G1.
    unfold tok_parsed in P1. cbn [fst snd] in P1.
    destruct (parse_global tok) as [[g4 g6]|] eqn:EG.
    + destruct (IH (f4 || g4) (f6 || g6) t n Hinv PR GR) as (t' & n' & E & Inv' & Hc).
      exists t', n'. rewrite E, !orb_assoc. split; [reflexivity|]. split; [exact Inv'|].
      intros q. rewrite Hc. unfold vals_of. cbn [flat_map]. unfold tok_vals at 2. cbn [fst]. rewrite EG. cbn [app]. tauto.
    + destruct P1 as [P1|[vals ->]]; [congruence|].
      destruct (merge_all_spec vals t n Hinv G1) as (t1 & n1 & Em & Inv1 & Hc1). rewrite Em.
      destruct (IH f4 f6 t1 n1 Inv1 PR GR) as (t' & n' & E & Inv' & Hc).
      exists t', n'. rewrite E. cbn [orb]. split; [reflexivity|]. split; [exact Inv'|].
      intros q. rewrite Hc, Hc1. unfold vals_of. cbn [flat_map]. unfold tok_vals at 2. cbn [fst snd]. rewrite EG.
      rewrite covered_app. tauto.
Qed.

(* ---------- ACLIP::match() ---------- *)
Definition match_spec (f4 f6 : bool) (p : N) (l : list ipval) : Prop :=
  (f4 = true /\ f6 = true) \/ (f4 = true /\ isIPv4 p = true) \/ (f6 = true /\ isIPv4 p = false) \/ covered p l.

Theorem acl_match_spec f4 f6 t p : inv t -> p < TOP ->
  inv (fst (acl_match f4 f6 t p)) /\ inorder (fst (acl_match f4 f6 t p)) = inorder t /\
  (snd (acl_match f4 f6 t p) = true <-> match_spec f4 f6 p (inorder t)).
Proof.
  intros Hinv Hp. destruct (acl_lookup_spec t p Hinv Hp) as [Li Lm].
  pose proof (inv_lookup t p Hinv) as Linv.
  unfold acl_match, match_spec, isIPv6.
  destruct f4, f6, (isIPv4 p); cbn [negb fst snd]; (split; [assumption|]); (split; [assumption || reflexivity|]);
    rewrite ?Lm; split; intros; try tauto; try (destruct H as [[? ?]|[[? ?]|[[? ?]|?]]]; try discriminate; tauto).
Qed.

(* ================================================================== *)
(* the property over configured values                                  *)
Lemma cv_hi_top c : cv_ok c -> cv_lo c <= cv_hi c /\ cv_hi c < TOP.
Proof.
  intros H. destruct (good_cv c H) as (G1 & G2 & _). rewrite (cv_first c H), (cv_last c H) in *. lia.
Qed.

Lemma good_cv_all cs : Forall cv_ok cs -> Forall good (map cv_val cs).
Proof.
  intros H. rewrite Forall_forall in *. intros v Hv. apply in_map_iff in Hv. destruct Hv as (c & <- & Hc).
  apply good_cv, H, Hc.
Qed.

Lemma covered_cv cs q : Forall cv_ok cs -> (covered q (map cv_val cs) <-> exists c, In c cs /\ cv_in q c).
Proof.
  intros H. rewrite Forall_forall in H. unfold covered, inR, cv_in. split.
  - intros (w & Hw & Hq). apply in_map_iff in Hw. destruct Hw as (c & <- & Hc). exists c. split; [exact Hc|].
    rewrite (cv_first c (H c Hc)), (cv_last c (H c Hc)) in Hq. exact Hq.
  - intros (c & Hc & Hq). exists (cv_val c). split; [apply in_map, Hc|].
    rewrite (cv_first c (H c Hc)), (cv_last c (H c Hc)). exact Hq.
Qed.

Definition acl_spec (f4 f6 : bool) (cs : list cval) (p : N) : Prop :=
  (f4 = true /\ f6 = true) \/ (f4 = true /\ isIPv4 p = true) \/ (f6 = true /\ isIPv4 p = false) \/
  (exists c, In c cs /\ cv_in p c).

Definition stored_ok (cs : list cval) (t : tree ipval) : Prop :=
  inv t /\ (forall q, covered q (inorder t) <-> exists c, In c cs /\ cv_in q c).

(* parse(): ends normally; the stored ranges are sorted, pairwise disjoint, and have the configured union *)
Theorem acl_parse_ok toks cs : Forall tok_parsed toks -> vals_of toks = map cv_val cs -> Forall cv_ok cs ->
  exists t n, acl_parse toks = POk (any4 toks) (any6 toks) t n /\ stored_ok cs t.
Proof.
  intros HP HV Hok.
  destruct (acl_parse_from_spec toks false false Leaf 0%Z inv_leaf HP ltac:(rewrite HV; apply good_cv_all; assumption))
    as (t & n & E & Inv & Hc).
  exists t, n. split; [exact E|]. split; [exact Inv|].
  intros q. rewrite Hc, HV, (covered_cv cs q Hok). cbn [inorder]. split; [|tauto].
  intros [H|H]; [destruct (covered_nil q H)| exact H].
Qed.

Lemma sd_disjoint l : sd l -> forall A x B y C, l = A ++ x :: B ++ y :: C -> last_addr x < first_addr y.
Proof.
  intros S A x B y C ->. apply sd_app in S. destruct S as (_ & S & _). cbn [sd] in S. destruct S as [F _].
  rewrite Forall_forall in F. apply F. apply in_or_app. right. left. reflexivity.
Qed.

Theorem acl_match_ok cs t f4 f6 p : stored_ok cs t -> p < TOP ->
  stored_ok cs (fst (acl_match f4 f6 t p)) /\
  (snd (acl_match f4 f6 t p) = true <-> acl_spec f4 f6 cs p).
Proof.
  intros [Inv Hc] Hp.
  destruct (acl_match_spec f4 f6 t p Inv Hp) as (I2 & Hi & Hm).
  split.
  - split; [exact I2|]. intros q. rewrite Hi. apply Hc.
  - rewrite Hm. unfold match_spec, acl_spec. rewrite Hc. tauto.
Qed.

Theorem acl_match_seq_ok cs f4 f6 : forall ps t,
  stored_ok cs t -> Forall (fun p => p < TOP) ps ->
  Forall2 (fun p b => b = true <-> acl_spec f4 f6 cs p) ps (snd (acl_match_seq f4 f6 t ps)).
Proof.
  induction ps as [|p ps IH]; intros t St HP; cbn [acl_match_seq]; [constructor|].
  inversion HP as [|? ? Hp HR]; subst.
  destruct (acl_match_ok cs t f4 f6 p St Hp) as [St1 Hm].
  destruct (acl_match f4 f6 t p) as [t1 b]. cbn [fst snd] in *.
  specialize (IH t1 St1 HR). destruct (acl_match_seq f4 f6 t1 ps) as [t2 bs]. cbn [snd] in *.
  constructor; assumption.
Qed.

(* the property, end to end *)
Theorem acl_correct toks cs p : Forall tok_parsed toks -> vals_of toks = map cv_val cs -> Forall cv_ok cs ->
  p < TOP ->
  exists t n, acl_parse toks = POk (any4 toks) (any6 toks) t n /\
    (snd (acl_match (any4 toks) (any6 toks) t p) = true <-> acl_spec (any4 toks) (any6 toks) cs p).
Proof.
  intros HP HV Hok Hp.
  destruct (acl_parse_ok toks cs HP HV Hok) as (t & n & E & St).
  exists t, n. split; [exact E|]. apply (acl_match_ok cs t _ _ p St Hp).
Qed.

(* the stored ranges are non-empty, increasing and pairwise disjoint *)
Theorem stored_disjoint cs t : stored_ok cs t ->
  (forall x, In x (inorder t) -> first_addr x <= last_addr x) /\
  (forall A x B y C, inorder t = A ++ x :: B ++ y :: C -> last_addr x < first_addr y).
Proof.
  intros [[W S] _]. split.
  - intros x Hx. rewrite Forall_forall in W. destruct (W x Hx) as (G1 & _). exact G1.
  - apply sd_disjoint, S.
Qed.

(* comparators on sorted disjoint configured values *)
Theorem net_cmp_monotone cs p : Forall cv_ok cs -> p < TOP -> sd (map cv_val cs) ->
  mono (net_cmp p) (map cv_val cs).
Proof. intros Hok Hp S. apply (mono_net_cmp p _ Hp); [apply good_cv_all, Hok| exact S]. Qed.

Theorem icompare_monotone cs c : cv_ok c -> Forall cv_ok cs -> sd (map cv_val cs) ->
  mono (icompare (cv_val c)) (map cv_val cs).
Proof. intros Hc Hok S. apply mono_icompare; [apply good_cv, Hc| apply good_cv_all, Hok| exact S]. Qed.

Theorem compare_overlap c1 c2 : cv_ok c1 -> cv_ok c2 ->
  ((icompare (cv_val c1) (cv_val c2) < 0)%Z <-> cv_hi c1 < cv_lo c2) /\
  ((icompare (cv_val c1) (cv_val c2) > 0)%Z <-> cv_hi c2 < cv_lo c1) /\
  ((icompare (cv_val c1) (cv_val c2) = 0)%Z <-> exists x, cv_in x c1 /\ cv_in x c2).
Proof.
  intros H1 H2.
  destruct (icompare_spec _ _ (good_cv c1 H1) (good_cv c2 H2)) as (X1 & X2 & X3).
  unfold before in *. rewrite (cv_first c1 H1), (cv_last c1 H1), (cv_first c2 H2), (cv_last c2 H2) in *.
  pose proof (cv_hi_top c1 H1) as [L1 _]. pose proof (cv_hi_top c2 H2) as [L2 _].
  split; [exact X1|]. split; [exact X2|]. rewrite X3. unfold cv_in. split.
  - intros [N1 N2]. exists (N.max (cv_lo c1) (cv_lo c2)). lia.
  - intros (x & I1 & I2). lia.
Qed.

Theorem subset_is_inclusion c1 c2 : cv_ok c1 -> cv_ok c2 ->
  (is_subset (cv_val c1) (cv_val c2) = true <-> cv_lo c2 <= cv_lo c1 /\ cv_hi c1 <= cv_hi c2).
Proof.
  intros H1 H2. rewrite is_subset_spec, (cv_first c1 H1), (cv_last c1 H1), (cv_first c2 H2), (cv_last c2 H2). reflexivity.
Qed.

Theorem netcompare_sign c p : cv_ok c -> p < TOP ->
  ((net_cmp p (cv_val c) < 0)%Z <-> p < cv_lo c) /\
  ((net_cmp p (cv_val c) = 0)%Z <-> cv_in p c) /\
  ((net_cmp p (cv_val c) > 0)%Z <-> cv_hi c < p).
Proof.
  intros H Hp. destruct (good_cv c H) as (_ & _ & _ & G4). destruct (G4 p Hp) as [X1 X2].
  rewrite (cv_first c H), (cv_last c H) in *. unfold cv_in. repeat split; intros; lia.
Qed.

(* ---------- tokens that are plain values ---------- *)
Definition tok_x : bytes := [120%N].
Definition plain_toks (cs : list cval) : list (bytes * spec) := map (fun c => (tok_x, SV [cv_val c])) cs.

Lemma plain_toks_vals cs : vals_of (plain_toks cs) = map cv_val cs.
Proof. induction cs as [|c cs IH]; [reflexivity|]. unfold vals_of, plain_toks in *. cbn [map flat_map]. rewrite IH. reflexivity. Qed.

Lemma plain_toks_parsed cs : Forall tok_parsed (plain_toks cs).
Proof. unfold plain_toks. rewrite Forall_forall. intros tk H. apply in_map_iff in H. destruct H as (c & <- & _). right. eexists. reflexivity. Qed.

Lemma plain_toks_flags cs : any4 (plain_toks cs) = false /\ any6 (plain_toks cs) = false.
Proof.
  assert (E : parse_global tok_x = None) by reflexivity.
  unfold plain_toks, any4, any6. split; induction cs as [|c cs IH]; cbn [map existsb fst]; [reflexivity| |reflexivity|];
    rewrite E, IH; reflexivity.
Qed.

(* ---------- DecodeMask("/<int>") ---------- *)
Lemma mask_of_cidr_pmask k (v4 : bool) : 0 < k -> k <= (if v4 then 32 else 128) ->
  mask_of_cidr k v4 = Some (pmask ((if v4 then 32 else 128) - k)).
Proof.
  intros H0 Hk. unfold mask_of_cidr.
  assert (E1 : (128 <? k) = false) by (apply N.ltb_ge; destruct v4; lia).
  assert (E2 : ((32 <? k) && v4)%bool = false) by (destruct v4; [rewrite andb_true_r; apply N.ltb_ge; lia| apply andb_false_r]).
  assert (E3 : (k =? 0) = false) by (apply N.eqb_neq; lia).
  rewrite E1, E2, E3. f_equal.
  rewrite <- N.ldiff_ones_r. symmetry. apply pmask_ldiff. destruct v4; lia.
Qed.

Lemma cv_ok_net0 a : a < TOP -> cv_ok (CNet a 0).
Proof. intros H. cbn [cv_ok]. change (2 ^ 0) with 1. rewrite N.mod_1_r. lia. Qed.
Lemma cv_ok_range0 a b : a <= b -> b < TOP -> (b = V4ANY -> a = V4ANY) -> cv_ok (CRange a b 0).
Proof. intros H1 H2 H3. cbn [cv_ok]. change (2 ^ 0) with 1. rewrite !N.mod_1_r. lia. Qed.
Lemma cv_in_net0 x a : cv_in x (CNet a 0) <-> x = a.
Proof. unfold cv_in, cv_lo, cv_hi. change (2 ^ 0) with 1. lia. Qed.
Lemma cv_in_range0 x a b : cv_in x (CRange a b 0) <-> a <= x <= b.
Proof. unfold cv_in, cv_lo, cv_hi. change (2 ^ 0) with 1. lia. Qed.

Definition db8_1 : N := 42540766411282592856903984951653826561.   (* 2001:db8::1 *)
Definition db8_5 : N := 42540766411282592856903984951653826565.   (* 2001:db8::5 *)

(* the situations that went wrong before 98f97cc (Ip::Address::operator< and friends are not an order);
   they also follow from acl_correct, and are kept as computed regressions *)
Lemma fixed_anyaddr_order :
  (let cs := [CNet 1 0; CNet V4ANY 0] in
   exists t n, acl_parse (plain_toks cs) = POk false false t n /\ snd (acl_match false false t 1) = true) /\
  (let cs := [CRange 1 5 0] in
   exists t n, acl_parse (plain_toks cs) = POk false false t n /\ snd (acl_match false false t V4ANY) = false) /\
  (let cs := [CRange db8_1 db8_5 0] in
   exists t n, acl_parse (plain_toks cs) = POk false false t n /\ snd (acl_match false false t V4NO) = false).
Proof.
  cbv zeta. repeat split; (eexists; eexists; split; [vm_compute; reflexivity|]; vm_compute; reflexivity).
Qed.

(* "::/0": DecodeMask() turns prefix length 0 into the NoAddr (all-ones) mask, i.e. the single address :: *)
Lemma prefix0_witness :
  mask_of_cidr 0 false = Some (pmask 0) /\ mask_of_cidr 0 true = Some (pmask 0) /\
  IpVal 0 0 (pmask 0) = cv_val (CNet 0 0) /\
  cv_in 1 (CNet 0 128) /\ ~ cv_in 1 (CNet 0 0).
Proof.
  split; [reflexivity|]. split; [reflexivity|]. split; [reflexivity|]. split.
  - unfold cv_in, cv_lo, cv_hi. change (2 ^ 128) with TOP. consts. lia.
  - rewrite cv_in_net0. lia.
Qed.

(* acl x src 10.0.0.9-10.0.0.1 10.0.0.0/8 : Merge() frees a value the tree still holds *)
Lemma reversed_range_witness :
  acl_parse [(tok_x, SV [IpVal (V4ANY + 167772169) (V4ANY + 167772161) ALL1]);
             (tok_x, SV [IpVal (V4ANY + 167772160) 0 (pmask 24)])] = PDangling.
Proof. vm_compute. reflexivity. Qed.

(* ---------- statements assembled for Properties_C42.v ---------- *)
Lemma first_last_ends c : cv_ok c ->
  first_addr (cv_val c) = cv_lo c /\ last_addr (cv_val c) = cv_hi c /\
  (forall x, cv_in x c <-> cv_lo c <= x <= cv_hi c).
Proof. intros H. split; [apply cv_first, H|]. split; [apply cv_last, H|]. intros x. reflexivity. Qed.

Lemma parse_disjoint_same_union toks cs :
  Forall tok_parsed toks -> vals_of toks = map cv_val cs -> Forall cv_ok cs ->
  exists t n, acl_parse toks = POk (any4 toks) (any6 toks) t n /\
    (forall x, In x (inorder t) -> first_addr x <= last_addr x) /\
    (forall A x B y C, inorder t = A ++ x :: B ++ y :: C -> last_addr x < first_addr y) /\
    (forall q, (exists w, In w (inorder t) /\ first_addr w <= q <= last_addr w) <-> (exists c, In c cs /\ cv_in q c)).
Proof.
  intros HP HV Hok. destruct (acl_parse_ok toks cs HP HV Hok) as (t & n & E & St).
  exists t, n. split; [exact E|]. destruct (stored_disjoint cs t St) as [D1 D2].
  split; [exact D1|]. split; [exact D2|]. exact (proj2 St).
Qed.

Lemma global_words :
  parse_global s_all = Some (true, true) /\ parse_global s_ipv4 = Some (true, false) /\
  parse_global s_ipv6 = Some (false, true) /\ parse_global tok_x = None.
Proof. repeat split; reflexivity. Qed.

Definition net10 : N := V4ANY + 167772160.           (* 10.0.0.0 *)
Definition blk_lo : N := V4ANY + 3232237328.         (* 192.168.7.16 *)
Definition blk_hi : N := V4ANY + 3232237335.         (* 192.168.7.23 *)

Lemma ex_values_ok : Forall cv_ok [CNet net10 24; CRange blk_lo blk_hi 0; CNet db8_1 0; CNet V4ANY 0; CRange 1 5 0].
Proof.
  unfold net10, blk_lo, blk_hi. repeat (apply Forall_cons || apply Forall_nil).
  - cbn [cv_ok]. split; [lia|]. split; [rewrite V4ANY_val, TOP_val; lia|]. vm_compute. reflexivity.
  - apply cv_ok_range0; rewrite ?V4ANY_val, ?TOP_val; lia.
  - apply cv_ok_net0. unfold db8_1. rewrite TOP_val. lia.
  - apply cv_ok_net0. rewrite V4ANY_val, TOP_val. lia.
  - apply cv_ok_range0; rewrite ?V4ANY_val, ?TOP_val; lia.
Qed.

Lemma ex_plain_tokens cs : Forall tok_parsed (plain_toks cs) /\ vals_of (plain_toks cs) = map cv_val cs.
Proof. split; [apply plain_toks_parsed| apply plain_toks_vals]. Qed.
