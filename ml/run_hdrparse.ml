(* handlers for the hdrparse area (C25): HttpHeader::parse, HttpHeaderEntry::parse, packInto *)
let ent_str (e : hentry) : string =
  string_of_n (he_id e) ^ ":" ^ hex_of_bytes (he_name e) ^ ":" ^ hex_of_bytes (he_value e)
let res_str (r : hresult) : string =
  "conf=" ^ b2s (hr_conflicting r) ^ " teu=" ^ b2s (hr_teUnsupported r) ^
  " n=" ^ string_of_int (List.length (hr_entries r)) ^
  String.concat "" (List.map (fun e -> " " ^ ent_str e) (hr_entries r))

let () =
  reg "tbl" (fun [] ->
      String.concat " " (List.map (fun ((id, nm), _) -> string_of_n id ^ ":" ^ hex_of_bytes nm) hdr_table));
  reg "ep" (fun [owner; fld] ->
      match h_entry_parse (owner = "q") (bytes_of_hex fld) with
      | None -> "fail"
      | Some e -> "ok " ^ ent_str e);
  reg "hp" (fun [mode; owner; proh; blk] ->
      let relaxed = relaxed_of (z_of_string mode) in
      let req = (owner = "q") in
      let ph = (proh <> "0") in
      match h_parse relaxed req ph (bytes_of_hex blk) with
      | None -> "fail"
      | Some r ->
        let packed = h_pack (hr_entries r) in
        "ok " ^ res_str r ^ " P " ^ hex_of_bytes packed ^ " R " ^
        (match h_parse relaxed req ph packed with
         | None -> "fail"
         | Some r2 -> res_str r2))
