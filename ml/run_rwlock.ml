(* handlers for the rwlock area (C54: Ipc::ReadWriteLock under explicit schedules).
   case:  rw.run <n> <script_0> .. <script_{n-1}> <schedule>   (see harness/h_rwlock.cc) *)
let op_of_char = function
  | 'S' -> OpLS | 's' -> OpUS | 'X' -> OpLX | 'x' -> OpUX | 'H' -> OpLH | 'h' -> OpUH
  | 'D' -> OpSW | 'U' -> OpSX | 'A' -> OpSA | 'a' -> OpSP
  | _ -> failwith "bad-op"
let char_of_op = function
  | OpLS -> 'S' | OpUS -> 's' | OpLX -> 'X' | OpUX -> 'x' | OpLH -> 'H' | OpUH -> 'h'
  | OpSW -> 'D' | OpSX -> 'U' | OpSA -> 'A' | OpSP -> 'a'
let is_void = function OpUS | OpUX | OpUH | OpSW | OpSA -> true | _ -> false
let char_of_mode = function
  | MIdle -> 'I' | MShared -> 'S' | MHeaders -> 'H' | MExcl -> 'X' | MAppend -> 'A' | MBusy -> 'B'
let explode s = if s = "-" then [] else List.init (String.length s) (String.get s)
let show_event (t, e) =
  let ts = string_of_n t in
  match e with
  | EvRet (o, r) -> Printf.sprintf "%s%c%c" ts (char_of_op o) (if is_void o then '.' else if r then '+' else '-')
  | EvUse m -> Printf.sprintf "%s@%c" ts (char_of_mode m)
  | EvFin m -> Printf.sprintf "%s!%c" ts (char_of_mode m)
  | EvCrash -> Printf.sprintf "%s#" ts
let show_z z = match z with
  | Zneg _ -> (* uint32_t wrap, for display only *)
    string_of_z (Z.add z (Zpos (pos_of_int 4294967296)))
  | _ -> string_of_z z
let () =
  reg "rw.run" (fun (ns :: rest) ->
      let n = int_of_string ns in
      if n < 1 || n > 8 || List.length rest <> n + 1 then "ERR bad-args" else
      let scripts = List.map (fun s -> List.map op_of_char (explode s)) (List.filteri (fun i _ -> i < n) rest) in
      let sched = List.map (fun c -> n_of_int (Char.code c - 48)) (explode (List.nth rest n)) in
      match run_case scripts sched with
      | None -> "FUEL"
      | Some ((st, evs), steps) ->
        let s = st.sh in
        let log = if evs = [] then "-" else String.concat " " (List.map show_event evs) in
        let modes = String.concat "" (List.map (fun (p, _) ->
            match holds p with Some m -> String.make 1 (char_of_mode m) | None -> "#") st.ths) in
        let pr = match probe s with
          | None -> "FUEL"
          | Some l -> String.concat "" (List.map (function
              | EvRet (_, r) -> if r then "+" else "-"
              | EvCrash -> "#"
              | _ -> "?") l) in
        Printf.sprintf "%s | R=%s W=%s A=%s U=%s rl=%s wl=%s | m=%s | p=%s | steps=%s"
          log (show_z s.readers) (b2s s.writing) (b2s s.appending) (b2s s.updating)
          (show_z s.readLevel) (show_z s.writeLevel) modes pr (string_of_n steps))
