(* ReqparseGrammar.v — C22: request-line acceptance of ReqparseModel.v versus the HTTP grammar. *)
Require Import SquidV.Bytes SquidV.TokModel SquidV.TokProofs SquidV.Incremental SquidV.ReqparseModel SquidV.ReqparseProofs.
Require Import SquidV.gen.CharSets_gen SquidV.gen.ReqTabs_gen.
Require Import ZifyBool ZifyN ZifyNat.
Local Open Scope N_scope.

(* ================================================================== *)
(* C22: request-line acceptance vs the grammar                          *)
(* ================================================================== *)
Lemma list_eqb_eq a b : list_eqb a b = true -> a = b.
Proof.
  revert b; induction a as [|x a IH]; intros [|y b]; cbn [list_eqb]; intros H; try discriminate; [reflexivity|].
  apply andb_prop in H. destruct H as [H1 H2]. apply N.eqb_eq in H1. subst. f_equal. apply IH. exact H2.
Qed.

Lemma list_eqb_refl a : list_eqb a a = true.
Proof. induction a as [|x a IH]; cbn [list_eqb]; [reflexivity|]. rewrite N.eqb_refl, IH. reflexivity. Qed.

Lemma tok_skipSuffix_sound suf t t' : tok_skipSuffix suf t = (true, t') -> t = t' ++ suf.
Proof.
  unfold tok_skipSuffix. destruct (lenN t <? lenN suf); [intros H; inversion H|].
  destruct (list_eqb (dropN (lenN t - lenN suf) t) suf) eqn:E; [|intros H; inversion H].
  intros H; inversion H; subst t'. apply list_eqb_eq in E.
  pose proof (takeN_dropN (lenN t - lenN suf) t) as G. rewrite E in G. symmetry. exact G.
Qed.

Lemma tok_skipOneTrailing_sound set t t' :
  tok_skipOneTrailing set t = (true, t') -> exists c, t = t' ++ [c] /\ set c = true.
Proof.
  unfold tok_skipOneTrailing, last_byte. destruct (rev t) as [|c r] eqn:R; [intros H; inversion H|].
  destruct (set c) eqn:Sc; [|intros H; inversion H]. intros H; inversion H; subst t'.
  assert (Ht : t = rev r ++ [c]).
  { rewrite <- (rev_involutive t), R. reflexivity. }
  exists c. split; [|exact Sc].
  assert (Hk : takeN (lenN t - 1) t = rev r).
  { rewrite Ht, lenN_app. cbn [lenN].
    replace (lenN (rev r) + N.succ 0 - 1) with (lenN (rev r)) by lia. apply takeN_app_exact. }
  rewrite Hk. exact Ht.
Qed.

Lemma singleton_of_len {A} (l : list A) : l <> [] -> (1 <? lenN l) = false -> exists x, l = [x].
Proof.
  destruct l as [|x [|y r]]; intros H1 H2; [congruence|eauto|]. cbn [lenN] in H2. lia.
Qed.

(* the pieces of the grammar *)
Definition method_ok (m : bytes) : Prop := m <> [] /\ forallb cs_TCHAR m = true /\ lenN m <= req_max_method.
Definition delims_ok (relaxed : bool) (ds : bytes) : Prop :=
  ds <> [] /\ forallb (delim relaxed) ds = true /\ (relaxed = false -> lenN ds = 1).
Definition crs_ok (relaxed : bool) (crs : bytes) : Prop :=
  forallb cs_CR crs = true /\ (relaxed = false -> lenN crs = 1).
Definition target_ok (relaxed : bool) (t : bytes) : Prop :=
  t <> [] /\ forallb (target_chars relaxed) t = true /\ lenN t <= req_max_uri.

Lemma parse_method_sound relaxed s line s1 t1 :
  parse_method relaxed s line = (s1, Some t1) ->
  exists m ds1, line = m ++ ds1 ++ t1 /\ method_ok m /\ delims_ok relaxed ds1 /\
                s1 = set_method s (method_of relaxed m) /\
                match t1 with [] => True | y :: _ => delim relaxed y = false end.
Proof.
  unfold parse_method.
  destruct (tok_prefix cs_TCHAR req_max_method line) as [[m x1]|] eqn:P; [|intros H; inversion H].
  rewrite tok_skipAll_spec.
  pose proof (span_app (delim relaxed) x1) as Happ. pose proof (span_all (delim relaxed) x1) as Hall.
  pose proof (span_stop (delim relaxed) x1) as Hstop.
  destruct (span (delim relaxed) x1) as [ds rest]. cbn [fst snd] in *.
  destruct (skip_delimiter relaxed (lenN ds)) eqn:SD; intros H; inversion H; subst s1 t1.
  apply tok_prefix_sound in P. destruct P as (Hb & Hne & Hm & Hlen & _).
  exists m, ds. split; [rewrite Happ; symmetry; exact Hb|].
  split; [repeat split; assumption|]. split; [|split; [reflexivity|exact Hstop]].
  unfold skip_delimiter in SD.
  destruct (lenN ds =? 0) eqn:E0; [discriminate|].
  split; [intros C; rewrite C in E0; cbn in E0; discriminate|]. split; [exact Hall|].
  intros ->. cbn [negb andb] in SD. rewrite Bool.andb_true_r in SD.
  destruct (1 <? lenN ds) eqn:E1; [discriminate|]. lia.
Qed.

Lemma skip_trailing_crs_sound relaxed s t s2 t2 :
  skip_trailing_crs relaxed s t = (s2, Some t2) -> s2 = s /\ exists crs, t = t2 ++ crs /\ crs_ok relaxed crs.
Proof.
  unfold skip_trailing_crs. destruct relaxed.
  - rewrite tok_skipAllTrailing_spec. cbn [snd]. intros H; inversion H; subst. split; [reflexivity|].
    exists (tail_run cs_CR t). split; [symmetry; apply tail_split|]. split; [apply tail_run_all|discriminate].
  - destruct (tok_skipOneTrailing cs_CR t) as [ok t1] eqn:E. destruct ok; intros H; inversion H; subst.
    split; [reflexivity|]. apply tok_skipOneTrailing_sound in E. destruct E as (c & Ht & Hc).
    exists [c]. split; [exact Ht|]. split; [cbn [forallb]; rewrite Hc; reflexivity|reflexivity].
Qed.

Lemma version_suffix_sound t majorD minorD td :
  version_suffix t = Some (majorD, minorD, td) ->
  t = td ++ http_slash ++ majorD ++ [46] ++ minorD /\
  majorD <> [] /\ minorD <> [] /\ forallb cs_DIGIT majorD = true /\ forallb cs_DIGIT minorD = true.
Proof.
  unfold version_suffix.
  destruct (tok_suffix cs_DIGIT npos t) as [[mi ta]|] eqn:S1; [|discriminate].
  destruct (tok_skipOneTrailing period ta) as [okp tb] eqn:S2. destruct okp; [|discriminate].
  destruct (tok_suffix cs_DIGIT npos tb) as [[ma tc]|] eqn:S3; [|discriminate].
  destruct (tok_skipSuffix http_slash tc) as [okh td'] eqn:S4. destruct okh; [|discriminate].
  intros H; inversion H; subst ma mi td'.
  apply tok_suffix_sound in S1. destruct S1 as (H1 & N1 & D1 & _).
  apply tok_skipOneTrailing_sound in S2. destruct S2 as (c & H2 & Hc).
  apply tok_suffix_sound in S3. destruct S3 as (H3 & N3 & D3 & _).
  apply tok_skipSuffix_sound in S4.
  unfold period in Hc. apply N.eqb_eq in Hc. subst c.
  split; [|auto]. rewrite <- H1, H2, <- H3, S4. rewrite <- !app_assoc. reflexivity.
Qed.

Lemma digit_49 : cs_DIGIT 49 = true /\ cs_DIGIT 48 = true.
Proof. split; vm_compute; reflexivity. Qed.

Lemma parse_version_sound s t s3 t3 :
  parse_version s t = (s3, Some t3) -> r_major s3 <> 0 ->
  exists d1 d2, t = t3 ++ http_slash ++ [d1; 46; d2] /\ cs_DIGIT d1 = true /\ cs_DIGIT d2 = true /\
                s3 = set_proto s (d1 - 48) (d2 - 48).
Proof.
  unfold parse_version.
  destruct (tok_skipSuffix http1p1 t) as [ok11 t11] eqn:S11. destruct ok11.
  { intros H _; inversion H; subst. apply tok_skipSuffix_sound in S11.
    exists 49, 49. destruct digit_49 as [D _]. repeat split; try exact D. exact S11. }
  destruct (tok_skipSuffix http1p0 t) as [ok10 t10] eqn:S10. destruct ok10.
  { intros H _; inversion H; subst. apply tok_skipSuffix_sound in S10.
    exists 49, 48. destruct digit_49 as [D D0]. repeat split; try assumption. }
  destruct (version_suffix t) as [[[majorD minorD] td]|] eqn:VS.
  - intros H Hmaj; inversion H; subst s3 t3. cbn [r_major set_proto] in Hmaj.
    apply version_suffix_sound in VS. destruct VS as (Ht & Nma & Nmi & Dma & Dmi).
    destruct ((1 <? lenN majorD) || (1 <? lenN minorD)) eqn:Multi; [congruence|].
    apply Bool.orb_false_elim in Multi. destruct Multi as [M1 M2].
    destruct (singleton_of_len majorD Nma M1) as [d1 ->]. destruct (singleton_of_len minorD Nmi M2) as [d2 ->].
    exists d1, d2. cbn [forallb] in Dma, Dmi. rewrite Bool.andb_true_r in Dma, Dmi.
    split; [exact Ht|]. split; [exact Dma|]. split; [exact Dmi|reflexivity].
  - destruct (r_mid s =? req_m_get); intros H Hmaj; inversion H; subst. cbn [r_major set_proto] in Hmaj. congruence.
Qed.

Lemma trailing_delims_sound relaxed t3 cnt t4 :
  tok_skipAllTrailing (delim relaxed) t3 = (cnt, t4) -> skip_delimiter relaxed cnt = true ->
  exists ds2, t3 = t4 ++ ds2 /\ delims_ok relaxed ds2.
Proof.
  rewrite tok_skipAllTrailing_spec. intros H SD; inversion H; subst cnt t4.
  exists (tail_run (delim relaxed) t3). split; [symmetry; apply tail_split|].
  unfold skip_delimiter in SD.
  destruct (lenN (tail_run (delim relaxed) t3) =? 0) eqn:E0; [discriminate|].
  split; [intros C; rewrite C in E0; cbn in E0; discriminate|]. split; [apply tail_run_all|].
  intros ->. cbn [negb] in SD. rewrite Bool.andb_true_r in SD.
  destruct (1 <? lenN (tail_run (delim false) t3)) eqn:E1; [discriminate|]. lia.
Qed.

Lemma parse_uri_sound relaxed s t s5 :
  parse_uri relaxed s t = (s5, Some []) -> fits t -> target_ok relaxed t /\ s5 = set_uri s t.
Proof.
  unfold parse_uri. intros H Hf.
  destruct (tok_prefix (target_chars relaxed) npos t) as [[u t1]|] eqn:P; [|inversion H].
  destruct (req_max_uri <? lenN u) eqn:L; inversion H; subst s5 t1.
  apply tok_prefix_sound in P. destruct P as (Hb & Hne & Hall & _). rewrite app_nil_r in Hb. subst u.
  split; [|reflexivity]. repeat split; try assumption. lia.
Qed.

(* what an accepted HTTP/1+ request line looks like, both modes:
   line = method delims target delims "HTTP/" DIGIT "." DIGIT CRs  (line = the bytes before the LF) *)
Definition request_line_shape (relaxed : bool) (line m t : bytes) (d1 d2 : N) : Prop :=
  exists ds1 ds2 crs,
    line = m ++ ds1 ++ t ++ ds2 ++ http_slash ++ [d1; 46; d2] ++ crs /\
    method_ok m /\ delims_ok relaxed ds1 /\ target_ok relaxed t /\ delims_ok relaxed ds2 /\
    cs_DIGIT d1 = true /\ cs_DIGIT d2 = true /\ crs_ok relaxed crs.

Theorem parse_line_sound_1x relaxed s line s' : fits line ->
  parse_line relaxed s line = (s', true) -> r_major s' <> 0 ->
  exists m t d1 d2,
    request_line_shape relaxed line m t d1 d2 /\
    (r_mid s', r_mimg s') = method_of relaxed m /\ r_uri s' = t /\
    r_http s' = true /\ r_major s' = d1 - 48 /\ r_minor s' = d2 - 48.
Proof.
  intros Hf. unfold parse_line.
  destruct (parse_method relaxed s line) as [s1 [t1|]] eqn:PM; [|intros H; inversion H].
  destruct (skip_trailing_crs relaxed s1 t1) as [s2 [t2|]] eqn:TC; [|intros H; inversion H].
  destruct (parse_version s2 t2) as [s3 [t3|]] eqn:PV; [|intros H; inversion H].
  destruct (r_major s3 =? 0) eqn:M0.
  - (* HTTP/0.x: excluded by the hypothesis *)
    destruct (parse_uri relaxed s3 t3) as [s5 [t5|]] eqn:PU; [|intros H; inversion H].
    destruct t5; intros H; inversion H; subst s'. intros Hmaj. exfalso. apply Hmaj.
    unfold parse_uri in PU. destruct (tok_prefix (target_chars relaxed) npos t3) as [[u tt]|]; [|inversion PU].
    destruct (req_max_uri <? lenN u); inversion PU; subst. cbn. lia.
  - destruct (tok_skipAllTrailing (delim relaxed) t3) as [cnt t4] eqn:TD.
    destruct (skip_delimiter relaxed cnt) eqn:SD; [|intros H; inversion H].
    destruct (parse_uri relaxed s3 t4) as [s5 [t5|]] eqn:PU; [|intros H; inversion H].
    destruct t5; intros H; inversion H; subst s'. intros Hmaj.
    apply parse_method_sound in PM. destruct PM as (m & ds1 & Hline & Hm & Hds1 & Hs1 & _).
    apply skip_trailing_crs_sound in TC. destruct TC as (Hs2 & crs & Ht1 & Hcrs). subst s2.
    assert (Hmaj3 : r_major s3 <> 0) by lia.
    apply parse_version_sound in PV; [|exact Hmaj3]. destruct PV as (d1 & d2 & Ht2 & Hd1 & Hd2 & Hs3).
    destruct (trailing_delims_sound relaxed t3 cnt t4 TD SD) as (ds2 & Ht3 & Hds2).
    assert (Hf4 : fits t4).
    { unfold fits in *. rewrite Hline, Ht1, Ht2, Ht3 in Hf. rewrite !lenN_app in Hf. lia. }
    apply parse_uri_sound in PU; [|exact Hf4]. destruct PU as (Ht4 & Hs5).
    exists m, t4, d1, d2. split.
    + exists ds1, ds2, crs. split; [|tauto].
      rewrite Hline, Ht1, Ht2, Ht3. rewrite <- !app_assoc. reflexivity.
    + subst s5 s3 s1. cbn. destruct (method_of relaxed m). repeat split; reflexivity.
Qed.

(* ------------------------------------------------------------------ *)
(* completeness in strict mode: every RFC 9112 request line is accepted *)
(* ------------------------------------------------------------------ *)
Lemma fits_app_r a b : fits (a ++ b) -> fits b.
Proof. unfold fits. rewrite lenN_app. lia. Qed.

Lemma tok_skipOneTrailing_app set x c : set c = true -> tok_skipOneTrailing set (x ++ [c]) = (true, x).
Proof.
  intros Hc. unfold tok_skipOneTrailing, last_byte. rewrite rev_app_distr. cbn [rev app]. rewrite Hc.
  f_equal. rewrite lenN_app. cbn [lenN]. replace (lenN x + N.succ 0 - 1) with (lenN x) by lia.
  apply takeN_app_exact.
Qed.

Lemma tok_skipSuffix_app suf z : suf <> [] -> tok_skipSuffix suf (z ++ suf) = (true, z).
Proof.
  intros Hne. unfold tok_skipSuffix. rewrite lenN_app.
  assert (lenN z + lenN suf <? lenN suf = false) as -> by lia.
  replace (lenN z + lenN suf - lenN suf) with (lenN z) by lia.
  rewrite dropN_app_exact, takeN_app_exact, list_eqb_refl.
  destruct suf; [congruence|]. cbn [lenN]. destruct (N.succ (lenN suf) =? 0) eqn:E; [lia|]. reflexivity.
Qed.

Definition ends_outside (set : cset) (z : bytes) : Prop :=
  match rev z with [] => True | y :: _ => set y = false end.

Lemma tail_run_app set z r : forallb set r = true -> ends_outside set z ->
  tail_run set (z ++ r) = r /\ tail_rest set (z ++ r) = z.
Proof.
  intros Hr Hz. unfold tail_run, tail_rest. rewrite rev_app_distr.
  assert (Hs : span set (rev r ++ rev z) = (rev r, rev z)).
  { assert (Hrr : forallb set (rev r) = true).
    { rewrite forallb_forall in *. intros y Hy. apply Hr. apply in_rev. exact Hy. }
    rewrite (span_app_all set (rev r) (rev z) (rev r)) by (apply forallb_span; exact Hrr).
    unfold ends_outside in Hz. destruct (rev z) as [|y q]; cbn [span fst snd].
    - rewrite app_nil_r. reflexivity.
    - rewrite Hz. cbn [fst snd]. rewrite app_nil_r. reflexivity. }
  rewrite Hs. cbn [fst snd]. rewrite !rev_involutive. split; reflexivity.
Qed.

Lemma tok_skipAllTrailing_app set z r : forallb set r = true -> ends_outside set z ->
  tok_skipAllTrailing set (z ++ r) = (lenN r, z).
Proof.
  intros Hr Hz. rewrite tok_skipAllTrailing_spec. destruct (tail_run_app set z r Hr Hz) as [-> ->]. reflexivity.
Qed.

Lemma tok_suffix_app set z r : r <> [] -> forallb set r = true -> ends_outside set z -> fits (z ++ r) ->
  tok_suffix set npos (z ++ r) = Some (r, z).
Proof.
  intros Hne Hr Hz Hf. rewrite tok_suffix_spec_nolimit by exact Hf.
  destruct (tail_run_app set z r Hr Hz) as [-> ->]. destruct r; [congruence|reflexivity].
Qed.

Lemma ends_outside_app set z c : set c = false -> ends_outside set (z ++ [c]).
Proof. intros H. unfold ends_outside. rewrite rev_app_distr. cbn [rev app]. exact H. Qed.

Lemma ends_outside_forall (set q : cset) z :
  (forall c, q c = true -> set c = false) -> forallb q z = true -> ends_outside set z.
Proof.
  intros Hq Hz. unfold ends_outside. destruct (rev z) as [|y r] eqn:R; [exact I|].
  apply Hq. rewrite forallb_forall in Hz. apply Hz. apply in_rev. rewrite R. left; reflexivity.
Qed.

(* table facts about the strict sets *)
Lemma strict_target_not_delim c : cs_strict_RequestTarget c = true -> cs_strict_Delimiter c = false.
Proof.
  intros H. destruct (c <? 256) eqn:Hc.
  - assert (Hlt : c < 256) by lia.
    pose proof (forallb_bytes (fun c => negb (cs_strict_RequestTarget c) || negb (cs_strict_Delimiter c))
                  ltac:(vm_compute; reflexivity) c Hlt) as G.
    cbv beta in G. rewrite H in G. cbn [negb orb] in G. destruct (cs_strict_Delimiter c); [discriminate|reflexivity].
  - unfold cs_strict_Delimiter, mem_tbl. apply tbl_get_out. vm_compute lenN. lia.
Qed.

Lemma digit_range c : cs_DIGIT c = true -> 48 <= c <= 57.
Proof.
  intros H. destruct (c <? 256) eqn:Hc.
  - assert (Hlt : c < 256) by lia.
    pose proof (forallb_bytes (fun c => negb (cs_DIGIT c) || ((48 <=? c) && (c <=? 57)))
                  ltac:(vm_compute; reflexivity) c Hlt) as G.
    cbv beta in G. rewrite H in G. cbn [negb orb] in G. lia.
  - unfold cs_DIGIT, mem_tbl in H. rewrite tbl_get_out in H by (vm_compute lenN; lia). discriminate.
Qed.

Lemma strict_facts :
  cs_DIGIT 46 = false /\ cs_DIGIT 47 = false /\ cs_strict_Delimiter 32 = true /\ cs_CR 13 = true /\
  cs_strict_Delimiter 13 = false /\ cs_TCHAR 32 = false.
Proof. vm_compute. repeat split; reflexivity. Qed.

(* RFC 9112 section 3: request-line = method SP request-target SP HTTP-version; [line] = that followed by the CR
   of the terminating CRLF. method = 1*tchar (at most maxMethodLength), request-target = 1*(URI characters)
   (at most the URI length limit), HTTP-version = "HTTP/" DIGIT "." DIGIT *)
Definition rfc_request_line (line m t : bytes) (d1 d2 : N) : Prop :=
  line = m ++ [32] ++ t ++ [32] ++ http_slash ++ [d1; 46; d2] ++ [13] /\
  method_ok m /\ target_ok false t /\ cs_DIGIT d1 = true /\ cs_DIGIT d2 = true.

Lemma app_same_len_inj {A} (a b s1 s2 : list A) :
  length s1 = length s2 -> a ++ s1 = b ++ s2 -> a = b /\ s1 = s2.
Proof.
  revert b; induction a as [|x a IH]; intros b Hl H.
  - destruct b as [|y b]; [split; [reflexivity|exact H]|].
    cbn [app] in H. exfalso. apply (f_equal (@length A)) in H. cbn [length] in H. rewrite app_length in H. lia.
  - destruct b as [|y b].
    + cbn [app] in H. exfalso. apply (f_equal (@length A)) in H. cbn [length] in H. rewrite app_length in H. lia.
    + cbn [app] in H. inversion H; subst. destruct (IH b Hl H2) as [-> ->]. split; reflexivity.
Qed.

Lemma parse_version_complete s z d1 d2 : cs_DIGIT d1 = true -> cs_DIGIT d2 = true ->
  fits (z ++ http_slash ++ [d1; 46; d2]) ->
  parse_version s (z ++ http_slash ++ [d1; 46; d2]) = (set_proto s (d1 - 48) (d2 - 48), Some z).
Proof.
  intros Hd1 Hd2 Hf. unfold parse_version.
  destruct strict_facts as (F46 & F47 & _).
  destruct (tok_skipSuffix http1p1 (z ++ http_slash ++ [d1; 46; d2])) as [ok11 t11] eqn:S11. destruct ok11.
  { apply tok_skipSuffix_sound in S11.
    apply app_same_len_inj in S11; [|reflexivity]. destruct S11 as [Ez E]. inversion E; subst. reflexivity. }
  destruct (tok_skipSuffix http1p0 (z ++ http_slash ++ [d1; 46; d2])) as [ok10 t10] eqn:S10. destruct ok10.
  { apply tok_skipSuffix_sound in S10.
    apply app_same_len_inj in S10; [|reflexivity]. destruct S10 as [Ez E]. inversion E; subst. reflexivity. }
  assert (VS : version_suffix (z ++ http_slash ++ [d1; 46; d2]) = Some ([d1], [d2], z)).
  { unfold version_suffix.
    replace (z ++ http_slash ++ [d1; 46; d2]) with ((z ++ http_slash ++ [d1; 46]) ++ [d2])
      by (rewrite <- !app_assoc; reflexivity).
    rewrite tok_suffix_app.
    2: discriminate.
    2: cbn [forallb]; rewrite Hd2; reflexivity.
    2:{ replace (z ++ http_slash ++ [d1; 46]) with ((z ++ http_slash ++ [d1]) ++ [46]) by (rewrite <- !app_assoc; reflexivity).
        apply ends_outside_app. exact F46. }
    2:{ rewrite <- !app_assoc. exact Hf. }
    replace (z ++ http_slash ++ [d1; 46]) with ((z ++ http_slash ++ [d1]) ++ [46]) by (rewrite <- !app_assoc; reflexivity).
    rewrite tok_skipOneTrailing_app by reflexivity.
    replace (z ++ http_slash ++ [d1]) with ((z ++ http_slash) ++ [d1]) by (rewrite <- !app_assoc; reflexivity).
    rewrite tok_suffix_app.
    2: discriminate.
    2: cbn [forallb]; rewrite Hd1; reflexivity.
    2:{ change http_slash with ([72;84;84;80] ++ [47]). rewrite app_assoc. apply ends_outside_app. exact F47. }
    2:{ unfold fits in *. rewrite !lenN_app in *. cbn [lenN] in *. lia. }
    rewrite tok_skipSuffix_app by discriminate. reflexivity. }
  rewrite VS. cbn [lenN]. reflexivity.
Qed.

Theorem rfc_request_line_accepted s line m t d1 d2 : fits line ->
  rfc_request_line line m t d1 d2 -> d1 <> 48 ->
  exists s', parse_line false s line = (s', true) /\
    r_mimg s' = snd (method_of false m) /\ r_mid s' = fst (method_of false m) /\ r_uri s' = t /\
    r_http s' = true /\ r_major s' = d1 - 48 /\ r_minor s' = d2 - 48.
Proof.
  intros Hf (Hline & (Hmne & Hmall & Hmlen) & (Htne & Htall & Htlen) & Hd1 & Hd2) Hnz.
  destruct strict_facts as (F46 & F47 & Fsp & Fcr & Fcrd & Ftsp).
  pose proof (digit_range d1 Hd1) as R1.
  destruct t as [|t0 tt] eqn:Et; [congruence|]. rewrite <- Et in *.
  assert (Ht0 : cs_strict_Delimiter t0 = false).
  { apply strict_target_not_delim. rewrite Et in Htall. cbn [forallb] in Htall. apply andb_prop in Htall. tauto. }
  unfold parse_line.
  (* method *)
  assert (PM : parse_method false s line =
               (set_method s (method_of false m), Some (t ++ [32] ++ http_slash ++ [d1; 46; d2] ++ [13]))).
  { unfold parse_method. rewrite Hline. cbn [app].
    rewrite tok_prefix_run by assumption.
    rewrite tok_skipAll_spec. cbn [span delim]. rewrite Fsp. rewrite Et. cbn [app span]. rewrite Ht0.
    cbn [fst snd lenN]. rewrite skip_delimiter_1. reflexivity. }
  rewrite PM.
  (* CR *)
  unfold skip_trailing_crs.
  replace (t ++ [32] ++ http_slash ++ [d1; 46; d2] ++ [13])
    with ((t ++ [32] ++ http_slash ++ [d1; 46; d2]) ++ [13]) by (rewrite <- !app_assoc; reflexivity).
  rewrite tok_skipOneTrailing_app by exact Fcr.
  (* version *)
  replace (t ++ [32] ++ http_slash ++ [d1; 46; d2]) with ((t ++ [32]) ++ http_slash ++ [d1; 46; d2])
    by (rewrite <- !app_assoc; reflexivity).
  assert (Hfv : fits ((t ++ [32]) ++ http_slash ++ [d1; 46; d2])).
  { assert (Hl2 : line = (m ++ [32]) ++ (((t ++ [32]) ++ http_slash ++ [d1; 46; d2]) ++ [13]))
      by (rewrite Hline, <- !app_assoc; reflexivity).
    rewrite Hl2 in Hf. apply fits_app_r in Hf. apply fits_app_l in Hf. exact Hf. }
  rewrite parse_version_complete; [|exact Hd1|exact Hd2|exact Hfv].
  cbn [r_major set_proto].
  assert (d1 - 48 =? 0 = false) as -> by (clear - R1 Hnz; lia).
  (* delimiter before the version *)
  rewrite tok_skipAllTrailing_app.
  2: cbn [forallb delim]; rewrite Fsp; reflexivity.
  2:{ apply (ends_outside_forall _ cs_strict_RequestTarget); [exact strict_target_not_delim|exact Htall]. }
  cbn [lenN]. rewrite skip_delimiter_1.
  (* target *)
  assert (Hft : fits t).
  { apply fits_app_l in Hfv. apply fits_app_l in Hfv. exact Hfv. }
  unfold parse_uri. rewrite tok_prefix_eq_spec. unfold prefix_spec.
  rewrite takeN_all by exact Hft.
  rewrite (forallb_span (target_chars false) t Htall). cbn [fst].
  rewrite dropN_all by apply N.le_refl.
  assert (Hlt : req_max_uri <? lenN t = false) by (clear - Htlen; lia).
  clear Et. destruct t as [|ta tb]; [congruence|]. rewrite Hlt.
  eexists. split; [reflexivity|]. cbn [r_mimg r_mid r_uri r_http r_major r_minor set_code set_uri set_proto set_method].
  repeat split; reflexivity.
Qed.

(* ------------------------------------------------------------------ *)
(* strict mode: the accepted HTTP/1+ lines are exactly the RFC lines    *)
(* ------------------------------------------------------------------ *)
Lemma strict_delim_is_sp c : cs_strict_Delimiter c = true -> c = 32.
Proof.
  intros H. destruct (c <? 256) eqn:Hc.
  - assert (Hlt : c < 256) by lia.
    pose proof (forallb_bytes (fun c => negb (cs_strict_Delimiter c) || (c =? 32))
                  ltac:(vm_compute; reflexivity) c Hlt) as G.
    cbv beta in G. rewrite H in G. cbn [negb orb] in G. lia.
  - unfold cs_strict_Delimiter, mem_tbl in H. rewrite tbl_get_out in H by (vm_compute lenN; lia). discriminate.
Qed.

Lemma cr_is_13 c : cs_CR c = true -> c = 13.
Proof.
  intros H. destruct (c <? 256) eqn:Hc.
  - assert (Hlt : c < 256) by lia.
    pose proof (forallb_bytes (fun c => negb (cs_CR c) || (c =? 13)) ltac:(vm_compute; reflexivity) c Hlt) as G.
    cbv beta in G. rewrite H in G. cbn [negb orb] in G. lia.
  - unfold cs_CR, mem_tbl in H. rewrite tbl_get_out in H by (vm_compute lenN; lia). discriminate.
Qed.

Lemma one_elem {A} (l : list A) : lenN l = 1 -> exists x, l = [x].
Proof. destruct l as [|x [|y r]]; cbn [lenN]; intros H; [lia|eauto|lia]. Qed.

Lemma method_find_strict s tbl i img : method_find false s tbl = Some (i, img) -> img = s.
Proof.
  induction tbl as [|[j im] r IH]; cbn [method_find]; [discriminate|].
  destruct (ci_eqb im s); [|exact IH].
  destruct (list_eqb im s) eqn:E; [|exact IH].
  intros H; inversion H; subst. apply list_eqb_eq. exact E.
Qed.

Lemma method_of_strict_image m : m <> [] -> snd (method_of false m) = m.
Proof.
  intros Hne. unfold method_of. destruct m as [|a r]; [congruence|].
  destruct (method_find false (a :: r) req_methods) as [[i img]|] eqn:F; [|reflexivity].
  cbn [snd]. eapply method_find_strict; exact F.
Qed.

Theorem strict_accepted_1x_is_rfc_line s line s' : fits line ->
  parse_line false s line = (s', true) -> r_major s' <> 0 ->
  exists m t d1 d2, rfc_request_line line m t d1 d2 /\
    r_mimg s' = m /\ r_uri s' = t /\ r_major s' = d1 - 48 /\ r_minor s' = d2 - 48.
Proof.
  intros Hf H Hmaj.
  destruct (parse_line_sound_1x false s line s' Hf H Hmaj) as (m & t & d1 & d2 & Hshape & Hmeth & Huri & _ & Hma & Hmi).
  destruct Hshape as (ds1 & ds2 & crs & Hline & Hm & Hds1 & Ht & Hds2 & Hd1 & Hd2 & Hcrs).
  destruct Hds1 as (_ & Hall1 & Hlen1). destruct (one_elem ds1 (Hlen1 eq_refl)) as [c1 ->].
  destruct Hds2 as (_ & Hall2 & Hlen2). destruct (one_elem ds2 (Hlen2 eq_refl)) as [c2 ->].
  destruct Hcrs as (Hallc & Hlenc). destruct (one_elem crs (Hlenc eq_refl)) as [c3 ->].
  cbn [forallb delim] in Hall1, Hall2, Hallc. rewrite Bool.andb_true_r in Hall1, Hall2, Hallc.
  apply strict_delim_is_sp in Hall1. apply strict_delim_is_sp in Hall2. apply cr_is_13 in Hallc. subst c1 c2 c3.
  exists m, t, d1, d2. split; [split; [exact Hline|tauto]|].
  split; [|tauto].
  destruct Hm as (Hmne & _). rewrite <- (method_of_strict_image m Hmne). rewrite <- Hmeth. reflexivity.
Qed.

(* --- the full statement "strict accepts exactly the RFC 9112 request lines" is refuted: with an
       HTTP/0.x (or multi-digit) version token the delimiter in front of it is not required --- *)
Lemma count_sp_app a b : count_occ N.eq_dec (a ++ b) 32%N = (count_occ N.eq_dec a 32%N + count_occ N.eq_dec b 32%N)%nat.
Proof. apply count_occ_app. Qed.

Lemma rfc_line_two_sp line m t d1 d2 : rfc_request_line line m t d1 d2 -> (2 <= count_occ N.eq_dec line 32%N)%nat.
Proof.
  intros (Hline & _). subst line. rewrite !count_sp_app. cbn [count_occ].
  destruct (N.eq_dec 32 32); [|congruence]. lia.
Qed.

(* "POST /xHTTP/0.9" CR : accepted as POST, target "/x", version 0.9 *)
Definition quirk_line : bytes := [80;79;83;84;32;47;120;72;84;84;80;47;48;46;57;13].

Theorem strict_accept_iff_grammar_refuted :
  exists line s', parse_line false rst0 line = (s', true) /\
    r_uri s' = [47;120] /\ r_major s' = 0 /\ r_minor s' = 9 /\
    (forall m t d1 d2, ~ rfc_request_line line m t d1 d2) /\
    (forall t, line <> [71;69;84;32] ++ t ++ [13]).
Proof.
  exists quirk_line. eexists. split; [vm_compute; reflexivity|].
  split; [reflexivity|]. split; [reflexivity|]. split; [reflexivity|]. split.
  - intros m t d1 d2 H. apply rfc_line_two_sp in H. vm_compute in H. lia.
  - intros t H. vm_compute in H. inversion H.
Qed.

(* --- line isolation: the request line is what precedes the first LF --- *)
Theorem first_line_of_line relaxed limit s line rest :
  fits (line ++ 10 :: rest) -> line <> [] -> forallb (fun c => negb (c =? 10)) line = true -> lenN line < limit ->
  first_line relaxed limit s (line ++ 10 :: rest) =
  match parse_line relaxed s line with
  | (s1, true) => (FLok, s1, rest)
  | (s1, false) => (FLbad, s1, line ++ 10 :: rest)
  end.
Proof.
  intros Hf Hne Hall Hlen. unfold first_line.
  assert (FL : find_line (line ++ 10 :: rest) = Some (line, rest)).
  { rewrite find_line_spec by exact Hf.
    assert (Hs : span not_lf line = (line, [])).
    { apply forallb_span. rewrite forallb_forall in *. intros y Hy. rewrite not_lf_spec. apply Hall. exact Hy. }
    rewrite (span_app_all not_lf line (10 :: rest) line Hs). cbn [span]. rewrite not_lf_spec. cbn [N.eqb negb fst snd].
    rewrite app_nil_r. destruct line; [congruence|reflexivity]. }
  rewrite FL. assert (limit <=? lenN line = false) as -> by lia. reflexivity.
Qed.

(* --- the documented tolerances of the relaxed parser, as table facts --- *)
Definition relaxed_tables_check (c : N) : bool :=
  Bool.eqb (cs_relaxed_Delimiter c) ((c =? 32) || (c =? 9) || (c =? 11) || (c =? 12) || (c =? 13)) &&
  Bool.eqb (cs_strict_Delimiter c) (c =? 32) &&
  (negb (cs_strict_RequestTarget c) || cs_relaxed_RequestTarget c) &&
  (negb (cs_relaxed_Delimiter c) || cs_relaxed_RequestTarget c) &&
  (negb (cs_strict_RequestTarget c) || ((33 <=? c) && (c <=? 126))) &&
  (negb (cs_relaxed_RequestTarget c) || negb ((c =? 10) || (c =? 0) || (c =? 127))).

Theorem relaxed_tables : forall c, c < 256 ->
  cs_relaxed_Delimiter c = ((c =? 32) || (c =? 9) || (c =? 11) || (c =? 12) || (c =? 13)) /\
  cs_strict_Delimiter c = (c =? 32) /\
  (cs_strict_RequestTarget c = true -> cs_relaxed_RequestTarget c = true) /\
  (cs_relaxed_Delimiter c = true -> cs_relaxed_RequestTarget c = true) /\
  (cs_strict_RequestTarget c = true -> 33 <= c <= 126) /\
  (cs_relaxed_RequestTarget c = true -> c <> 10 /\ c <> 0 /\ c <> 127).
Proof.
  intros c Hc.
  pose proof (forallb_bytes relaxed_tables_check ltac:(vm_compute; reflexivity) c Hc) as H.
  unfold relaxed_tables_check in H.
  repeat (apply andb_prop in H; let H' := fresh "H" in destruct H as [H H']).
  apply Bool.eqb_prop in H. apply Bool.eqb_prop in H4.
  split; [exact H|]. split; [exact H4|].
  split; [intros K; rewrite K in H3; exact H3|].
  split; [intros K; rewrite K in H2; exact H2|].
  split; [intros K; rewrite K in H1; cbn [negb orb] in H1; lia|].
  intros K; rewrite K in H0; cbn [negb orb] in H0. lia.
Qed.
