(* Properties_C07.v — C07: non-idempotent requests are not resent after reaching the origin.
   Statements only; proofs live in RetryProofs.v. The machine (RetryModel.v) is the FwdState attempt logic of
   src/FwdState.cc; `run c r init evs` executes it over an arbitrary list of environment events and returns the
   final state and the trace; `sends` counts dispatch()es (the request being written on a connection) and
   `reforwards` counts the times FwdState::complete() found reforward() true. isHttpSafe/isIdempotent and
   Http::IsReforwardableStatus come from gen/RetryMethods_gen.v, regenerated from the code on every run. *)
Require Import List NArith Bool.
Require Import SquidV.Bytes SquidV.RetryModel SquidV.RetryProofs.
Require Import SquidV.gen.RetryMethods_gen.
Import ListNotations.
Local Open Scope N_scope.

(* POST and extension methods -- PATCH is one in this tree -- are neither safe nor idempotent according to the code *)
Theorem C07_post_and_extension_methods_are_nonidempotent :
  method_safe rm_METHOD_POST = false /\ method_idem rm_METHOD_POST = false /\
  method_safe rm_METHOD_OTHER = false /\ method_idem rm_METHOD_OTHER = false /\
  rm_ext_is_other = true /\ rm_ext_attrs = (false, false) /\
  method_of_image rm_methods [80;65;84;67;72] = rm_METHOD_OTHER /\
  method_of_image rm_methods [80;79;83;84] = rm_METHOD_POST.
Proof. exact post_and_other_nonidempotent. Qed.
Print Assumptions C07_post_and_extension_methods_are_nonidempotent.

(* For every configuration, every request whose method is neither safe nor idempotent, and EVERY sequence of events
   (destinations arriving at any time, idle pconns, connect failures, zero-size replies, read/write errors, timeouts,
   truncated headers, cut bodies, the pconn race, pinned connections, aborts, shutdown, time running out): the request
   is written on a connection at most once, plus once for every reforward() decision taken on a received reply. *)
Theorem C07_nonidempotent_sent_at_most_once_per_reforward : forall c r evs,
  method_safe (r_method r) = false -> method_idem (r_method r) = false ->
  sends (snd (run c r init evs)) <= 1 + reforwards (snd (run c r init evs)).
Proof. exact no_resend_nonidempotent_method. Qed.
Print Assumptions C07_nonidempotent_sent_at_most_once_per_reforward.

(* the same for any request that carries a body, whatever its method *)
Theorem C07_request_with_body_sent_at_most_once_per_reforward : forall c r evs,
  r_body r = true ->
  sends (snd (run c r init evs)) <= 1 + reforwards (snd (run c r init evs)).
Proof. exact no_resend_with_body. Qed.
Print Assumptions C07_request_with_body_sent_at_most_once_per_reforward.

(* THE PROPERTY. `failure_sequence c evs`: no COMPLETE re-forwardable reply arrived -- every reply either lost its
   connection before its end (no `EvComplete false` event) or had a status squid does not re-forward (not 502/504,
   nor 403/500/501/503 under retry_on_error). Along every such event sequence -- any failures of any kind, on fresh or
   reused connections, on any number of paths, the pconn race included -- a request that checkRetriable() rejects
   (method neither safe nor idempotent, or a body present) is written on a connection AT MOST ONCE.
   What stays outside is stated, not hidden: a completely received 502/504 reply is not a connection failure, and
   squid re-forwards it whatever the method (C07_complete_reforwardable_reply_is_reforwarded below). *)
Theorem C07_no_resend_after_connection_failure : forall c r evs,
  check_retriable r = false -> failure_sequence c evs ->
  sends (snd (run c r init evs)) <= 1.
Proof. exact sent_at_most_once_under_failures. Qed.
Print Assumptions C07_no_resend_after_connection_failure.

(* the sharpened bound: for such a request every reforward() decision needs a COMPLETELY received reply (after an
   attempt that failed, reforward() never says yes), so sends <= 1 + number of completely received replies *)
Theorem C07_sends_bounded_by_complete_replies : forall c r evs,
  check_retriable r = false ->
  sends (snd (run c r init evs)) <= 1 + complete_replies evs.
Proof. exact sends_bounded_by_complete_replies. Qed.
Print Assumptions C07_sends_bounded_by_complete_replies.

Theorem C07_reforward_needs_complete_reply : forall c r evs s,
  check_retriable r = false -> reforwards (snd (run c r s evs)) <= complete_replies evs.
Proof. exact reforwards_bounded. Qed.
Print Assumptions C07_reforward_needs_complete_reply.

Theorem C07_nonidempotent_method_is_not_retriable : forall r,
  method_safe (r_method r) = false -> method_idem (r_method r) = false -> check_retriable r = false.
Proof. exact nonidempotent_not_retriable. Qed.
Print Assumptions C07_nonidempotent_method_is_not_retriable.

(* a 502 header whose body is cut by a connection close: the body-less POST is sent once (this was the finding
   C07-reforward-after-truncated-5xx, repaired in /repo by `err && !checkRetriable()` in reforward()), a GET goes on *)
Theorem C07_truncated_reply_not_reforwarded_for_post :
  check_retriable req_post_nobody = false /\
  Forall (fun e => e <> EvComplete false) truncated_5xx_evs /\
  snd (run cfg_default req_post_nobody init truncated_5xx_evs) = [OSend 0 false] /\
  snd (run cfg_default req_get init truncated_5xx_evs) = [OSend 0 false; OReforward; OSend 1 false].
Proof. exact truncated_reply_examples. Qed.
Print Assumptions C07_truncated_reply_not_reforwarded_for_post.

(* outside the property (not a connection failure): a COMPLETE 502 reply is re-forwarded even for a body-less POST *)
Theorem C07_complete_reforwardable_reply_is_reforwarded :
  snd (run cfg_default req_post_nobody init
         [EvNewDest; EvNewDest; EvDestsEnd; EvConn false true false; EvHeaders 502; EvComplete false;
          EvConn false true false; EvHeaders 200; EvComplete false]) = [OSend 0 false; OReforward; OSend 1 false].
Proof. exact complete_5xx_is_reforwarded. Qed.
Print Assumptions C07_complete_reforwardable_reply_is_reforwarded.

(* once request body bytes were consumed (bodyNibbled), nothing that happens later makes squid send the request
   again -- not even a re-forwardable reply *)
Theorem C07_no_send_after_body_consumed : forall c r evs1 evs2,
  s_nibbled (fst (run c r init evs1)) = true ->
  sends (snd (run c r init (evs1 ++ evs2))) = sends (snd (run c r init evs1)) /\
  reforwards (snd (run c r init (evs1 ++ evs2))) = reforwards (snd (run c r init evs1)).
Proof. exact no_send_after_body_consumed. Qed.
Print Assumptions C07_no_send_after_body_consumed.

(* the closed loop that the correspondence run executes against the real squid is `run` on the events it reports *)
Theorem C07_drive_is_run : forall fuel c r en s s' tr evs okf,
  drive fuel c r en s = (s', tr, evs, okf) -> run c r s evs = (s', tr).
Proof. exact drive_is_run. Qed.
Print Assumptions C07_drive_is_run.

(* ----- non-vacuity ----- *)
(* a failed connect sends nothing; the POST (with body) still goes out, once, on the next path *)
Theorem C07_post_sent_once_after_refused_connect :
  check_retriable req_post_body = false /\
  snd (run cfg_default req_post_body init
         [EvNewDest; EvNewDest; EvDestsEnd; EvConn false false false; EvConn false true false;
          EvBodyConsumed; EvHeaders 200; EvComplete false]) = [OSend 1 false].
Proof. exact post_after_refused_connect. Qed.
Print Assumptions C07_post_sent_once_after_refused_connect.

(* safe methods may be retried: GET goes to the second path after a zero-size reply on the first ... *)
Theorem C07_safe_method_retried_on_other_path :
  check_retriable req_get = true /\
  snd (run cfg_default req_get init
         [EvNewDest; EvNewDest; EvDestsEnd; EvConn false true false; EvFail FZero; EvConn false true false;
          EvHeaders 200; EvComplete false]) = [OSend 0 false; OSend 1 false].
Proof. exact get_retried_on_other_path. Qed.
Print Assumptions C07_safe_method_retried_on_other_path.

(* ... and after a persistent-connection race on the same, reinstated path, over a fresh connection; a POST put on a
   reused connection by server_pconn_for_nonretriable is not *)
Theorem C07_pconn_race_retry_only_for_retriable :
  snd (run cfg_default req_get init
         [EvNewDest; EvDestsEnd; EvConn true true false; EvFail FZero; EvConn false true false;
          EvHeaders 200; EvComplete false]) = [OSend 0 true; OSend 0 false] /\
  snd (run (mkCfg 25 true false) req_post_nobody init
         [EvNewDest; EvDestsEnd; EvConn true true false; EvFail FZero; EvConn false true false;
          EvHeaders 200; EvComplete false]) = [OSend 0 true].
Proof. exact pconn_race_examples. Qed.
Print Assumptions C07_pconn_race_retry_only_for_retriable.

Example C07_failure_sequence_satisfiable :
  check_retriable req_post_nobody = false /\
  failure_sequence cfg_default truncated_5xx_evs /\
  sends (snd (run cfg_default req_post_nobody init truncated_5xx_evs)) = 1.
Proof.
  split; [vm_compute; reflexivity|]. split; [|vm_compute; reflexivity].
  left. unfold truncated_5xx_evs. repeat constructor; discriminate.
Qed.

Example C07_body_consumed_reachable :
  s_nibbled (fst (run cfg_default req_post_body init
    [EvNewDest; EvDestsEnd; EvConn false true false; EvBodyConsumed])) = true.
Proof. vm_compute; reflexivity. Qed.
