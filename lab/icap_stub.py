"""Scripted ICAP server stub (python3, threaded sockets) for the end-to-end ICAP checks (C60).

    stub = IcapStub()                     # listens on 127.0.0.1:stub.port
    stub.set_script(rid, script)          # behaviour for the transaction whose encapsulated HTTP request URL
                                          # has <rid> as its first path segment
    stub.records(rid)                     # what the stub saw for that transaction
    stub.close()

Service URIs encode the OPTIONS answer, so the stub needs no per-service state:
    icap://127.0.0.1:<port>/m/RESPMOD/p/8     -> Methods: RESPMOD, Preview: 8, Transfer-Preview: *
    icap://127.0.0.1:<port>/m/REQMOD/p/n      -> Methods: REQMOD, no Preview header

A script is a dict:
    {"first": ACTION, "then": ACTION, "early": bool}
`first` is performed after the ICAP request head, the encapsulated HTTP heads and (if the request carries a
Preview header) the whole preview (up to its last-chunk) were read; without a Preview header the stub first reads
the complete chunked body unless "early" is true. If `first` is {"kind":"100"} the stub sends 100 Continue, reads
the rest of the body (optionally closing after "rest_cut" payload bytes) and then performs `then`.

ACTION kinds:
    {"kind":"204"}                                    ICAP/1.0 204 No Content
    {"kind":"100"}                                    ICAP/1.0 100 Continue (meaningful only as `first`)
    {"kind":"status","status":500}                    an ICAP error status without encapsulated message
    {"kind":"close"}                                  close the connection without a reply
    {"kind":"garbage"}                                bytes that are not an ICAP response
    {"kind":"reset"}                                  abortive close (TCP RST) without a reply
    {"kind":"200", "body_b64":..., "cl":bool, "hdrs":[[n,v]..], "chunks":[sizes], "satisfy":bool,
     "cut":[where,n], "seg":[sizes], "seg_delay":s, "status_line":..., "trailer_junk":bool}
         ICAP/1.0 200 OK with an encapsulated adapted HTTP message: for RESPMOD (or REQMOD with "satisfy") an HTTP
         response head `HTTP/1.1 200 OK` + hdrs (+ Content-Length when "cl"), for REQMOD the virgin request line +
         Host + hdrs (+ Content-Length when "cl"); the body is sent chunked with the given chunk sizes.
         "cut": ["icaphead",n] | ["httphead",n] | ["body",n] | ["nolast",0] sends the reply only up to n bytes into
         the ICAP head / the HTTP head / n payload bytes into the chunked body (whole chunks before it, then a
         partial chunk) / everything except the last-chunk, and then closes the connection.
         "seg"/"seg_delay": the reply bytes are written in pieces of these sizes with a pause between them.
Every reply carries `Connection: close` and the connection is closed after the transaction (no pconn reuse).
"""
import base64, socket, socketserver, threading, time


class _Conn:
    def __init__(self, sock):
        self.s = sock
        self.buf = b""

    def fill(self):
        d = self.s.recv(65536)
        if not d:
            raise EOFError()
        self.buf += d

    def read_until(self, sep):
        while sep not in self.buf:
            self.fill()
        i = self.buf.index(sep) + len(sep)
        out, self.buf = self.buf[:i], self.buf[i:]
        return out

    def read_n(self, n):
        while len(self.buf) < n:
            self.fill()
        out, self.buf = self.buf[:n], self.buf[n:]
        return out

    def read_chunk(self):
        """-> (payload, ext) ; payload b"" for the last-chunk"""
        line = self.read_until(b"\r\n")[:-2]
        parts = line.split(b";", 1)
        n = int(parts[0].strip(), 16)
        ext = parts[1].strip().decode("latin1") if len(parts) > 1 else ""
        data = self.read_n(n) if n else b""
        self.read_n(2)  # CRLF after the chunk data (or the empty trailer line after the last-chunk)
        return data, ext


def parse_head(raw):
    lines = raw.split(b"\r\n")
    first = lines[0].decode("latin1")
    hdrs = []
    for l in lines[1:]:
        if b":" in l:
            n, v = l.split(b":", 1)
            hdrs.append((n.decode("latin1").strip(), v.decode("latin1").strip()))
    return first, hdrs


def hget(hdrs, name, default=None):
    for n, v in hdrs:
        if n.lower() == name.lower():
            return v
    return default


class _Handler(socketserver.BaseRequestHandler):
    def handle(self):
        stub = self.server.stub
        self.request.settimeout(stub.io_timeout)
        c = _Conn(self.request)
        try:
            while True:
                head = c.read_until(b"\r\n\r\n")
                first, hdrs = parse_head(head[:-4])
                parts = first.split(" ")
                method = parts[0].upper()
                uri = parts[1] if len(parts) > 1 else ""
                path = "/" + uri.split("://", 1)[1].split("/", 1)[1] if "://" in uri and "/" in uri.split("://", 1)[1] else uri
                if method == "OPTIONS":
                    self.options(path)
                    continue
                if method not in ("REQMOD", "RESPMOD"):
                    self.request.sendall(b"ICAP/1.0 405 Method Not Allowed\r\nConnection: close\r\n\r\n")
                    return
                self.mod(stub, c, method, path, hdrs)
                return
        except (EOFError, OSError, socket.timeout, ValueError):
            return
        finally:
            try:
                self.request.close()
            except OSError:
                pass

    def options(self, path):
        segs = path.strip("/").split("/")
        meth, prev = "RESPMOD", None
        for i in range(0, len(segs) - 1, 2):
            if segs[i] == "m":
                meth = segs[i + 1]
            elif segs[i] == "p" and segs[i + 1] != "n":
                prev = int(segs[i + 1])
        out = "ICAP/1.0 200 OK\r\nMethods: %s\r\nService: verif-icap-stub\r\nISTag: \"verif-1\"\r\nOptions-TTL: 36000\r\n" % meth
        out += "Allow: 204\r\n"
        if prev is not None:
            out += "Preview: %d\r\nTransfer-Preview: *\r\n" % prev
        out += "Encapsulated: null-body=0\r\n\r\n"
        self.request.sendall(out.encode())

    def mod(self, stub, c, method, path, hdrs):
        rec = {"method": method, "path": path, "icap_headers": hdrs, "rid": None, "preview": None, "ieof": False,
               "preview_bytes": b"", "rest_bytes": b"", "events": [], "sections": {}, "t": time.time()}
        enc = []
        for item in (hget(hdrs, "Encapsulated", "") or "").split(","):
            if "=" in item:
                n, v = item.strip().split("=", 1)
                enc.append((n.strip(), int(v)))
        total = enc[-1][1] if enc else 0
        blob = c.read_n(total)
        for i, (n, off) in enumerate(enc[:-1]):
            rec["sections"][n] = blob[off:enc[i + 1][1]]
        bodykind = enc[-1][0] if enc else "null-body"
        rec["bodykind"] = bodykind
        reqline = ""
        if "req-hdr" in rec["sections"]:
            reqline, rh = parse_head(rec["sections"]["req-hdr"].rstrip(b"\r\n"))
            rec["req_first"], rec["req_headers"] = reqline, rh
            t = reqline.split(" ")
            target = t[1] if len(t) > 1 else ""
            p = target
            if "://" in p:
                rest = p.split("://", 1)[1]
                p = "/" + rest.split("/", 1)[1] if "/" in rest else "/"
            segs = p.split("/")
            if len(segs) >= 2:
                rec["rid"] = segs[1]
        script = stub.script_for(rec["rid"])
        rec["script"] = script
        stub.add(rec)
        ev = rec["events"]
        has_body = bodykind != "null-body"
        pv = hget(hdrs, "Preview")
        body_done = not has_body
        if pv is not None:
            rec["preview"] = int(pv)
            if has_body:
                while True:
                    d, ext = c.read_chunk()
                    if not d:
                        rec["ieof"] = "ieof" in ext
                        break
                    rec["preview_bytes"] += d
                body_done = bool(rec["ieof"])
            else:
                rec["ieof"] = True
            ev.append("preview-read")
        elif has_body and not script.get("early"):
            while True:
                d, ext = c.read_chunk()
                if not d:
                    break
                rec["rest_bytes"] += d
            body_done = True
            ev.append("body-read")
        act = script.get("first", {"kind": "204"})
        if act.get("kind") == "100":
            self.request.sendall(b"ICAP/1.0 100 Continue\r\n\r\n")
            ev.append("sent-100")
            cut = act.get("rest_cut")
            if not body_done:
                while True:
                    if cut is not None and len(rec["rest_bytes"]) >= cut:
                        ev.append("closed-while-reading-rest")
                        return
                    d, ext = c.read_chunk()
                    if not d:
                        break
                    rec["rest_bytes"] += d
                ev.append("rest-read")
            act = script.get("then", {"kind": "204"})
        self.perform(stub, c, rec, method, act)

    def perform(self, stub, c, rec, method, act):
        ev = rec["events"]
        k = act.get("kind", "204")
        if act.get("delay"):
            time.sleep(act["delay"])
        if k == "close":
            ev.append("closed-no-reply")
            return
        if k == "reset":
            # abortive close: RST instead of FIN
            self.request.setsockopt(socket.SOL_SOCKET, socket.SO_LINGER, b"\x01\x00\x00\x00\x00\x00\x00\x00")
            ev.append("reset")
            return
        if k == "garbage":
            self.request.sendall(b"\x00\x01garbage that is not ICAP\r\n\r\n")
            ev.append("sent-garbage")
            return
        if k == "204":
            self.request.sendall(b"ICAP/1.0 204 No Content\r\nISTag: \"verif-1\"\r\nConnection: close\r\nEncapsulated: null-body=0\r\n\r\n")
            ev.append("sent-204")
            return
        if k == "100":
            self.request.sendall(b"ICAP/1.0 100 Continue\r\n\r\n")
            ev.append("sent-100-again")
            return
        if k == "status":
            self.request.sendall(("ICAP/1.0 %d Verif Scripted Status\r\nISTag: \"verif-1\"\r\nConnection: close\r\nEncapsulated: null-body=0\r\n\r\n"
                                  % act.get("status", 500)).encode())
            ev.append("sent-status-%d" % act.get("status", 500))
            return
        # 200 with an adapted message
        body = base64.b64decode(act.get("body_b64", ""))
        resp_like = method == "RESPMOD" or act.get("satisfy")
        if resp_like:
            hh = act.get("status_line", "HTTP/1.1 200 OK") + "\r\n"
        else:
            hh = rec.get("req_first", "GET / HTTP/1.1") + "\r\n"
            host = hget(rec.get("req_headers", []), "Host")
            if host:
                hh += "Host: %s\r\n" % host
        for n, v in act.get("hdrs", []):
            hh += "%s: %s\r\n" % (n, v)
        if act.get("cl"):
            hh += "Content-Length: %d\r\n" % len(body)
        hh += "\r\n"
        hh = hh.encode("latin1")
        hname = "res-hdr" if resp_like else "req-hdr"
        bname = "res-body" if resp_like else "req-body"
        if body or act.get("force_body"):
            encl = "%s=0, %s=%d" % (hname, bname, len(hh))
        else:
            encl = "%s=0, null-body=%d" % (hname, len(hh))
        ih = ("ICAP/1.0 %d OK\r\nISTag: \"verif-1\"\r\nConnection: close\r\nEncapsulated: %s\r\n\r\n"
              % (act.get("icap_status", 200), encl)).encode()
        payload = b""
        cutspec = act.get("cut")
        sizes = act.get("chunks") or [max(len(body), 1)]
        i = 0
        kk = 0
        cut_payload = None
        if cutspec and cutspec[0] == "body":
            cut_payload = cutspec[1]
        sent_payload = 0
        truncated = False
        while i < len(body):
            n = max(1, sizes[kk % len(sizes)])
            kk += 1
            ch = body[i:i + n]
            i += len(ch)
            frame = b"%x\r\n" % len(ch) + ch + b"\r\n"
            if cut_payload is not None and sent_payload + len(ch) > cut_payload:
                keep = cut_payload - sent_payload
                payload += (b"%x\r\n" % len(ch)) + ch[:keep]
                truncated = True
                break
            payload += frame
            sent_payload += len(ch)
        if body or act.get("force_body"):
            if not truncated and not (cutspec and cutspec[0] in ("nolast", "body")):
                payload += b"0\r\n\r\n"
        if cutspec and cutspec[0] == "icaphead":
            data = ih[:cutspec[1]]
        elif cutspec and cutspec[0] == "httphead":
            data = ih + hh[:cutspec[1]]
        else:
            data = ih + hh + payload
        seg = act.get("seg")
        if seg:
            j = 0
            for n in seg:
                if j >= len(data):
                    break
                self.request.sendall(data[j:j + n])
                j += n
                time.sleep(act.get("seg_delay", 0.01))
            if j < len(data):
                self.request.sendall(data[j:])
        else:
            self.request.sendall(data)
        ev.append("sent-200" + ("-cut-" + cutspec[0] if cutspec else ""))
        if cutspec:
            if act.get("linger"):
                time.sleep(act["linger"])
            return
        # let squid read everything before we close
        try:
            self.request.shutdown(socket.SHUT_WR)
            self.request.settimeout(2)
            while self.request.recv(65536):
                pass
        except OSError:
            pass


class _Server(socketserver.ThreadingTCPServer):
    allow_reuse_address = True
    daemon_threads = True
    request_queue_size = 128


class IcapStub:
    def __init__(self, io_timeout=20):
        self.io_timeout = io_timeout
        self.lock = threading.Lock()
        self.scripts = {}
        self.default_script = {"first": {"kind": "204"}}
        self.log = []
        self.srv = _Server(("127.0.0.1", 0), _Handler)
        self.srv.stub = self
        self.port = self.srv.server_address[1]
        self.th = threading.Thread(target=self.srv.serve_forever, kwargs={"poll_interval": 0.05}, daemon=True)
        self.th.start()

    def uri(self, method, preview):
        return "icap://127.0.0.1:%d/m/%s/p/%s" % (self.port, method, "n" if preview is None else str(preview))

    def set_script(self, rid, script):
        with self.lock:
            self.scripts[rid] = script

    def script_for(self, rid):
        with self.lock:
            return self.scripts.get(rid, self.default_script)

    def add(self, rec):
        with self.lock:
            self.log.append(rec)

    def records(self, rid=None):
        with self.lock:
            return [r for r in self.log if rid is None or r["rid"] == rid]

    def clear(self):
        with self.lock:
            self.log.clear()
            self.scripts.clear()

    def close(self):
        try:
            self.srv.shutdown()
            self.srv.server_close()
        except Exception:
            pass
