(* Extract_smuggling.v — extraction of the connection framing model (ExtrOcamlBasic only). *)
Require Import ExtrOcamlBasic.
Require Import SquidV.Bytes SquidV.SmugglingModel.
Extraction "m_smuggling.ml" run_stream process_one sm_default_cfg.
