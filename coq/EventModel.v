(* EventModel.v — executable model of src/event.cc (EventScheduler::schedule, cancel, timeRemaining,
   checkEvents, find) and of the part of src/EventLoop.cc that drives it (checkEngine + dispatchCalls in
   runOnce).  Definitions only; proofs are in EventProofs.v.

   Time.  current_dtime and ev_entry::when are C doubles.  The model uses integers counting ticks of
   1/1024 s: on that grid (|t| < 2^42 ticks) the double operations the code performs -- now + when,
   comparisons, when - now, 1000 * diff, ceil -- are exact, so the integer arithmetic below is what the
   code computes.  Rounding of times outside the grid is not modelled (trusted base).

   Identity.  Each scheduled event gets the next sequence number (e_id); the code has no such field, the
   harness stores it in ev_entry::name.  Functions and arguments are small numbers; argument 0 is nullptr.

   cbdata.  cbdataReferenceValid(arg) is external to event.cc: the model carries the list of arguments that
   have been invalidated (s_inv); the harness implements the same table. *)
Require Import SquidV.Bytes.
Require Import SquidV.gen.Event_gen.
Local Open Scope Z_scope.

Record ev := mkEv { e_id : N; e_func : N; e_arg : N; e_when : Z; e_weight : Z; e_cb : bool }.

(* ---- EventScheduler::schedule ------------------------------------------------------------------ *)
(* const double timestamp = when > 0.0 ? current_dtime + when : 0; *)
Definition ev_timestamp (now w : Z) : Z := if w >? 0 then now + w else 0.

(* walk the list while the current entry's when <= event->when (the loop breaks at the first entry
   with a strictly greater when), then link the new entry in front of that entry *)
Fixpoint ev_insert (e : ev) (q : list ev) : list ev :=
  match q with
  | [] => [e]
  | x :: r => if e_when x >? e_when e then e :: q else x :: ev_insert e r
  end.

(* ---- EventScheduler::cancel -------------------------------------------------------------------- *)
(* if (event->func != func || (arg && event->arg != arg)) { E = &event->next; continue; } *)
Definition ev_nomatch (f a : N) (x : ev) : bool :=
  negb (e_func x =? f)%N || (negb (a =? 0)%N && negb (e_arg x =? a)%N).

(* returns the new list and whether the function returned from inside the loop (arg != nullptr, found) *)
Fixpoint ev_cancel_loop (f a : N) (q : list ev) : list ev * bool :=
  match q with
  | [] => ([], false)
  | x :: r =>
    if ev_nomatch f a x then let '(r', ret) := ev_cancel_loop f a r in (x :: r', ret)
    else (* unlink and delete the event *)
      if negb (a =? 0)%N then (r, true)       (* if (arg) return; *)
      else ev_cancel_loop f a r               (* E is not advanced *)
  end.

(* second component: debug_trap("eventDelete: event not found") was called *)
Definition ev_cancel (f a : N) (q : list ev) : list ev * bool :=
  let '(q', ret) := ev_cancel_loop f a q in (q', negb (a =? 0)%N && negb ret).

(* ---- EventScheduler::find ---------------------------------------------------------------------- *)
Definition ev_find (f a : N) (q : list ev) : bool :=
  existsb (fun x => (e_func x =? f)%N && (e_arg x =? a)%N) q.

(* ---- EventScheduler::timeRemaining ------------------------------------------------------------- *)
Inductive cres :=
| CRes (r : Z)      (* the int returned *)
| CUndef            (* static_cast<int>(ceil(1000*diff)) with a value above INT_MAX: undefined behaviour *)
| CAssert.          (* assert(event) in checkEvents failed *)

Definition ev_time_remaining (now : Z) (q : list ev) : cres :=
  match q with
  | [] => CRes ev_idle
  | x :: _ =>
    if e_when x <=? now then CRes 0
    else
      let diff := e_when x - now in                (* ticks; seconds = diff / 1024 *)
      let ms := (1000 * diff + 1023) / 1024 in     (* ceil(1000 * diff[s]) *)
      if ms >? ev_int_max then CUndef else CRes (Z.max 1 ms)
  end.

(* ---- EventScheduler::checkEvents --------------------------------------------------------------- *)
Definition ev_valid (inv : list N) (a : N) : bool := (a =? 0)%N || negb (existsb (N.eqb a) inv).

(* const bool heavy = event->weight && (!event->cbdata || cbdataReferenceValid(event->arg)); *)
Definition ev_heavy (inv : list N) (x : ev) : bool :=
  negb (e_weight x =? 0) && (negb (e_cb x) || ev_valid inv (e_arg x)).

(* the do { ... } while (result == 0) loop; returns (dequeued events, remaining queue, result) *)
Fixpoint ev_check_loop (now : Z) (inv : list N) (q : list ev) : list ev * list ev * cres :=
  match q with
  | [] => ([], [], CAssert)
  | x :: r =>
    let res := ev_time_remaining now r in
    if ev_heavy inv x then ([x], r, res)
    else match res with
         | CRes 0 => let '(d, q', res') := ev_check_loop now inv r in (x :: d, q', res')
         | _ => ([x], r, res)
         end
  end.

Definition ev_check_events (now : Z) (inv : list N) (q : list ev) : list ev * list ev * cres :=
  match ev_time_remaining now q with
  | CRes 0 => ev_check_loop now inv q
  | r => ([], q, r)
  end.

(* ---- AsyncCallQueue::fire over the calls created by checkEvents -------------------------------- *)
(* EventDialer::canDial: isLockedArg && !cbdataReferenceValid(theArg) => the call is cancelled *)
Definition ev_callable (inv : list N) (x : ev) : bool := negb (e_cb x) || ev_valid inv (e_arg x).
Definition ev_dispatch (inv : list N) (calls : list ev) : list (N * N) :=
  map (fun x => (e_func x, e_arg x)) (filter (ev_callable inv) calls).

(* ---- EventLoop::runOnce with the scheduler as a secondary engine and an idle primary engine ---- *)
Inductive lres :=
| LDone (q : list ev) (idle : bool) (delay : Z) (fired : list (N * N))
| LUndef | LAssert | LFuel.

Fixpoint ev_loop_iter (fuel : nat) (now : Z) (inv : list N) (q pend : list ev)
         (idle : bool) (delay : Z) (fired : list (N * N)) : lres :=
  match fuel with
  | O => LFuel
  | S k =>
    let '(d, q', r) := ev_check_events now inv q in      (* checkEngine(engine, false) *)
    match r with
    | CUndef => LUndef
    | CAssert => LAssert
    | CRes rz =>
      let idle1 := if rz <? 0 then idle else false in
      let delay1 := if rz <? 0 then delay else if rz <? delay then rz else delay in
      match pend ++ d with                                (* sawActivity = dispatchCalls() *)
      | [] => LDone q' idle1 delay1 fired
      | calls => ev_loop_iter k now inv q' [] false delay1 (fired ++ ev_dispatch inv calls)
      end
    end
  end.

Definition ev_loop_once (now : Z) (inv : list N) (q pend : list ev) : lres :=
  ev_loop_iter (S (S (length q))) now inv q pend true ev_loop_timeout [].

(* ---- histories --------------------------------------------------------------------------------- *)
Record est := mkSt { s_now : Z; s_next : N; s_q : list ev; s_pend : list ev; s_inv : list N }.

Inductive eop :=
| OSched (f a : N) (w wt : Z) (cb : bool)
| OCancel (f a : N)
| OClock (t : Z)
| OCheck            (* checkEvents(): due events become queued AsyncCalls *)
| ODispatch         (* AsyncCallQueue::fire(): queued calls run their handlers *)
| ORemain
| OInval (a : N)
| OFind (f a : N)
| OLoop.            (* EventLoop::runOnce() *)

Inductive eout :=
| RSched (id : N)
| RCancel (trap : bool)
| RClock
| RCheck (r : cres) (deq : list ev)
| RDispatch (fired : list (N * N))
| RRemain (r : cres)
| RInval
| RFind (b : bool)
| RLoop (r : lres).

Definition ev_init (t0 : Z) : est := mkSt t0 0%N [] [] [].

Definition ev_step (s : est) (o : eop) : est * eout :=
  match o with
  | OSched f a w wt cb =>
    let e := mkEv (s_next s) f a (ev_timestamp (s_now s) w) wt cb in
    (mkSt (s_now s) (N.succ (s_next s)) (ev_insert e (s_q s)) (s_pend s) (s_inv s), RSched (s_next s))
  | OCancel f a =>
    let '(q', trap) := ev_cancel f a (s_q s) in
    (mkSt (s_now s) (s_next s) q' (s_pend s) (s_inv s), RCancel trap)
  | OClock t => (mkSt t (s_next s) (s_q s) (s_pend s) (s_inv s), RClock)
  | OCheck =>
    let '(d, q', r) := ev_check_events (s_now s) (s_inv s) (s_q s) in
    (mkSt (s_now s) (s_next s) q' (s_pend s ++ d) (s_inv s), RCheck r d)
  | ODispatch =>
    (mkSt (s_now s) (s_next s) (s_q s) [] (s_inv s), RDispatch (ev_dispatch (s_inv s) (s_pend s)))
  | ORemain => (s, RRemain (ev_time_remaining (s_now s) (s_q s)))
  | OInval a => (mkSt (s_now s) (s_next s) (s_q s) (s_pend s) (a :: s_inv s), RInval)
  | OFind f a => (s, RFind (ev_find f a (s_q s)))
  | OLoop =>
    match ev_loop_once (s_now s) (s_inv s) (s_q s) (s_pend s) with
    | LDone q' idle delay fired =>
      (mkSt (s_now s) (s_next s) q' [] (s_inv s), RLoop (LDone q' idle delay fired))
    | r => (s, RLoop r)
    end
  end.

Fixpoint ev_run (s : est) (ops : list eop) : list eout * est :=
  match ops with
  | [] => ([], s)
  | o :: r => let '(s1, out) := ev_step s o in let '(outs, s2) := ev_run s1 r in (out :: outs, s2)
  end.

(* the queue after each operation, for the differential run *)
Fixpoint ev_run_trace (s : est) (ops : list eop) : list (eout * list N) :=
  match ops with
  | [] => []
  | o :: r => let '(s1, out) := ev_step s o in (out, map e_id (s_q s1)) :: ev_run_trace s1 r
  end.
