(* handlers for the acldom area (C41): matchDomainName, SplayInserter<char*>, ACLDomainData, Splay<int> *)
let rec shape (show : 'a -> string) (t : 'a tree) : string =
  match t with
  | Leaf -> "."
  | Node (l, x, r) -> "(" ^ shape show l ^ "," ^ show x ^ "," ^ shape show r ^ ")"

let rec take k l = if k = 0 then [] else (match l with [] -> [] | x :: r -> x :: take (k - 1) r)
let rec drop k l = if k = 0 then l else (match l with [] -> [] | _ :: r -> drop (k - 1) r)
let bits bs = if bs = [] then "-" else String.concat "" (List.map b2s bs)

let parse_op (s : string) : int_op option =
  if String.length s < 2 then None else
  let k = z_of_string (String.sub s 1 (String.length s - 1)) in
  match s.[0] with
  | 'i' -> Some (IIns k) | 'r' -> Some (IRem k) | 'f' -> Some (IFind k) | _ -> None

let () =
  reg "mdn" (fun [h; d] -> string_of_z (matchDomainName (bytes_of_hex h) (bytes_of_hex d)));
  reg "cmp" (fun [a; b] -> string_of_z (dcompare (bytes_of_hex a) (bytes_of_hex b)));
  reg "sub" (fun [a; b] -> b2s (is_subset (bytes_of_hex a) (bytes_of_hex b)));
  reg "acl" (fun (ns :: rest) ->
      let n = int_of_string ns in
      let vals = List.map bytes_of_hex (take n rest) in
      let hosts = List.map bytes_of_hex (drop n rest) in
      match acl_parse vals with
      | MOk (t, cnt) ->
          let (t2, bs) = acl_match_seq t hosts in
          string_of_z cnt ^ " " ^ shape hex_of_bytes t ^ " " ^ bits bs ^ " " ^ shape hex_of_bytes t2
      | MAssure -> "EXC"
      | MDangling -> "UB"
      | MFuel -> "HANG");
  reg "spl" (fun args ->
      let ops = match args with [] -> [] | s :: _ ->
        List.filter_map parse_op (String.split_on_char ',' s) in
      let ((bs, n), t) = int_run ops Leaf Z0 in
      bits bs ^ " " ^ string_of_z n ^ " " ^ shape string_of_z t)
