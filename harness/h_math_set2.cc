// part of the h_math harness: SetToNaturalSumOrMax(S&, A, B) for all NT^3 type triples
#include "h_math_defs.h"
TABLE(Set2Table, fSet2, D3, NT * NT * NT)
const Fn *h_math_set2_table() { return Set2Table.data(); }
