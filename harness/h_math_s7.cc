#define H_MATH_PART 7
#include "h_math_part.h"
