(* MgrProofs.v — proofs about MgrModel (C61). *)
Require Import SquidV.Bytes SquidV.TokModel SquidV.B64Model SquidV.MgrModel.
Require Import SquidV.gen.Mgr_gen.
Require Import ZifyBool ZifyN ZifyNat.
Local Open Scope N_scope.

(* any answer produced by the cache manager itself *)
Definition mgr_answer (r : result) : bool :=
  match r with RAuthReq _ | RIndex | RReport _ | RNotFound => true | _ => false end.

Lemma answer_requires_access e menu pl rules q :
  mgr_answer (handle e menu pl rules q) = true ->
  access_allowed (acl_manager q) (e_local e) rules = true.
Proof.
  unfold handle. intros H.
  destruct (url_check_request (q_method q) (q_scheme q)); cbn [negb] in H; [|discriminate H].
  destruct (access_allowed (acl_manager q) (e_local e) rules); cbn [negb] in H; [reflexivity|discriminate H].
Qed.
