(* HdrparseProofs.v — proofs about HdrparseModel (C25). *)
Require Import SquidV.Bytes SquidV.ClenModel SquidV.ClenProofs SquidV.HdrparseModel.
Require Import SquidV.gen.CharSets_gen SquidV.gen.HdrTable_gen.
Require Import ZifyBool ZifyN.
Local Open Scope N_scope.

(* ================================================================== 0. the linear-time helpers *)
Lemma frev_rev l : frev l = rev l.
Proof. unfold frev. symmetry. apply rev_alt. Qed.
Lemma h_rtrim_by_eq p l : h_rtrim_by p l = rtrim_by p l.
Proof. unfold h_rtrim_by, rtrim_by. now rewrite !frev_rev. Qed.
Lemma h_rtrim_eq l : h_rtrim l = rtrim l.
Proof. unfold h_rtrim. apply h_rtrim_by_eq. Qed.
Lemma rtrim_is_by l : rtrim l = rtrim_by c_isspace l.
Proof. reflexivity. Qed.
Lemma ltrim_is_by l : ltrim l = ltrim_by c_isspace l.
Proof. reflexivity. Qed.
Lemma h_last_is_eq p l : h_last_is p l = last_is p l.
Proof. unfold h_last_is, last_is. now rewrite frev_rev. Qed.
Lemma h_strip_last_eq l : h_strip_last l = strip_last l.
Proof. unfold h_strip_last, strip_last. now rewrite !frev_rev. Qed.
Lemma h_proc_line_eq relaxed req ln cont : h_proc_line relaxed req ln cont = proc_line relaxed req ln cont.
Proof. unfold h_proc_line, proc_line. now rewrite h_last_is_eq, h_strip_last_eq. Qed.

(* ================================================================== 1. lines *)
Definition nolf (l : bytes) : Prop := forallb (fun c => negb (c =? 10)) l = true.
Definition join_lines (ls : list bytes) : bytes := concat (map (fun l => l ++ [10]) ls).

Lemma ref_cut_split : forall l cur,
  ref_cut cur l = (match fst (split_lines l) with
                   | [] => []
                   | x :: xs => (rev cur ++ x) :: xs
                   end,
                   match fst (split_lines l) with [] => rev cur ++ snd (split_lines l) | _ => snd (split_lines l) end).
Proof.
  induction l as [|c r IH]; intros cur; cbn [ref_cut split_lines fst snd].
  - now rewrite app_nil_r.
  - destruct (c =? 10) eqn:E.
    + rewrite (IH []). destruct (split_lines r) as [ls rem]. cbn [fst snd rev app].
      rewrite app_nil_r. destruct ls; reflexivity.
    + rewrite (IH (c :: cur)). destruct (split_lines r) as [ls rem]. cbn [fst snd rev].
      destruct ls as [|x xs]; cbn [fst snd]; rewrite <- app_assoc; reflexivity.
Qed.

Lemma ref_cut_is_split l : ref_cut [] l = split_lines l.
Proof.
  rewrite ref_cut_split. destruct (split_lines l) as [ls rem]. cbn [fst snd rev app]. destruct ls; reflexivity.
Qed.

(* the lines are exactly the LF-separated pieces: they contain no LF and re-join to the block *)
Lemma split_lines_join : forall l ls rem, split_lines l = (ls, rem) ->
  l = join_lines ls ++ rem /\ Forall nolf ls /\ nolf rem.
Proof.
  induction l as [|c r IH]; intros ls rem; cbn [split_lines].
  - intros [= <- <-]. repeat split; constructor.
  - destruct (split_lines r) as [ls' rem'] eqn:E. destruct (IH _ _ eq_refl) as (Hj & Hf & Hr).
    destruct (c =? 10) eqn:Ec.
    + intros [= <- <-]. apply N.eqb_eq in Ec. subst c. repeat split; [|constructor; [reflexivity|exact Hf]|exact Hr].
      unfold join_lines. cbn [map concat app]. now rewrite Hj.
    + destruct ls' as [|x xs].
      * intros [= <- <-]. repeat split; [|constructor|].
        -- unfold join_lines in *. cbn [map concat app] in *. now rewrite Hj.
        -- unfold nolf in *. cbn [forallb]. now rewrite Ec, Hr.
      * intros [= <- <-]. pose proof (Forall_inv Hf) as Hx. pose proof (Forall_inv_tail Hf) as Hxs.
        repeat split; [| |exact Hr].
        -- unfold join_lines in *. cbn [map concat app] in *. now rewrite Hj.
        -- constructor; [|exact Hxs]. unfold nolf in *. cbn [forallb]. now rewrite Ec, Hx.
Qed.

Lemma split_lines_nolf l : nolf l -> split_lines l = ([], l).
Proof.
  induction l as [|c r IH]; intros H; cbn [split_lines]; [reflexivity|].
  unfold nolf in *. cbn [forallb] in H. apply andb_prop in H as [Hc Hr]. rewrite (IH Hr).
  destruct (c =? 10); [discriminate|reflexivity].
Qed.

Lemma split_lines_app_line x : nolf x -> forall l,
  split_lines (x ++ 10 :: l) = (x :: fst (split_lines l), snd (split_lines l)).
Proof.
  induction x as [|c r IH]; intros H l; cbn [app split_lines].
  - destruct (split_lines l); reflexivity.
  - unfold nolf in *. cbn [forallb] in H. apply andb_prop in H as [Hc Hr]. rewrite (IH Hr).
    destruct (c =? 10); [discriminate|reflexivity].
Qed.

(* ... and conversely: joining LF-free lines and splitting again returns them (the reading is unique) *)
Lemma split_lines_of_join : forall ls rem, Forall nolf ls -> nolf rem ->
  split_lines (join_lines ls ++ rem) = (ls, rem).
Proof.
  induction ls as [|x xs IH]; intros rem Hf Hr.
  - cbn. now apply split_lines_nolf.
  - inversion Hf as [|? ? Hx Hxs]; subst. unfold join_lines. cbn [map concat].
    rewrite <- !app_assoc. cbn [app]. rewrite (split_lines_app_line x Hx).
    fold (join_lines xs). now rewrite (IH rem Hxs Hr).
Qed.

Theorem ref_lines_exact block ls :
  ref_lines block = Some ls <-> (block = join_lines ls /\ Forall nolf ls).
Proof.
  unfold ref_lines. rewrite ref_cut_is_split. split.
  - destruct (split_lines block) as [ls' rem] eqn:E. destruct rem; [|discriminate]. intros [= <-].
    destruct (split_lines_join _ _ _ E) as (A & B & _). rewrite app_nil_r in A. now split.
  - intros [-> Hf]. rewrite <- (app_nil_r (join_lines ls)).
    now rewrite (split_lines_of_join ls [] Hf eq_refl).
Qed.

(* ================================================================== 2. groups *)
Lemma ref_groups_nil ls : ref_groups ls = [] <-> ls = [].
Proof.
  destruct ls as [|l r]; cbn [ref_groups]; [tauto|].
  split; [|discriminate]. destruct (ref_groups r); [discriminate|]. destruct (ref_next_is_cont r); discriminate.
Qed.

Lemma ref_groups_cons l r :
  ref_groups (l :: r) = match ref_groups r with
                        | g :: gs => if ref_next_is_cont r then (l :: g) :: gs else [l] :: g :: gs
                        | [] => [[l]]
                        end.
Proof. reflexivity. Qed.

Lemma ref_groups_concat ls : concat (ref_groups ls) = ls.
Proof.
  induction ls as [|l r IH]; cbn [ref_groups]; [reflexivity|].
  destruct (ref_groups r) as [|g gs] eqn:E.
  - apply ref_groups_nil in E. now subst r.
  - destruct (ref_next_is_cont r); cbn [concat app] in *; now rewrite IH.
Qed.

(* shape of one group: a head line followed by continuation lines only *)
Definition group_shape (g : list bytes) : Prop :=
  match g with [] => False | _ :: conts => Forall (fun l => ref_is_cont l = true) conts end.
(* the line after a group's end (the next group's head) is not a continuation line *)
Fixpoint heads_ok (gs : list (list bytes)) : Prop :=
  match gs with
  | [] => True
  | g :: rest => match rest with (h :: _) :: _ => ref_is_cont h = false | _ => True end /\ heads_ok rest
  end.

Lemma ref_groups_shape ls : Forall group_shape (ref_groups ls) /\ heads_ok (ref_groups ls) /\
  match ref_groups ls, ls with (h :: _) :: _, l :: _ => h = l | [], [] => True | _, _ => False end.
Proof.
  induction ls as [|l r IH]; cbn [ref_groups].
  - split; [constructor|]. split; exact I.
  - destruct IH as (Hs & Hh & Hd). destruct (ref_groups r) as [|g gs] eqn:E.
    + split; [constructor; [cbn; constructor|constructor]|]. split; [cbn; tauto|reflexivity].
    + destruct r as [|n r']; [destruct g; contradiction|]. destruct g as [|h g']; [contradiction|]. subst h.
      cbn [ref_next_is_cont]. pose proof (Forall_inv Hs) as Hg. pose proof (Forall_inv_tail Hs) as Hgs.
      destruct (ref_is_cont n) eqn:En.
      * split; [|split; [exact Hh|reflexivity]].
        constructor; [|exact Hgs]. cbn [group_shape] in *. constructor; [exact En|exact Hg].
      * split; [constructor; [cbn; constructor|exact Hs]|]. split; [|reflexivity].
        cbn [heads_ok]. split; [exact En|exact Hh].
Qed.

(* ================================================================== 3. one line *)
Lemma cr_map_id fe : existsb is_cr fe = false -> map cr_to_sp fe = fe.
Proof.
  induction fe as [|c r IH]; cbn [existsb map]; [reflexivity|]. intros H.
  apply orb_false_elim in H as [Hc Hr]. unfold cr_to_sp at 1. now rewrite Hc, (IH Hr).
Qed.

Lemma lenN_map {A B} (f : A -> B) l : lenN (map f l) = lenN l.
Proof. induction l as [|x l IH]; cbn [map lenN]; [reflexivity|now rewrite IH]. Qed.

Lemma proc_line_ref relaxed req ln cont :
  proc_line relaxed req ln cont =
  if ref_line_ok relaxed req (negb cont) ln
  then Some (ref_line_text relaxed ln, ref_ends_cr ln, ref_has_bare_cr ln) else None.
Proof.
  unfold proc_line, ref_line_ok, ref_line_text, ref_has_bare_cr. fold (ref_ends_cr ln). fold (ref_body ln).
  change (fun c : N => if is_cr c then 32 else c) with cr_to_sp.
  set (crlf := ref_ends_cr ln). set (fe := ref_body ln).
  destruct (crlf && req && negb (lenN fe =? 0) && forallb is_cr fe) eqn:E1.
  - replace (req && crlf && negb (lenN fe =? 0) && forallb is_cr fe) with true
      by (rewrite <- E1; destruct crlf, req; reflexivity). reflexivity.
  - replace (req && crlf && negb (lenN fe =? 0) && forallb is_cr fe) with false
      by (rewrite <- E1; destruct crlf, req; reflexivity). cbn [negb andb].
    destruct (existsb is_cr fe) eqn:Eb.
    + destruct relaxed; cbn [negb andb orb]; [|reflexivity].
      rewrite lenN_map. destruct (lenN fe =? 1), cont; reflexivity.
    + cbn [andb negb]. rewrite orb_true_r. cbn [andb].
      rewrite (cr_map_id fe Eb).
      destruct relaxed, (lenN fe =? 1), cont; reflexivity.
Qed.

(* ================================================================== 4. field-line split *)
Lemma ows_is_space c : ref_ows c = c_isspace c.
Proof. unfold ref_ows, c_isspace. lia. Qed.

Lemma trim_left_by ws l : ref_trim_left ws l = ltrim_by ws l.
Proof.
  unfold ltrim_by. induction l as [|c r IH]; cbn [ref_trim_left span]; [reflexivity|].
  destruct (ws c); [|reflexivity]. rewrite IH. destruct (span ws r); reflexivity.
Qed.
Lemma trim_right_by ws l : ref_trim_right ws l = rtrim_by ws l.
Proof. unfold ref_trim_right, rtrim_by. rewrite trim_left_by. reflexivity. Qed.
Lemma ref_trim_by ws l : ref_trim ws l = rtrim_by ws (ltrim_by ws l).
Proof. unfold ref_trim. now rewrite trim_right_by, trim_left_by. Qed.

Lemma span_ext {A} (p q : A -> bool) l : (forall x, p x = q x) -> span p l = span q l.
Proof. intros H. induction l as [|x l IH]; cbn [span]; [reflexivity|]. now rewrite H, IH. Qed.
Lemma ltrim_by_ext p q l : (forall x, p x = q x) -> ltrim_by p l = ltrim_by q l.
Proof. intros H. unfold ltrim_by. now rewrite (span_ext p q l H). Qed.
Lemma rtrim_by_ext p q l : (forall x, p x = q x) -> rtrim_by p l = rtrim_by q l.
Proof. intros H. unfold rtrim_by. now rewrite (span_ext p q _ H). Qed.

Lemma trim_right_rtrim l : ref_trim_right ref_ows l = rtrim l.
Proof. rewrite trim_right_by, rtrim_is_by. apply rtrim_by_ext, ows_is_space. Qed.

(* the model's choice of trimmable bytes is the reference's *)
Lemma model_trim_eq nm id n0 after : canon_name nm = (id, n0) ->
  h_rtrim_by (value_ws id) (ltrim_by (value_ws id) after) = ref_trim (ref_value_ws nm) after.
Proof.
  intros Hc. rewrite h_rtrim_by_eq, ref_trim_by. unfold value_ws, ref_value_ws, ref_is_framing_name, framing_id.
  rewrite Hc. cbn [fst]. destruct ((id =? ID_CL) || (id =? ID_TE)); [reflexivity|].
  rewrite (ltrim_by_ext c_isspace ref_ows) by (intros; symmetry; apply ows_is_space).
  apply rtrim_by_ext. intros; symmetry; apply ows_is_space.
Qed.

Lemma before_colon_span l :
  ref_before_colon l =
  match snd (span (fun c => negb (c =? 58)) l) with
  | [] => None
  | _ :: after => Some (fst (span (fun c => negb (c =? 58)) l), after)
  end.
Proof.
  induction l as [|c r IH]; cbn [ref_before_colon span]; [reflexivity|].
  destruct (c =? 58); cbn [negb fst snd]; [reflexivity|].
  rewrite IH. destruct (span (fun c0 : N => negb (c0 =? 58)) r) as [a b]. cbn [fst snd].
  destruct b; reflexivity.
Qed.

Definition tchar_check (c : N) : bool := implb (cs_TCHAR c) (negb (c_isspace c) && negb (c =? 58) && negb (c =? 0)).
Lemma tchar_facts c : cs_TCHAR c = true -> c_isspace c = false /\ (c =? 58) = false /\ (c =? 0) = false.
Proof.
  intros H. assert (G : tchar_check c = true).
  { destruct (N.ltb_spec c 256) as [Hc|Hc].
    - exact (forallb_bytes tchar_check ltac:(vm_compute; reflexivity) c Hc).
    - unfold tchar_check, cs_TCHAR, mem_tbl. rewrite tbl_get_oob by (vm_compute lenN; exact Hc). reflexivity. }
  unfold tchar_check in G. rewrite H in G. cbn [implb] in G.
  destruct (c_isspace c), (c =? 58), (c =? 0); try discriminate. auto.
Qed.

Lemma last_is_snoc p l c : last_is p (l ++ [c]) = p c.
Proof. unfold last_is. now rewrite rev_unit. Qed.
Lemma last_is_nil p : last_is p [] = false.
Proof. reflexivity. Qed.

Lemma list_snoc_cases {A} (l : list A) : l = [] \/ exists a c, l = a ++ [c].
Proof.
  destruct l as [|x r]; [now left|right]. destruct (exists_last (l := x :: r) ltac:(discriminate)) as (a & c & E).
  eauto.
Qed.

Lemma last_is_forall p q l : forallb p l = true -> last_is q l = true -> exists c, p c = true /\ q c = true.
Proof.
  destruct (list_snoc_cases l) as [->|(a & c & ->)]; [discriminate|].
  rewrite last_is_snoc, forallb_app. cbn [forallb]. intros H Hq.
  apply andb_prop in H as [_ H]. apply andb_prop in H as [H _]. eauto.
Qed.

Lemma rtrim_by_snoc_non p a c : p c = false -> rtrim_by p (a ++ [c]) = a ++ [c].
Proof.
  intros H. unfold rtrim_by. rewrite rev_unit. cbn [span]. rewrite H. cbn [snd].
  rewrite <- (rev_unit a c). apply rev_involutive.
Qed.

Lemma rtrim_by_no_trail p l : last_is p l = false -> rtrim_by p l = l.
Proof.
  destruct (list_snoc_cases l) as [->|(a & c & ->)]; [reflexivity|].
  rewrite last_is_snoc. apply rtrim_by_snoc_non.
Qed.
Lemma rtrim_no_trail l : last_is c_isspace l = false -> rtrim l = l.
Proof. apply rtrim_by_no_trail. Qed.

(* HttpHeaderEntry::parse is the reference field-line split followed by the table lookup *)
Lemma entry_parse_ref req text :
  h_entry_parse req text =
  match ref_split req text with
  | None => None
  | Some (name, value) =>
    Some {| he_id := fst (canon_name name); he_name := snd (canon_name name); he_value := c_str value |}
  end.
Proof.
  unfold h_entry_parse, ref_split. rewrite before_colon_span.
  destruct (span (fun c => negb (c =? 58)) text) as [name rest]. cbn [fst snd].
  destruct rest as [|colon after]; [reflexivity|].
  rewrite h_last_is_eq, !h_rtrim_eq, trim_right_rtrim.
  destruct (lenN name =? 0) eqn:E0.
  { assert (name = []) by (destruct name; [reflexivity|cbn [lenN] in E0; lia]). subst name.
    destruct req; reflexivity. }
  destruct (65534 <? lenN name) eqn:E1.
  { rewrite orb_true_r. reflexivity. }
  rewrite orb_false_r.
  assert (Hfin : forall nm : bytes,
    match nm with
    | [] => None
    | _ :: _ => if negb (forallb cs_TCHAR nm) then None
                else let '(id, n0) := canon_name nm in
                     let trimmable := value_ws id in
                     let value := h_rtrim_by trimmable (ltrim_by trimmable after) in
                     if 65534 <? lenN value then None
                     else Some {| he_id := id; he_name := n0; he_value := c_str value |}
    end =
    match (if (lenN nm =? 0) || negb (forallb cs_TCHAR nm) then None
           else if 65534 <? lenN (ref_trim (ref_value_ws nm) after) then None
           else Some (nm, ref_trim (ref_value_ws nm) after)) with
    | Some (name0, value) =>
      Some {| he_id := fst (canon_name name0); he_name := snd (canon_name name0); he_value := c_str value |}
    | None => None
    end).
  { intros nm. destruct nm as [|x xs]; [reflexivity|].
    replace (lenN (x :: xs) =? 0) with false by (cbn [lenN]; lia). cbn [orb].
    destruct (negb (forallb cs_TCHAR (x :: xs))); [reflexivity|].
    destruct (canon_name (x :: xs)) as [id n0] eqn:Ec. cbv zeta.
    rewrite (model_trim_eq (x :: xs) id n0 after Ec).
    destruct (65534 <? lenN (ref_trim (ref_value_ws (x :: xs)) after)); [reflexivity|].
    rewrite Ec. reflexivity. }
  destruct (last_is c_isspace name) eqn:El.
  - destruct req.
    + (* request: rejected by the model; the name is not a token *)
      rewrite E0. cbn [orb].
      assert (Ht : forallb cs_TCHAR name = false).
      { destruct (forallb cs_TCHAR name) eqn:Ht; [|reflexivity].
        destruct (last_is_forall _ _ _ Ht El) as (c & Hc & Hs). destruct (tchar_facts c Hc) as (A & _). congruence. }
      rewrite Ht. reflexivity.
    + apply Hfin.
  - rewrite (rtrim_no_trail name El). destruct req; apply Hfin.
Qed.

(* ================================================================== 5. the loop is the pipeline *)
Definition NN (l : bytes) : Prop := forallb (fun c => negb (c =? 0)) l = true.

Lemma NN_app a b : NN (a ++ b) <-> NN a /\ NN b.
Proof. unfold NN. rewrite forallb_app. split; [apply andb_prop|intros [-> ->]; reflexivity]. Qed.
Lemma NN_rev l : NN l -> NN (rev l).
Proof.
  unfold NN. rewrite !forallb_forall. intros H x Hx. apply H. now apply in_rev.
Qed.
Lemma NN_tl l : NN l -> NN (tl l).
Proof. destruct l; [auto|]. unfold NN. cbn [forallb tl]. intros H. now apply andb_prop in H as [_ H]. Qed.
Lemma NN_span_snd p l : NN l -> NN (snd (span p l)).
Proof. intros H. rewrite <- (span_app p l) in H. now apply NN_app in H as [_ H]. Qed.
Lemma NN_span_fst p l : NN l -> NN (fst (span p l)).
Proof. intros H. rewrite <- (span_app p l) in H. now apply NN_app in H as [H _]. Qed.
Lemma NN_trim ws l : NN l -> NN (ref_trim ws l).
Proof. intros H. rewrite ref_trim_by. unfold rtrim_by, ltrim_by. now apply NN_rev, NN_span_snd, NN_rev, NN_span_snd. Qed.
Lemma NN_ltrim l : NN l -> NN (ltrim l).
Proof. apply NN_span_snd. Qed.
Lemma NN_rtrim l : NN l -> NN (rtrim l).
Proof. intros H. unfold rtrim. now apply NN_rev, NN_span_snd, NN_rev. Qed.
Lemma NN_body l : NN l -> NN (ref_body l).
Proof. intros H. unfold ref_body, strip_last. destruct (ref_ends_cr l); [|exact H]. now apply NN_rev, NN_tl, NN_rev. Qed.
Lemma NN_map_cr l : NN l -> NN (map cr_to_sp l).
Proof.
  unfold NN. induction l as [|c r IH]; cbn [map forallb]; [auto|]. intros H.
  apply andb_prop in H as [Hc Hr]. rewrite (IH Hr). unfold cr_to_sp, is_cr. destruct (c =? 13); [reflexivity|now rewrite Hc].
Qed.
Lemma NN_text relaxed l : NN l -> NN (ref_line_text relaxed l).
Proof. intros H. unfold ref_line_text. destruct relaxed; [apply NN_map_cr|]; now apply NN_body. Qed.
Lemma NN_eol l : NN (ref_eol l).
Proof. unfold ref_eol. destruct (ref_ends_cr l); reflexivity. Qed.
Lemma NN_group_text relaxed g : Forall NN g -> NN (ref_group_text relaxed g).
Proof.
  induction g as [|l r IH]; intros H; [reflexivity|]. inversion H as [|? ? Hl Hr]; subst.
  cbn [ref_group_text]. destruct r as [|l2 r2]; [now apply NN_text|].
  apply NN_app; split; [now apply NN_text|]. apply NN_app; split; [apply NN_eol|now apply IH].
Qed.
Lemma c_str_NN l : NN l -> c_str l = l.
Proof. apply c_str_nonul. Qed.

Lemma before_colon_parts l n v : ref_before_colon l = Some (n, v) -> l = n ++ 58 :: v.
Proof.
  revert n v; induction l as [|c r IH]; intros n v; cbn [ref_before_colon]; [discriminate|].
  destruct (c =? 58) eqn:E.
  - intros [= <- <-]. apply N.eqb_eq in E. now subst c.
  - destruct (ref_before_colon r) as [[n' v']|]; [|discriminate]. intros [= <- <-].
    cbn [app]. now rewrite (IH _ _ eq_refl).
Qed.

Lemma ref_split_NN req text name value : NN text -> ref_split req text = Some (name, value) -> NN value.
Proof.
  unfold ref_split. intros H. destruct (ref_before_colon text) as [[rn rv]|] eqn:E; [|discriminate].
  apply before_colon_parts in E. subst text. apply NN_app in H as [_ H].
  assert (Hv : NN rv) by (unfold NN in *; cbn [forallb] in H; now apply andb_prop in H as [_ H]).
  destruct (_ || _); [discriminate|]. destruct (65534 <? _); [discriminate|]. intros [= <- <-].
  now apply NN_trim.
Qed.

(* accumulated state of the lines already read into the current field *)
Definition acc_of (relaxed : bool) (pre : list bytes) : bytes :=
  concat (map (fun l => ref_line_text relaxed l ++ ref_eol l) pre).
Definition bare_of (pre : list bytes) : bool := existsb ref_has_bare_cr pre.
Definition isnil {A} (l : list A) : bool := match l with [] => true | _ => false end.
Definition pend (pre : list bytes) (gs : list (list bytes)) : list (list bytes) :=
  match gs with
  | [] => match pre with [] => [] | _ => [pre] end
  | g :: r => (pre ++ g) :: r
  end.

Lemma lines_ok_app relaxed req : forall a first b,
  ref_lines_ok relaxed req first (a ++ b) =
  ref_lines_ok relaxed req first a && ref_lines_ok relaxed req (first && isnil a) b.
Proof.
  induction a as [|x a IH]; intros first b; cbn [app ref_lines_ok isnil].
  - now rewrite andb_true_r.
  - rewrite IH. rewrite andb_false_r. cbn [andb]. now rewrite andb_assoc.
Qed.

Lemma group_text_snoc relaxed : forall pre ln,
  ref_group_text relaxed (pre ++ [ln]) = acc_of relaxed pre ++ ref_line_text relaxed ln.
Proof.
  induction pre as [|x pre IH]; intros ln; [reflexivity|].
  cbn [app]. unfold acc_of. cbn [map concat]. fold (acc_of relaxed pre).
  change (ref_group_text relaxed (x :: pre ++ [ln])) with
    (match pre ++ [ln] with [] => ref_line_text relaxed x
     | _ :: _ => ref_line_text relaxed x ++ ref_eol x ++ ref_group_text relaxed (pre ++ [ln]) end).
  destruct (pre ++ [ln]) eqn:E; [destruct pre; discriminate|]. rewrite <- E, IH. now rewrite <- !app_assoc.
Qed.

Lemma acc_of_snoc relaxed pre ln :
  acc_of relaxed (pre ++ [ln]) = acc_of relaxed pre ++ ref_line_text relaxed ln ++ ref_eol ln.
Proof. unfold acc_of. rewrite map_app, concat_app. cbn [map concat]. now rewrite app_nil_r. Qed.

Lemma lenN_snoc {A} (l : list A) x : lenN (l ++ [x]) = N.succ (lenN l).
Proof. rewrite lenN_app. cbn [lenN]. lia. Qed.

Lemma lenN_pos_isnil {A} (l : list A) : (0 <? lenN l) = negb (isnil l).
Proof. destruct l; cbn [lenN isnil negb]; lia. Qed.

Lemma loop_rem relaxed req : forall lines rem acc nl bare, rem <> [] ->
  h_fields_loop relaxed req lines rem acc nl bare = None.
Proof.
  induction lines as [|ln rest IH]; intros rem acc nl bare Hr; cbn [h_fields_loop].
  - destruct rem; [contradiction|reflexivity].
  - destruct (h_proc_line relaxed req ln (0 <? nl)) as [[[fe cr] b1]|]; [|reflexivity].
    match goal with |- (if ?c then _ else _) = _ => destruct c end.
    + destruct rest; [reflexivity|]. now apply IH.
    + destruct (acc ++ fe) as [|b l].
      * destruct rest; [destruct rem; [contradiction|reflexivity]|reflexivity].
      * destruct (h_entry_parse req (b :: l)); [|reflexivity].
        match goal with |- (if ?c then _ else _) = _ => destruct c end; [reflexivity|].
        now rewrite IH.
Qed.

Lemma next_cont_eq (rest : list bytes) :
  match (match rest with [] => [] | x :: _ => x ++ [10] end) with
  | c :: _ => (c =? 32) || (c =? 9) | [] => false end = ref_next_is_cont rest.
Proof. destruct rest as [|x r]; [reflexivity|]. destruct x; reflexivity. Qed.

Lemma ref_field_snoc relaxed req pre ln :
  Forall NN (pre ++ [ln]) ->
  ref_field relaxed req (pre ++ [ln]) =
  match h_entry_parse req (acc_of relaxed pre ++ ref_line_text relaxed ln) with
  | None => None
  | Some e => if ((0 <? lenN pre) || bare_of pre || ref_has_bare_cr ln) && h_is_framing e then None else Some e
  end.
Proof.
  intros Hnn. unfold ref_field. rewrite group_text_snoc, entry_parse_ref.
  assert (Ht : NN (acc_of relaxed pre ++ ref_line_text relaxed ln)).
  { rewrite <- group_text_snoc. now apply NN_group_text. }
  destruct (ref_split req (acc_of relaxed pre ++ ref_line_text relaxed ln)) as [[name value]|] eqn:E; [|reflexivity].
  rewrite (c_str_NN value (ref_split_NN _ _ _ _ Ht E)).
  destruct (canon_name name) as [id nm]. cbn [fst snd].
  rewrite lenN_snoc. unfold bare_of. rewrite existsb_app. cbn [existsb]. rewrite orb_false_r.
  replace (1 <? N.succ (lenN pre)) with (0 <? lenN pre) by lia. rewrite orb_assoc. reflexivity.
Qed.

Theorem loop_is_pipeline relaxed req : forall lines pre,
  Forall NN lines -> Forall NN pre ->
  ref_lines_ok relaxed req true pre = true ->
  (pre = [] \/ ref_next_is_cont lines = true) ->
  h_fields_loop relaxed req lines [] (acc_of relaxed pre) (lenN pre) (bare_of pre) =
  ref_process relaxed req (pend pre (ref_groups lines)).
Proof.
  induction lines as [|ln rest IH]; intros pre Hnl Hnp Hok Hpre.
  - destruct Hpre as [->|Hc]; [reflexivity|discriminate].
  - inversion Hnl as [|? ? Hln Hrest]; subst.
    cbn [h_fields_loop]. rewrite h_proc_line_eq, proc_line_ref, next_cont_eq, lenN_pos_isnil, negb_involutive.
    assert (Hnp' : Forall NN (pre ++ [ln])) by (apply Forall_app; split; [exact Hnp|now constructor]).
    assert (Hok' : ref_lines_ok relaxed req true (pre ++ [ln]) = ref_line_ok relaxed req (isnil pre) ln).
    { rewrite lines_ok_app, Hok. cbn [andb ref_lines_ok]. now rewrite andb_true_r. }
    rewrite ref_groups_cons.
    destruct (ref_next_is_cont rest) eqn:Ec.
    + (* the next line continues this field *)
      destruct rest as [|n rest']; [discriminate|].
      destruct (ref_groups (n :: rest')) as [|g gs] eqn:Eg; [apply ref_groups_nil in Eg; discriminate|].
      cbn [pend].
      destruct (ref_line_ok relaxed req (isnil pre) ln) eqn:El.
      * rewrite <- acc_of_snoc. rewrite <- lenN_snoc with (x := ln).
        replace (bare_of pre || ref_has_bare_cr ln) with (bare_of (pre ++ [ln]))
          by (unfold bare_of; rewrite existsb_app; cbn [existsb]; now rewrite orb_false_r).
        rewrite (IH (pre ++ [ln]) Hrest Hnp'); [|now rewrite Hok'|now right].
        cbn [pend]. now rewrite <- app_assoc.
      * cbn [ref_process].
        replace (pre ++ ln :: g) with ((pre ++ [ln]) ++ g) by now rewrite <- app_assoc.
        rewrite lines_ok_app, Hok'. reflexivity.
    + (* this line ends the field *)
      assert (Hgs : pend pre (match ref_groups rest with
                              | [] => [[ln]]
                              | g :: gs => [ln] :: g :: gs end) = (pre ++ [ln]) :: ref_groups rest).
      { destruct (ref_groups rest); reflexivity. }
      rewrite Hgs. cbn [ref_process]. rewrite Hok'.
      destruct (ref_line_ok relaxed req (isnil pre) ln) eqn:El; [|reflexivity]. cbn [negb].
      rewrite group_text_snoc.
      assert (Hrec : h_fields_loop relaxed req rest [] [] 0 false = ref_process relaxed req (ref_groups rest)).
      { change [] with (acc_of relaxed []) at 2. change 0 with (lenN (@nil bytes)). change false with (bare_of []).
        rewrite (IH [] Hrest ltac:(constructor) eq_refl ltac:(now left)).
        destruct (ref_groups rest); reflexivity. }
      destruct (acc_of relaxed pre ++ ref_line_text relaxed ln) as [|b l] eqn:Et.
      * destruct rest as [|n rest']; [reflexivity|].
        destruct (ref_groups (n :: rest')) eqn:Eg; [apply ref_groups_nil in Eg; discriminate|reflexivity].
      * rewrite <- Et. rewrite (ref_field_snoc relaxed req pre ln Hnp').
        destruct (h_entry_parse req (acc_of relaxed pre ++ ref_line_text relaxed ln)) as [e|]; [|reflexivity].
        rewrite lenN_pos_isnil.
        replace (0 <? lenN pre) with (negb (isnil pre)) by now rewrite lenN_pos_isnil.
        match goal with |- (if ?c then _ else _) = _ => destruct c end; [reflexivity|].
        now rewrite Hrec.
Qed.

Lemma NN_lines block ls rem : NN block -> split_lines block = (ls, rem) -> Forall NN ls.
Proof.
  intros H E. destruct (split_lines_join _ _ _ E) as (-> & _ & _). apply NN_app in H as [H _].
  clear E. induction ls as [|x xs IH]; [constructor|].
  unfold join_lines in H. cbn [map concat] in H. apply NN_app in H as [Hx Hxs].
  apply NN_app in Hx as [Hx _]. constructor; [exact Hx|now apply IH].
Qed.

(* the field loop of HttpHeader::parse computes exactly the reference reading, accept and reject alike *)
Theorem block_fields_is_reference relaxed req block :
  h_block_fields relaxed req block = ref_fields relaxed req block.
Proof.
  unfold h_block_fields, ref_fields, ref_lines, has_nul. rewrite ref_cut_is_split.
  destruct (existsb (N.eqb 0) block) eqn:En; [reflexivity|].
  assert (Hnn : NN block).
  { unfold NN. apply forallb_forall. intros x Hx. destruct (x =? 0) eqn:E; [|reflexivity].
    assert (existsb (N.eqb 0) block = true); [|congruence].
    apply existsb_exists. exists x. split; [exact Hx|]. apply N.eqb_eq in E. subst. reflexivity. }
  destruct (split_lines block) as [ls rem] eqn:Es.
  destruct rem as [|r0 rem].
  - change [] with (acc_of relaxed []) at 2. change 0 with (lenN (@nil bytes)). change false with (bare_of []).
    rewrite (loop_is_pipeline relaxed req ls [] (NN_lines _ _ _ Hnn Es) ltac:(constructor) eq_refl ltac:(now left)).
    destruct (ref_groups ls); reflexivity.
  - now apply loop_rem.
Qed.

(* ================================================================== 6. trimming and names, declaratively *)
Lemma ltrim_by_exact p l : exists a, l = a ++ ltrim_by p l /\ forallb p a = true /\
  match ltrim_by p l with c :: _ => p c = false | [] => True end.
Proof.
  exists (fst (span p l)). unfold ltrim_by. split; [symmetry; apply span_app|].
  split; [apply span_all|apply span_stop].
Qed.

Lemma last_is_rev_head p l : last_is p l = match rev l with c :: _ => p c | [] => false end.
Proof. reflexivity. Qed.

Lemma rtrim_by_exact p l : exists b, l = rtrim_by p l ++ b /\ forallb p b = true /\
  last_is p (rtrim_by p l) = false.
Proof.
  destruct (ltrim_by_exact p (rev l)) as (a & Ha & Hs & Hf). exists (rev a). unfold rtrim_by. fold (ltrim_by p (rev l)).
  split; [|split].
  - rewrite <- rev_app_distr, <- Ha. symmetry; apply rev_involutive.
  - rewrite forallb_forall in *. intros x Hx. apply Hs. now apply in_rev.
  - rewrite last_is_rev_head, rev_involutive. destruct (ltrim_by p (rev l)); [reflexivity|exact Hf].
Qed.
Lemma rtrim_exact l : exists b, l = rtrim l ++ b /\ forallb c_isspace b = true /\
  last_is c_isspace (rtrim l) = false.
Proof. apply rtrim_by_exact. Qed.

(* the stored value is the maximal infix without trimmable bytes at its ends *)
Theorem ref_trim_exact ws l : exists a b, l = a ++ ref_trim ws l ++ b /\
  forallb ws a = true /\ forallb ws b = true /\
  match ref_trim ws l with c :: _ => ws c = false | [] => True end /\
  last_is ws (ref_trim ws l) = false.
Proof.
  rewrite ref_trim_by.
  destruct (ltrim_by_exact ws l) as (a & Ha & Hsa & Hfa).
  destruct (rtrim_by_exact ws (ltrim_by ws l)) as (b & Hb & Hsb & Hlb).
  exists a, b. split; [now rewrite <- Hb|]. split; [exact Hsa|]. split; [exact Hsb|]. split; [|exact Hlb].
  destruct (rtrim_by ws (ltrim_by ws l)) as [|c r] eqn:E; [exact I|]. rewrite Hb in Hfa. cbn [app] in Hfa. exact Hfa.
Qed.

Lemma tbl_find_spec tbl name :
  match tbl_find tbl name with
  | Some (id, nm) => ci_eqb name nm = true /\ exists fl, In (id, nm, fl) tbl
  | None => forall id nm fl, In (id, nm, fl) tbl -> ci_eqb name nm = false
  end.
Proof.
  induction tbl as [|[[id nm] fl] r IH]; cbn [tbl_find].
  - intros ? ? ? [].
  - destruct (ci_eqb name nm) eqn:E.
    + split; [exact E|]. exists fl. now left.
    + destruct (tbl_find r name) as [[id' nm']|].
      * destruct IH as (A & fl' & B). split; [exact A|]. exists fl'. now right.
      * intros i n f [[= <- <- <-]|H]; [exact E|]. exact (IH _ _ _ H).
Qed.

Lemma ci_eqb_refl a : ci_eqb a a = true.
Proof. unfold ci_eqb. induction (map lower a) as [|x l IH]; cbn [list_eqb]; [reflexivity|]. now rewrite N.eqb_refl. Qed.

(* stored id and spelling: the registered record with the same name up to ASCII case, else (OTHER, as written) *)
Theorem canon_name_exact name :
  ci_eqb name (snd (canon_name name)) = true /\
  ((exists fl, In (fst (canon_name name), snd (canon_name name), fl) hdr_table) \/
   (canon_name name = (hdr_OTHER, name) /\ forall id nm fl, In (id, nm, fl) hdr_table -> ci_eqb name nm = false)).
Proof.
  unfold canon_name. pose proof (tbl_find_spec hdr_table name) as H.
  destruct (tbl_find hdr_table name) as [[id nm]|]; cbn [fst snd].
  - destruct H as (A & B). split; [exact A|now left].
  - split; [apply ci_eqb_refl|right]. split; [reflexivity|exact H].
Qed.

(* ================================================================== 7. stored entries vs reference fields *)
Definition not_cl (e : hentry) : bool := negb (he_id e =? ID_CL).
Definition not_fr (e : hentry) : bool := negb (h_is_framing e).

Lemma filter_filter_imp {A} (f g : A -> bool) l : (forall x, f x = true -> g x = true) ->
  filter f (filter g l) = filter f l.
Proof.
  intros H. induction l as [|x l IH]; cbn [filter]; [reflexivity|].
  destruct (g x) eqn:Eg; cbn [filter]; [now rewrite IH|].
  destruct (f x) eqn:Ef; [rewrite (H x Ef) in Eg; discriminate|exact IH].
Qed.

Lemma filter_all {A} (f : A -> bool) l : forallb f l = true -> filter f l = l.
Proof.
  induction l as [|x l IH]; cbn [forallb filter]; [reflexivity|]. intros H.
  apply andb_prop in H as [Hx Hl]. now rewrite Hx, (IH Hl).
Qed.

Lemma not_fr_not_cl e : not_fr e = true -> not_cl e = true.
Proof. unfold not_fr, not_cl, h_is_framing. destruct (he_id e =? ID_CL); [discriminate|reflexivity]. Qed.

Lemma entries_loop_keeps relaxed : forall es st kept st',
  h_entries_loop relaxed es st = Some (kept, st') ->
  filter not_cl kept = filter not_cl es /\ (forallb not_cl es = true -> kept = es /\ st' = st).
Proof.
  induction es as [|e es IH]; intros st kept st'; cbn [h_entries_loop].
  - intros [= <- <-]. now split.
  - cbn [filter forallb]. destruct (he_id e =? ID_CL) eqn:Ei.
    + assert (Hn : not_cl e = false) by (unfold not_cl; now rewrite Ei). rewrite Hn. cbn [andb].
      destruct (check_field relaxed st (he_value e)) as [k st1]. destruct k.
      * destruct (h_entries_loop relaxed es st1) as [[k' s']|] eqn:E; [|discriminate].
        intros [= <- <-]. cbn [filter]. rewrite Hn.
        split; [exact (proj1 (IH _ _ _ E))|discriminate].
      * destruct relaxed; [|discriminate]. intros H. split; [exact (proj1 (IH _ _ _ H))|discriminate].
    + assert (Hn : not_cl e = true) by (unfold not_cl; now rewrite Ei). rewrite Hn. cbn [andb].
      destruct (h_entries_loop relaxed es st) as [[k' s']|] eqn:E; [|discriminate].
      intros [= <- <-]. cbn [filter]. rewrite Hn.
      destruct (IH _ _ _ E) as [A B]. split; [now rewrite A|].
      intros H. destruct (B H) as [-> ->]. now split.
Qed.

Lemma del_cl_is_filter l : h_del_id ID_CL l = filter not_cl l.
Proof. reflexivity. Qed.

Lemma cl_entry_is_cl v : not_cl (h_cl_entry v) = false.
Proof. unfold not_cl, h_cl_entry. cbn [he_id]. now rewrite N.eqb_refl. Qed.

Lemma post_process_keeps proh kept st :
  filter not_fr (hr_entries (h_post_process proh kept st)) = filter not_fr kept /\
  (proh = false -> filter not_cl (hr_entries (h_post_process proh kept st)) = filter not_cl kept) /\
  (proh = false -> forallb not_cl kept = true -> st = cl_init -> hr_entries (h_post_process proh kept st) = kept).
Proof.
  unfold h_post_process. destruct proh.
  - cbn [hr_entries]. split; [|split; discriminate].
    unfold h_del_id. rewrite !filter_filter_imp; [reflexivity| |].
    + intros x. apply not_fr_not_cl.
    + intros x. unfold not_fr, h_is_framing. destruct (he_id x =? ID_TE); [rewrite orb_true_r; discriminate|reflexivity].
  - destruct (h_has_id ID_TE kept); [|destruct (cl_sawBad st) eqn:Eb; [|destruct (cl_needsSan st) eqn:Es]];
      cbn [hr_entries]; rewrite ?del_cl_is_filter.
    + split; [apply filter_filter_imp, not_fr_not_cl|]. split; intros _.
      * apply filter_filter_imp. auto.
      * intros H _. now apply filter_all.
    + split; [apply filter_filter_imp, not_fr_not_cl|]. split; intros _.
      * apply filter_filter_imp. auto.
      * intros H _. now apply filter_all.
    + assert (Hx : forall f : hentry -> bool, (forall v, f (h_cl_entry v) = false) ->
                filter f (filter not_cl kept ++ (if cl_sawGood st then [h_cl_entry (cl_value st)] else [])) =
                filter f (filter not_cl kept)).
      { intros f Hf. rewrite filter_app. destruct (cl_sawGood st); cbn [filter]; [rewrite Hf|]; apply app_nil_r. }
      split; [|split; intros _].
      * rewrite Hx; [apply filter_filter_imp, not_fr_not_cl|].
        intros v. unfold not_fr. destruct (not_cl (h_cl_entry v)) eqn:E; [now rewrite cl_entry_is_cl in E|].
        unfold not_cl in E. unfold h_is_framing. destruct (he_id (h_cl_entry v) =? ID_CL); [reflexivity|discriminate].
      * rewrite Hx; [apply filter_filter_imp; auto|apply cl_entry_is_cl].
      * intros _ ->. discriminate.
    + split; [reflexivity|]. split; reflexivity.
Qed.

(* the stored entries of an accepted block are the reference fields, except for what HttpHeader::parse
   does to Content-Length (drop / sanitise: property C26) and, for 1xx/204/trailers, Transfer-Encoding *)
Theorem stored_fields relaxed req proh block r :
  h_parse relaxed req proh block = Some r ->
  exists fs, ref_fields relaxed req block = Some fs /\
    filter not_fr (hr_entries r) = filter not_fr fs /\
    (proh = false -> filter not_cl (hr_entries r) = filter not_cl fs) /\
    (proh = false -> forallb not_cl fs = true -> hr_entries r = fs).
Proof.
  unfold h_parse. rewrite block_fields_is_reference.
  destruct (ref_fields relaxed req block) as [fs|]; [|discriminate].
  destruct (h_entries_loop relaxed fs cl_init) as [[kept st]|] eqn:E; [|discriminate].
  intros [= <-]. exists fs. split; [reflexivity|].
  destruct (entries_loop_keeps _ _ _ _ _ E) as [A B].
  destruct (post_process_keeps proh kept st) as (P1 & P2 & P3).
  split; [|split].
  - rewrite P1. rewrite <- (filter_filter_imp not_fr not_cl kept not_fr_not_cl), A.
    apply filter_filter_imp, not_fr_not_cl.
  - intros Hp. now rewrite (P2 Hp).
  - intros Hp Hf. destruct (B Hf) as [-> ->]. now apply P3.
Qed.

(* ================================================================== 8. what an accepted block looks like *)
Lemma process_groups_ok relaxed req : forall gs es, ref_process relaxed req gs = Some es ->
  forall g, In g gs -> ref_lines_ok relaxed req true g = true /\
    (ref_group_text relaxed g = [] \/ exists e, ref_field relaxed req g = Some e).
Proof.
  induction gs as [|g0 rest IH]; intros es H g Hin; [destruct Hin|].
  cbn [ref_process] in H. destruct (ref_lines_ok relaxed req true g0) eqn:Eo; [|discriminate]. cbn [negb] in H.
  destruct (ref_group_text relaxed g0) as [|b l] eqn:Et.
  - destruct rest; [|discriminate]. destruct Hin as [<-|[]]. split; [exact Eo|now left].
  - destruct (ref_field relaxed req g0) as [e|] eqn:Ef; [|discriminate].
    destruct (ref_process relaxed req rest) as [es'|] eqn:Er; [|discriminate].
    destruct Hin as [<-|Hin].
    + split; [exact Eo|]. right. eauto.
    + exact (IH _ eq_refl g Hin).
Qed.

Lemma accepted_groups relaxed req proh block r :
  h_parse relaxed req proh block = Some r ->
  exists ls, ref_lines block = Some ls /\
    forall g, In g (ref_groups ls) -> ref_lines_ok relaxed req true g = true /\
      (ref_group_text relaxed g = [] \/ exists e, ref_field relaxed req g = Some e).
Proof.
  unfold h_parse. rewrite block_fields_is_reference. unfold ref_fields.
  destruct (existsb (N.eqb 0) block); [discriminate|].
  destruct (ref_lines block) as [ls|]; [|discriminate].
  destruct (ref_process relaxed req (ref_groups ls)) as [es|] eqn:E; [|discriminate].
  intros _. exists ls. split; [reflexivity|]. exact (process_groups_ok _ _ _ _ E).
Qed.

Lemma lines_ok_in relaxed req : forall g first ln, ref_lines_ok relaxed req first g = true -> In ln g ->
  exists f, ref_line_ok relaxed req f ln = true.
Proof.
  induction g as [|x g IH]; intros first ln H Hin; [destruct Hin|].
  cbn [ref_lines_ok] in H. apply andb_prop in H as [Hx Hg]. destruct Hin as [<-|Hin]; [eauto|eauto].
Qed.

Lemma in_concat_groups ls ln : In ln ls -> exists g, In g (ref_groups ls) /\ In ln g.
Proof. intros H. rewrite <- (ref_groups_concat ls) in H. apply in_concat in H as (g & A & B). eauto. Qed.

Lemma strip_last_snoc a (c : N) : strip_last (a ++ [c]) = a.
Proof. unfold strip_last. rewrite rev_unit. cbn [tl]. apply rev_involutive. Qed.

(* a request line made of CRs only (CR CR+ LF) is never accepted *)
Theorem rejects_cr_only_line relaxed proh block ls ln :
  ref_lines block = Some ls -> In ln ls -> forallb is_cr ln = true -> 2 <= lenN ln ->
  h_parse relaxed true proh block = None.
Proof.
  intros Hl Hin Hcr Hlen. destruct (h_parse relaxed true proh block) as [r|] eqn:E; [|reflexivity]. exfalso.
  destruct (accepted_groups _ _ _ _ _ E) as (ls' & Hl' & Hg). rewrite Hl in Hl'. injection Hl' as <-.
  destruct (in_concat_groups ls ln Hin) as (g & Hgin & Hlg).
  destruct (Hg g Hgin) as [Hok _]. destruct (lines_ok_in _ _ _ _ _ Hok Hlg) as (f & Hf).
  destruct (list_snoc_cases ln) as [->|(a & c & ->)]; [cbn [lenN] in Hlen; lia|].
  rewrite forallb_app in Hcr. apply andb_prop in Hcr as [Ha Hc]. cbn [forallb] in Hc. rewrite andb_true_r in Hc.
  unfold ref_line_ok, ref_body, ref_ends_cr in Hf. rewrite last_is_snoc, Hc, strip_last_snoc, Ha in Hf.
  rewrite lenN_snoc in Hlen. replace (lenN a =? 0) with false in Hf by lia. discriminate.
Qed.

(* white space between field name and colon: the field-line (lines of the group joined) is not accepted in a request *)
Lemma req_split_ws text rn rv : ref_before_colon text = Some (rn, rv) -> last_is c_isspace rn = true ->
  ref_split true text = None.
Proof.
  intros Hb Hl. unfold ref_split. rewrite Hb.
  destruct (forallb cs_TCHAR rn) eqn:Ht.
  - destruct (last_is_forall _ _ _ Ht Hl) as (c & Hc & Hs). destruct (tchar_facts c Hc) as (A & _). congruence.
  - cbn [negb]. now rewrite !orb_true_r.
Qed.

Theorem rejects_ws_before_colon relaxed proh block ls g rn rv :
  ref_lines block = Some ls -> In g (ref_groups ls) ->
  ref_before_colon (ref_group_text relaxed g) = Some (rn, rv) -> last_is c_isspace rn = true ->
  h_parse relaxed true proh block = None.
Proof.
  intros Hl Hin Hb Hws. destruct (h_parse relaxed true proh block) as [r|] eqn:E; [|reflexivity]. exfalso.
  destruct (accepted_groups _ _ _ _ _ E) as (ls' & Hl' & Hg). rewrite Hl in Hl'. injection Hl' as <-.
  destruct (Hg g Hin) as [_ [Ht|(e & He)]].
  - rewrite Ht in Hb. discriminate.
  - unfold ref_field in He. rewrite (req_split_ws _ _ _ Hb Hws) in He. discriminate.
Qed.

(* the same at the level of HttpHeaderEntry::parse *)
Theorem entry_rejects_ws_before_colon name w rest :
  forallb (fun c => negb (c =? 58)) name = true -> c_isspace w = true ->
  h_entry_parse true (name ++ w :: 58 :: rest) = None.
Proof.
  intros Hn Hw. rewrite entry_parse_ref.
  assert (Hb : ref_before_colon (name ++ w :: 58 :: rest) = Some (name ++ [w], rest)).
  { induction name as [|c r IH]; cbn [app ref_before_colon].
    - destruct (w =? 58) eqn:E; [apply N.eqb_eq in E; subst w; discriminate|]. now rewrite N.eqb_refl.
    - cbn [forallb] in Hn. apply andb_prop in Hn as [Hc Hr]. destruct (c =? 58); [discriminate|].
      now rewrite (IH Hr). }
  rewrite (req_split_ws _ _ _ Hb); [reflexivity|]. now rewrite last_is_snoc.
Qed.

(* obs-fold or bare CR in Content-Length / Transfer-Encoding *)
Theorem rejects_suspicious_framing relaxed req proh block r :
  h_parse relaxed req proh block = Some r ->
  exists ls, ref_lines block = Some ls /\
    forall g name value, In g (ref_groups ls) ->
      (1 <? lenN g) || existsb ref_has_bare_cr g = true ->
      ref_split req (ref_group_text relaxed g) = Some (name, value) ->
      fst (canon_name name) <> ID_CL /\ fst (canon_name name) <> ID_TE.
Proof.
  intros E. destruct (accepted_groups _ _ _ _ _ E) as (ls & Hl & Hg). exists ls. split; [exact Hl|].
  intros g name value Hin Hs Hsp. destruct (Hg g Hin) as [_ [Ht|(e & He)]].
  - rewrite Ht in Hsp. discriminate.
  - unfold ref_field in He. rewrite Hsp, Hs in He. destruct (canon_name name) as [id nm]. cbn [fst].
    unfold h_is_framing in He. cbn [he_id andb] in He.
    destruct (id =? ID_CL) eqn:E1, (id =? ID_TE) eqn:E2; cbn [orb] in He; try discriminate. split; lia.
Qed.

Theorem rejects_nul relaxed req proh block : In 0 block -> h_parse relaxed req proh block = None.
Proof.
  intros H. unfold h_parse, h_block_fields.
  assert (E : has_nul block = true).
  { unfold has_nul. apply existsb_exists. exists 0. split; [exact H|reflexivity]. }
  now rewrite E.
Qed.

Theorem groups_exact ls :
  concat (ref_groups ls) = ls /\ Forall group_shape (ref_groups ls) /\ heads_ok (ref_groups ls).
Proof. split; [apply ref_groups_concat|]. split; apply (ref_groups_shape ls). Qed.

(* ================================================================== 9. pack / parse round trip *)
Lemma list_eqb_true' (a : bytes) : forall b, list_eqb a b = true -> a = b.
Proof.
  induction a as [|x a IH]; intros [|y b]; cbn [list_eqb]; try discriminate; [reflexivity|].
  intros H. apply andb_prop in H as [H1 H2]. apply N.eqb_eq in H1. subst. now rewrite (IH _ H2).
Qed.

(* what the regenerated table must satisfy for stored names to be re-readable: token names, short,
   and no two records with the same name up to case (each name finds its own record) *)
Definition tbl_entry_ok (r : N * list N * (bool * bool * bool * bool * bool)) : bool :=
  let '(id, nm, _) := r in
  forallb cs_TCHAR nm && negb (isnil nm) && (lenN nm <=? 65534) &&
  match tbl_find hdr_table nm with Some (i, n) => (i =? id) && list_eqb n nm | None => false end.
Lemma table_ok : forallb tbl_entry_ok hdr_table = true.
Proof. vm_compute. reflexivity. Qed.

(* an entry as HttpHeader stores it *)
Definition stor (e : hentry) : Prop :=
  he_name e <> [] /\ forallb cs_TCHAR (he_name e) = true /\ lenN (he_name e) <= 65534 /\
  canon_name (he_name e) = (he_id e, he_name e) /\ NN (he_value e) /\ lenN (he_value e) <= 65534 /\
  ltrim_by (value_ws (he_id e)) (he_value e) = he_value e /\ rtrim_by (value_ws (he_id e)) (he_value e) = he_value e.
(* its value has no line structure left (always the case for messages that went through the unfolding pass) *)
Definition single_line (v : bytes) : Prop := forallb (fun c => negb (c =? 13) && negb (c =? 10)) v = true.

Lemma canon_stor name id nm : canon_name name = (id, nm) ->
  name <> [] -> forallb cs_TCHAR name = true -> lenN name <= 65534 ->
  nm <> [] /\ forallb cs_TCHAR nm = true /\ lenN nm <= 65534 /\ canon_name nm = (id, nm).
Proof.
  intros Hc Hne Ht Hl. unfold canon_name in Hc. pose proof (tbl_find_spec hdr_table name) as H.
  destruct (tbl_find hdr_table name) as [[id' nm']|] eqn:E.
  - injection Hc as <- <-. destruct H as (_ & fl & Hin). pose proof table_ok as T. rewrite forallb_forall in T.
    specialize (T _ Hin). cbn [tbl_entry_ok] in T. apply andb_prop in T as [T T4]. apply andb_prop in T as [T T3].
    apply andb_prop in T as [T1 T2]. unfold canon_name.
    destruct (tbl_find hdr_table nm') as [[i n]|]; [|discriminate]. apply andb_prop in T4 as [Ta Tb].
    apply list_eqb_true' in Tb. apply N.eqb_eq in Ta. subst.
    split; [destruct nm'; discriminate|]. split; [exact T1|]. split; [lia|reflexivity].
  - injection Hc as <- <-. split; [exact Hne|]. split; [exact Ht|]. split; [exact Hl|].
    unfold canon_name. now rewrite E.
Qed.

Lemma lenN_rtrim l : lenN (rtrim l) <= lenN l.
Proof. destruct (rtrim_exact l) as (b & Hb & _). rewrite Hb at 2. rewrite lenN_app. lia. Qed.

Lemma rtrim_by_idem p l : rtrim_by p (rtrim_by p l) = rtrim_by p l.
Proof. destruct (rtrim_by_exact p l) as (_ & _ & _ & H). now apply rtrim_by_no_trail. Qed.

Lemma ltrim_by_non p c r : p c = false -> ltrim_by p (c :: r) = c :: r.
Proof. intros H. unfold ltrim_by. cbn [span]. now rewrite H. Qed.

Lemma ltrim_rtrim_ltrim_by p x : ltrim_by p (rtrim_by p (ltrim_by p x)) = rtrim_by p (ltrim_by p x).
Proof.
  destruct (ltrim_by_exact p x) as (a & _ & _ & Hf). destruct (rtrim_by_exact p (ltrim_by p x)) as (b & Hb & _).
  destruct (rtrim_by p (ltrim_by p x)) as [|c r]; [reflexivity|]. rewrite Hb in Hf. cbn [app] in Hf. now apply ltrim_by_non.
Qed.

Lemma ref_split_stor req text name value : NN text -> ref_split req text = Some (name, value) ->
  stor {| he_id := fst (canon_name name); he_name := snd (canon_name name); he_value := value |}.
Proof.
  intros Hnn H. pose proof (ref_split_NN _ _ _ _ Hnn H) as Hv. unfold ref_split in H.
  destruct (ref_before_colon text) as [[rn rv]|]; [|discriminate].
  set (nm0 := if req then rn else ref_trim_right ref_ows rn) in *.
  destruct (lenN nm0 =? 0) eqn:E0; [discriminate|]. destruct (65534 <? lenN rn) eqn:E1; [discriminate|].
  destruct (forallb cs_TCHAR nm0) eqn:Et; [|discriminate]. cbn [orb negb] in H.
  destruct (65534 <? lenN (ref_trim (ref_value_ws nm0) rv)) eqn:E2; [discriminate|]. injection H as <- <-.
  assert (Hl : lenN nm0 <= 65534).
  { subst nm0. destruct req; [lia|]. rewrite trim_right_rtrim. pose proof (lenN_rtrim rn). lia. }
  assert (Hne : nm0 <> []) by (intros ->; cbn [lenN] in E0; lia).
  destruct (canon_name nm0) as [id nm] eqn:Ec. cbn [fst snd].
  destruct (canon_stor nm0 id nm Ec Hne Et Hl) as (A & B & C & D).
  unfold stor. cbn [he_id he_name he_value]. repeat split; try assumption; [lia| |].
  - rewrite <- (model_trim_eq nm0 id nm rv Ec), h_rtrim_by_eq. apply ltrim_rtrim_ltrim_by.
  - rewrite <- (model_trim_eq nm0 id nm rv Ec), h_rtrim_by_eq. apply rtrim_by_idem.
Qed.

Lemma process_stor relaxed req : forall gs es, Forall (Forall NN) gs -> ref_process relaxed req gs = Some es ->
  Forall stor es.
Proof.
  induction gs as [|g rest IH]; intros es Hnn H; cbn [ref_process] in H.
  - injection H as <-. constructor.
  - destruct (negb (ref_lines_ok relaxed req true g)); [discriminate|].
    pose proof (Forall_inv Hnn) as Hg. pose proof (Forall_inv_tail Hnn) as Hr.
    destruct (ref_group_text relaxed g) as [|b l] eqn:Et.
    + destruct rest; [|discriminate]. injection H as <-. constructor.
    + destruct (ref_field relaxed req g) as [e|] eqn:Ef; [|discriminate].
      destruct (ref_process relaxed req rest) as [es'|] eqn:Er; [|discriminate]. injection H as <-.
      constructor; [|exact (IH _ Hr eq_refl)].
      unfold ref_field in Ef. rewrite Et in *.
      destruct (ref_split req (b :: l)) as [[name value]|] eqn:Es; [|discriminate].
      pose proof (ref_split_stor req (b :: l) name value) as S. rewrite <- Et in S.
      specialize (S (NN_group_text relaxed g Hg)). rewrite Et in S. specialize (S Es).
      destruct (canon_name name) as [id nm]. cbn [fst snd] in S.
      match type of Ef with (if ?c then _ else _) = _ => destruct c end; [discriminate|]. injection Ef as <-. exact S.
Qed.

Lemma NN_groups ls : Forall NN ls -> Forall (Forall NN) (ref_groups ls).
Proof.
  intros H. apply Forall_forall. intros g Hg. apply Forall_forall. intros l Hl.
  rewrite Forall_forall in H. apply H. rewrite <- (ref_groups_concat ls). apply in_concat. eauto.
Qed.

Lemma NN_of_nonul block : existsb (N.eqb 0) block = false -> NN block.
Proof.
  intros En. unfold NN. apply forallb_forall. intros x Hx. destruct (x =? 0) eqn:E; [|reflexivity].
  assert (existsb (N.eqb 0) block = true); [|congruence].
  apply existsb_exists. exists x. split; [exact Hx|]. apply N.eqb_eq in E. subst. reflexivity.
Qed.

Lemma ref_fields_stor relaxed req block fs : ref_fields relaxed req block = Some fs -> Forall stor fs.
Proof.
  unfold ref_fields. destruct (existsb (N.eqb 0) block) eqn:En; [discriminate|].
  unfold ref_lines. rewrite ref_cut_is_split. destruct (split_lines block) as [ls rem] eqn:Es.
  destruct rem; [|discriminate]. apply process_stor, NN_groups. exact (NN_lines _ _ _ (NN_of_nonul _ En) Es).
Qed.

(* ---- re-reading one stored entry ---- *)
Definition line_of (e : hentry) : bytes := (he_name e ++ [58; 32] ++ he_value e) ++ [13].

Lemma pack_is_join es : h_pack es = join_lines (map line_of es).
Proof.
  unfold h_pack, join_lines. rewrite map_map. f_equal. apply map_ext. intros e.
  unfold pack_entry, line_of. now rewrite <- !app_assoc.
Qed.

Lemma forallb_tchar_imp (p : N -> bool) l : (forall c, cs_TCHAR c = true -> p c = true) ->
  forallb cs_TCHAR l = true -> forallb p l = true.
Proof. intros H. apply forallb_imp. exact H. Qed.

Lemma single_line_nolf v : single_line v -> nolf v.
Proof. apply forallb_imp. intros c H. now apply andb_prop in H as [_ H]. Qed.
Lemma single_line_nocr v : single_line v -> existsb is_cr v = false.
Proof.
  induction v as [|c r IH]; intros H; [reflexivity|]. unfold single_line in *. cbn [forallb existsb] in *.
  apply andb_prop in H as [Hc Hr]. rewrite (IH Hr). apply andb_prop in Hc as [Hc _]. unfold is_cr.
  destruct (c =? 13); [discriminate|reflexivity].
Qed.

Lemma tchar_not c : cs_TCHAR c = true -> (c =? 10) = false /\ (c =? 13) = false /\ (c =? 32) = false /\ (c =? 9) = false.
Proof. intros H. destruct (tchar_facts c H) as (A & _). unfold c_isspace in A. lia. Qed.

Lemma existsb_app' {A} (p : A -> bool) a b : existsb p (a ++ b) = existsb p a || existsb p b.
Proof. apply existsb_app. Qed.

Lemma name_nocr nm : forallb cs_TCHAR nm = true -> existsb is_cr nm = false.
Proof.
  induction nm as [|c r IH]; intros H; [reflexivity|]. cbn [forallb existsb] in *. apply andb_prop in H as [Hc Hr].
  rewrite (IH Hr). destruct (tchar_not c Hc) as (_ & A & _). unfold is_cr. now rewrite A.
Qed.

Lemma before_colon_name nm rest : forallb cs_TCHAR nm = true ->
  ref_before_colon (nm ++ 58 :: rest) = Some (nm, rest).
Proof.
  induction nm as [|c r IH]; intros H; cbn [app ref_before_colon]; [reflexivity|].
  cbn [forallb] in H. apply andb_prop in H as [Hc Hr]. destruct (tchar_facts c Hc) as (_ & A & _).
  now rewrite A, (IH Hr).
Qed.

Lemma reread_entry relaxed req e : stor e -> single_line (he_value e) ->
  ref_lines_ok relaxed req true [line_of e] = true /\
  ref_group_text relaxed [line_of e] = he_name e ++ [58; 32] ++ he_value e /\
  ref_field relaxed req [line_of e] = Some e.
Proof.
  intros (Hne & Ht & Hl & Hc & Hnn & Hvl & Hlt & Hrt) Hs.
  set (body := he_name e ++ [58; 32] ++ he_value e).
  assert (Hec : ref_ends_cr (line_of e) = true) by (unfold ref_ends_cr, line_of; now rewrite last_is_snoc).
  assert (Hb : ref_body (line_of e) = body).
  { unfold ref_body. rewrite Hec. unfold line_of. apply strip_last_snoc. }
  assert (Hnc : existsb is_cr body = false).
  { unfold body. rewrite !existsb_app'. rewrite (name_nocr _ Ht), (single_line_nocr _ Hs). reflexivity. }
  assert (Hnotcr : forallb is_cr body = false).
  { unfold body. destruct (he_name e) as [|c r]; [contradiction|]. cbn [app forallb].
    cbn [forallb] in Ht. apply andb_prop in Ht as [Hc0 _]. destruct (tchar_not c Hc0) as (_ & A & _).
    unfold is_cr. now rewrite A. }
  assert (Htext : ref_line_text relaxed (line_of e) = body).
  { unfold ref_line_text. rewrite Hb. destruct relaxed; [now apply cr_map_id|reflexivity]. }
  split; [|split].
  - cbn [ref_lines_ok]. unfold ref_line_ok, ref_has_bare_cr. rewrite Hb, Hnc, Hnotcr.
    rewrite !andb_false_r. cbn [negb andb orb]. now rewrite orb_true_r.
  - cbn [ref_group_text]. exact Htext.
  - unfold ref_field. cbn [ref_group_text]. rewrite Htext. unfold ref_split, body. cbn [app].
    rewrite (before_colon_name _ _ Ht).
    assert (Hlast : last_is c_isspace (he_name e) = false).
    { destruct (last_is c_isspace (he_name e)) eqn:El; [|reflexivity].
      destruct (last_is_forall _ _ _ Ht El) as (c & Hc1 & Hc2). destruct (tchar_facts c Hc1) as (A & _). congruence. }
    replace (if req then he_name e else ref_trim_right ref_ows (he_name e)) with (he_name e)
      by (destruct req; [reflexivity|rewrite trim_right_rtrim; symmetry; now apply rtrim_no_trail]).
    replace (lenN (he_name e) =? 0) with false by (destruct (he_name e); [contradiction|cbn [lenN]; lia]).
    replace (65534 <? lenN (he_name e)) with false by lia. rewrite Ht. cbn [orb negb].
    assert (Hv : ref_trim (ref_value_ws (he_name e)) (32 :: he_value e) = he_value e).
    { rewrite <- (model_trim_eq (he_name e) (he_id e) (he_name e) _ Hc), h_rtrim_by_eq.
      replace (ltrim_by (value_ws (he_id e)) (32 :: he_value e)) with (ltrim_by (value_ws (he_id e)) (he_value e)).
      - now rewrite Hlt, Hrt.
      - unfold ltrim_by. cbn [span]. replace (value_ws (he_id e) 32) with true
          by (unfold value_ws; destruct (framing_id (he_id e)); reflexivity).
        destruct (span (value_ws (he_id e)) (he_value e)); reflexivity. }
    rewrite Hv. replace (65534 <? lenN (he_value e)) with false by lia.
    rewrite Hc. cbn [lenN existsb]. unfold ref_has_bare_cr. rewrite Hb, Hnc. cbn [orb andb N.ltb].
    destruct e; reflexivity.
Qed.

Lemma line_of_not_cont e : stor e -> ref_is_cont (line_of e) = false.
Proof.
  intros (Hne & Ht & _). unfold line_of. destruct (he_name e) as [|c r]; [contradiction|].
  cbn [app ref_is_cont]. cbn [forallb] in Ht. apply andb_prop in Ht as [Hc _].
  destruct (tchar_not c Hc) as (_ & _ & A & B). now rewrite A, B.
Qed.

Lemma groups_of_lines es : Forall stor es -> ref_groups (map line_of es) = map (fun e => [line_of e]) es.
Proof.
  induction es as [|e es IH]; intros H; [reflexivity|]. pose proof (Forall_inv_tail H) as Ht.
  cbn [map]. rewrite ref_groups_cons, (IH Ht). destruct es as [|e2 es']; [reflexivity|].
  cbn [map ref_next_is_cont]. now rewrite (line_of_not_cont e2 (Forall_inv Ht)).
Qed.

Lemma process_of_entries relaxed req : forall es, Forall stor es -> Forall (fun e => single_line (he_value e)) es ->
  ref_process relaxed req (map (fun e => [line_of e]) es) = Some es.
Proof.
  induction es as [|e es IH]; intros Hs Hl; [reflexivity|]. cbn [map ref_process].
  destruct (reread_entry relaxed req e (Forall_inv Hs) (Forall_inv Hl)) as (A & B & C).
  rewrite A, B, C. cbn [negb]. rewrite (IH (Forall_inv_tail Hs) (Forall_inv_tail Hl)).
  destruct (Forall_inv Hs) as (Hne & _). destruct (he_name e); [contradiction|reflexivity].
Qed.

Lemma line_of_nolf e : stor e -> single_line (he_value e) -> nolf (line_of e).
Proof.
  intros (_ & Ht & _) Hs. unfold nolf, line_of. rewrite !forallb_app. cbn [forallb].
  rewrite (single_line_nolf _ Hs), andb_true_r. cbn [andb].
  rewrite (forallb_tchar_imp (fun c => negb (c =? 10)) _ ltac:(intros c H; destruct (tchar_not c H) as (A & _); now rewrite A) Ht).
  reflexivity.
Qed.

Lemma line_of_NN e : stor e -> NN (line_of e).
Proof.
  intros (_ & Ht & _ & _ & Hv & _). unfold line_of. apply NN_app; split; [|reflexivity].
  apply NN_app; split; [|apply NN_app; split; [reflexivity|exact Hv]].
  apply (forallb_tchar_imp (fun c => negb (c =? 0))); [|exact Ht].
  intros c H. destruct (tchar_facts c H) as (_ & _ & A). now rewrite A.
Qed.

Lemma NN_join ls : Forall NN ls -> NN (join_lines ls).
Proof.
  induction ls as [|x xs IH]; intros H; [reflexivity|]. unfold join_lines. cbn [map concat].
  apply NN_app; split; [apply NN_app; split; [exact (Forall_inv H)|reflexivity]|exact (IH (Forall_inv_tail H))].
Qed.

Lemma NN_nonul l : NN l -> existsb (N.eqb 0) l = false.
Proof.
  induction l as [|c r IH]; intros H; [reflexivity|]. unfold NN in *. cbn [forallb existsb] in *.
  apply andb_prop in H as [Hc Hr]. rewrite (IH Hr). rewrite N.eqb_sym. destruct (c =? 0); [discriminate|reflexivity].
Qed.

(* packing single-line stored entries and reading the bytes again returns the entries *)
Theorem reread_pack relaxed req es : Forall stor es -> Forall (fun e => single_line (he_value e)) es ->
  h_block_fields relaxed req (h_pack es) = Some es.
Proof.
  intros Hs Hl. rewrite block_fields_is_reference. unfold ref_fields. rewrite pack_is_join.
  assert (Hnn : Forall NN (map line_of es)).
  { apply Forall_forall. intros x Hx. apply in_map_iff in Hx as (e & <- & He). apply line_of_NN.
    rewrite Forall_forall in Hs. now apply Hs. }
  rewrite (NN_nonul _ (NN_join _ Hnn)).
  assert (Hlines : ref_lines (join_lines (map line_of es)) = Some (map line_of es)).
  { apply ref_lines_exact. split; [reflexivity|]. apply Forall_forall. intros x Hx.
    apply in_map_iff in Hx as (e & <- & He). rewrite Forall_forall in Hs, Hl. apply line_of_nolf; auto. }
  rewrite Hlines, (groups_of_lines es Hs). now apply process_of_entries.
Qed.

(* ---- the Content-Length interpreter on re-reading ---- *)
Definition flag (st : clst) : bool := cl_sawBad st || cl_needsSan st.

Lemma cv_flag relaxed st item :
  (flag st = true -> flag (snd (check_value relaxed st item)) = true) /\
  (fst (check_value relaxed st item) = false -> flag (snd (check_value relaxed st item)) = true).
Proof.
  rewrite check_value_unfold. unfold flag. destruct (cv_parse relaxed item) as [v|]; cbn [fst snd].
  - destruct (cl_sawGood st); cbn [fst snd cv_dup cv_first cl_sawBad cl_needsSan].
    + split; intros _; apply orb_true_r.
    + split; [auto|discriminate].
  - cbn [set_bad cl_sawBad]. split; reflexivity.
Qed.

Lemma ci_flag relaxed : forall items st, flag st = true -> flag (check_items relaxed st items) = true.
Proof.
  induction items as [|raw more IH]; intros st H; cbn [check_items]; [exact H|].
  destruct (rtrim raw) as [|x xs]; [exact H|].
  pose proof (proj1 (cv_flag relaxed st (x :: xs)) H) as H1.
  destruct (check_value relaxed st (x :: xs)) as [ok st']. cbn [snd] in H1.
  destruct (negb ok && cl_sawBad st'); [exact H1|now apply IH].
Qed.

Lemma flag_set_san st : flag (set_san st) = true.
Proof. unfold flag, set_san. cbn. apply orb_true_r. Qed.

Lemma cf_flag relaxed st v :
  (flag st = true -> flag (snd (check_field relaxed st v)) = true) /\
  (fst (check_field relaxed st v) = false -> flag (snd (check_field relaxed st v)) = true).
Proof.
  unfold check_field. destruct (cl_sawBad st) eqn:Eb.
  - cbn [fst snd]. unfold flag. rewrite Eb. split; reflexivity.
  - destruct (has_comma v).
    + unfold check_list. destruct relaxed; cbn [negb fst snd].
      * split; intros _; apply ci_flag, flag_set_san.
      * unfold flag, set_bad. cbn. split; reflexivity.
    + apply cv_flag.
Qed.

Lemma loop_flag relaxed : forall es st1 k st, h_entries_loop relaxed es st1 = Some (k, st) ->
  flag st1 = true -> flag st = true.
Proof.
  induction es as [|e es IH]; intros st1 k st; cbn [h_entries_loop].
  - intros [= <- <-]. auto.
  - destruct (he_id e =? ID_CL).
    + pose proof (proj1 (cf_flag relaxed st1 (he_value e))) as F.
      destruct (check_field relaxed st1 (he_value e)) as [kp st2]. cbn [snd] in F. destruct kp.
      * destruct (h_entries_loop relaxed es st2) as [[k' s']|] eqn:E; [|discriminate].
        intros [= <- <-] H. exact (IH _ _ _ E (F H)).
      * destruct relaxed; [|discriminate]. intros E H. exact (IH _ _ _ E (F H)).
    + destruct (h_entries_loop relaxed es st1) as [[k' s']|] eqn:E; [|discriminate].
      intros [= <- <-] H. exact (IH _ _ _ E H).
Qed.

Lemma loop_idem relaxed : forall es st0 kept st, h_entries_loop relaxed es st0 = Some (kept, st) ->
  flag st = false -> h_entries_loop relaxed kept st0 = Some (kept, st).
Proof.
  induction es as [|e es IH]; intros st0 kept st; cbn [h_entries_loop].
  - intros [= <- <-] _. reflexivity.
  - destruct (he_id e =? ID_CL) eqn:Ei.
    + pose proof (proj2 (cf_flag relaxed st0 (he_value e))) as F.
      destruct (check_field relaxed st0 (he_value e)) as [kp st2] eqn:Ec. cbn [fst snd] in F. destruct kp.
      * destruct (h_entries_loop relaxed es st2) as [[k' s']|] eqn:E; [|discriminate].
        intros [= <- <-] H. cbn [h_entries_loop]. rewrite Ei, Ec, (IH _ _ _ E H). reflexivity.
      * destruct relaxed; [|discriminate]. intros E H.
        rewrite (loop_flag true _ _ _ _ E (F eq_refl)) in H. discriminate.
    + destruct (h_entries_loop relaxed es st0) as [[k' s']|] eqn:E; [|discriminate].
      intros [= <- <-] H. cbn [h_entries_loop]. rewrite Ei, (IH _ _ _ E H). reflexivity.
Qed.

Definition good_range (st : clst) : Prop := cl_sawGood st = true -> (0 <= cl_value st < two63)%Z.

Lemma cv_range relaxed st item : good_range st -> good_range (snd (check_value relaxed st item)).
Proof.
  intros G. rewrite check_value_unfold. destruct (cv_parse relaxed item) as [v|] eqn:E; cbn [snd].
  - destruct (cl_sawGood st) eqn:Eg; cbn [snd]; unfold good_range; cbn [cv_dup cv_first cl_sawGood cl_value]; intros _.
    + now apply G.
    + apply cv_parse_token in E. destruct E as (w & ds & t & _ & _ & _ & Hd & _ & <- & Hlt).
      split; [now apply dec_val_nonneg|exact Hlt].
  - exact G.
Qed.

Lemma ci_range relaxed : forall items st, good_range st -> good_range (check_items relaxed st items).
Proof.
  induction items as [|raw more IH]; intros st G; cbn [check_items]; [exact G|].
  destruct (rtrim raw) as [|x xs]; [exact G|]. pose proof (cv_range relaxed st (x :: xs) G) as G1.
  destruct (check_value relaxed st (x :: xs)) as [ok st']. cbn [snd] in G1.
  destruct (negb ok && cl_sawBad st'); [exact G1|now apply IH].
Qed.

Lemma cf_range relaxed st v : good_range st -> good_range (snd (check_field relaxed st v)).
Proof.
  intros G. unfold check_field. destruct (cl_sawBad st); [exact G|]. destruct (has_comma v).
  - unfold check_list. destruct relaxed; cbn [negb snd]; [apply ci_range|]; exact G.
  - now apply cv_range.
Qed.

Lemma loop_range relaxed : forall es st0 k st, h_entries_loop relaxed es st0 = Some (k, st) ->
  good_range st0 -> good_range st.
Proof.
  induction es as [|e es IH]; intros st0 k st; cbn [h_entries_loop].
  - intros [= <- <-]. auto.
  - destruct (he_id e =? ID_CL).
    + pose proof (cf_range relaxed st0 (he_value e)) as F.
      destruct (check_field relaxed st0 (he_value e)) as [kp st2]. cbn [snd] in F. destruct kp.
      * destruct (h_entries_loop relaxed es st2) as [[k' s']|] eqn:E; [|discriminate].
        intros [= <- <-] H. exact (IH _ _ _ E (F H)).
      * destruct relaxed; [|discriminate]. intros E H. exact (IH _ _ _ E (F H)).
    + destruct (h_entries_loop relaxed es st0) as [[k' s']|] eqn:E; [|discriminate].
      intros [= <- <-] H. exact (IH _ _ _ E H).
Qed.

Lemma digits_token relaxed v : (0 <= v < two63)%Z -> is_token relaxed (int64_to_a v) v.
Proof.
  intros Hv. unfold int64_to_a.
  assert (Hn : Z.to_N v < 10 ^ N.of_nat 20) by (unfold two63 in Hv; change (10 ^ N.of_nat 20) with 100000000000000000000; lia).
  destruct (dec_digits_spec 19 _ Hn) as (Hval & Hd & Hne).
  exists [], (dec_digits 20 (Z.to_N v)), []. rewrite app_nil_r. cbn [app forallb].
  repeat split; try assumption; [rewrite Hval; lia|lia].
Qed.

Lemma cf_digits relaxed v : (0 <= v < two63)%Z ->
  check_field relaxed cl_init (int64_to_a v) = (true, cv_first cl_init v).
Proof.
  intros Hv. pose proof (digits_token relaxed v Hv) as T. unfold check_field. cbn [cl_init cl_sawBad].
  rewrite (token_no_comma _ _ _ T), check_value_unfold. apply cv_parse_token in T. now rewrite T.
Qed.

Lemma loop_nocl relaxed : forall es st, forallb not_cl es = true -> h_entries_loop relaxed es st = Some (es, st).
Proof.
  induction es as [|e es IH]; intros st H; [reflexivity|]. cbn [forallb] in H. apply andb_prop in H as [He Hr].
  cbn [h_entries_loop]. unfold not_cl in He. destruct (he_id e =? ID_CL); [discriminate|]. now rewrite (IH st Hr).
Qed.

Lemma loop_app_nocl relaxed : forall l r st, forallb not_cl l = true ->
  h_entries_loop relaxed (l ++ r) st =
  match h_entries_loop relaxed r st with Some (k, s) => Some (l ++ k, s) | None => None end.
Proof.
  induction l as [|e l IH]; intros r st H; cbn [app].
  - destruct (h_entries_loop relaxed r st) as [[k s]|]; reflexivity.
  - cbn [forallb] in H. apply andb_prop in H as [He Hr]. cbn [h_entries_loop]. unfold not_cl in He.
    destruct (he_id e =? ID_CL); [discriminate|]. rewrite (IH r st Hr).
    destruct (h_entries_loop relaxed r st) as [[k s]|]; reflexivity.
Qed.

Lemma forallb_filter_self {A} (f : A -> bool) l : forallb f (filter f l) = true.
Proof. apply forallb_forall. intros x Hx. now apply filter_In in Hx as [_ Hx]. Qed.
Lemma forallb_filter_keep {A} (f g : A -> bool) l : forallb f l = true -> forallb f (filter g l) = true.
Proof. rewrite !forallb_forall. intros H x Hx. apply filter_In in Hx as [Hx _]. now apply H. Qed.

Lemma ids_differ : (ID_CL =? ID_TE) = false.
Proof. vm_compute. reflexivity. Qed.

Lemma has_te_filter_cl l : h_has_id ID_TE (filter not_cl l) = h_has_id ID_TE l.
Proof.
  induction l as [|e l IH]; [reflexivity|]. cbn [filter]. unfold not_cl at 1.
  destruct (he_id e =? ID_CL) eqn:E; cbn [negb].
  - unfold h_has_id in *. cbn [existsb]. rewrite IH. apply N.eqb_eq in E. rewrite E, ids_differ. reflexivity.
  - unfold h_has_id in *. cbn [existsb]. now rewrite IH.
Qed.

Definition not_te (e : hentry) : bool := negb (he_id e =? ID_TE).

(* the entries stored by one parse are re-accepted unchanged by the Content-Length stage of a second parse *)
Lemma reinterpret relaxed proh fs kept st :
  h_entries_loop relaxed fs cl_init = Some (kept, st) ->
  exists kept2 st2,
    h_entries_loop relaxed (hr_entries (h_post_process proh kept st)) cl_init = Some (kept2, st2) /\
    hr_entries (h_post_process proh kept2 st2) = hr_entries (h_post_process proh kept st).
Proof.
  intros E.
  assert (Hplain : forall es, forallb not_cl es = true -> h_has_id ID_TE es = false -> proh = false ->
            exists kept2 st2, h_entries_loop relaxed es cl_init = Some (kept2, st2) /\
              hr_entries (h_post_process proh kept2 st2) = es).
  { intros es Hc Ht ->. exists es, cl_init. split; [now apply loop_nocl|].
    unfold h_post_process. rewrite Ht. reflexivity. }
  unfold h_post_process at 1 3. destruct proh.
  - cbn [hr_entries]. set (es' := h_del_id ID_TE (h_del_id ID_CL kept)).
    assert (Hc : forallb not_cl es' = true) by (apply forallb_filter_keep, forallb_filter_self).
    exists es', cl_init. split; [now apply loop_nocl|]. unfold h_post_process. cbn [hr_entries].
    rewrite del_cl_is_filter, (filter_all _ _ Hc). unfold es', h_del_id at 1.
    apply filter_all, forallb_filter_self.
  - destruct (h_has_id ID_TE kept) eqn:Ete; [|destruct (cl_sawBad st) eqn:Eb; [|destruct (cl_needsSan st) eqn:Es]];
      cbn [hr_entries].
    + rewrite del_cl_is_filter. exists (filter not_cl kept), cl_init.
      split; [apply loop_nocl, forallb_filter_self|]. unfold h_post_process.
      rewrite has_te_filter_cl, Ete. cbn [hr_entries]. rewrite del_cl_is_filter.
      apply filter_all, forallb_filter_self.
    + rewrite del_cl_is_filter. apply Hplain; [apply forallb_filter_self| |reflexivity].
      now rewrite has_te_filter_cl.
    + rewrite del_cl_is_filter. destruct (cl_sawGood st) eqn:Eg.
      * assert (Hr : (0 <= cl_value st < two63)%Z).
        { apply (loop_range relaxed fs cl_init kept st E); [discriminate|exact Eg]. }
        set (l := filter not_cl kept). exists (l ++ [h_cl_entry (cl_value st)]), (cv_first cl_init (cl_value st)).
        split.
        -- rewrite loop_app_nocl by apply forallb_filter_self. cbn [h_entries_loop h_cl_entry he_id he_value].
           rewrite N.eqb_refl, (cf_digits relaxed _ Hr). reflexivity.
        -- unfold h_post_process.
           assert (Hte : h_has_id ID_TE (l ++ [h_cl_entry (cl_value st)]) = false).
           { unfold h_has_id. rewrite existsb_app. fold (h_has_id ID_TE l). unfold l. rewrite has_te_filter_cl, Ete.
             cbn [existsb h_cl_entry he_id orb]. now rewrite ids_differ. }
           rewrite Hte. reflexivity.
      * rewrite app_nil_r. apply Hplain; [apply forallb_filter_self| |reflexivity].
        now rewrite has_te_filter_cl.
    + exists kept, st. split.
      * apply (loop_idem relaxed fs cl_init kept st E). unfold flag. now rewrite Eb, Es.
      * unfold h_post_process. now rewrite Ete, Eb, Es.
Qed.

Lemma in_loop_kept relaxed : forall es st kept st', h_entries_loop relaxed es st = Some (kept, st') ->
  forall e, In e kept -> In e es.
Proof.
  induction es as [|e0 es IH]; intros st kept st'; cbn [h_entries_loop].
  - intros [= <- <-] e [].
  - destruct (he_id e0 =? ID_CL).
    + destruct (check_field relaxed st (he_value e0)) as [kp st1]. destruct kp.
      * destruct (h_entries_loop relaxed es st1) as [[k' s']|] eqn:E; [|discriminate].
        intros [= <- <-] e [<-|H]; [now left|right; exact (IH _ _ _ E e H)].
      * destruct relaxed; [|discriminate]. intros E e H. right. exact (IH _ _ _ E e H).
    + destruct (h_entries_loop relaxed es st) as [[k' s']|] eqn:E; [|discriminate].
      intros [= <- <-] e [<-|H]; [now left|right; exact (IH _ _ _ E e H)].
Qed.

Lemma lenN_dec_digits : forall fuel n, lenN (dec_digits fuel n) <= N.of_nat fuel.
Proof.
  induction fuel as [|k IH]; intros n; [cbn; lia|]. rewrite dec_digits_S. destruct (n <? 10).
  - cbn [lenN]. lia.
  - rewrite lenN_snoc. specialize (IH (n / 10)). lia.
Qed.

Lemma digits_nonspace ds : forallb c_isdigit ds = true -> forallb (fun c => negb (c_isspace c) && negb (c =? 0)) ds = true.
Proof. apply forallb_imp. intros c H. unfold c_isdigit, c_isspace in *. lia. Qed.

Lemma value_ws_space id c : value_ws id c = true -> c_isspace c = true.
Proof. unfold value_ws. destruct (framing_id id); [|auto]. unfold is_wsp, c_isspace. lia. Qed.

Lemma nonspace_trimmed id v : forallb (fun c => negb (c_isspace c) && negb (c =? 0)) v = true ->
  NN v /\ ltrim_by (value_ws id) v = v /\ rtrim_by (value_ws id) v = v.
Proof.
  intros H. split; [|split].
  - revert H. apply forallb_imp. intros c Hc. now apply andb_prop in Hc as [_ Hc].
  - destruct v as [|c r]; [reflexivity|]. cbn [forallb] in H. apply andb_prop in H as [Hc _].
    apply andb_prop in Hc as [Hc _]. apply ltrim_by_non.
    destruct (value_ws id c) eqn:E; [|reflexivity]. rewrite (value_ws_space _ _ E) in Hc. discriminate.
  - apply rtrim_by_no_trail. destruct (last_is (value_ws id) v) eqn:El; [|reflexivity].
    destruct (last_is_forall _ _ _ H El) as (c & Hc & Hs). rewrite (value_ws_space _ _ Hs) in Hc. discriminate.
Qed.
Lemma cl_entry_stor v : (0 <= v < two63)%Z -> stor (h_cl_entry v) /\ single_line (he_value (h_cl_entry v)).
Proof.
  intros Hv. destruct (digits_token true v Hv) as (w & ds & t & _). clear w ds t.
  assert (Hn : Z.to_N v < 10 ^ N.of_nat 20) by (unfold two63 in Hv; change (10 ^ N.of_nat 20) with 100000000000000000000; lia).
  destruct (dec_digits_spec 19 _ Hn) as (_ & Hd & _).
  destruct (nonspace_trimmed ID_CL _ (digits_nonspace _ Hd)) as (A & B & C).
  assert (Hname : name_content_length <> [] /\ forallb cs_TCHAR name_content_length = true /\ lenN name_content_length <= 65534)
    by (vm_compute; repeat split; discriminate).
  destruct Hname as (N1 & N2 & N3).
  destruct (canon_stor name_content_length ID_CL (snd (canon_name name_content_length)) ltac:(vm_compute; reflexivity) N1 N2 N3) as (S1 & S2 & S3 & S4).
  split.
  - unfold stor, h_cl_entry. cbn [he_id he_name he_value]. unfold int64_to_a.
    repeat split; try assumption. pose proof (lenN_dec_digits 20 (Z.to_N v)). lia.
  - unfold single_line, h_cl_entry, int64_to_a. cbn [he_value]. revert Hd. apply forallb_imp.
    intros c H. unfold c_isdigit in H. lia.
Qed.

(* every entry list one parse stores consists of storable entries *)
Lemma parsed_entries_stor relaxed req proh block r : h_parse relaxed req proh block = Some r ->
  Forall stor (hr_entries r).
Proof.
  unfold h_parse. rewrite block_fields_is_reference.
  destruct (ref_fields relaxed req block) as [fs|] eqn:Ef; [|discriminate].
  destruct (h_entries_loop relaxed fs cl_init) as [[kept st]|] eqn:E; [|discriminate]. intros [= <-].
  pose proof (ref_fields_stor _ _ _ _ Ef) as Sfs.
  assert (Sk : Forall stor kept).
  { apply Forall_forall. intros e He. rewrite Forall_forall in Sfs. apply Sfs. exact (in_loop_kept _ _ _ _ _ E e He). }
  assert (Sf : forall f, Forall stor (filter f kept)).
  { intros f. apply Forall_forall. intros e He. apply filter_In in He as [He _]. rewrite Forall_forall in Sk. now apply Sk. }
  unfold h_post_process. destruct proh; cbn [hr_entries].
  - unfold h_del_id at 1. apply Forall_forall. intros e He. apply filter_In in He as [He _].
    pose proof (Sf not_cl) as S. rewrite Forall_forall in S. now apply S.
  - destruct (h_has_id ID_TE kept); [|destruct (cl_sawBad st); [|destruct (cl_needsSan st)]]; cbn [hr_entries];
      try apply Sf; [|exact Sk].
    apply Forall_app. split; [apply Sf|]. destruct (cl_sawGood st) eqn:Eg; [|constructor].
    constructor; [|constructor]. apply cl_entry_stor.
    apply (loop_range relaxed fs cl_init kept st E); [discriminate|exact Eg].
Qed.

(* parse (pack (parse block)) = parse block on the stored entries, for results whose values are single lines *)
Theorem pack_parse_roundtrip relaxed req proh block r :
  h_parse relaxed req proh block = Some r ->
  Forall (fun e => single_line (he_value e)) (hr_entries r) ->
  exists r', h_parse relaxed req proh (h_pack (hr_entries r)) = Some r' /\ hr_entries r' = hr_entries r.
Proof.
  intros H Hl. pose proof (parsed_entries_stor _ _ _ _ _ H) as Hs.
  unfold h_parse at 1. rewrite (reread_pack relaxed req _ Hs Hl).
  unfold h_parse in H. destruct (h_block_fields relaxed req block) as [fs|]; [|discriminate].
  destruct (h_entries_loop relaxed fs cl_init) as [[kept st]|] eqn:E; [|discriminate]. injection H as <-.
  destruct (reinterpret relaxed proh fs kept st E) as (kept2 & st2 & E2 & R2).
  rewrite E2. eexists. split; [reflexivity|exact R2].
Qed.
