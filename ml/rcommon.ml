(* rcommon.ml (textually prepended to every run_<area>.ml after `open M_<area>`) — line-oriented driver around the extracted models.
   usage: runner   (reads cases on stdin: "<entry> <args...>", one per line)
   Every result is printed as one canonical line. *)

(* ---------- conversions ---------- *)
let rec pos_of_int (i : int) : positive =
  if i = 1 then XH else if i land 1 = 0 then XO (pos_of_int (i lsr 1)) else XI (pos_of_int (i lsr 1))
let n_of_int (i : int) : n = if i = 0 then N0 else Npos (pos_of_int i)
let rec int_of_pos = function XH -> 1 | XO p -> 2 * int_of_pos p | XI p -> 2 * int_of_pos p + 1
let int_of_n = function N0 -> 0 | Npos p -> int_of_pos p

(* decimal strings <-> positive, any size *)
let dec_double_add (d : int array) (carry0 : int) : int array =
  (* d little-endian decimal digits; returns 2*d + carry0 *)
  let n = Array.length d in
  let out = Array.make (n + 1) 0 in
  let c = ref carry0 in
  for i = 0 to n - 1 do
    let v = 2 * d.(i) + !c in
    out.(i) <- v mod 10; c := v / 10
  done;
  out.(n) <- !c;
  let len = ref (n + 1) in
  while !len > 1 && out.(!len - 1) = 0 do decr len done;
  Array.sub out 0 !len
let rec dec_of_pos = function
  | XH -> [|1|]
  | XO p -> dec_double_add (dec_of_pos p) 0
  | XI p -> dec_double_add (dec_of_pos p) 1
let string_of_dec d =
  let n = Array.length d in String.init n (fun i -> Char.chr (48 + d.(n - 1 - i)))
let string_of_pos p = string_of_dec (dec_of_pos p)
let string_of_n = function N0 -> "0" | Npos p -> string_of_pos p

(* decimal string -> bits by repeated halving *)
let pos_of_string (s : string) : positive option =
  (* returns None for zero *)
  let d = Array.init (String.length s) (fun i -> Char.code s.[i] - 48) in (* big-endian *)
  let is_zero a = Array.for_all (fun x -> x = 0) a in
  let halve a = (* returns remainder; a modified in place *)
    let r = ref 0 in
    for i = 0 to Array.length a - 1 do
      let v = !r * 10 + a.(i) in a.(i) <- v / 2; r := v mod 2
    done; !r in
  let bits = ref [] in
  while not (is_zero d) do bits := halve d :: !bits done;
  (* bits: most significant first *)
  match !bits with
  | [] -> None
  | _ :: rest -> Some (List.fold_left (fun p b -> if b = 1 then XI p else XO p) XH rest)
let n_of_string s = match pos_of_string s with None -> N0 | Some p -> Npos p
let hexval c = match c with
  | '0'..'9' -> Char.code c - 48 | 'a'..'f' -> Char.code c - 87 | 'A'..'F' -> Char.code c - 55
  | _ -> failwith "hex"
let bytes_of_hex (h : string) : n list =
  if h = "-" then [] else
  let n = String.length h / 2 in
  List.init n (fun i -> n_of_int (hexval h.[2*i] * 16 + hexval h.[2*i+1]))
let hex_of_bytes (l : n list) : string =
  if l = [] then "-" else
  String.concat "" (List.map (fun b -> Printf.sprintf "%02x" (int_of_n b)) l)

(* a character set argument: 64 hex chars = 256 bits, bit c of byte c/8 (LSB first) *)
let storage_of_hex (h : string) : bool list =
  List.init 256 (fun c -> let b = hexval h.[2*(c/8)] * 16 + hexval h.[2*(c/8)+1] in (b lsr (c mod 8)) land 1 = 1)
let hex_of_storage (s : bool list) : string =
  let a = Array.of_list s in
  String.concat "" (List.init 32 (fun i ->
    let b = ref 0 in
    for k = 0 to 7 do if i*8+k < Array.length a && a.(i*8+k) then b := !b lor (1 lsl k) done;
    Printf.sprintf "%02x" !b))

let b2s b = if b then "1" else "0"
let tokres = function
  | None -> "fail"
  | Some (t, r) -> "ok " ^ hex_of_bytes t ^ " " ^ hex_of_bytes r


let handlers : (string, string list -> string) Hashtbl.t = Hashtbl.create 64
let reg name f = Hashtbl.replace handlers name f
