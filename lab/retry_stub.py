"""Stubs for the C07 (retry) end-to-end check: a DNS responder that maps scenario host names to lists of loopback
addresses, and an origin that listens on one (address, port) per forwarding PATH so that it knows, at accept time
and before reading a single byte, which scenario and which path a connection belongs to.

Every path carries a script: the list of behaviours applied to the successive ATTEMPTS seen on that path (an attempt
is a newly accepted connection, or a further request arriving on a connection that was kept alive). A path whose
address is not bound at all refuses connections (ECONNREFUSED at squid).

Behaviours (dicts, key "b"):
  accept_fin / accept_rst      close without reading: FIN right after accept / RST as soon as the first request byte
                               is in the socket buffer (unread)
  head_rst                     read the request head only, then RST
  full_fin / full_rst          read the complete request (head + Content-Length body), then FIN / RST without replying
  partial_head                 read the complete request, send a truncated response head, FIN
  reply                        read the complete request and answer: status, blen (body length), cut (send only that
                               many body bytes and then close: "fin"/"rst" in key "end"), keep (keep-alive)
"""
import socket, struct, threading, select, time, random

LINGER0 = struct.pack("ii", 1, 0)


class DnsStub:
    """UDP DNS responder on (addr, 53). names: lower-case fqdn -> list of dotted IPv4 strings (answer order kept)."""

    def __init__(self):
        self.names = {}
        self.lock = threading.Lock()
        self.queries = []
        last = None
        for _ in range(50):
            self.addr = "127.53.%d.%d" % (random.SystemRandom().randrange(1, 250), random.SystemRandom().randrange(1, 250))
            s = socket.socket(socket.AF_INET, socket.SOCK_DGRAM)
            try:
                s.bind((self.addr, 53))
                self.sock = s
                break
            except OSError as ex:
                last = ex
                s.close()
        else:
            raise RuntimeError("cannot bind a DNS stub address: %s" % last)
        self.stop = False
        self.th = threading.Thread(target=self.loop, daemon=True)
        self.th.start()

    def set(self, name, addrs):
        with self.lock:
            self.names[name.lower().rstrip(".")] = list(addrs)

    def loop(self):
        self.sock.settimeout(0.2)
        while not self.stop:
            try:
                data, peer = self.sock.recvfrom(4096)
            except socket.timeout:
                continue
            except OSError:
                return
            try:
                rep = self.answer(data)
            except Exception:
                rep = None
            if rep:
                try:
                    self.sock.sendto(rep, peer)
                except OSError:
                    pass

    def answer(self, q):
        if len(q) < 12:
            return None
        qid, flags, qd, an, ns, ar = struct.unpack("!HHHHHH", q[:12])
        if qd < 1:
            return None
        i = 12
        labels = []
        while True:
            n = q[i]
            i += 1
            if n == 0:
                break
            labels.append(q[i:i + n].decode("latin1"))
            i += n
        qtype, qclass = struct.unpack("!HH", q[i:i + 4])
        i += 4
        question = q[12:i]
        name = ".".join(labels).lower()
        with self.lock:
            addrs = self.names.get(name)
            self.queries.append((name, qtype))
        rcode = 0
        answers = b""
        nans = 0
        if addrs is None:
            rcode = 3
        elif qtype == 1:
            for a in addrs:
                answers += b"\xc0\x0c" + struct.pack("!HHIH", 1, 1, 300, 4) + socket.inet_aton(a)
                nans += 1
        hdr = struct.pack("!HHHHHH", qid, 0x8180 | rcode, 1, nans, 0, 0)
        return hdr + question + answers

    def close(self):
        self.stop = True
        try:
            self.sock.close()
        except OSError:
            pass


class Attempt:
    __slots__ = ("k", "conn", "reused", "head", "body", "beh", "t", "got_head", "got_full")

    def __init__(self, k, conn, reused, beh):
        self.k = k; self.conn = conn; self.reused = reused; self.beh = beh
        self.head = None; self.body = b""; self.t = time.time(); self.got_head = False; self.got_full = False

    def method(self):
        return self.head.split(b" ", 1)[0].decode("latin1") if self.head else None


class Path:
    def __init__(self, addr, script):
        self.addr = addr
        self.script = list(script)
        self.attempts = []
        self.nconn = 0
        self.lock = threading.Lock()
        self.lsock = None

    def next_attempt(self, conn, reused):
        with self.lock:
            k = len(self.attempts)
            beh = self.script[k] if k < len(self.script) else {"b": "reply", "status": 200}
            a = Attempt(k, conn, reused, beh)
            self.attempts.append(a)
            return a


class PathOrigin:
    """One listening socket per path address, all on the same port; a single acceptor thread."""

    def __init__(self, io_timeout=20):
        self.io_timeout = io_timeout
        self.paths = {}        # addr -> Path
        self.lock = threading.Lock()
        self.port = None
        self.stop = False
        self.wake_r, self.wake_w = socket.socketpair()
        self.th = threading.Thread(target=self.loop, daemon=True)
        self.th.start()

    def _bind(self, addr):
        s = socket.socket(socket.AF_INET, socket.SOCK_STREAM)
        s.setsockopt(socket.SOL_SOCKET, socket.SO_REUSEADDR, 1)
        s.bind((addr, self.port))
        s.listen(16)
        return s

    def choose_port(self, probe_addr):
        """pick the common port: a port that is free on the probe address (and, almost surely, on the others)"""
        for _ in range(50):
            p = random.SystemRandom().randrange(20000, 60000)
            s = socket.socket()
            try:
                s.bind((probe_addr, p))
                s.close()
                s2 = socket.socket()
                try:
                    s2.bind(("127.0.0.1", p))
                finally:
                    s2.close()
                self.port = p
                return p
            except OSError:
                s.close()
        raise RuntimeError("no free port")

    def add_path(self, addr, script):
        p = Path(addr, script)
        p.lsock = self._bind(addr)
        with self.lock:
            self.paths[addr] = p
        self.wake_w.send(b"x")
        return p

    def drop_path(self, addr):
        with self.lock:
            p = self.paths.pop(addr, None)
        if p and p.lsock:
            try:
                p.lsock.close()
            except OSError:
                pass
            self.wake_w.send(b"x")

    def loop(self):
        while not self.stop:
            with self.lock:
                socks = {p.lsock: p for p in self.paths.values() if p.lsock}
            try:
                r, _, _ = select.select(list(socks) + [self.wake_r], [], [], 0.5)
            except (OSError, ValueError):
                continue
            for s in r:
                if s is self.wake_r:
                    try:
                        self.wake_r.recv(4096)
                    except OSError:
                        pass
                    continue
                p = socks[s]
                try:
                    c, _ = s.accept()
                except OSError:
                    continue
                with p.lock:
                    p.nconn += 1
                    ci = p.nconn
                threading.Thread(target=self.serve, args=(p, c, ci), daemon=True).start()

    # ------------------------------------------------------------ one connection
    def serve(self, p, c, ci):
        c.settimeout(self.io_timeout)
        buf = b""
        first = True
        try:
            while True:
                if first:
                    a = p.next_attempt(ci, False)
                else:
                    # kept-alive connection: an attempt starts when the first byte of the next request arrives
                    try:
                        d = c.recv(65536)
                    except (OSError, socket.timeout):
                        return
                    if not d:
                        return
                    buf += d
                    a = p.next_attempt(ci, True)
                first = False
                b = a.beh.get("b", "reply")
                if b in ("accept_fin", "accept_rst"):
                    if b == "accept_rst":
                        # RST without reading -- but only once the first request byte sits in the socket buffer:
                        # an RST racing with squid's non-blocking connect() would be reported there as a connect
                        # failure (nothing sent), which is a different event
                        if not buf:
                            try:
                                c.recv(1, socket.MSG_PEEK)
                            except (OSError, socket.timeout):
                                pass
                        c.setsockopt(socket.SOL_SOCKET, socket.SO_LINGER, LINGER0)
                    return
                # read the head
                while b"\r\n\r\n" not in buf:
                    try:
                        d = c.recv(65536)
                    except (OSError, socket.timeout):
                        return
                    if not d:
                        return
                    buf += d
                head, rest = buf.split(b"\r\n\r\n", 1)
                a.head = head
                a.got_head = True
                if b == "head_rst":
                    a.body = rest
                    c.setsockopt(socket.SOL_SOCKET, socket.SO_LINGER, LINGER0)
                    return
                clen = 0
                for l in head.split(b"\r\n")[1:]:
                    if l.lower().startswith(b"content-length:"):
                        clen = int(l.split(b":", 1)[1].strip())
                while len(rest) < clen:
                    try:
                        d = c.recv(65536)
                    except (OSError, socket.timeout):
                        a.body = rest
                        return
                    if not d:
                        a.body = rest
                        return
                    rest += d
                a.body, buf = rest[:clen], rest[clen:]
                a.got_full = True
                if b == "full_fin":
                    return
                if b == "full_rst":
                    c.setsockopt(socket.SOL_SOCKET, socket.SO_LINGER, LINGER0)
                    return
                if b == "partial_head":
                    c.sendall(b"HTTP/1.1 200 OK\r\nContent-Len")
                    return
                # reply
                status = a.beh.get("status", 200)
                blen = a.beh.get("blen", 20)
                body = (b"%d:%s:" % (status, p.addr.encode()) + b"x" * blen)[:blen]
                keep = a.beh.get("keep", True)
                out = b"HTTP/1.1 %d Scripted\r\nContent-Length: %d\r\nX-Path: %s\r\n" % (status, blen, p.addr.encode())
                if not keep:
                    out += b"Connection: close\r\n"
                out += b"\r\n"
                cut = a.beh.get("cut")
                method = head.split(b" ", 1)[0]
                if method == b"HEAD":
                    body = b""
                    cut = None
                if cut is not None:
                    c.sendall(out + body[:cut])
                    time.sleep(0.05)
                    if a.beh.get("end", "fin") == "rst":
                        c.setsockopt(socket.SOL_SOCKET, socket.SO_LINGER, LINGER0)
                    return
                c.sendall(out + body)
                if not keep:
                    return
        except (OSError, socket.timeout):
            return
        finally:
            try:
                c.close()
            except OSError:
                pass

    def close(self):
        self.stop = True
        with self.lock:
            ps = list(self.paths.values())
            self.paths.clear()
        for p in ps:
            try:
                p.lsock.close()
            except OSError:
                pass
        try:
            self.wake_w.send(b"x")
        except OSError:
            pass
