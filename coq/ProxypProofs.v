(* ProxypProofs.v — lemmas and proofs for C38 (PROXY protocol). *)
Require Import SquidV.Bytes SquidV.TokModel SquidV.TokProofs SquidV.ProxypModel.
Require Import SquidV.gen.Proxyp_gen.
Require Import ZifyBool ZifyN ZifyNat.
Local Open Scope N_scope.
Ltac Zify.zify_post_hook ::= Z.div_mod_to_equations.

(* ================================================================== *)
(* lists                                                              *)

Lemma takeN_app_le {A} n (d x : list A) : n <= lenN d -> takeN n (d ++ x) = takeN n d.
Proof.
  revert n; induction d as [|a d IH]; intros n H; cbn [lenN] in H.
  - assert (n = 0) by lia; subst. cbn [app]. rewrite takeN_0. reflexivity.
  - cbn [app takeN]. destruct (n =? 0) eqn:E; [reflexivity|]. rewrite IH by lia. reflexivity.
Qed.

Lemma dropN_app_le {A} n (d x : list A) : n <= lenN d -> dropN n (d ++ x) = dropN n d ++ x.
Proof.
  revert n; induction d as [|a d IH]; intros n H; cbn [lenN] in H.
  - assert (n = 0) by lia; subst. cbn [app]. rewrite dropN_0. reflexivity.
  - cbn [app dropN]. destruct (n =? 0) eqn:E; [reflexivity|]. rewrite IH by lia. reflexivity.
Qed.

Lemma takeN_app_ge {A} n (a b : list A) : lenN a <= n -> takeN n (a ++ b) = a ++ takeN (n - lenN a) b.
Proof.
  revert n; induction a as [|x a IH]; intros n H; cbn [lenN] in *.
  - cbn [app]. rewrite N.sub_0_r. reflexivity.
  - cbn [app takeN]. destruct (n =? 0) eqn:E; [lia|]. rewrite IH by lia.
    replace (N.pred n - lenN a) with (n - N.succ (lenN a)) by lia. reflexivity.
Qed.

Lemma lenN_dropN {A} n (l : list A) : lenN (dropN n l) = lenN l - n.
Proof.
  revert n; induction l as [|x l IH]; intros n; cbn [dropN lenN]; [lia|].
  destruct (n =? 0) eqn:E; cbn [lenN]; [lia|]. rewrite IH. lia.
Qed.

Lemma lenN_nil_iff {A} (l : list A) : lenN l = 0 <-> l = [].
Proof. split; [apply lenN_0_nil| intros ->; reflexivity]. Qed.

Lemma span_app_all {A} (p : A -> bool) a b :
  forallb p a = true -> span p (a ++ b) = (a ++ fst (span p b), snd (span p b)).
Proof.
  induction a as [|x a IH]; cbn [forallb app]; intros H.
  - destruct (span p b); reflexivity.
  - apply andb_true_iff in H as [Hx Ha]. cbn [span]. rewrite Hx, (IH Ha). reflexivity.
Qed.

Definition stops (set : cset) (r : bytes) : Prop :=
  match r with [] => True | y :: _ => set y = false end.

Lemma span_stops set r : stops set r -> span set r = ([], r).
Proof. destruct r as [|y r]; cbn [stops span]; [reflexivity|]. intros ->. reflexivity. Qed.

Lemma stops_takeN set n r : stops set r -> stops set (takeN n r).
Proof. destruct r as [|y r]; cbn [takeN stops]; [trivial|]. destruct (n =? 0); cbn [stops]; trivial. Qed.

Lemma stops_app set r x : r <> [] -> stops set r -> stops set (r ++ x).
Proof. destruct r as [|y r]; [congruence|]. cbn [app stops]. trivial. Qed.

(* ================================================================== *)
(* Tokenizer::prefix: introduction rules and stability under extension *)

Lemma prefix_spec_intro set limit t r :
  t <> [] -> forallb set t = true -> lenN t <= limit ->
  (lenN t = limit \/ stops set r) ->
  tok_prefix set limit (t ++ r) = Some (t, r).
Proof.
  intros Hne Hall Hle Hstop. rewrite tok_prefix_eq_spec. unfold prefix_spec.
  rewrite (takeN_app_ge limit t r Hle), (span_app_all set t _ Hall). cbn [fst].
  assert (E : fst (span set (takeN (limit - lenN t) r)) = []).
  { destruct Hstop as [Heq|Hs].
    - replace (limit - lenN t) with 0 by lia. rewrite takeN_0. reflexivity.
    - rewrite (span_stops set _ (stops_takeN set _ r Hs)). reflexivity. }
  rewrite E, app_nil_r. destruct t as [|x t]; [congruence|].
  rewrite dropN_app_exact. reflexivity.
Qed.

Lemma prefix_spec_none_intro set limit b :
  (limit = 0 \/ match b with y :: _ => set y = false | [] => True end) ->
  tok_prefix set limit b = None.
Proof.
  intros H. rewrite tok_prefix_eq_spec. unfold prefix_spec.
  destruct H as [->|H]; [rewrite takeN_0; reflexivity|].
  destruct b as [|y b]; [reflexivity|]. cbn [takeN]. destruct (limit =? 0); [reflexivity|].
  cbn [span]. rewrite H. reflexivity.
Qed.

Lemma tok_prefix_ext_some set limit b x t r :
  tok_prefix set limit b = Some (t, r) -> r <> [] ->
  tok_prefix set limit (b ++ x) = Some (t, r ++ x).
Proof.
  intros H Hr. destruct (tok_prefix_sound _ _ _ _ _ H) as (Hb & Hne & Hall & Hle & Hstop).
  subst b. rewrite <- app_assoc. apply prefix_spec_intro; try assumption.
  destruct Hstop as [Hs|Hs]; [left; exact Hs|right].
  apply stops_app; [exact Hr|]. exact Hs.
Qed.

Lemma tok_prefix_ext_none set limit b x :
  tok_prefix set limit b = None -> b <> [] -> tok_prefix set limit (b ++ x) = None.
Proof.
  intros H Hb. apply prefix_spec_none_intro.
  destruct (tok_prefix_none _ _ _ H) as [->|[->|Hy]]; [congruence|left; reflexivity|right].
  destruct b as [|y b]; [congruence|]. exact Hy.
Qed.

(* ================================================================== *)
(* BinaryTokenizer steps under extension of the input (expectMore = true) *)

Lemma bt_area_ext n d x v r : bt_area true n d = BOk v r -> bt_area true n (d ++ x) = BOk v (r ++ x).
Proof.
  unfold bt_area. destruct (lenN d <? n) eqn:E; [cbn; discriminate|]. intros H; inversion H; subst; clear H.
  rewrite lenN_app. destruct (lenN d + lenN x <? n) eqn:E2; [lia|].
  rewrite takeN_app_le, dropN_app_le by lia. reflexivity.
Qed.

Lemma bt_area_true_nofail n d : bt_area true n d <> BFail.
Proof. unfold bt_area, bt_short. destruct (lenN d <? n); discriminate. Qed.

Lemma bt_area_len em n d v r : bt_area em n d = BOk v r -> lenN v = n /\ lenN d = n + lenN r /\ d = v ++ r.
Proof.
  unfold bt_area. destruct (lenN d <? n) eqn:E; [destruct em; discriminate|]. intros H; inversion H; subst; clear H.
  rewrite lenN_takeN, lenN_dropN, takeN_dropN. repeat split; lia.
Qed.

Lemma bt_uintN_ext k d x v r : bt_uintN true k d = BOk v r -> bt_uintN true k (d ++ x) = BOk v (r ++ x).
Proof.
  unfold bt_uintN. destruct (bt_area true k d) as [a r'| |] eqn:E; try discriminate.
  intros H; inversion H; subst; clear H. rewrite (bt_area_ext _ _ x _ _ E). reflexivity.
Qed.

Lemma bt_uintN_true_nofail k d : bt_uintN true k d <> BFail.
Proof. unfold bt_uintN. pose proof (bt_area_true_nofail k d). destruct (bt_area true k d); congruence. Qed.

Lemma bt_uintN_len em k d v r : bt_uintN em k d = BOk v r -> lenN d = k + lenN r.
Proof.
  unfold bt_uintN. destruct (bt_area em k d) as [a r'| |] eqn:E; try discriminate.
  intros H; inversion H; subst; clear H. apply bt_area_len in E. lia.
Qed.

Lemma bt_pstringN_ext k d x v r : bt_pstringN true k d = BOk v r -> bt_pstringN true k (d ++ x) = BOk v (r ++ x).
Proof.
  unfold bt_pstringN. destruct (bt_uintN true k d) as [len r'| |] eqn:E; try discriminate.
  rewrite (bt_uintN_ext _ _ x _ _ E). destruct (len =? 0).
  - intros H; inversion H; subst; reflexivity.
  - apply bt_area_ext.
Qed.

Lemma bt_pstringN_true_nofail k d : bt_pstringN true k d <> BFail.
Proof.
  unfold bt_pstringN. pose proof (bt_uintN_true_nofail k d).
  destruct (bt_uintN true k d) as [len r| |]; try congruence.
  destruct (len =? 0); [discriminate|apply bt_area_true_nofail].
Qed.

Lemma bt_pstringN_len em k d v r : bt_pstringN em k d = BOk v r -> lenN d = k + lenN v + lenN r.
Proof.
  unfold bt_pstringN. destruct (bt_uintN em k d) as [len r'| |] eqn:E; try discriminate.
  apply bt_uintN_len in E. destruct (len =? 0).
  - intros H; inversion H; subst; cbn [lenN]; lia.
  - intros H. apply bt_area_len in H. lia.
Qed.

(* ================================================================== *)
(* v2: definitive outcomes are stable under extension                  *)

Lemma v2_parse_ext b x : v2_parse b <> More -> v2_parse (b ++ x) = v2_parse b.
Proof.
  unfold v2_parse, bt_uint8, bt_pstring16.
  destruct (bt_uintN true 1 b) as [vc r1| |] eqn:E1; [|congruence|exfalso; exact (bt_uintN_true_nofail _ _ E1)].
  rewrite (bt_uintN_ext _ _ x _ _ E1).
  destruct (negb (vc / 16 =? 2)); [reflexivity|].
  destruct (pp_cmdProxy <? vc mod 16); [reflexivity|].
  destruct (bt_uintN true 1 r1) as [fp r2| |] eqn:E2; [|congruence|exfalso; exact (bt_uintN_true_nofail _ _ E2)].
  rewrite (bt_uintN_ext _ _ x _ _ E2).
  destruct (pp_afUnix <? fp / 16); [reflexivity|].
  destruct (pp_tpDgram <? fp mod 16); [reflexivity|].
  destruct (bt_pstringN true 2 r2) as [raw r3| |] eqn:E3; [|congruence|exfalso; exact (bt_pstringN_true_nofail _ _ E3)].
  rewrite (bt_pstringN_ext _ _ x _ _ E3). reflexivity.
Qed.

(* ================================================================== *)
(* v1 line isolator                                                    *)

Lemma skipChar_ext c r x : r <> [] -> tok_skipChar c (r ++ x) =
  (fst (tok_skipChar c r), snd (tok_skipChar c r) ++ x).
Proof.
  destruct r as [|y r]; [congruence|]. intros _. cbn [app tok_skipChar].
  destruct (y =? c); reflexivity.
Qed.

Lemma v1_isolate_ext b x : v1_isolate b <> IsoMore -> v1_isolate (b ++ x) = v1_isolate b.
Proof.
  unfold v1_isolate.
  destruct (tok_prefix nonCR v1_maxInteriorLength b) as [[t r1]|] eqn:P.
  - destruct r1 as [|c1 r1'].
    + cbn. congruence.
    + rewrite (tok_prefix_ext_some _ _ _ x _ _ P) by discriminate.
      cbn [app tok_skipChar]. destruct (c1 =? 13); [|reflexivity].
      destruct r1' as [|c2 r2'].
      * cbn. congruence.
      * cbn [app tok_skipChar]. destruct (c2 =? 10); reflexivity.
  - destruct b as [|c b'].
    + cbn. congruence.
    + rewrite (tok_prefix_ext_none _ _ _ x P) by discriminate. reflexivity.
Qed.

Section WithIp.
Variable ipf : bytes -> option ipaddr.

Lemma v1_parse_ext b x : v1_parse ipf b <> More -> v1_parse ipf (b ++ x) = v1_parse ipf b.
Proof.
  unfold v1_parse. intros H.
  destruct (v1_isolate b) as [i n| |] eqn:E; try congruence;
    rewrite v1_isolate_ext by (rewrite E; discriminate); rewrite E; reflexivity.
Qed.

(* ================================================================== *)
(* magic dispatch                                                      *)

Lemma starts_with_nil l : starts_with l [] = true.
Proof. destruct l; reflexivity. Qed.

Lemma starts_with_len l p : starts_with l p = true -> lenN p <= lenN l.
Proof.
  revert l; induction p as [|y p IH]; intros l H; cbn [lenN]; [lia|].
  destruct l as [|a l]; cbn [starts_with] in H; [discriminate|].
  apply andb_true_iff in H as [_ H]. apply IH in H. cbn [lenN]. lia.
Qed.

Lemma starts_with_app l p x : starts_with l p = true -> starts_with (l ++ x) p = true.
Proof.
  revert l; induction p as [|y p IH]; intros l H; [apply starts_with_nil|].
  destruct l as [|a l]; cbn [starts_with app] in *; [discriminate|].
  apply andb_true_iff in H as [H1 H2]. rewrite H1, (IH _ H2). reflexivity.
Qed.

Lemma starts_with_false_ext l p x : starts_with l p = false -> lenN p <= lenN l -> starts_with (l ++ x) p = false.
Proof.
  revert l; induction p as [|y p IH]; intros l H Hl; [rewrite starts_with_nil in H; discriminate|].
  destruct l as [|a l]; cbn [lenN] in Hl; [lia|]. cbn [starts_with app] in *.
  destruct (a =? y); [|reflexivity]. cbn [andb] in *. apply IH; [exact H|lia].
Qed.

Lemma starts_with_self_app p y : starts_with (p ++ y) p = true.
Proof. induction p as [|a p IH]; [apply starts_with_nil|]. cbn [app starts_with]. rewrite N.eqb_refl, IH. reflexivity. Qed.

Definition hd_differ (m1 m2 : bytes) : bool :=
  match m1, m2 with a :: _, c :: _ => negb (a =? c) | _, _ => false end.

Lemma starts_with_hd_conflict m1 m2 l :
  hd_differ m1 m2 = true -> starts_with l m1 = true -> starts_with l m2 = false.
Proof.
  destruct m1 as [|a m1], m2 as [|c m2]; cbn [hd_differ]; try discriminate.
  intros Hd H. destruct l as [|y l]; cbn [starts_with] in *; [reflexivity|].
  apply andb_true_iff in H as [H _]. apply N.eqb_eq in H. subst y.
  apply negb_true_iff in Hd. rewrite Hd. reflexivity.
Qed.

Lemma magic_hd_differ : hd_differ pp_magic1 pp_magic2 = true.
Proof. reflexivity. Qed.
Lemma magic_len_le : lenN pp_magic1 <= lenN pp_magic2.
Proof. vm_compute. discriminate. Qed.
Lemma magic1_nonempty : (lenN pp_magic1 =? 0) = false.
Proof. reflexivity. Qed.
Lemma magic2_nonempty : (lenN pp_magic2 =? 0) = false.
Proof. reflexivity. Qed.

Lemma add_size_more k o : add_size k o <> More <-> o <> More.
Proof. destruct o; cbn [add_size]; split; congruence. Qed.

(* the first sentence of the property: whatever is not "need more" is final *)
Theorem pp_parse_ext b x : pp_parse ipf b <> More -> pp_parse ipf (b ++ x) = pp_parse ipf b.
Proof.
  unfold pp_parse, tok_skip.
  destruct (starts_with b pp_magic2) eqn:S2.
  - rewrite (starts_with_app _ _ x S2). rewrite magic2_nonempty. cbn [negb].
    rewrite dropN_app_le by (apply starts_with_len; exact S2).
    intros H. apply add_size_more in H. rewrite (v2_parse_ext _ x H). reflexivity.
  - destruct (starts_with b pp_magic1) eqn:S1.
    + rewrite (starts_with_hd_conflict _ _ _ magic_hd_differ (starts_with_app _ _ x S1)).
      rewrite (starts_with_app _ _ x S1). rewrite magic1_nonempty. cbn [negb].
      rewrite dropN_app_le by (apply starts_with_len; exact S1).
      intros H. apply add_size_more in H. rewrite (v1_parse_ext _ x H). reflexivity.
    + destruct (lenN pp_magic2 <=? lenN b) eqn:L; [|congruence]. intros _.
      pose proof magic_len_le.
      rewrite (starts_with_false_ext _ _ x S2) by lia.
      rewrite (starts_with_false_ext _ _ x S1) by lia.
      rewrite lenN_app. destruct (lenN pp_magic2 <=? lenN b + lenN x) eqn:L2; [reflexivity|lia].
Qed.

Corollary pp_ok_stable b x h n : pp_parse ipf b = Ok h n -> pp_parse ipf (b ++ x) = Ok h n.
Proof. intros H. rewrite pp_parse_ext; [exact H|rewrite H; discriminate]. Qed.

Corollary pp_reject_stable b x e : pp_parse ipf b = Reject e -> pp_parse ipf (b ++ x) = Reject e.
Proof. intros H. rewrite pp_parse_ext; [exact H|rewrite H; discriminate]. Qed.

End WithIp.
