(* VaryModel.v — Vary handling (C13).  Executable definitions only.

   Transcribed from
     src/SquidString.h, src/String.cc     String: undefined (buf_ == nullptr) vs defined-empty; copy drops
                                          an empty value to undefined, move keeps it
     src/StrList.cc                       strListAdd (separator only when size() != 0), strListGetItem
                                          (HopModel.list_items, shared with C04)
     src/HttpHeader.cc                    HttpHeaderEntry::parse value trimming, getList, getStrOrList,
                                          getByIdIfPresent, hasNamed, getByName(SBuf)
     src/http.cc                          assembleVaryKey, httpMakeVaryMark,
                                          HttpStateData::haveParsedReplyHeaders (vary part)
     src/client_side.cc                   varyEvaluateMatch
     src/client_side_reply.cc             clientReplyContext::cacheHit (VARY_* switch, refreshCheck outcome
                                          for ENTRY_REVALIDATE_ALWAYS)
     src/store.cc                         StoreEntry::adjustVary (marker object, request->vary_headers),
                                          public key = f(method, url, request->vary_headers) (store_key_md5.cc)
   The per-byte image of rfc1738_escape_part comes from gen/gen_varyesc.cc (Vary_gen.v), the registered
   header table from gen/gen_hdrtable.cc (HdrTable_gen.v). *)
Require Import SquidV.Bytes SquidV.HopModel SquidV.QuoteModel.
Require Import SquidV.gen.HdrTable_gen SquidV.gen.Vary_gen.
Local Open Scope N_scope.

(* ------------------------------------------------------------------ *)
(* String: None = undefined (termedBuf() == nullptr), Some b = defined with content b *)
Definition sstr := option bytes.

Definition is_nil (b : bytes) : bool := match b with [] => true | _ => false end.

(* String(String const &) and operator=(String const &): `if (old.size() > 0) allocAndFill(...)` *)
Definition s_copy (s : sstr) : sstr :=
  match s with
  | Some (c :: r) => Some (c :: r)
  | _ => None
  end.

(* strListAdd(String *str, const char *item, ','): item is a C string; the separator is only added when
   str->size() != 0; String::append allocates a buffer even for a zero-length item *)
Definition str_list_add (s : sstr) (item : bytes) : sstr :=
  match s with
  | Some (c :: r) => Some ((c :: r) ++ [44; 32] ++ cstr item)
  | _ => Some (cstr item)
  end.

(* ------------------------------------------------------------------ *)
(* request header block: entries in arrival order; e->id is fixed when the entry is parsed *)

(* HttpHeaderEntry::parse: the value is trimmed of xisspace on both sides *)
Definition trim_value (v : bytes) : bytes := rtrim (drop_while is_xspace v).
Definition parse_entry (h : hdr) : hdr := {| h_name := h_name h; h_value := trim_value (h_value h) |}.
Definition parse_block (raw : list hdr) : list hdr := map parse_entry raw.

Fixpoint lookup_listflag (tbl : list (N * list N * (bool * bool * bool * bool * bool))) (id : N) : bool :=
  match tbl with
  | [] => false
  | (i, _, (l, _, _, _, _)) :: r => if i =? id then l else lookup_listflag r id
  end.
Definition is_list_hdr (id : N) : bool := lookup_listflag hdr_table id.

(* CBIT_TEST(mask, id) *)
Definition has_id (hs : list hdr) (id : N) : bool := existsb (fun h => hdr_id h =? id) hs.

(* HttpHeader::getList(id) const: String() when the mask bit is clear, else strListAdd over the entries *)
Fixpoint add_matching (p : hdr -> bool) (hs : list hdr) (s : sstr) : sstr :=
  match hs with
  | [] => s
  | h :: r => add_matching p r (if p h then str_list_add s (h_value h) else s)
  end.
Definition get_list (hs : list hdr) (id : N) : sstr :=
  if has_id hs id then add_matching (fun h => hdr_id h =? id) hs None else None.

(* HttpHeader::getStrOrList: list headers via getList (returned by move: stays defined when empty);
   others `return e->value` of the FIRST entry (a copy: an empty value comes back undefined) *)
Definition get_str_or_list (hs : list hdr) (id : N) : sstr :=
  if is_list_hdr id then get_list hs id
  else match find (fun h => hdr_id h =? id) hs with
       | Some e => s_copy (Some (h_value e))
       | None => None
       end.

(* HttpHeader::hasNamed(name, namelen, &result) as called by getByName(SBuf): quick path through the
   registered-header lookup (lookup_id answers hdr_OTHER where the code gets BAD_HDR), then the linear
   search over OTHER entries with a case-insensitive name of the same length *)
Definition name_matches (name : bytes) (h : hdr) : bool :=
  (hdr_id h =? hdr_OTHER) && (lenN (h_name h) =? lenN name) && ci_eqb (h_name h) name.

Definition get_by_name (hs : list hdr) (name : bytes) : sstr :=
  let id := lookup_id hdr_table name in
  if negb (id =? hdr_OTHER) && has_id hs id then get_str_or_list hs id
  else add_matching (name_matches name) hs None.

(* ------------------------------------------------------------------ *)
(* rfc1738_escape_part(value): per-byte table over the C string *)
Definition vary_escape (v : bytes) : bytes := map_bytes vary_esc_tbl (cstr v).

(* assembleVaryKey(vary, vstr, request): one turn per strListGetItem item *)
Definition star : bytes := [42].
Definition lower (b : bytes) : bytes := map to_lower b.

Definition add_name (vstr name : bytes) : bytes :=
  (if is_nil vstr then [] else vstr ++ [44; 32]) ++ name.
Definition add_value (vstr : bytes) (v : sstr) : bytes :=
  match v with
  | Some value => vstr ++ [61; 34] ++ vary_escape value ++ [34]
  | None => vstr
  end.

Fixpoint assemble (items : list bytes) (vstr : bytes) (hs : list hdr) : bytes :=
  match items with
  | [] => vstr
  | item :: r =>
      if list_eqb item star then star
      else let name := lower item in
           assemble r (add_value (add_name vstr name) (get_by_name hs name)) hs
  end.

(* reply->header.getList(VARY) for a reply whose Vary field values (already trimmed by the reply parser)
   are vv, in order; no Vary field = [] *)
Definition vary_value (vv : list bytes) : sstr :=
  match vv with
  | [] => None
  | _ => fold_left str_list_add vv None
  end.
Definition vary_items (vv : list bytes) : list bytes :=
  match vary_value vv with
  | None => []
  | Some s => list_items 44 s
  end.

(* httpMakeVaryMark(request, reply)  (X_ACCELERATOR_VARY is compiled out: Vary_gen.x_accelerator_vary) *)
Definition make_mark (vv : list bytes) (hs : list hdr) : bytes := assemble (vary_items vv) [] hs.

(* ------------------------------------------------------------------ *)
(* the cache, for ONE (method, url): public keys differ exactly by request->vary_headers
   (storeKeyPublicByRequest hashes method, url and vary_headers; MD5 taken as injective) *)
Record entry := {
  e_vary : list bytes;     (* Vary field values of mem().freshestReply(); [] = no Vary field *)
  e_mark : bytes;          (* mem_obj->vary_headers *)
  e_reval : bool;          (* ENTRY_REVALIDATE_ALWAYS *)
  e_src : N                (* which transaction filled the body; markers carry no client-visible body *)
}.
Definition store := list (bytes * entry).

Fixpoint lookup (st : store) (k : bytes) : option entry :=
  match st with
  | [] => None
  | (k', e) :: r => if list_eqb k k' then Some e else lookup r k
  end.
Definition put (st : store) (k : bytes) (e : entry) : store := (k, e) :: st.
Definition remove (st : store) (k : bytes) : store := filter (fun p => negb (list_eqb k (fst p))) st.

Inductive vres := VARY_NONE | VARY_MATCH | VARY_OTHER | VARY_CANCEL.

(* varyEvaluateMatch(entry, request): returns the verdict and the new request->vary_headers *)
Definition vary_evaluate_match (e : entry) (req_mark : bytes) (hs : list hdr) : vres * bytes :=
  let has_vary := negb (match e_vary e with [] => true | _ => false end) in
  if negb has_vary || is_nil (e_mark e) then
    if negb (is_nil req_mark) then (VARY_CANCEL, [])
    else if negb has_vary then (VARY_NONE, req_mark)
    else let vary := make_mark (e_vary e) hs in
         if negb (is_nil vary) then (VARY_OTHER, vary) else (VARY_CANCEL, req_mark)
  else
    let vary := if is_nil req_mark then make_mark (e_vary e) hs else req_mark in
    let rm := if is_nil req_mark then (if negb (is_nil vary) then vary else req_mark) else req_mark in
    if is_nil vary then (VARY_CANCEL, rm)
    else if list_eqb vary (e_mark e) then (VARY_MATCH, rm)
    else (VARY_CANCEL, rm).

(* clientReplyContext::cacheHit for a plain cacheable GET of a fresh object:
   Hit = body served from the store; Revalidate = refreshCheck says STALE_MUST_REVALIDATE
   (ENTRY_REVALIDATE_ALWAYS) so the origin is contacted; Miss = processMiss; OutOfFuel cannot happen
   (VARY_OTHER only on an empty request->vary_headers and makes it non-empty) and theorems exclude it *)
Inductive outcome := Hit (e : entry) | Revalidate (e : entry) | Miss | OutOfFuel.

Fixpoint cache_hit (fuel : nat) (st : store) (req_mark : bytes) (hs : list hdr) : outcome * bytes :=
  match fuel with
  | O => (OutOfFuel, req_mark)
  | S f =>
      match lookup st req_mark with
      | None => (Miss, req_mark)
      | Some e =>
          match vary_evaluate_match e req_mark hs with
          | (VARY_OTHER, m) => cache_hit f st m hs
          | (VARY_CANCEL, m) => (Miss, m)
          | (_, m) => if e_reval e then (Revalidate e, m) else (Hit e, m)
          end
      end
  end.

(* the origin's 200 (cacheable, Vary field values vv) arrives for a forwarded request whose
   request->vary_headers is req_mark: haveParsedReplyHeaders + setPublicKey/adjustVary *)
Definition marker (vv : list bytes) : entry := {| e_vary := vv; e_mark := []; e_reval := false; e_src := 0 |}.

Definition store_reply (st : store) (req_mark : bytes) (vv : list bytes) (hs : list hdr) (src : N) : store :=
  match vv with
  | [] => put st [] {| e_vary := []; e_mark := []; e_reval := false; e_src := src |}
  | _ =>
      let mark := make_mark vv hs in
      if is_nil mark then st                                   (* varyFailure: makePrivate *)
      else
        (* adjustVary *)
        let changed := negb (is_nil req_mark) && negb (list_eqb req_mark mark) in
        let st1 := if changed then remove st [] else st in     (* pe->release(true) of the base object *)
        let rm := if changed then [] else req_mark in
        let rm2 := if is_nil rm then make_mark vv hs else rm in
        let st2 := match lookup st1 [] with None => put st1 [] (marker vv) | Some _ => st1 end in
        put st2 rm2 {| e_vary := vv; e_mark := mark; e_reval := list_eqb mark star; e_src := src |}
  end.

(* one client transaction number j; answer = which transaction's origin response body the client gets *)
Definition process (st : store) (vv : list bytes) (hs : list hdr) (j : N) : N * store :=
  match cache_hit 3 st [] hs with
  | (Hit e, _) => (e_src e, st)
  | (_, rm) => (j, store_reply st rm vv hs j)
  end.

Fixpoint run (vv : list bytes) (st : store) (j : N) (reqs : list (list hdr)) : list N :=
  match reqs with
  | [] => []
  | hs :: r => let '(src, st') := process st vv hs j in src :: run vv st' (j + 1) r
  end.

(* entry point of the correspondence: raw (untrimmed) Vary values and request header blocks *)
Definition vary_run (vv_raw : list bytes) (reqs_raw : list (list hdr)) : list N :=
  run (map trim_value vv_raw) [] 0 (map parse_block reqs_raw).
