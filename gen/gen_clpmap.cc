// Table generator for C51: the compile-time constants ClpMap's memory accounting
// and expiry arithmetic depend on, for the instantiation the harness drives.
#include "h_clpmap_types.h"
#include <iostream>

time_t squid_curtime = 0;

int main() {
    std::cout << "@@FILE Clpmap_gen.v\n";
    std::cout << "(* generated from /repo by gen/gen_clpmap.cc -- do not edit *)\n"
              "Require Import SquidV.Bytes.\n";
    std::cout << "Definition clp_entry_size : N := " << sizeof(HMap::Entries::value_type) << "%N.\n";
    std::cout << "Definition clp_index_item_size : N := " << sizeof(HMap::Index::value_type) << "%N.\n";
    std::cout << "Definition clp_time_max : Z := " << std::numeric_limits<time_t>::max() << "%Z.\n";
    std::cout << "Definition clp_ttl_max : Z := " << std::numeric_limits<HMap::Ttl>::max() << "%Z.\n";
    std::cout << "Definition clp_u64_max : N := " << std::numeric_limits<uint64_t>::max() << "%N.\n";
    // the default TTL of a map built with the one-argument constructor
    HMap m(0);
    std::cout << "Definition clp_default_ttl : Z := " << m.defaultTtl_ << "%Z.\n";
    return 0;
}
