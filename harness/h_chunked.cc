// Harness: Http::One::TeChunkedParser from /repo's working tree, driven the way its
// callers drive it (http.cc decodeAndWriteReplyBody, client_side.cc handleChunkedRequestBody):
//     inBuf = parser.remaining() + newly read bytes;  parser.setPayloadBuffer(&memBuf);  parser.parse(inBuf)
// stdin, one case per line:
//     chunked <relaxed 0|1> <schedule> <encoding hex>
// schedule = comma separated steps "<n>:<cap>": n more bytes of the encoding are appended to the
// caller's input buffer, then parse() is called with an output MemBuf whose potentialSpaceSize() is cap.
// The run stops at the first call that returns true, throws, or returns false without needing anything.
// stdout, one line:
//     <per-call tokens> | <final status> st=<stage> size=<theChunkSize> left=<theLeftBodySize> used=<bytes fed> rest=<remaining() hex> out=<decoded hex>
// per-call token: <r><d><s>:<stage>:<remaining length>:<appended length>   (r = parse() result, d = needsMoreData, s = needsMoreSpace)
#include "squid.h"
#include "MemBuf.h"
#include "SquidConfig.h"
#include "base/TextException.h"
#include "parser/Tokenizer.h"
#include "sbuf/SBuf.h"
#define private public
#define protected public
#include "http/one/Parser.h"
#include "http/one/TeChunkedParser.h"
#undef private
#undef protected
#include "hcommon.h"
#include <cstring>

static const char *excKind(const char *w) {
    if (strstr(w, "chunk starts with 0x")) return "0x";
    if (strstr(w, "negative chunk size")) return "negsize";
    if (strstr(w, "corrupted chunk size")) return "size";
    if (strstr(w, "cannot skip CRLF after [chunk-ext]")) return "extcrlf";
    if (strstr(w, "cannot skip chunk CRLF")) return "datacrlf";
    if (strstr(w, "cannot parse chunk-ext-name")) return "extname";
    if (strstr(w, "invalid escaped character in quoted-pair")) return "qpair";
    if (strstr(w, "invalid bytes for set")) return "qdtext";
    if (strstr(w, "invalid input while expecting an HTTP token")) return "token";
    return "other";
}

static std::string hx(const SBuf &b) { return tohex(b.rawContent(), b.length()); }

static void runCase(const std::vector<std::string> &a, std::ostringstream &o) {
    Config.onoff.relaxed_header_parser = (a[1] == "1") ? 1 : 0;
    const std::string enc = unhex(a[3]);
    std::vector<std::pair<size_t, long> > sched;
    if (a[2] != "-") {
        std::istringstream ss(a[2]);
        std::string step;
        while (std::getline(ss, step, ',')) {
            const auto colon = step.find(':');
            sched.emplace_back(std::stoull(step.substr(0, colon)), std::stol(step.substr(colon + 1)));
        }
    }
    Http1::TeChunkedParser *p = new Http1::TeChunkedParser;
    RefCount<Http1::TeChunkedParser> keep(p);
    std::string out;
    SBuf inBuf;
    size_t fed = 0;
    std::string status = "END";
    for (const auto &st : sched) {
        size_t n = st.first;
        if (n > enc.size() - fed) n = enc.size() - fed;
        inBuf.append(enc.data() + fed, n);
        fed += n;
        MemBuf mb;
        mb.init(st.second + 1, st.second + 1); // potentialSpaceSize() == st.second
        if (mb.potentialSpaceSize() != st.second) { o << "BAD-CAPACITY "; }
        p->setPayloadBuffer(&mb);
        bool threw = false;
        bool r = false;
        std::string kind;
        try {
            r = p->parse(inBuf);
        } catch (const Parser::InsufficientInput &) {
            threw = true; kind = "insufficient-escaped";
        } catch (const TextException &e) {
            threw = true; kind = excKind(e.what());
        } catch (const std::exception &e) {
            threw = true; kind = std::string("std:") + e.what();
        }
        const size_t app = mb.contentSize();
        out.append(mb.content(), app);
        if (threw) {
            o << "X:" << app << " ";
            status = "EXC-" + kind;
            mb.clean();
            p->setPayloadBuffer(nullptr);
            break;
        }
        inBuf = p->remaining();
        const bool d = p->needsMoreData();
        const bool s = p->needsMoreSpace();
        o << (r ? 1 : 0) << (d ? 1 : 0) << (s ? 1 : 0) << ":" << int(p->parsingStage_) << ":" << inBuf.length() << ":" << app << " ";
        mb.clean();
        p->setPayloadBuffer(nullptr);
        if (r) { status = "DONE"; break; }
        if (!d && !s) { status = "STUCK"; break; }
    }
    o << "| " << status;
    if (status.compare(0, 3, "EXC") != 0) // after an exception the parser object is dead for its callers
        o << " st=" << int(p->parsingStage_) << " size=" << p->theChunkSize << " left=" << p->theLeftBodySize
          << " used=" << fed << " rest=" << hx(inBuf);
    o << " out=" << tohex(out);
}

int main() {
    std::string line;
    while (std::getline(std::cin, line)) {
        auto a = splitws(line);
        if (a.empty()) { std::cout << "\n"; continue; }
        std::ostringstream o;
        try {
            if (a[0] == "chunked" && a.size() == 4) runCase(a, o);
            else o << "ERR unknown-entry " << a[0];
        } catch (const std::exception &e) { o.str(""); o << "EXC " << e.what(); }
        catch (...) { o.str(""); o << "EXC"; }
        std::cout << o.str() << "\n" << std::flush;
    }
    return 0;
}
