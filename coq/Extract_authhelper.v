(* Extract_authhelper.v — extraction of the helper-reader and Basic-auth models (ExtrOcamlBasic only). *)
Require Import ExtrOcamlBasic.
Require Import SquidV.Bytes SquidV.AuthhelperModel.
Extraction "m_authhelper.ml" scenario_disps find_disp rw_apply acl_apply finalize strtol hreads h_init submit_all
  arun a_init find_out decode_header starts_with.
