(* Extract_rockrebuild.v — extraction of the rock rebuild model (C57) to OCaml; ExtrOcamlBasic only. *)
Require Import ExtrOcamlBasic.
Require Import SquidV.Bytes SquidV.RockrebuildModel.
Extraction "m_rockrebuild.ml"
  lenN rebuild lestate_code entry_touched sl_touched fileno_of hdr_sane hdr_empty.
