(* handlers for the math area (src/SquidMath.h): same case syntax as harness/h_math.cc.
   Values are converted to the named type on entry (conv), as the harness does with
   static_cast; generators only produce in-range values. *)
let ity_of_string = function
  | "sc" -> SChar | "uc" -> UChar | "ss" -> Short | "us" -> UShort | "si" -> Int | "ui" -> UInt
  | "sl" -> Long | "ul" -> ULong | "sll" -> LLong | "ull" -> ULLong
  | s -> failwith ("bad-type " ^ s)
let tv t v = let ty = ity_of_string t in (ty, conv ty (z_of_string v))
let show_opt = function
  | UB -> "UB signed-overflow"
  | Ok None -> "none"
  | Ok (Some v) -> "some " ^ string_of_z v
let show_set = function
  | UB -> "UB signed-overflow"
  | Ok v -> string_of_z v ^ " " ^ string_of_z v

let () =
  reg "less" (fun [ta; tb; a; b] -> let (ta, a) = tv ta a in let (tb, b) = tv tb b in b2s (less ta a tb b));
  reg "inc" (fun [ts; tt; s; t] -> let (ts, s) = tv ts s in let (tt, t) = tv tt t in show_opt (increase_sum2 ts s tt t));
  reg "sum1" (fun [s; ta; a] -> show_opt (natural_sum (ity_of_string s) [tv ta a]));
  reg "sum2" (fun [s; ta; tb; a; b] -> show_opt (natural_sum (ity_of_string s) [tv ta a; tv tb b]));
  reg "sum3" (fun [s; ta; tb; tc; a; b; c] -> show_opt (natural_sum (ity_of_string s) [tv ta a; tv tb b; tv tc c]));
  reg "setmax1" (fun [s; ta; _init; a] -> show_set (set_to_natural_sum_or_max (ity_of_string s) [tv ta a]));
  reg "setmax2" (fun [s; ta; tb; _init; a; b] -> show_set (set_to_natural_sum_or_max (ity_of_string s) [tv ta a; tv tb b]));
  reg "cast" (fun [r; ts; s] -> let (ts, s) = tv ts s in
    match natural_cast (ity_of_string r) ts s with
    | UB -> "UB signed-overflow"
    | Ok None -> "EXC bad_optional_access"
    | Ok (Some v) -> string_of_z v)
