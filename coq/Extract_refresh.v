(* Extract_refresh.v — extraction of the freshness-decision model (ExtrOcamlBasic only). *)
Require Import ExtrOcamlBasic.
Require Import SquidV.Bytes SquidV.RefreshModel.
Extraction "m_refresh.ml" run_default run_with check_reason default_config hdr_expiration_time new_entry
  set_flags last_modified N.succ. (* N.succ only so that rcommon.ml finds the N datatype *)
