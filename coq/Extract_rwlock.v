(* Extract_rwlock.v — extraction of the ReadWriteLock model (C54) to OCaml.
   Only ExtrOcamlBasic is used; N, Z, positive and nat stay the extracted Coq datatypes. *)
Require Import ExtrOcamlBasic.
Require Import SquidV.Bytes SquidV.RwlockModel.
Extraction "m_rwlock.ml" run_case probe holds.
