"""C56: the inter-process queue (src/ipc/Queue.h OneToOneUniQueue + QueueReader) is FIFO without lost items or wakeups."""
import itertools, random
from vlib import std, hbuild

PID = "C56"
W32 = 1 << 32
META = {
    "text": "Theorems (Properties_C56.v, closed under the global context) hold for ANY capacity, ANY list of pushed values, ANY "
            "number of consumer polls and ANY interleaving of the single atomic operations AND of the non-atomic item copies of one "
            "producer (push; Full => item dropped; push()==true => notify) and one consumer (clearSignal, pop until false, idle): "
            "(1) FIFO exactness: at every step the values returned by pop() followed by the ring contents between the two cursors "
            "are exactly the values copied in by push(), in order (no loss, no duplicate, never an unwritten slot), provided the "
            "capacity divides 2^32 or the unsigned indices do not pass 2^32 during the run; the statement without that hypothesis is "
            "refuted (capacity 3, indices starting at 2^32-1: push 1, push 2, pop, pop returns 2, 2); (2) no lost wakeup, for every "
            "capacity and start index: whenever the consumer is idle (pop() answered false after block() and the re-check) and the queue "
            "is not empty, a notification is pending or the in-flight push() will answer 'notify'; an idle consumer without pending "
            "notification has blocked=true, signal=false, so the next push into the empty queue answers true; when both processes have "
            "ended nothing is left in the queue and every accepted value was delivered once, in order; Full is thrown only when "
            "capacity items are queued; theSize never wraps; (3) every run completes: after any schedule the round-robin continuation ends "
            "with the consumer asleep, nothing pending, and (under the index hypothesis) popped values = pushed values. The model is tied to the code by running the extracted model and the "
            "real push()/pop()/clearSignal() (Queue.h instantiated in the harness, Queue.cc compiled unmodified from the working tree, "
            "both against the scheduler-controlled std::atomic of harness/sched_atomic.h, the memcpy() of Queue.h given a scheduling "
            "point of its own) on the same schedules and diffing events, final fields and a final single-threaded drain.",
    "note": "Trusted: Coq kernel, extraction, harness/sched_atomic.h + h_queue.cc (cooperative scheduler; producer/consumer protocol of "
            "IpcIoFile/CollapsedForwarding: HandleMessagesAtStart then HandleNotification; a notification is a counter incremented by a "
            "separate producer step), sequentially consistent atomics, the item copy treated as one step (items are not torn; the "
            "theorems show the copied slot is never accessed by the other side at that time), link-time stand-ins for Debug/String/"
            "Segment (used only by the multi-queue owners, not exercised). The index-wrap refutation needs theIn/theOut near 2^32 "
            "(preset by the harness; 2^32 pushes in real life) and a capacity that does not divide 2^32: squid's callers use 1024, so "
            "it is recorded as a known finding about the class, not about current configurations. QueueModel.v is validated against "
            "the code only on the generated schedules.",
    "technique": "Coq proof (inductive invariants over all interleavings of producer and consumer, one transition per atomic operation and "
                 "per non-atomic slot copy, explicit mod 2^32 index arithmetic) + extracted-model differential correspondence under a "
                 "scheduler-controlled std::atomic",
}
FRESH = ["src/ipc/Queue.cc"]


def impl(sanitize="ubsan"):
    # Queue.h (push/pop/clearSignal/raiseSignal live there) is compiled into the harness unit from the working tree
    return hbuild.build("h_queue", "h_queue.cc", fresh=FRESH, link=[], flags=["-include", "sched_atomic.h"],
                        sanitize=sanitize, syslibs=[])


def prebuild():
    impl()


# ---------------------------------------------------------------- generators
def mk(cap, i0, polls, items, sched):
    return "q.run %d %d %d %s %s" % (cap, i0, polls, ",".join(str(v) for v in items) or "-", sched or "-")


# (cap, polls, items, fixed schedule prefix). Prefixes: "1"*6 = consumer went idle on the empty queue first;
# "0"*k = the producer ran ahead
SMALL = [
    (1, 0, [1], ""), (1, 0, [1, 2], ""), (2, 0, [1, 2], ""), (2, 0, [1, 2, 3], ""), (1, 1, [1, 2], ""), (2, 1, [1, 2], ""),
    (1, 0, [1, 2], "111111"), (2, 0, [1, 2, 3], "111111"), (2, 1, [1, 2], "111111"), (1, 1, [1, 2, 3], "111111"),
    (1, 0, [1, 2, 3], "00000"), (2, 0, [1, 2, 3], "000000000"), (2, 0, [1, 2, 3, 4], "1111110000000"),
    (3, 0, [1, 2, 3], "11111100000"), (1, 0, [1, 2], "11111100000011"), (2, 2, [1, 2, 3], "1111111111"),
]


def rand_items(rng, cap):
    k = rng.choice([0, 1, 1, 2, 2, 3, 3, 4, 5, 6, 8])
    if rng.random() < 0.25:
        k = rng.choice([cap, cap + 1, cap + 2, 2 * cap + 1])
    style = rng.random()
    if style < 0.6:
        return list(range(1, k + 1))
    if style < 0.8:   # duplicates and zero
        return [rng.choice([0, 1, 2, 7]) for _ in range(k)]
    return [rng.choice([0, 1, 255, 65536, 4294967294, rng.randrange(W32 - 1)]) for _ in range(k)]


def rand_schedule(rng, items, polls):
    total = 8 * len(items) + 6 * (polls + 2) + 8
    style = rng.random()
    if style < 0.08:
        return ""
    want = rng.choice([total // 3, total // 2, total, total, total + 6])
    out = []
    if style < 0.5:      # bursts
        while len(out) < want:
            out.extend([rng.randrange(2)] * rng.choice([1, 1, 1, 2, 2, 3, 4, 5, 6, 9]))
    elif style < 0.75:   # uniform
        out = [rng.randrange(2) for _ in range(want)]
    elif style < 0.9:    # one side runs ahead, then uniform
        t = rng.randrange(2)
        out = [t] * rng.randrange(1, 20) + [rng.randrange(2) for _ in range(want)]
    else:                # biased
        p = rng.choice([0.2, 0.8])
        out = [1 if rng.random() < p else 0 for _ in range(want)]
    return "".join(str(t) for t in out[:want + 20])


def rand_i0(rng, cap, nitems):
    k = rng.random()
    if k < 0.55:
        return 0
    if k < 0.7:
        return rng.randrange(W32)
    if W32 % cap == 0 or k < 0.97:
        # near the index wrap; for a capacity that does not divide 2^32 stay below it (no wrap during the run)
        if W32 % cap == 0:
            return W32 - rng.randrange(1, 8)
        return min(W32 - 1, W32 - nitems - rng.randrange(0, 4))
    return W32 - rng.randrange(1, max(2, nitems))   # crosses the wrap with a non-dividing capacity: the known finding


def gen_cases(rng, n):
    quick = n <= 50000
    L = 11 if quick else 15
    cases = []
    for cap, polls, items, prefix in SMALL:
        for bits in itertools.product("01", repeat=L):
            cases.append(mk(cap, 0, polls, items, prefix + "".join(bits)))
    # the index wrap with a dividing capacity, exhaustively for short prefixes
    for cap, i0, items in [(2, W32 - 1, [1, 2, 3]), (4, W32 - 2, [1, 2, 3, 4, 5]), (1, W32 - 1, [1, 2])]:
        for bits in itertools.product("01", repeat=L - 3):
            cases.append(mk(cap, i0, 0, items, "".join(bits)))
    for _ in range(n):
        cap = rng.choice([1, 1, 2, 2, 2, 3, 3, 4, 4, 5, 8])
        items = rand_items(rng, cap)
        polls = rng.choice([0, 0, 0, 1, 1, 2, 3])
        cases.append(mk(cap, rand_i0(rng, cap, len(items)), polls, items, rand_schedule(rng, items, polls)))
    return cases


# ---------------------------------------------------------------- oracle (independent statement of the property)
def parse(out):
    parts = out.split(" | ")
    f = dict(x.split("=") for x in parts[1].split())
    drain = parts[2][len("drain="):]
    return parts[0].split(), f, ([] if drain == "-" else drain.split(","))


def oracle(case, out):
    if out.startswith(("CRASH", "EXC", "ERR", "FUEL")):
        return ("oracle:crash", "implementation crashed / threw / refused a valid case: " + out[:200])
    try:
        a = case.split()
        cap, i0 = int(a[1]), int(a[2])
        items = [] if a[4] == "-" else a[4].split(",")
        events, f, drain = parse(out)
        if "LIVELOCK" in events:
            return ("oracle:livelock", "producer and consumer did not finish within the step bound")
        for e in events:
            if e[0] == "X":
                return ("oracle:exception", "an exception/assertion escaped from the queue code in thread " + e[1:])
        events = [e for e in events if e != "-"]
        # --- who pushed what, who got what
        accepted, popped, pev = [], [], []
        for e in events:
            if e[0] == "P":
                pev.append(e[1:-1])
                if e[-1] == "F":
                    # Full is thrown in the step that loads theSize: every earlier push has been counted and every
                    # earlier pop (G is logged in the step of --theSize) released: exactly `cap` items must be queued
                    if len(accepted) - len(popped) != cap:
                        return ("oracle:spurious-full", "push(%s) threw Full with %d of %d slots in use"
                                % (e[1:-1], len(accepted) - len(popped), cap))
                else:
                    accepted.append(e[1:-1])
            elif e[0] == "G":
                popped.append(e[1:])
        if pev != items:
            return ("oracle:harness-protocol", "push events %s do not match the items %s" % (pev, items))
        crossed = W32 % cap != 0 and i0 + len(accepted) > W32
        tag = ":index-wrap-nondividing-capacity" if crossed else ""
        if "U" in popped or "U" in drain:
            return ("oracle:fifo:unwritten" + tag, "pop() returned a slot that was never written: popped %s then drained %s, pushed %s"
                    % (popped, drain, accepted))
        if popped + drain != accepted:
            return ("oracle:fifo" + (tag or ":order-loss-dup"), "pushed %s but popped %s and then drained %s" % (accepted, popped, drain))
        # --- no lost wakeup: at every E (pop() answered false, the consumer goes idle) either a notification is
        # pending (sent and not taken, or push() already answered true) or the next push completed while the consumer
        # is still idle answers true
        sent = taken = plus = 0
        for i, e in enumerate(events):
            if e == "N":
                sent += 1
            elif e == "T":
                taken += 1
            elif e[0] == "P" and e[-1] == "+":
                plus += 1
            elif e == "E":
                if sent - taken > 0 or plus > sent:
                    continue
                for g in events[i + 1:]:
                    if g in ("T", "S", "!"):
                        break
                    if g[0] == "P":
                        if g[-1] != "+":
                            return ("oracle:lost-wakeup:push-did-not-notify",
                                    "the consumer went idle (event %d) with no notification pending, yet the next push `%s` "
                                    "did not ask for a notification" % (i, g))
                        break
        if taken > sent:
            return ("oracle:harness-protocol", "more notifications taken than sent")
        if "!" in events:
            # the consumer ended = it sleeps for ever: nothing may be left, nothing pending, flags say "blocked, no signal"
            if drain:
                return ("oracle:lost-wakeup:items-left-at-sleep", "the consumer sleeps with no notification pending while %s is still queued" % drain)
            if (f["size"], f["n"], f["b"], f["s"]) != ("0", "0", "1", "0"):
                return ("oracle:final-flags", "both sides ended but size=%s n=%s blocked=%s signal=%s (expected 0 0 1 0)"
                        % (f["size"], f["n"], f["b"], f["s"]))
            if int(f["in"]) != (i0 + len(accepted)) % W32 or int(f["out"]) != (i0 + len(popped)) % W32:
                return ("oracle:final-indices", "in=%s out=%s after %d pushes and %d pops from %d" % (f["in"], f["out"], len(accepted), len(popped), i0))
        else:
            return ("oracle:harness-protocol", "the consumer did not end")
    except Exception as ex:
        return ("oracle:unparsable", "unparsable implementation output %r (%s)" % (out[:160], ex))
    return None


PROD = set("PN")


def switches(out):
    """context switches visible in the event order"""
    last, n = None, 0
    for e in out.split(" | ")[0].split():
        t = 0 if e[0] in PROD else 1
        if last is not None and t != last:
            n += 1
        last = t
    return n


STATS = {"push+": 0, "push-": 0, "full": 0, "pop": 0, "empty": 0}


def kind(case, out):
    ev = out.split(" | ")[0].split()
    plus = sum(1 for e in ev if e[0] == "P" and e[-1] == "+")
    minus = sum(1 for e in ev if e[0] == "P" and e[-1] == "-")
    full = sum(1 for e in ev if e[0] == "P" and e[-1] == "F")
    STATS["push+"] += plus; STATS["push-"] += minus; STATS["full"] += full
    STATS["pop"] += sum(1 for e in ev if e[0] == "G"); STATS["empty"] += sum(1 for e in ev if e == "E")
    return "notify:%s full:%s" % ("yes" if plus else "no", "yes" if full else "no")


def mutate(rng, case):
    a = case.split()
    k = rng.random()
    sched = list(a[5]) if a[5] != "-" else []
    if k < 0.6 and sched:
        i = rng.randrange(len(sched))
        if rng.random() < 0.5:
            sched[i] = str(rng.randrange(2))
        else:
            j = rng.randrange(len(sched)); sched[i], sched[j] = sched[j], sched[i]
    elif k < 0.8:
        sched.insert(rng.randrange(len(sched) + 1), str(rng.randrange(2)))
    elif k < 0.9:
        a[3] = str(rng.randrange(3))
    else:
        items = [] if a[4] == "-" else a[4].split(",")
        items.insert(rng.randrange(len(items) + 1), str(rng.randrange(1, 9)))
        a[4] = ",".join(items)
    a[5] = "".join(sched) or "-"
    return " ".join(a)


def run(res, tier):
    res.rule = ("one producer (push each item; Full => dropped; push()==true => a separate notify step) and one consumer (clearSignal, pop "
                "until false, idle; takes notifications, up to `polls` polls of its own) on a queue of capacity 1..8 under explicit "
                "schedules (one entry = one atomic operation, one item copy, one notify or one idle look): every schedule prefix of "
                "length 11 (15 thorough) for 16 small configurations (some after a fixed prefix that first lets the consumer go idle or the "
                "producer run ahead) and 3 index-wrap configurations, then random burst/uniform/run-ahead/biased schedules over random "
                "capacities, item lists (also longer than the capacity), polls and start indices (0, random, just below 2^32); past the "
                "schedule: round-robin. Non-trivial = at least two context switches visible in the event order")
    res.trusted.append("harness/sched_atomic.h replaces std::atomic by a cooperative-scheduler version at compile time (-include); "
                       "h_queue.cc gives the memcpy() calls of Queue.h a scheduling point of their own (macro around the include) and presets "
                       "theIn/theOut; Queue.h/Queue.cc themselves are compiled unmodified; atomics are sequentially consistent")
    std.run_standard(res, PID, tier, area="queue", build_impl=impl, gen_cases=gen_cases, oracle=oracle,
                     corr_name="QueueModel vs src/ipc/Queue.h+Queue.cc under sched_atomic.h",
                     n_quick=12000, n_thorough=150000, seed_salt=56, mutate=mutate,
                     kind_fn=kind, nontrivial_fn=lambda c, o: switches(o) >= 2)
    res.extra["operation_outcomes"] = dict(STATS)


def replay(d):
    """./verif replay <file>: run the recorded case on the implementation built from the current tree"""
    from vlib import corr
    case = d.get("replay", {}).get("case")
    if not case:
        print(d.get("description", "no case recorded"))
        return 0
    out = corr.run_lines(impl(), [case])[0]
    v = oracle(case, out)
    print("case:   " + case)
    print("impl:   " + out)
    print("oracle: " + ("holds" if v is None else "%s: %s" % v))
    return 1 if v else 0
