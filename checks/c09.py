"""C09: adversarial HTTP peers cannot cause memory errors or crashes.

Unit part: the HTTP/1 request, response and chunked-body parsers of the working tree (the harnesses and extracted models
of C21/C23/C24, rebuilt here with AddressSanitizer + UBSan) on their structured streams plus a byte/length mutation stream.
End-to-end part: the real squid between raw-socket clients and a scripted origin receives grammar-aware mutated request
streams (segmented, pipelined, with bodies) and origin responses (spec key 'raw'); every connection must end with an HTTP
response or a close, an HTTP liveness probe follows every batch, cache.log is scanned for aborts."""
import base64, concurrent.futures, json, os, random, re, time
from vlib import std, hbuild, coq, corr, common, lab
from checks import c39

PID = "C09"
META = {
    "text": "Theorems (Properties_C09.v, closed under the global context) are stated over the executable parser models of "
            "C21/C22/C62 (request), C23 (response head), C24 (chunked bodies) -- total functions over byte lists whose every "
            "access is a list pattern match: for EVERY request byte stream in EVERY segmentation the client-side parser ends in "
            "exactly one of {accepted with all fields inside the received bytes and the unconsumed rest a suffix of the input, "
            "rejected with 400/414/431 (an HTTP error response), waiting with fewer than request_header_max_size bytes buffered}; "
            "for EVERY reply head the relay decision is {relay n bytes with n inside the buffer and inside reply_header_max_size, "
            "too big, wait}; an accepted reply head is a split of the received bytes; the chunked decoder, for EVERY well-formed "
            "encoding followed by arbitrary bytes under EVERY read/space schedule, never overruns (output is a prefix of the "
            "body, the bytes used are a prefix of the input). Tie: the three real parsers compiled from the working tree with "
            "ASan+UBSan are diffed against the extracted models on structured + mutated streams; the running squid is driven "
            "with mutated request streams and origin responses (response-or-close on every connection, liveness probe after "
            "every batch, cache.log scan).",
    "note": "partial: the theorems are about the parser models; memory safety of the C++ (SBuf windows, MemBuf, HttpHeader "
            "storage, client_side.cc / http.cc state machines, error paths, use-after-free) is NOT proved -- it rests on the "
            "sanitizer-instrumented unit correspondence and on crash / assertion / liveness detection on the normally built "
            "binary (an ASan+UBSan build of the whole proxy is opt-in: thorough tier with VERIF_ASAN_SQUID=1, not exercised so far). "
            "Depends on the claimed models of C21/C23/C24/C62 (imported, not edited). Trusted: Coq kernel, extraction, the "
            "harnesses h_reqparse/h_respparse/h_chunked, vlib/lab.py stubs.",
    "technique": "Coq proof (composition of the proved parser-model theorems into outcome trichotomies quantified over all "
                 "inputs and segmentations) + sanitizer-backed extracted-model differential correspondence + end-to-end "
                 "grammar-aware mutation fuzzing of the running proxy with an independent response-or-close / liveness oracle",
}


# ------------------------------------------------------------------ unit part
def unit_parts():
    from checks import c21, c23, c24
    return [("reqparse", c21), ("respparse", c23), ("chunked", c24)]


def prebuild():
    for area, m in unit_parts():
        m.impl("asan")


def mutate_case(rng, case):
    """a neighbouring case: one hex argument byte/length mutated (the entry and its numeric arguments are kept)"""
    a = case.split()
    idx = [i for i, x in enumerate(a) if i > 0 and len(x) >= 2 and len(x) % 2 == 0 and re.fullmatch(r"[0-9a-f]+", x) and not x.isdigit()]
    if not idx:
        return case
    i = a[0] == "chunked" and idx[-1] or rng.choice(idx)
    a[i] = c39.hx(c39.mutate_bytes(rng, c39.unhx(a[i])))
    return " ".join(a)


def unit_oracle(area, case, out):
    if out.startswith(("CRASH", "EXC", "ERR", "ASAN")) or "BAD-" in out:
        return ("oracle:unit-crash:" + area, "the real %s parser crashed / threw / tripped a sanitizer: %s" % (area, out[:260]))
    return None


def unit_stage(res, tier, rng):
    found = 0
    total_dis = 0
    n = 2500 if tier == "quick" else 60000
    for area, m in unit_parts():
        try:
            exe = m.impl("asan")
        except hbuild.BuildError as ex:
            res.fail("build", "%s: the %s harness no longer builds against /repo's working tree: %s" % (PID, area, str(ex)[-1200:]),
                     {"no_failing_input_found": True, "broken": "harness build " + area, "detail": str(ex)[-3000:]})
            continue
        runner = coq.build_runner(area)
        base = m.gen_cases(rng, n)
        cases = base + [mutate_case(rng, c) for c in base[: n // 2]]
        impl_out = corr.run_lines(exe, cases)
        model_out = corr.run_lines(runner, cases)
        known_other = 0
        dis = []
        for k, (c, a, b) in enumerate(zip(cases, impl_out, model_out)):
            res.count_case(c, nontrivial=not a.startswith(("M", "W=M")), kind="unit." + area + ":" + (a[:1] if a[:2] != "W=" else a[2:3]))
            v = unit_oracle(area, c, a)
            if v:
                if res.fail(v[0], "%s on input `%s`: %s" % (PID, c[:400], v[1]), {"case": c, "impl": a, "area": area, "signature": v[0]}):
                    found += 1
            elif a != b:
                # a disagreement that the owning property already explains (its own oracle flags it) is that property's finding
                try:
                    own = m.oracle(c, a) if hasattr(m, "oracle") else None
                except Exception:
                    own = None
                if own:
                    known_other += 1
                else:
                    dis.append((k, c, a, b))
        res.extra["unit_%s_cases" % area] = len(cases)
        res.extra["unit_%s_explained_by_owner" % area] = known_other
        total_dis += len(dis)
        if dis and not found:
            k, c, a, b = dis[0]
            res.fail("corr:" + area, "%s model and implementation disagree on %d cases (first: `%s` impl=`%s` model=`%s`)"
                     % (area, len(dis), c[:300], a[:150], b[:150]),
                     {"no_failing_input_found": True, "broken": "correspondence %s (ASan build)" % area, "case": c, "impl": a, "model": b})
        for c in base[:2]:
            res.sample(c[:300])
    res.extra["disagreements"] = total_dis
    return found


# ------------------------------------------------------------------ end-to-end scenarios
REQ_LIMIT = 4096          # request_header_max_size / reply_header_max_size given to squid (limit edges with small inputs)
METHODS = [b"GET", b"GET", b"GET", b"HEAD", b"POST", b"PUT", b"OPTIONS", b"TRACE", b"PURGE", b"DELETE", b"CONNECT", b"FOO", b"get", b"G" * 40]
VERSIONS = [b"HTTP/1.1", b"HTTP/1.1", b"HTTP/1.0", b"HTTP/1.2", b"HTTP/2.0", b"HTTP/0.9", b"http/1.1", b"HTTP/1.10", b"HTTP/11.1", b"HTTP/1.", b"", b"ICY"]
REQ_HEADERS = [b"Accept: */*", b"User-Agent: verif", b"Connection: close", b"Connection: keep-alive", b"Cache-Control: no-cache",
               b"Range: bytes=0-4", b"Range: bytes=5-1,0-,-3", b"If-None-Match: \"x\"", b"If-Modified-Since: Tue, 15 Sep 2026 10:00:00 GMT",
               b"Expect: 100-continue", b"Transfer-Encoding: chunked", b"Transfer-Encoding: chunked, chunked", b"Transfer-Encoding: gzip",
               b"Content-Length: 5", b"Content-Length: 0", b"Content-Length: -1", b"Content-Length: 99999999999999999999",
               b"Content-Length: 5, 5", b"Content-Length: 5\r\nContent-Length: 6", b"Host: other.example", b"Host:", b"X-Long: " + b"v" * 900,
               b"X" * 300 + b": y", b"NoColonHere", b" folded: continuation", b"X-Nul: a\x00b", b"X-Cr: a\rb", b"X-Hi: \xff\xfe", b": empty-name",
               b"Upgrade: websocket\r\nConnection: upgrade", b"Max-Forwards: 0", b"Authorization: Basic " + b"A" * 50, b"Proxy-Authorization: Basic !!!!",
               b"Via: 1.1 verif.test (squid)", b"Cookie: " + b"c=" * 200, b"Accept-Encoding: " + b"gzip," * 80]
RESP_HEADERS = [b"Content-Type: text/plain", b"Cache-Control: max-age=60", b"Cache-Control: no-store", b"ETag: \"e\"", b"Vary: *", b"Vary: Accept",
                b"Connection: close", b"Connection: keep-alive", b"Transfer-Encoding: chunked", b"Transfer-Encoding: chunked, gzip",
                b"Content-Length: 5", b"Content-Length: 0", b"Content-Length: -5", b"Content-Length: 18446744073709551616", b"Content-Length: 5, 6",
                b"Content-Range: bytes 0-4/5", b"Content-Range: bytes 9-1/*", b"Location: http://x/\r\n folded", b"Set-Cookie: " + b"s" * 700,
                b"X" * 200 + b": y", b"NoColon", b"X-Nul: \x00", b"Date: garbage", b"Expires: -1", b"Age: 99999999999", b"Warning: 199 x \"y\"",
                b"Last-Modified: Tue, 15 Sep 2026 10:00:00 GMT", b"Upgrade: h2c", b"Proxy-Authenticate: Basic realm=\"x\"", b"WWW-Authenticate: Negotiate",
                b"Surrogate-Control: no-store", b"Content-Encoding: gzip", b"Trailer: X-T", b"Keep-Alive: timeout=1"]
STATUS_LINES = [b"HTTP/1.1 200 OK", b"HTTP/1.1 200 OK", b"HTTP/1.0 200 OK", b"HTTP/1.1 204 No Content", b"HTTP/1.1 304 Not Modified",
                b"HTTP/1.1 206 Partial Content", b"HTTP/1.1 301 Moved", b"HTTP/1.1 404 Not Found", b"HTTP/1.1 500 Oops", b"HTTP/1.1 100 Continue",
                b"HTTP/1.1 101 Switching", b"HTTP/1.1 99 Low", b"HTTP/1.1 600 High", b"HTTP/1.1 2000 Long", b"HTTP/1.1 20 Short", b"HTTP/1.1 200",
                b"HTTP/1.1  200  OK", b"HTTP/2.0 200 OK", b"HTTP/1.1 -200 OK", b"ICY 200 OK", b"HTTP/1.1 200 " + b"r" * 600, b"http/1.1 200 ok",
                b"HTTP/1.1\t200\tOK", b"", b"garbage without status"]


def chunked_body(rng, body, bad=False):
    out = b""
    i = 0
    while i < len(body):
        n = rng.choice([1, 2, 5, 16, 100])
        c = body[i:i + n]; i += n
        size = b"%x" % len(c)
        if bad and rng.random() < 0.3:
            size = rng.choice([b"0x" + size, b"-" + size, size + b" ", b"ffffffffffffffffff", b"7fffffffffffffff", b"g", b"", size + b";ext=\"q", size + b";" + b"e" * 300])
        out += size + rng.choice([b"", b"", b";x=y", b";a=\"b c\""]) + b"\r\n" + c + (b"\r\n" if not (bad and rng.random() < 0.15) else rng.choice([b"", b"\n", b"\r", b"xx"]))
    out += rng.choice([b"0\r\n\r\n", b"0\r\n\r\n", b"0\r\nX-T: v\r\n\r\n", b"00000\r\n\r\n"] if not bad else [b"0\r\n\r\n", b"0\r\n", b"", b"0\r\nbad trailer\r\n\r\n", b"0;ext\r\n\r\n"])
    return out


def gen_request(rng, oport, rid, valid):
    method = rng.choice(METHODS[:7]) if valid else rng.choice(METHODS)
    spec = {"body": "ok-" + rid}
    url = b"http://127.0.0.1:%d%s" % (oport, lab.spec_path(spec, rid).encode())
    if method == b"CONNECT":
        url = b"127.0.0.1:%d" % oport
    if not valid:
        k = rng.randrange(12)
        if k == 0: url = url + b"/" + b"p" * rng.choice([REQ_LIMIT - 200, REQ_LIMIT - 60, REQ_LIMIT, REQ_LIMIT + 100, 70000])
        elif k == 1: url = url.replace(b"http://", rng.choice([b"ftp://", b"https://", b"urn:", b"http:/", b"://", b"gopher://", b"HTTP://"]))
        elif k == 2: url = b"/origin-form/" + rid.encode()
        elif k == 3: url = url + rng.choice([b"?q=a b", b"#frag", b"%zz", b"%00", b"\x7f", b"\xc3\xa9", b"?" + b"q" * 500])
        elif k == 4: url = b"http://[::1" + rng.choice([b"]", b"", b"]]:80", b"]:99999"]) + b"/"
        elif k == 5: url = b"http://127.0.0.1:" + rng.choice([b"0", b"65536", b"99999999999", b"-1", b"80x", b""]) + b"/"
        elif k == 6: url = b"*"
        elif k == 7: url = b"http://" + b"h" * rng.choice([63, 64, 255, 256, 1000]) + b".example/"
        elif k == 8: url = b"http://user:pa ss@127.0.0.1:%d/" % oport
    ver = rng.choice(VERSIONS[:3]) if valid else rng.choice(VERSIONS)
    sp1, sp2 = (b" ", b" ") if valid or rng.random() < 0.6 else (rng.choice([b"  ", b"\t", b" \t ", b""]), rng.choice([b"  ", b"\t", b"\x0b", b""]))
    line = method + sp1 + url + (sp2 + ver if ver else b"")
    hs = [b"Host: 127.0.0.1:%d" % oport] if rng.random() < 0.85 else []
    pool = REQ_HEADERS[:10] if valid else REQ_HEADERS
    for _ in range(rng.choice([0, 1, 2, 3, 6])):
        hs.append(rng.choice(pool))
    body = b""
    if method in (b"POST", b"PUT") or (not valid and rng.random() < 0.2):
        payload = bytes(rng.randrange(32, 127) for _ in range(rng.choice([0, 5, 64, 300])))
        if rng.random() < 0.5:
            hs = [h for h in hs if not h.lower().startswith((b"content-length", b"transfer-encoding"))]
            hs.append(b"Transfer-Encoding: chunked")
            body = chunked_body(rng, payload, bad=not valid and rng.random() < 0.6)
        else:
            hs = [h for h in hs if not h.lower().startswith((b"content-length", b"transfer-encoding"))]
            hs.append(b"Content-Length: %d" % (len(payload) + (0 if valid else rng.choice([0, 0, 1, -1, 1000]))))
            body = payload
    eol = b"\r\n" if valid or rng.random() < 0.7 else rng.choice([b"\n", b"\r", b"\r\r\n", b"\n\r"])
    rng.shuffle(hs)
    return line + eol + b"".join(h + eol for h in hs) + eol + body


def split_segments(rng, data):
    k = rng.random()
    if k < 0.4 or len(data) < 2:
        return [data]
    cuts = sorted(set(rng.randrange(1, len(data)) for _ in range(rng.choice([1, 1, 2, 3, 6]))))
    out, last = [], 0
    for c in cuts:
        out.append(data[last:c]); last = c
    out.append(data[last:])
    return out


def gen_response(rng, valid):
    status = rng.choice(STATUS_LINES[:9]) if valid else rng.choice(STATUS_LINES)
    payload = bytes(rng.randrange(32, 127) for _ in range(rng.choice([0, 5, 5, 64, 2000])))
    hs = []
    pool = RESP_HEADERS[:8] if valid else RESP_HEADERS
    for _ in range(rng.choice([0, 1, 2, 4, 8])):
        hs.append(rng.choice(pool))
    hs = [h for h in hs if not h.lower().startswith((b"content-length", b"transfer-encoding"))] if valid else hs
    framing = rng.choice(["cl", "cl", "chunked", "close"])
    body = payload
    if framing == "cl":
        hs.append(b"Content-Length: %d" % (len(payload) + (0 if valid else rng.choice([0, 0, 3, -3, 100000]))))
    elif framing == "chunked":
        hs.append(b"Transfer-Encoding: chunked")
        body = chunked_body(rng, payload, bad=not valid and rng.random() < 0.7)
    if not valid and rng.random() < 0.15:
        hs.append(b"X-Big: " + b"b" * rng.choice([REQ_LIMIT - 300, REQ_LIMIT - 100, REQ_LIMIT, REQ_LIMIT + 500, 70000]))
    eol = b"\r\n" if valid or rng.random() < 0.75 else rng.choice([b"\n", b"\r", b"\r\r\n"])
    pre = b""
    if not valid and rng.random() < 0.15:
        pre = rng.choice([b"HTTP/1.1 100 Continue\r\n\r\n", b"HTTP/1.1 100 Continue\r\n\r\n" * 5, b"HTTP/1.1 103 Early\r\nLink: </x>\r\n\r\n", b"\r\n\r\n"])
    rng.shuffle(hs)
    data = pre + status + eol + b"".join(h + eol for h in hs) + eol + body
    if not valid and rng.random() < 0.5:
        data = c39.mutate_bytes(rng, data)
    return data


def gen_scenarios(rng, n):
    out = []
    for k in range(n):
        r = rng.random()
        if r < 0.5:
            out.append({"kind": "req", "valid": rng.random() < 0.3, "seed": rng.randrange(1 << 30), "pipeline": rng.choice([1, 1, 1, 2, 3]),
                        "mutate": rng.random() < 0.45})
        else:
            out.append({"kind": "resp", "valid": rng.random() < 0.3, "seed": rng.randrange(1 << 30), "method": rng.choice(["GET", "GET", "HEAD", "POST"]),
                        "splits": rng.choice([None, None, [1, 1, 1, 5], [10, 200], [3] * 30])})
    return out


_state = {}


def exchange(port, segs, gap=0.01, total=7.0, idle=0.4, half_close_after=0.8):
    """send the segments; read until the peer closes, or `idle` s pass after the last received byte; when nothing at all
    arrives within `half_close_after` s the client half-closes (an incomplete request then has to be answered or dropped)"""
    import socket
    s = socket.create_connection(("127.0.0.1", port), timeout=5)
    raw = b""
    closed = False
    try:
        for k, seg in enumerate(segs):
            if seg:
                try:
                    s.sendall(seg)
                except OSError:
                    break
            if k + 1 < len(segs):
                time.sleep(gap)
        t0 = last = time.time()
        shut = False
        s.settimeout(0.05)
        while True:
            now = time.time()
            if now - t0 > total or (raw and now - last > idle):
                break
            if not raw and not shut and now - t0 > half_close_after:
                shut = True
                try:
                    s.shutdown(socket.SHUT_WR)
                except OSError:
                    pass
            try:
                d = s.recv(262144)
            except socket.timeout:
                continue
            except OSError:
                closed = True
                break
            if not d:
                closed = True
                break
            raw += d
            last = time.time()
    finally:
        try:
            s.close()
        except OSError:
            pass
    return raw, closed


def classify(raw, closed):
    if raw.startswith(b"HTTP/1."):
        m = re.match(rb"HTTP/1\.[01] (\d{3})", raw)
        return "resp:" + (m.group(1).decode() if m else "???")
    if raw:
        return "bytes"             # HTTP/0.9-style relay of an origin reply without status line
    return "close" if closed else "hang"


def run_one(args):
    sq, org, s, rid, total = args
    rng = random.Random(s["seed"])
    try:
        if s["kind"] == "req":
            data = b""
            for i in range(s["pipeline"]):
                data += gen_request(rng, org.port, "%sp%d" % (rid, i), s["valid"])
            if s["mutate"]:
                data = c39.mutate_bytes(rng, data)
            segs = split_segments(rng, data)
            raw, closed = exchange(sq.port, segs, total=total)
            return classify(raw, closed)
        data = gen_response(rng, s["valid"])
        spec = {"raw": base64.b64encode(data).decode()}
        if s["splits"]:
            spec["splits"] = s["splits"]
        url = "http://127.0.0.1:%d%s" % (org.port, lab.spec_path(spec, rid))
        body = b"abcde" if s["method"] == "POST" else b""
        req = ("%s %s HTTP/1.1\r\nHost: 127.0.0.1:%d\r\n%s\r\n" % (s["method"], url, org.port,
               "Content-Length: 5\r\n" if body else "")).encode() + body
        raw, closed = exchange(sq.port, [req], total=total, half_close_after=3.0)
        return classify(raw, closed)
    except OSError as ex:
        return "connect-failed"


def e2e_stage(res, L, tier, n):
    rng = random.Random(common.seed() * 1000003 + 909)
    scen = gen_scenarios(rng, n)
    org = L.origin(io_timeout=6)
    conf = "request_header_max_size %d bytes\nreply_header_max_size %d bytes\nforwarded_for on\nread_timeout 5 seconds\nrequest_timeout 5 seconds\n" \
           "connect_timeout 3 seconds\nclient_lifetime 30 seconds\n" % (REQ_LIMIT, REQ_LIMIT)
    sq = L.squid(extra_conf=conf, env=c39.maybe_asan_tree(L, res, tier))
    _state["sq"] = sq
    found = 0
    BATCH = 48
    obs = [None] * len(scen)
    cnt = 0
    for i in range(0, len(scen), BATCH):
        jobs = []
        for k in range(i, min(len(scen), i + BATCH)):
            cnt += 1
            jobs.append((sq, org, scen[k], "a%d" % cnt, 7.0))
        with concurrent.futures.ThreadPoolExecutor(max_workers=12) as ex:
            obs[i:i + len(jobs)] = list(ex.map(run_one, jobs))
        why = None
        if not sq.alive():
            why = "squid exited (rc=%s)" % (sq.proc.returncode if sq.proc else "?")
        else:
            why = c39.probe(sq, org, 900000 + i)
        bad = c39.log_findings(sq)
        if why or bad:
            desc = "%s: after scenarios %d..%d squid no longer serves / logged a fatal condition: %s %s" % (
                PID, i, i + len(jobs) - 1, why or "", "; ".join(bad[:3]))
            if res.fail("oracle:e2e-squid-died", desc, {"scenarios": scen[i:i + len(jobs)], "why": why, "log": bad[:5],
                                                          "log_tail": sq.log_tail(1500)}):
                found += 1
            break
    for s, o in zip(scen, obs):
        if o is not None:
            res.count_case(json.dumps(s, sort_keys=True), nontrivial=o.startswith("resp"), kind="e2e.%s:%s" % (s["kind"], o.split(":")[0] + (":" + o.split(":")[1][0] + "xx" if ":" in o else "")))
    if found:
        return found
    # every connection ends with an HTTP response or a close: re-run the ones that did not, alone, with more time
    sus = [k for k, o in enumerate(obs) if o in ("hang", "connect-failed")]
    res.extra["e2e_suspects_first_pass"] = len(sus)
    for k in sus[:25]:
        cnt += 1
        o2 = run_one((sq, org, scen[k], "a%d" % cnt, 20.0))
        if o2 in ("hang", "connect-failed"):
            if res.fail("oracle:e2e-no-response-no-close", "%s: scenario %s: the connection ended with neither an HTTP response nor a close within 20 s (%s)"
                        % (PID, json.dumps(scen[k]), o2), {"scenario": scen[k], "first": obs[k], "second": o2}):
                found += 1
                break
    why = c39.probe(sq, org, 999999)
    if why and not found:
        res.fail("oracle:e2e-squid-died", "%s: final liveness probe failed: %s" % (PID, why), {"why": why, "log_tail": sq.log_tail(1500)})
        found += 1
    res.extra["e2e_scenarios"] = len(scen)
    for s in scen[:3]:
        res.sample(json.dumps(s))
    return found


def run(res, tier):
    res.rule = ("unit: the case generators of C21/C23/C24 (request heads, reply heads, chunked bodies; structured, boundary and "
                "segmentation streams) plus one byte/length/truncation mutant for every second case, run through the ASan+UBSan "
                "builds of the real parsers and the extracted models. end-to-end: request streams (14 methods, 12 version "
                "spellings, absolute/origin/authority/asterisk targets with oversized, malformed and IPv6 variants, 36 header "
                "shapes incl. conflicting Content-Length/Transfer-Encoding, chunked bodies with malformed sizes/extensions/"
                "terminators, pipelining, arbitrary segmentation, byte mutation, half-close) and origin responses (25 status-line "
                "shapes, 34 header shapes, Content-Length/chunked/close framing with mismatches, interim responses, heads around "
                "reply_header_max_size, byte mutation, split writes) through the real squid; non-trivial = squid produced an "
                "HTTP response")
    rng = random.Random(common.seed() * 1000003 + 9)
    ok, err = std.proof_stage(res, PID, gens=[])
    found = unit_stage(res, tier, rng)
    if not any(v[0] == "build" for v in res.violations):
        try:
            with lab.Lab(PID) as L:
                try:
                    L.build()
                    res.extra["lab_build_s"] = round(getattr(L, "build_s", 0), 1)
                    found += e2e_stage(res, L, tier, 330 if tier == "quick" else 8000)
                except lab.LabError as ex:
                    res.fail("build", "%s: squid no longer builds from /repo's working tree: %s" % (PID, str(ex)[-1500:]),
                             {"no_failing_input_found": True, "broken": "lab build", "detail": str(ex)[-3000:]})
        finally:
            _state.clear()
    if not ok and not found:
        std.no_input_violation(res, "Properties_%s.v" % PID, err)
    elif not ok:
        res.notes.append("proof stage failed: " + err)
