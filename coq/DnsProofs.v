(* DnsProofs.v — specification vocabulary and proofs for DnsModel.v (C37). *)
Require Import SquidV.Bytes SquidV.gen.Dns_gen SquidV.DnsModel.
Require Import ZifyBool ZifyN ZifyNat.
Local Open Scope N_scope.

(* ================= small list facts ================= *)
Lemma nthN_some {A} (l : list A) (i : N) : i < lenN l -> exists b, nthN i l = Some b.
Proof.
  revert i. induction l as [|x l IH]; intros i Hi; cbn [lenN nthN] in *; [lia|].
  destruct (i =? 0) eqn:E; [eexists; reflexivity|]. apply IH. lia.
Qed.

Lemma nthN_in_range {A} (l : list A) (i : N) x : nthN i l = Some x -> i < lenN l.
Proof.
  revert i. induction l as [|y l IH]; intros i H; cbn [lenN nthN] in *; [discriminate|].
  destruct (i =? 0) eqn:E; [lia|]. apply IH in H. lia.
Qed.

Lemma nthN_app_l {A} (a b : list A) i : i < lenN a -> nthN i (a ++ b) = nthN i a.
Proof.
  revert i. induction a as [|x a IH]; intros i Hi; cbn [lenN nthN app] in *; [lia|].
  destruct (i =? 0) eqn:E; [reflexivity|]. apply IH. lia.
Qed.

Lemma nthN_app_r {A} (a b : list A) i : lenN a <= i -> nthN i (a ++ b) = nthN (i - lenN a) b.
Proof.
  revert i. induction a as [|x a IH]; intros i Hi; cbn [lenN nthN app] in *; [f_equal; lia|].
  destruct (i =? 0) eqn:E; [lia|]. rewrite IH by lia. f_equal. lia.
Qed.

Lemma dropN_app_len {A} (a b : list A) : dropN (lenN a) (a ++ b) = b.
Proof.
  induction a as [|x a IH]; cbn [lenN dropN app].
  - destruct b; cbn [dropN]; reflexivity.
  - destruct (N.succ (lenN a) =? 0) eqn:E; [lia|]. rewrite N.pred_succ. exact IH.
Qed.

Lemma dropN_app_ge {A} (a b : list A) n : lenN a <= n -> dropN n (a ++ b) = dropN (n - lenN a) b.
Proof.
  revert n. induction a as [|x a IH]; intros n Hn; cbn [lenN dropN app] in *.
  - f_equal. lia.
  - destruct (n =? 0) eqn:E; [lia|]. rewrite IH by lia. f_equal. lia.
Qed.

Lemma takeN_app_len {A} (a b : list A) : takeN (lenN a) (a ++ b) = a.
Proof.
  induction a as [|x a IH]; cbn [lenN takeN app].
  - destruct b; cbn [takeN]; reflexivity.
  - destruct (N.succ (lenN a) =? 0) eqn:E; [lia|]. rewrite N.pred_succ, IH. reflexivity.
Qed.

Lemma takeN_all {A} (l : list A) n : lenN l <= n -> takeN n l = l.
Proof.
  revert n. induction l as [|x l IH]; intros n Hn; cbn [lenN takeN] in *; [reflexivity|].
  destruct (n =? 0) eqn:E; [lia|]. rewrite IH by lia. reflexivity.
Qed.

Lemma lenN_dropN {A} (l : list A) n : lenN (dropN n l) = lenN l - n.
Proof.
  revert n. induction l as [|x l IH]; intros n; cbn [lenN dropN]; [lia|].
  destruct (n =? 0) eqn:E; cbn [lenN]; [lia|]. rewrite IH. lia.
Qed.

(* ================= checked reads succeed inside the datagram ================= *)
Lemma rd16_some buf off : off + 2 <= lenN buf -> exists v, rd16 buf off = Some v.
Proof.
  intros H. unfold rd16.
  destruct (nthN_some buf off) as [a Ha]; [lia|].
  destruct (nthN_some buf (off + 1)) as [b Hb]; [lia|].
  rewrite Ha, Hb. eexists; reflexivity.
Qed.

Lemma rd32_some buf off : off + 4 <= lenN buf -> exists v, rd32 buf off = Some v.
Proof.
  intros H. unfold rd32.
  destruct (rd16_some buf off) as [a Ha]; [lia|].
  destruct (rd16_some buf (off + 2)) as [b Hb]; [lia|].
  rewrite Ha, Hb. eexists; reflexivity.
Qed.

Lemma rd_range_some buf off len : off + len <= lenN buf -> exists d, rd_range buf off len = Some d.
Proof.
  intros H. unfold rd_range. destruct (off + len <=? lenN buf) eqn:E; [eexists; reflexivity|lia].
Qed.

(* ================= Part A: decoding never leaves the datagram and terminates ================= *)
(* "the outcome is not one of the bad ones, and a returned offset is inside the datagram" *)
Definition name_res_ok (sz : N) (r : outcome (bytes * N * N)) : Prop :=
  match r with
  | Bad _ => False
  | Err => True
  | Ok (_, off', _) => off' <= sz
  end.

Lemma name_finish_safe acc no ns cap off rdl sz :
  no <= ns -> ns <= cap -> 0 < ns -> off <= sz -> name_res_ok sz (name_finish acc no ns cap off rdl).
Proof.
  intros H1 H2 H3 H4. unfold name_finish.
  destruct (no =? 0) eqn:E0.
  - destruct (cap =? 0) eqn:E1; [lia|]. exact H4.
  - destruct (cap <? no) eqn:E1; [lia|]. destruct (ns <? no) eqn:E2; [lia|]. exact H4.
Qed.

Lemma name_loop_safe : forall fuel buf off rdl acc no ns cap rdepth,
  no < ns -> ns <= cap ->
  (ns - no) + (66 - rdepth) < N.of_nat fuel ->
  name_res_ok (lenN buf) (name_loop fuel buf (lenN buf) off rdl acc no ns cap rdepth).
Proof.
  induction fuel as [|f IH]; intros buf off rdl acc no ns cap rdepth Hno Hcap Hfuel; [lia|].
  cbn [name_loop].
  destruct (lenN buf <=? off) eqn:Eoff; [exact I|].
  destruct (nthN_some buf off) as [c Hc]; [lia|]. rewrite Hc.
  destruct (191 <? c) eqn:Eptr.
  - destruct (64 <? rdepth) eqn:Erd; [exact I|].
    unfold dns_sizeof_ushort.
    destruct (lenN buf <? off + 2) eqn:Esz; [exact I|].
    destruct (rd16_some buf off) as [s Hs]; [lia|]. rewrite Hs.
    destruct (lenN buf <=? s mod 16384) eqn:Ep; [exact I|].
    destruct (ns <? no) eqn:E1; [lia|].
    destruct (cap <? no) eqn:E2; [lia|].
    destruct (ns - no =? 0) eqn:E3; [lia|].
    specialize (IH buf (s mod 16384) rdl acc 0 (ns - no) (cap - no) (rdepth + 1)).
    assert (H0 : 0 < ns - no) by lia.
    assert (H1 : ns - no <= cap - no) by lia.
    assert (H2 : (ns - no - 0) + (66 - (rdepth + 1)) < N.of_nat f) by lia.
    specialize (IH H0 H1 H2).
    destruct (name_loop f buf (lenN buf) (s mod 16384) rdl acc 0 (ns - no) (cap - no) (rdepth + 1)) as [[[nm o'] r']| |b];
      cbn [name_res_ok] in *; [lia|exact I|exact IH].
  - unfold dns_MAXLABELSZ.
    destruct (63 <? c) eqn:Elab; [exact I|].
    destruct (c =? 0) eqn:Ec0.
    + apply name_finish_safe; lia.
    + destruct (ns <? no + 1) eqn:E1; [lia|].
      destruct (ns - no - 1 <? c) eqn:E2; [exact I|].
      destruct (lenN buf <=? off + 1 + c) eqn:E3; [exact I|].
      destruct (rd_range_some buf (off + 1) c) as [lbl Hl]; [lia|]. rewrite Hl.
      destruct (cap <? no + c + 1) eqn:E4; [lia|].
      destruct (no + c + 1 <? ns) eqn:E5.
      * apply IH; lia.
      * apply name_finish_safe; lia.
Qed.

Lemma name_unpack_safe buf off ns cap rdepth :
  0 < ns -> ns <= cap -> name_res_ok (lenN buf) (name_unpack buf (lenN buf) off ns cap rdepth).
Proof.
  intros Hns Hcap. unfold name_unpack. destruct (ns =? 0) eqn:E; [lia|].
  apply name_loop_safe; [lia|lia|]. unfold name_fuel. lia.
Qed.

Definition res_ok {A} (sz : N) (r : outcome (A * N)) : Prop :=
  match r with Bad _ => False | Err => True | Ok (_, off') => off' <= sz end.

Lemma hostsz_pos : 0 < dns_MAXHOSTNAMESZ. Proof. reflexivity. Qed.
Lemma hostsz_query : dns_MAXHOSTNAMESZ <= dns_sizeof_query_name. Proof. discriminate. Qed.
Lemma hostsz_rr : dns_MAXHOSTNAMESZ <= dns_sizeof_rr_name. Proof. discriminate. Qed.

Lemma query_unpack_safe buf off : res_ok (lenN buf) (query_unpack buf (lenN buf) off).
Proof.
  unfold query_unpack.
  pose proof (name_unpack_safe buf off dns_MAXHOSTNAMESZ dns_sizeof_query_name 0 hostsz_pos hostsz_query) as H.
  destruct (name_unpack buf (lenN buf) off dns_MAXHOSTNAMESZ dns_sizeof_query_name 0) as [[[nm off1] r]| |b];
    cbn [name_res_ok res_ok] in *; [|exact I|exact H].
  destruct (lenN buf <? off1 + 4) eqn:E; [exact I|].
  destruct (rd16_some buf off1) as [t Ht]; [lia|].
  destruct (rd16_some buf (off1 + 2)) as [c Hc]; [lia|].
  rewrite Ht, Hc. cbn [res_ok]. lia.
Qed.

Lemma rr_unpack_safe buf off : res_ok (lenN buf) (rr_unpack buf (lenN buf) off).
Proof.
  unfold rr_unpack.
  pose proof (name_unpack_safe buf off dns_MAXHOSTNAMESZ dns_sizeof_rr_name 0 hostsz_pos hostsz_rr) as H.
  destruct (name_unpack buf (lenN buf) off dns_MAXHOSTNAMESZ dns_sizeof_rr_name 0) as [[[nm off1] r]| |b];
    cbn [name_res_ok res_ok] in *; [|exact I|exact H].
  destruct (lenN buf <? off1 + 10) eqn:E; [exact I|].
  destruct (rd16_some buf off1) as [ty Hty]; [lia|].
  destruct (rd16_some buf (off1 + 2)) as [cl Hcl]; [lia|].
  destruct (rd32_some buf (off1 + 4)) as [ttl Httl]; [lia|].
  destruct (rd16_some buf (off1 + 8)) as [rdl Hrdl]; [lia|].
  rewrite Hty, Hcl, Httl, Hrdl.
  destruct (lenN buf <? off1 + 10 + rdl) eqn:E2; [exact I|].
  destruct (ty =? dns_TYPE_PTR) eqn:Ety.
  - pose proof (name_unpack_safe buf (off1 + 10) dns_MAXHOSTNAMESZ dns_MAXHOSTNAMESZ 0 hostsz_pos (N.le_refl _)) as H2.
    destruct (name_unpack buf (lenN buf) (off1 + 10) dns_MAXHOSTNAMESZ dns_MAXHOSTNAMESZ 0) as [[[pn o2] r2]| |b];
      cbn [name_res_ok res_ok] in *; [|exact I|exact H2].
    destruct (off1 + 10 + rdl <? o2) eqn:E3; [exact I|].
    cbn [res_ok]. lia.
  - destruct (rd_range_some buf (off1 + 10) rdl) as [d Hd]; [lia|]. rewrite Hd. cbn [res_ok]. lia.
Qed.

Definition list_res_ok {A} (r : outcome (list A)) : Prop :=
  match r with Bad _ => False | Err => False | Ok _ => True end.

Lemma rrs_loop_safe n buf off : list_res_ok (rrs_loop n buf (lenN buf) off).
Proof.
  revert off. induction n as [|k IH]; intros off; cbn [rrs_loop]; [exact I|].
  destruct (lenN buf <=? off) eqn:E; [exact I|].
  pose proof (rr_unpack_safe buf off) as H.
  destruct (rr_unpack buf (lenN buf) off) as [[r off']| |b]; cbn [res_ok] in H; [|exact I|exact H].
  specialize (IH off').
  destruct (rrs_loop k buf (lenN buf) off') as [l| |b]; cbn [list_res_ok] in *; [exact I|exact IH|exact IH].
Qed.

Lemma rrs_loop_count n buf sz off l : rrs_loop n buf sz off = Ok l -> lenN l <= N.of_nat n.
Proof.
  revert off l. induction n as [|k IH]; intros off l H; cbn [rrs_loop] in H.
  - injection H as <-. cbn [lenN]. lia.
  - destruct (sz <=? off); [injection H as <-; cbn [lenN]; lia|].
    destruct (rr_unpack buf sz off) as [[r off']| |b]; [|injection H as <-; cbn [lenN]; lia|discriminate].
    destruct (rrs_loop k buf sz off') as [l'| |b] eqn:E; try discriminate.
    injection H as <-. apply IH in E. cbn [lenN]. lia.
Qed.

Lemma header_unpack_safe buf : match header_unpack buf (lenN buf) with Bad _ => False | _ => True end.
Proof.
  unfold header_unpack. destruct (lenN buf <? 12) eqn:E; [exact I|].
  destruct (rd16_some buf 0) as [a Ha]; [lia|].
  destruct (rd16_some buf 2) as [b Hb]; [lia|].
  destruct (rd16_some buf 4) as [c Hc]; [lia|].
  destruct (rd16_some buf 6) as [d Hd]; [lia|].
  destruct (rd16_some buf 8) as [e He]; [lia|].
  destruct (rd16_some buf 10) as [f Hf]; [lia|].
  rewrite Ha, Hb, Hc, Hd, He, Hf. exact I.
Qed.

(* what a caller may rely on for ANY datagram *)
Definition unpacked_sane (u : unpacked) : Prop :=
  match u with
  | UFail => True
  | URcode h q => h_qd h = 1 /\ h_rcode h <> 0
  | UAnswers h q rrs => h_qd h = 1 /\ h_rcode h = 0 /\ lenN rrs <= h_an h /\ (h_an h <> 0 -> rrs <> [])
  end.

Theorem message_unpack_total : forall buf, exists u, message_unpack buf = Ok u /\ unpacked_sane u.
Proof.
  intros buf. unfold message_unpack.
  pose proof (header_unpack_safe buf) as Hh.
  destruct (header_unpack buf (lenN buf)) as [h| |b]; [|eexists; split; [reflexivity|exact I]|contradiction].
  destruct (h_qd h =? 1) eqn:Eqd; cbn [negb]; [|eexists; split; [reflexivity|exact I]].
  pose proof (query_unpack_safe buf 12) as Hq.
  destruct (query_unpack buf (lenN buf) 12) as [[q off]| |b]; cbn [res_ok] in Hq;
    [|eexists; split; [reflexivity|exact I]|contradiction].
  destruct (h_rcode h =? 0) eqn:Erc; cbn [negb].
  2:{ eexists; split; [reflexivity|]. cbn [unpacked_sane]. lia. }
  destruct (h_an h =? 0) eqn:Ean.
  { eexists; split; [reflexivity|]. cbn [unpacked_sane lenN]. repeat split; try lia. }
  pose proof (rrs_loop_safe (N.to_nat (h_an h)) buf off) as Hl.
  destruct (rrs_loop (N.to_nat (h_an h)) buf (lenN buf) off) as [l| |b] eqn:El; cbn [list_res_ok] in Hl; try contradiction.
  apply rrs_loop_count in El.
  destruct l as [|r l]; [eexists; split; [reflexivity|exact I]|].
  eexists; split; [reflexivity|]. cbn [unpacked_sane]. repeat split; try lia. discriminate.
Qed.

(* ================= Part B: names laid out in a datagram decode to their labels ================= *)
(* Specification vocabulary (independent of the decoder): `name_at buf d off labels e` — the datagram holds at
   offset `off` an RFC 1035 encoding of the name `labels`: labels stored in line, ended either by the root label or
   by a compression pointer to an offset where the REST of the name is encoded (at most `d` pointers in a row are
   followed); `e` is the offset behind the part stored in line. A pointer's target must denote at least one label
   (see C37_name_ptr_to_root_refuted for what happens otherwise). *)
Inductive name_at (buf : bytes) : nat -> N -> list bytes -> N -> Prop :=
| na_root : forall d off, nthN off buf = Some 0 -> name_at buf d off [] (off + 1)
| na_label : forall d off l rest e,
    1 <= lenN l -> lenN l <= 63 ->
    nthN off buf = Some (lenN l) ->
    rd_range buf (off + 1) (lenN l) = Some l ->
    name_at buf d (off + 1 + lenN l) rest e ->
    name_at buf d off (l :: rest) e
| na_ptr : forall d off a b labels e',
    nthN off buf = Some a -> 191 < a -> nthN (off + 1) buf = Some b ->
    labels <> [] ->
    name_at buf d ((a * 256 + b) mod 16384) labels e' ->
    name_at buf (S d) off labels (off + 2).

(* octets the labels occupy in a name buffer / on the wire without the root: sum of (length + 1) *)
Fixpoint wire (labels : list bytes) : N :=
  match labels with [] => 0 | l :: r => lenN l + 1 + wire r end.

Fixpoint dotted (labels : list bytes) : bytes :=
  match labels with [] => [] | l :: r => l ++ [46] ++ dotted r end.

Lemma name_at_start buf d off labels e : name_at buf d off labels e -> off < lenN buf.
Proof. intros H. destruct H; eapply nthN_in_range; eassumption. Qed.

Lemma removelast_app_dot (a : bytes) : removelast (a ++ [46]) = a.
Proof. apply removelast_last. Qed.

Lemma removelast_dotted acc l r : removelast (acc ++ dotted (l :: r)) = acc ++ join_dots (l :: r).
Proof.
  revert acc l. induction r as [|l2 r IH]; intros acc l.
  - cbn [dotted join_dots app]. rewrite app_assoc. apply removelast_last.
  - change (dotted (l :: l2 :: r)) with (l ++ [46] ++ dotted (l2 :: r)).
    change (join_dots (l :: l2 :: r)) with (l ++ [46] ++ join_dots (l2 :: r)).
    rewrite !app_assoc. rewrite <- (app_assoc acc l [46]). rewrite (IH (acc ++ l ++ [46]) l2).
    reflexivity.
Qed.

(* the destination contents the decoder must produce *)
Definition name_result (acc : bytes) (no : N) (labels : list bytes) : bytes :=
  match labels with
  | [] => if no =? 0 then acc else removelast acc
  | _ => removelast (acc ++ dotted labels)
  end.

Lemma name_loop_decodes : forall buf d off labels e,
  name_at buf d off labels e ->
  forall fuel rdl acc no ns cap rdepth,
    no + wire labels < ns -> ns <= cap ->
    N.of_nat d + rdepth <= 65 ->
    rdl + wire labels < 65536 ->
    (ns - no) + (66 - rdepth) < N.of_nat fuel ->
    name_loop fuel buf (lenN buf) off rdl acc no ns cap rdepth =
    Ok (name_result acc no labels, e, rdl + wire labels).
Proof.
  intros buf d off labels e H.
  induction H as [d off Hc | d off l rest e Hl1 Hl2 Hc Hr Hrest IH | d off a b labels e' Ha Hgt Hb Hne Htgt IH];
    intros fuel rdl acc no ns cap rdepth Hfit Hcap Hdepth Hrdl Hfuel;
    (destruct fuel as [|f]; [lia|]); cbn [name_loop].
  - (* root label *)
    pose proof (nthN_in_range _ _ _ Hc) as Hin.
    destruct (lenN buf <=? off) eqn:E0; [lia|]. rewrite Hc.
    cbn [wire] in *.
    change (191 <? 0) with false. cbv iota.
    change (dns_MAXLABELSZ <? 0) with false. cbv iota.
    change (0 =? 0) with true. cbv iota.
    unfold name_finish, name_result.
    destruct (no =? 0) eqn:En.
    + destruct (cap =? 0) eqn:Ec; [lia|]. repeat f_equal; lia.
    + destruct (cap <? no) eqn:Ec; [lia|]. destruct (ns <? no) eqn:Ec2; [lia|]. repeat f_equal; lia.
  - (* a label *)
    pose proof (nthN_in_range _ _ _ Hc) as Hin.
    pose proof (name_at_start _ _ _ _ _ Hrest) as Hnext.
    destruct (lenN buf <=? off) eqn:E0; [lia|]. rewrite Hc.
    cbn [wire] in *.
    destruct (191 <? lenN l) eqn:E1; [lia|].
    unfold dns_MAXLABELSZ. destruct (63 <? lenN l) eqn:E2; [lia|].
    destruct (lenN l =? 0) eqn:E3; [lia|].
    destruct (ns <? no + 1) eqn:E4; [lia|].
    destruct (ns - no - 1 <? lenN l) eqn:E5; [lia|].
    destruct (lenN buf <=? off + 1 + lenN l) eqn:E6; [lia|].
    rewrite Hr.
    destruct (cap <? no + lenN l + 1) eqn:E7; [lia|].
    destruct (no + lenN l + 1 <? ns) eqn:E8; [|lia].
    assert (Hm : (rdl + lenN l + 1) mod 65536 = rdl + lenN l + 1) by (apply N.mod_small; lia).
    rewrite Hm.
    rewrite (IH f (rdl + lenN l + 1) (acc ++ l ++ [46]) (no + lenN l + 1) ns cap rdepth) by lia.
    f_equal. f_equal; [|lia]. f_equal.
    unfold name_result.
    destruct (no + lenN l + 1 =? 0) eqn:E9; [lia|].
    destruct rest as [|l2 rest].
    + cbn [dotted app]. reflexivity.
    + change (dotted (l :: l2 :: rest)) with (l ++ [46] ++ dotted (l2 :: rest)).
      rewrite !app_assoc. reflexivity.
  - (* a compression pointer *)
    pose proof (nthN_in_range _ _ _ Hb) as Hin.
    pose proof (name_at_start _ _ _ _ _ Htgt) as Hp.
    destruct (lenN buf <=? off) eqn:E0; [lia|]. rewrite Ha.
    destruct (191 <? a) eqn:Eg; [|lia].
    destruct (64 <? rdepth) eqn:E1; [lia|].
    unfold dns_sizeof_ushort.
    destruct (lenN buf <? off + 2) eqn:E2; [lia|].
    unfold rd16. rewrite Ha, Hb.
    destruct (lenN buf <=? (a * 256 + b) mod 16384) eqn:E3; [lia|].
    destruct (ns <? no) eqn:E4; [lia|].
    destruct (cap <? no) eqn:E5; [lia|].
    destruct (ns - no =? 0) eqn:E6; [lia|].
    rewrite (IH f rdl acc 0 (ns - no) (cap - no) (rdepth + 1)) by lia.
    f_equal. f_equal. f_equal.
    unfold name_result. destruct labels; [contradiction|reflexivity].
Qed.

Theorem name_unpack_decodes : forall buf d off labels e ns cap,
  name_at buf d off labels e ->
  (d <= 65)%nat -> wire labels < ns -> ns <= cap -> ns <= 65536 ->
  name_unpack buf (lenN buf) off ns cap 0 = Ok (join_dots labels, e, wire labels).
Proof.
  intros buf d off labels e ns cap H Hd Hw Hcap Hns.
  unfold name_unpack. destruct (ns =? 0) eqn:E; [lia|].
  rewrite (name_loop_decodes buf d off labels e H) by (unfold name_fuel; lia).
  replace (0 + wire labels) with (wire labels) by lia.
  unfold name_result. destruct labels as [|l r]; [reflexivity|].
  rewrite (removelast_dotted [] l r). reflexivity.
Qed.
