(* handlers for the adversarial area (C39, C09): datagram decoders.
   Case syntax (shared with harness/h_adversarial.cc):
     snmp.udp <size> <recvmax> <hex>   snmp.exact <hex>
     icp.udp <size> <recvmax> <hex>
     htcp.spec|htcp.detail|htcp.msg <size> <recvmax> <hex>
     e2e.icp|e2e.htcp|e2e.snmp <size> <recvmax> <hex>      (prediction for the running squid: reply / noreply / blind) *)
let z_of_n = function N0 -> Z0 | Npos p -> Zpos p
let zs_of_hex h = List.map z_of_n (bytes_of_hex h)
let zi (i : int) = z_of_n (n_of_int i)
let int_of_z = function Z0 -> 0 | Zpos p -> int_of_pos p | Zneg p -> - (int_of_pos p)
let sz = string_of_z
let stale_byte = zi 165                     (* 0xA5: what the harness leaves in the unreceived part of a static buffer *)
let stale = fun (_ : z) -> stale_byte
let hexz (l : z list) = if l = [] then "-" else String.concat "" (List.map (fun b -> Printf.sprintf "%02x" (int_of_z b)) l)

let res_str (f : 'a -> string) (r : 'a res) : string =
  match r with Ok a -> f a | Fail -> "fail" | OOB -> "OOB" | NoFuel -> "NOFUEL"

let snmp_str (m : snmp_msg) : string =
  "ok ver=" ^ sz m.m_ver ^ " comm=" ^ hexz m.m_comm ^ " cmd=" ^ sz m.m_cmd ^ " reqid=" ^ sz m.m_reqid
  ^ " es=" ^ sz m.m_es ^ " ei=" ^ sz m.m_ei ^ " vars=" ^ string_of_int (List.length m.m_vars)
  ^ String.concat "" (List.map (fun v -> " " ^ sz v.v_type ^ ":" ^ sz v.v_name_len ^ ":" ^ sz v.v_val_len) m.m_vars)

let udp_str f = function Empty -> "empty" | Got r -> res_str f r

let url_str = function None -> "null" | Some (o, n) -> sz o ^ ":" ^ sz n

(* positions written by the in-place NUL termination whose previous content was not NUL, ascending *)
let diff_str (b0 : buf) (ws : z list) : string =
  let ps = List.sort_uniq compare (List.map int_of_z ws) in
  let ch = List.filter (fun i -> match rd b0 (zi i) with Ok v -> v <> Z0 | _ -> false) ps in
  if ch = [] then "-" else String.concat "," (List.map string_of_int ch)

let spec_str (s : htcp_spec) : string =
  match s.sp_lens with
  | [ml; ul; vl; hl] ->
    "m=" ^ sz s.sp_method ^ ":" ^ sz ml ^ " u=" ^ sz s.sp_uri ^ ":" ^ sz ul ^ " v=" ^ sz s.sp_version ^ ":" ^ sz vl
    ^ " h=" ^ sz s.sp_hdrs ^ ":" ^ sz hl ^ "/" ^ sz s.sp_hdrs_sz
  | _ -> "BAD"

let initial size recvmax d =
  let len = if Z.ltb (lenZ d) recvmax then lenZ d else recvmax in
  recv_buf size stale d len

let () =
  reg "snmp.udp" (fun [size; recvmax; h] ->
      udp_str snmp_str (snmp_udp (z_of_string size) (z_of_string recvmax) stale (zs_of_hex h)));
  reg "snmp.exact" (fun [h] -> udp_str snmp_str (snmp_exact (zs_of_hex h)));
  reg "icp.udp" (fun [size; recvmax; h] ->
      res_str (fun (hd, u) ->
          "len=" ^ sz hd.i_length ^ " op=" ^ sz hd.i_opcode ^ " ver=" ^ sz hd.i_version ^ " reqnum=" ^ sz hd.i_reqnum
          ^ " flags=" ^ sz hd.i_flags ^ " pad=" ^ sz hd.i_pad ^ " gop=" ^ sz (icp_get_opcode hd)
          ^ " url=" ^ (match u with None -> "skip" | Some x -> url_str x))
        (icp_unit (z_of_string size) (z_of_string recvmax) stale (zs_of_hex h)));
  reg "htcp.spec" (fun [size; recvmax; h] ->
      let size = z_of_string size and recvmax = z_of_string recvmax and d = zs_of_hex h in
      res_str (fun (st, sp) ->
          (match sp with Some s -> "unpacked " ^ spec_str s | None -> "fail") ^ " diff=" ^ diff_str (initial size recvmax d) st.hw)
        (htcp_spec_unit size recvmax stale d));
  reg "htcp.detail" (fun [size; recvmax; h] ->
      let size = z_of_string size and recvmax = z_of_string recvmax and d = zs_of_hex h in
      res_str (fun (st, dt) ->
          (match dt with
           | Some x -> (match x.d_lens with
               | [a; e; c] -> "unpacked r=" ^ sz x.d_resp ^ ":" ^ sz x.d_resp_sz ^ " e=" ^ sz x.d_entity ^ ":" ^ sz x.d_entity_sz
                              ^ " c=" ^ sz x.d_cache ^ ":" ^ sz x.d_cache_sz ^ " cstr=" ^ sz a ^ "," ^ sz e ^ "," ^ sz c
               | _ -> "BAD")
           | None -> "fail") ^ " diff=" ^ diff_str (initial size recvmax d) st.hw)
        (htcp_detail_unit size recvmax stale d));
  reg "htcp.msg" (fun [size; recvmax; h] ->
      let size = z_of_string size and recvmax = z_of_string recvmax and d = zs_of_hex h in
      res_str (fun r ->
          "fmt=" ^ (match r.hr_old with None -> "7" | Some true -> "1" | Some false -> "0")
          ^ " spec=" ^ (match r.hr_class with
              | HtcpTstReq (Some s) -> spec_str s
              | HtcpClr (Some (Some s)) -> spec_str s
              | _ -> "none")
          ^ " diff=" ^ diff_str (initial size recvmax d) r.hr_state.hw)
        (htcp_udp (fun _ -> false) size recvmax stale d));
  (* ---- predictions for the running squid (permissive icp_access / htcp_access / snmp_access, no cache_peer) *)
  reg "e2e.icp" (fun [size; recvmax; h] ->
      match icp_udp (z_of_string size) (z_of_string recvmax) stale (zs_of_hex h) with
      | Empty -> "noreply"
      | Got (Ok (IcpQuery _)) -> "reply"          (* a reply of some opcode is sent for every well-framed query *)
      | Got (Ok _) -> "noreply"
      | Got Fail -> "noreply"
      | Got OOB -> "OOB"
      | Got NoFuel -> "NOFUEL");
  reg "e2e.htcp" (fun [size; recvmax; h] ->
      match htcp_udp (fun _ -> false) (z_of_string size) (z_of_string recvmax) stale (zs_of_hex h) with
      | Ok r -> (match r.hr_class with
          | HtcpTstReq (Some _) -> "blind"         (* answered iff the URI parses and the store lookup completes *)
          | HtcpClr (Some (Some _)) -> "blind"
          | _ -> "noreply")
      | Fail -> "noreply" | OOB -> "OOB" | NoFuel -> "NOFUEL");
  reg "e2e.snmp" (fun [size; recvmax; h] ->
      match snmp_udp (z_of_string size) (z_of_string recvmax) stale (zs_of_hex h) with
      | Empty -> "noreply"
      | Got (Ok _) -> "blind"                     (* answered iff the agent knows the objects *)
      | Got Fail -> "noreply"
      | Got OOB -> "OOB"
      | Got NoFuel -> "NOFUEL")
