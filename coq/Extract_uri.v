(* Extract_uri.v — extraction of the uri area (C30) to OCaml; ExtrOcamlBasic only. *)
Require Import ExtrOcamlBasic.
Require Import SquidV.Bytes SquidV.UriModel.
Extraction "m_uri.ml" parse roundtrip canonical authority absolute absolute_path.
