(* AcltreeModel.v — src/acl/Checklist.cc, Tree.cc, BoolOps.cc, InnerNode.cc, AllOf.cc, AnyOf.cc
   (+ Acl::Node::matches of Acl.cc) as an executable state machine over scripted leaf ACLs.

   Transcription notes
   - An ACL expression tree is [node]; every node carries an id that stands for the C++ object
     identity (the same id = the same Acl::Node object; name "n<id>").  The root Acl::Tree is [tree].
   - ACLChecklist is the record [st] (the checklist fields that the matching code reads or writes)
     plus the state of the test environment: per-leaf remaining lookups, the pending lookup, counters.
   - Breadcrumb(parent, position) is (id of parent, index of child); a cleared Breadcrumb is None.
   - C++ assert()/Assure() failures and dereferencing nodes.begin() of an empty NotNode set [err];
     the theorems prove that [err] stays false.
   - int results of match()/doMatch() are Z: 1 match, 0 mismatch, -1 "suspended or stopped".
   - Not modelled: occupied_ (one check per checklist), callerGone() (the callback target stays
     valid), accessList == nullptr, the requiresAle/Request/Reply preconditions of Node::matches
     (false for the scripted leaves), debugs(). *)
Require Import SquidV.Bytes.
Local Open Scope N_scope.

(* ---------- ACL expression trees ---------- *)
Inductive kind := KNot | KAnd | KOr | KAllOf | KAnyOf.   (* NotNode AndNode OrNode Acl::AllOf Acl::AnyOf *)
Inductive node :=
| Leaf (i : N)
| Inner (i : N) (k : kind) (cs : list node).
Definition node_id (n : node) : N := match n with Leaf i => i | Inner i _ _ => i end.

(* aclMatchCode; Acl::Answer *)
Inductive code := Denied | Allowed | Dunno | AuthRequired.
Record answer := mkAns { acode : code; akind : N; aimplicit : bool; alast : option N }.
Definition action (c : code) (k : N) : answer := mkAns c k false None.  (* Answer(code, kind) *)
Definition code_eqb (a b : code) : bool :=
  match a, b with Denied, Denied | Allowed, Allowed | Dunno, Dunno | AuthRequired, AuthRequired => true | _, _ => false end.
(* Answer::operator==(const Answer&): code and kind only *)
Definition answer_eqb (a b : answer) : bool := code_eqb (acode a) (acode b) && (akind a =? akind b).

(* Acl::Tree: rules (InnerNode::nodes) and actions (empty, or one per rule) *)
Record tree := mkTree { tid : N; rules : list node; actions : list answer }.

(* ---------- scripted leaves (the test environment; mirrored by harness/h_acltree.cc) ---------- *)
Inductive att := Real | Fake.   (* Real: the lookup really goes asynchronous; Fake: it completes inside the starter *)
Record lscript := mkScript { truth : bool; retry : bool; attempts : list att }.

Inductive stage := SNone | SStarting | SRunning | SFailed.   (* ACLChecklist::AsyncStage *)
Definition stage_eqb (a b : stage) : bool :=
  match a, b with SNone, SNone | SStarting, SStarting | SRunning, SRunning | SFailed, SFailed => true | _, _ => false end.

Definition crumb := (N * N)%type.   (* Breadcrumb with a non-nil parent *)
(* Breadcrumb::operator== : parent == b.parent && (!parent || position == b.position) *)
Definition crumb_eqb (a b : option crumb) : bool :=
  match a, b with
  | None, None => true
  | Some (p, i), Some (q, j) => (p =? q) && (i =? j)
  | _, _ => false
  end.

Record st := mkSt {
  asyncCaller : bool;
  finished : bool;
  ans : answer;
  stg : stage;
  matchLoc : option crumb;
  asyncLoc : option crumb;
  depth : N;
  path : list crumb;
  banned : list answer;
  lastName : option N;
  lastMatch : option N;
  cbk : option answer;
  err : bool;
  lrem : N -> list att;
  pending : option N;
  trace : list N;
  starts : N;
  susp : N
}.
Definition set_asyncCaller (v : bool) (c : st) : st :=
  mkSt v (finished c) (ans c) (stg c) (matchLoc c) (asyncLoc c) (depth c) (path c) (banned c) (lastName c) (lastMatch c) (cbk c) (err c) (lrem c) (pending c) (trace c) (starts c) (susp c).
Definition set_finished (v : bool) (c : st) : st :=
  mkSt (asyncCaller c) v (ans c) (stg c) (matchLoc c) (asyncLoc c) (depth c) (path c) (banned c) (lastName c) (lastMatch c) (cbk c) (err c) (lrem c) (pending c) (trace c) (starts c) (susp c).
Definition set_ans (v : answer) (c : st) : st :=
  mkSt (asyncCaller c) (finished c) v (stg c) (matchLoc c) (asyncLoc c) (depth c) (path c) (banned c) (lastName c) (lastMatch c) (cbk c) (err c) (lrem c) (pending c) (trace c) (starts c) (susp c).
Definition set_stg (v : stage) (c : st) : st :=
  mkSt (asyncCaller c) (finished c) (ans c) v (matchLoc c) (asyncLoc c) (depth c) (path c) (banned c) (lastName c) (lastMatch c) (cbk c) (err c) (lrem c) (pending c) (trace c) (starts c) (susp c).
Definition set_matchLoc (v : option crumb) (c : st) : st :=
  mkSt (asyncCaller c) (finished c) (ans c) (stg c) v (asyncLoc c) (depth c) (path c) (banned c) (lastName c) (lastMatch c) (cbk c) (err c) (lrem c) (pending c) (trace c) (starts c) (susp c).
Definition set_asyncLoc (v : option crumb) (c : st) : st :=
  mkSt (asyncCaller c) (finished c) (ans c) (stg c) (matchLoc c) v (depth c) (path c) (banned c) (lastName c) (lastMatch c) (cbk c) (err c) (lrem c) (pending c) (trace c) (starts c) (susp c).
Definition set_depth (v : N) (c : st) : st :=
  mkSt (asyncCaller c) (finished c) (ans c) (stg c) (matchLoc c) (asyncLoc c) v (path c) (banned c) (lastName c) (lastMatch c) (cbk c) (err c) (lrem c) (pending c) (trace c) (starts c) (susp c).
Definition set_path (v : list crumb) (c : st) : st :=
  mkSt (asyncCaller c) (finished c) (ans c) (stg c) (matchLoc c) (asyncLoc c) (depth c) v (banned c) (lastName c) (lastMatch c) (cbk c) (err c) (lrem c) (pending c) (trace c) (starts c) (susp c).
Definition set_banned (v : list answer) (c : st) : st :=
  mkSt (asyncCaller c) (finished c) (ans c) (stg c) (matchLoc c) (asyncLoc c) (depth c) (path c) v (lastName c) (lastMatch c) (cbk c) (err c) (lrem c) (pending c) (trace c) (starts c) (susp c).
Definition set_lastName (v : option N) (c : st) : st :=
  mkSt (asyncCaller c) (finished c) (ans c) (stg c) (matchLoc c) (asyncLoc c) (depth c) (path c) (banned c) v (lastMatch c) (cbk c) (err c) (lrem c) (pending c) (trace c) (starts c) (susp c).
Definition set_lastMatch (v : option N) (c : st) : st :=
  mkSt (asyncCaller c) (finished c) (ans c) (stg c) (matchLoc c) (asyncLoc c) (depth c) (path c) (banned c) (lastName c) v (cbk c) (err c) (lrem c) (pending c) (trace c) (starts c) (susp c).
Definition set_cbk (v : option answer) (c : st) : st :=
  mkSt (asyncCaller c) (finished c) (ans c) (stg c) (matchLoc c) (asyncLoc c) (depth c) (path c) (banned c) (lastName c) (lastMatch c) v (err c) (lrem c) (pending c) (trace c) (starts c) (susp c).
Definition set_err (v : bool) (c : st) : st :=
  mkSt (asyncCaller c) (finished c) (ans c) (stg c) (matchLoc c) (asyncLoc c) (depth c) (path c) (banned c) (lastName c) (lastMatch c) (cbk c) v (lrem c) (pending c) (trace c) (starts c) (susp c).
Definition set_lrem (v : N -> list att) (c : st) : st :=
  mkSt (asyncCaller c) (finished c) (ans c) (stg c) (matchLoc c) (asyncLoc c) (depth c) (path c) (banned c) (lastName c) (lastMatch c) (cbk c) (err c) v (pending c) (trace c) (starts c) (susp c).
Definition set_pending (v : option N) (c : st) : st :=
  mkSt (asyncCaller c) (finished c) (ans c) (stg c) (matchLoc c) (asyncLoc c) (depth c) (path c) (banned c) (lastName c) (lastMatch c) (cbk c) (err c) (lrem c) v (trace c) (starts c) (susp c).
Definition set_trace (v : list N) (c : st) : st :=
  mkSt (asyncCaller c) (finished c) (ans c) (stg c) (matchLoc c) (asyncLoc c) (depth c) (path c) (banned c) (lastName c) (lastMatch c) (cbk c) (err c) (lrem c) (pending c) v (starts c) (susp c).
Definition set_starts (v : N) (c : st) : st :=
  mkSt (asyncCaller c) (finished c) (ans c) (stg c) (matchLoc c) (asyncLoc c) (depth c) (path c) (banned c) (lastName c) (lastMatch c) (cbk c) (err c) (lrem c) (pending c) (trace c) v (susp c).
Definition set_susp (v : N) (c : st) : st :=
  mkSt (asyncCaller c) (finished c) (ans c) (stg c) (matchLoc c) (asyncLoc c) (depth c) (path c) (banned c) (lastName c) (lastMatch c) (cbk c) (err c) (lrem c) (pending c) (trace c) (starts c) v.

Definition upd {A} (f : N -> A) (i : N) (v : A) : N -> A := fun j => if j =? i then v else f j.
Definition is_none {A} (o : option A) : bool := match o with None => true | Some _ => false end.

(* inline accessors of Checklist.h *)
Definition asyncInProgress (c : st) : bool := negb (stage_eqb (stg c) SNone).
Definition keepMatching (c : st) : bool := negb (finished c) && negb (asyncInProgress c).

(* ACLChecklist::markFinished *)
Definition markFinished (a : answer) (c : st) : st :=
  let c := if finished c || asyncInProgress c then set_err true c else c in   (* assert *)
  set_ans (mkAns (acode a) (akind a) (aimplicit a) (lastName c)) (set_finished true c).

(* ACLChecklist::bannedAction *)
Definition bannedAction (c : st) (a : answer) : bool := existsb (answer_eqb a) (banned c).

(* ---------- the scripted leaf ---------- *)
Section Scripts.
Variable scr : N -> lscript.

(* ACLChecklist::resumeNonBlockingCheck, first branch only ("oops, we did not really go async");
   this is all a starter can reach because goAsync() has just set asyncStarting *)
Definition resume_early (c : st) : st :=
  if stage_eqb (stg c) SStarting then set_stg SFailed c else set_err true c.

(* HLeaf::Starter of the harness *)
Definition starter (i : N) (a : att) (c : st) : st :=
  let c := set_starts (starts c + 1) c in
  match a with
  | Real => set_pending (Some i) c
  | Fake => resume_early (set_lrem (upd (lrem c) i (tl (lrem c i))) c)
  end.

(* ACLChecklist::goAsync(starter, acl) called by leaf i whose next lookup behaves as a *)
Definition goAsync (i : N) (a : att) (c : st) : bool * st :=
  if asyncInProgress c || is_none (matchLoc c) then (false, set_err true c)        (* asserts *)
  else if negb (asyncCaller c) then (false, c)                                       (* fast-only directive *)
  else if crumb_eqb (matchLoc c) (asyncLoc c) && (5 <? depth c) then (false, c)      (* async loop *)
  else
    let c1 := set_stg SStarting (set_depth (depth c + 1) (set_asyncLoc (matchLoc c) c)) in
    let c2 := starter i a c1 in
    if negb (stage_eqb (stg c2) SStarting) then
      if stage_eqb (stg c2) SFailed then (false, set_stg SNone c2)
      else (false, set_err true c2)                                                  (* assert *)
    else (true, set_stg SRunning c2).

(* HLeaf::match of the harness: while lookups are missing, try to go async *)
Fixpoint leaf_loop (i : N) (s : lscript) (atts : list att) (c : st) : Z * st :=
  match atts with
  | [] => ((if truth s then 1 else 0)%Z, c)
  | a :: rest =>
      let '(ok, c1) := goAsync i a c in
      if ok then ((-1)%Z, c1)
      else if negb (retry s) then (0%Z, c1)
      else if lenN (lrem c1 i) =? lenN (lrem c i) then (0%Z, c1)     (* done == before *)
      else leaf_loop i s rest c1
  end.

(* Acl::Node::matches for a leaf: setLastCheckedName; match(); result == 1 *)
Definition leaf_matches (i : N) (c : st) : bool * st :=
  let c0 := set_trace (i :: trace c) (set_lastName (Some i) c) in
  let '(r, c1) := leaf_loop i (scr i) (lrem c0 i) c0 in
  ((r =? 1)%Z, c1).

(* ---------- ACLChecklist::matchChild ---------- *)
(* start = None: child->matches(this); start = Some pos: child->resumeMatchingAt(this, pos) *)
Definition runner := option N -> st -> bool * st.

Definition matchChild (cur pos : N) (child_id : N) (child : runner) (c : st) : bool * st :=
  let c1 := set_depth 0 (set_matchLoc (Some (cur, pos)) c) in
  let '(result, c2) :=
    match path c1 with
    | [] => child None c1
    | top :: rest =>
        if fst top =? child_id                                   (* assert(child == top.parent) *)
        then child (Some (snd top)) (set_path rest c1)
        else (false, set_err true c1)
    end in
  let c3 := if asyncInProgress c2 then set_path ((cur, pos) :: path c2) c2
            else set_asyncLoc None c2 in
  (result, set_matchLoc None c3).

(* ---------- doMatch of the inner nodes (BoolOps.cc, AllOf.cc) ---------- *)
Definition kids := list (N * runner).

(* Acl::NotNode::doMatch / Acl::AllOf::doMatch share the shape "one child at nodes.begin()" *)
Definition not_match (cur start : N) (l : kids) (c : st) : Z * st :=
  if negb (start =? 0) then (0%Z, set_err true c)                (* assert(start == nodes.begin()) *)
  else match l with
       | [] => (0%Z, set_err true c)                             (* *nodes.begin() of an empty vector *)
       | (cid, run) :: _ =>
           let '(b, c1) := matchChild cur 0 cid run c in
           if b then (0%Z, c1)
           else if negb (keepMatching c1) then ((-1)%Z, c1)
           else (1%Z, c1)
       end.

Definition allof_match (cur start : N) (l : kids) (c : st) : Z * st :=
  if negb (start =? 0) then (0%Z, set_err true c)                (* assert(start == nodes.begin()) *)
  else match l with
       | [] => (1%Z, c)                                          (* empty() *)
       | (cid, run) :: _ =>
           let '(b, c1) := matchChild cur 0 cid run c in
           if b then (1%Z, c1)
           else ((if keepMatching c1 then 0 else -1)%Z, c1)
       end.

(* Acl::AndNode::doMatch: for (i = start; i != nodes.end(); ++i); idx is the index of the head of l *)
Fixpoint and_loop (cur start idx : N) (l : kids) (c : st) : Z * st :=
  match l with
  | [] => (1%Z, c)
  | (cid, run) :: l' =>
      if idx <? start then and_loop cur start (idx + 1) l' c
      else
        let '(b, c1) := matchChild cur idx cid run c in
        if negb b then ((if keepMatching c1 then 0 else -1)%Z, c1)
        else and_loop cur start (idx + 1) l' c1
  end.

(* Acl::OrNode::doMatch; isbanned = the virtual bannedAction(checklist, i); record = this node is
   the root Acl::Tree, whose lastMatch_ is read by winningAction() *)
Fixpoint or_loop (isbanned : st -> N -> bool) (record : bool) (cur start idx : N) (l : kids) (c : st) : Z * st :=
  match l with
  | [] => (0%Z, c)
  | (cid, run) :: l' =>
      if idx <? start then or_loop isbanned record cur start (idx + 1) l' c
      else if isbanned c idx then or_loop isbanned record cur start (idx + 1) l' c
      else
        let '(b, c1) := matchChild cur idx cid run c in
        if b then (1%Z, if record then set_lastMatch (Some idx) c1 else c1)
        else if negb (keepMatching c1) then ((-1)%Z, c1)
        else or_loop isbanned record cur start (idx + 1) l' c1
  end.

Definition doMatch (k : kind) (cur start : N) (l : kids) (c : st) : Z * st :=
  match k with
  | KNot => not_match cur start l c
  | KAnd => and_loop cur start 0 l c
  | KOr | KAnyOf => or_loop (fun _ _ => false) false cur start 0 l c     (* OrNode::bannedAction: false *)
  | KAllOf => allof_match cur start l c
  end.

(* Acl::Node::matches (start = None) and Acl::InnerNode::resumeMatchingAt (start = Some pos) *)
Fixpoint node_run (n : node) (start : option N) (c : st) {struct n} : bool * st :=
  match n with
  | Leaf i =>
      match start with
      | None => leaf_matches i c
      | Some _ => (false, set_err true c)        (* a Breadcrumb parent is an InnerNode *)
      end
  | Inner i k cs =>
      let l := map (fun x => (node_id x, node_run x)) cs in
      match start with
      | None => let '(r, c1) := doMatch k i 0 l (set_lastName (Some i) c) in ((r =? 1)%Z, c1)
      | Some p => let '(r, c1) := doMatch k i p l c in ((r =? 1)%Z, c1)
      end
  end.

(* ---------- Acl::Tree (Tree.cc) ---------- *)
Definition nth_action (t : tree) (pos : N) : answer :=
  match nthN pos (actions t) with Some a => a | None => action Dunno 0 end.

(* Acl::Tree::bannedAction *)
Definition tree_banned (t : tree) (c : st) (pos : N) : bool :=
  match actions t with
  | [] => false
  | _ => bannedAction c (nth_action t pos)
  end.

(* the root: Acl::Node::matches / resumeMatchingAt on the Acl::Tree (an OrNode) *)
Definition tree_run (t : tree) (start : option N) (c : st) : bool * st :=
  let l := map (fun x => (node_id x, node_run x)) (rules t) in
  match start with
  | None =>
      let '(r, c1) := or_loop (tree_banned t) true (tid t) 0 0 l
                        (set_lastMatch None (set_lastName (Some (tid t)) c)) in ((r =? 1)%Z, c1)
  | Some p =>
      let '(r, c1) := or_loop (tree_banned t) true (tid t) p 0 l (set_lastMatch None c) in ((r =? 1)%Z, c1)
  end.

(* Acl::Tree::winningAction = actionAt(lastMatch_ - nodes.begin()) *)
Definition winningAction (t : tree) (c : st) : answer * bool (* assert failed *) :=
  match lastMatch c with
  | None => (action Dunno 0, true)                                (* assert(pos < nodes.size()) *)
  | Some pos =>
      if lenN (rules t) <=? pos then (action Dunno 0, true)
      else match actions t with
           | [] => (action Allowed 0, false)
           | _ => (nth_action t pos, false)
           end
  end.

(* Acl::Tree::lastAction *)
Definition lastAction (t : tree) : answer := last (actions t) (action Dunno 0).

(* either all rules have actions or none (asserted by Tree::add and Tree::actionAt) *)
Definition tree_ok (t : tree) : bool :=
  match actions t with [] => true | _ => lenN (actions t) =? lenN (rules t) end.

(* ---------- Checklist.cc, top level ---------- *)
Definition matchAndFinish (t : tree) (c : st) : st :=
  let '(result, c1) :=
    match path c with
    | [] => tree_run t None c
    | top :: rest =>
        if fst top =? tid t then tree_run t (Some (snd top)) (set_path rest c)
        else (false, set_err true c)          (* the model resumes only at the root *)
    end in
  if result then
    let '(a, bad) := winningAction t c1 in
    markFinished a (if bad then set_err true c1 else c1)
  else c1.

Definition calcImplicitAnswer (t : tree) (c : st) : st :=
  let la := lastAction t in
  let co := match acode la with Denied => Allowed | Allowed => Denied | _ => Dunno end in
  markFinished (mkAns co 0 true None) c.

Definition preCheck (c : st) : st :=
  set_finished false (set_lastName None (set_depth 0 c)).

(* checkCallback(nullptr): Assure(finished()); callback_(currentAnswer(), ...) *)
Definition checkCallback (c : st) : st :=
  let c := if finished c then c else set_err true c in
  set_cbk (Some (ans c)) c.

Definition completeNonBlocking (t : tree) (c : st) : st :=
  let c := if asyncInProgress c then set_err true c else c in          (* assert *)
  let c := if finished c then c else calcImplicitAnswer t c in
  checkCallback c.

Definition nonBlockingCheck (t : tree) (c : st) : st :=
  let c := set_asyncCaller true (preCheck c) in
  let c := matchAndFinish t c in
  if asyncInProgress c then c else completeNonBlocking t c.

Definition resumeNonBlockingCheck (t : tree) (c : st) : st :=
  if stage_eqb (stg c) SStarting then set_stg SFailed c
  else
    let c := if stage_eqb (stg c) SRunning then c else set_err true c in   (* assert *)
    let c := set_stg SNone c in
    let c := match path c with [] => set_err true c | _ => c end in        (* assert(!matchPath.empty()) *)
    let c := if finished c then c else matchAndFinish t c in
    if asyncInProgress c
    then match path c with [] => set_err true c | _ => c end               (* assert *)
    else completeNonBlocking t c.

(* const Acl::Answer &fastCheck() *)
Definition fastCheck (t : tree) (c : st) : st :=
  let c := set_asyncCaller false (preCheck c) in
  let c := matchAndFinish t c in
  if finished c then c else calcImplicitAnswer t c.

(* fastCheck(list): const Acl::Answer &fastCheck(const ACLList ptr) *)
Definition fastCheckList (t : tree) (c : st) : st :=
  let c := set_asyncCaller false (preCheck c) in
  let c := matchAndFinish t c in
  if finished c then c else markFinished (action Denied 0) c.

(* ---------- the environment: completion of the pending lookup (harness main loop) ---------- *)
Definition deliver (i : N) (c : st) : st :=
  set_susp (susp c + 1) (set_lrem (upd (lrem c) i (tl (lrem c i))) (set_pending None c)).

Fixpoint nb_loop (fuel : nat) (t : tree) (c : st) : option st :=
  match cbk c with
  | Some _ => Some c
  | None =>
      match fuel with
      | O => None                                             (* out of fuel: excluded by the theorems *)
      | S f =>
          match pending c with
          | None => Some (set_err true c)                     (* stuck: no answer, nothing pending *)
          | Some i => nb_loop f t (resumeNonBlockingCheck t (deliver i c))
          end
      end
  end.

End Scripts.

(* ---------- entry points used by the runner ---------- *)
Definition init_st (bans : list answer) (lr : N -> list att) : st :=
  mkSt false false (action Denied 0) SNone None None 0 [] bans None None None false lr None [] 0 0.

Fixpoint lookup_script (tbl : list (N * lscript)) (i : N) : lscript :=
  match tbl with
  | [] => mkScript false false []
  | (j, s) :: r => if j =? i then s else lookup_script r i
  end.

(* all leaf occurrences of a tree; the fuel of the suspend/resume loop is one more than the number of
   lookups they can start *)
Fixpoint leaf_ids (n : node) : list N :=
  match n with Leaf i => [i] | Inner _ _ cs => flat_map leaf_ids cs end.
Definition tree_leaf_ids (t : tree) : list N := flat_map leaf_ids (rules t).
Definition tree_attempts (scr : N -> lscript) (t : tree) : nat :=
  fold_right (fun i acc => (length (attempts (scr i)) + acc)%nat) O (tree_leaf_ids t).

Inductive mode := MNonBlocking | MFast | MFastList.

(* result: None = out of fuel *)
Definition run_check (m : mode) (t : tree) (bans : list answer) (tbl : list (N * lscript)) : option st :=
  let scr := lookup_script tbl in
  let c0 := init_st bans (fun i => attempts (scr i)) in
  if negb (tree_ok t) then Some (set_err true c0) else
  match m with
  | MNonBlocking => nb_loop scr (S (tree_attempts scr t)) t (nonBlockingCheck scr t c0)
  | MFast => Some (fastCheck scr t c0)
  | MFastList => Some (fastCheckList scr t c0)
  end.

Definition final_answer (m : mode) (c : st) : answer :=
  match m with
  | MNonBlocking => match cbk c with Some a => a | None => ans c end
  | _ => ans c
  end.

(* ---------- reference semantics: recursive first-match evaluation (the specification) ---------- *)
(* The worth of a scripted leaf: its truth value once all its lookups have completed. A lookup that is
   refused (ac = false: fast check; k >= 6: the seventh goAsync() call of one match() invocation) or that
   does not really go asynchronous makes the leaf a mismatch, unless the leaf retries (rt) successfully. *)
Fixpoint lval_k (ac rt tr : bool) (k : nat) (atts : list att) : bool :=
  match atts with
  | [] => tr
  | a :: rest =>
      if negb ac then false
      else if (6 <=? k)%nat then false
      else match a with
           | Real => lval_k ac rt tr 0 rest
           | Fake => if rt then lval_k ac rt tr (S k) rest else false
           end
  end.
Definition leaf_value (nonblocking : bool) (s : lscript) : bool :=
  lval_k nonblocking (retry s) (truth s) 0 (attempts s).

(* does the expression match, given the values of the leaves *)
Fixpoint eval (v : N -> bool) (n : node) : bool :=
  match n with
  | Leaf i => v i
  | Inner _ k cs =>
      match k with
      | KNot => match cs with x :: _ => negb (eval v x) | [] => false end
      | KAnd => forallb (eval v) cs
      | KOr | KAnyOf => existsb (eval v) cs
      | KAllOf => match cs with x :: _ => eval v x | [] => true end     (* all-of keeps its lines under one child *)
      end
  end.

(* index (counted from idx) of the first rule that is not banned and matches *)
Fixpoint first_from (v : N -> bool) (isb : N -> bool) (idx : N) (l : list node) : option N :=
  match l with
  | [] => None
  | x :: r => if negb (isb idx) && eval v x then Some idx else first_from v isb (idx + 1) r
  end.

Definition rule_banned (t : tree) (bans : list answer) (pos : N) : bool :=
  match actions t with
  | [] => false
  | _ => existsb (answer_eqb (nth_action t pos)) bans
  end.

Definition opposite (c : code) : code :=
  match c with Denied => Allowed | Allowed => Denied | _ => Dunno end.

(* the decision: (code, kind, implicit) *)
Definition decide (m : mode) (v : N -> bool) (t : tree) (bans : list answer) : code * N * bool :=
  match first_from v (rule_banned t bans) 0 (rules t) with
  | Some pos =>
      match actions t with
      | [] => (Allowed, 0, false)
      | _ => (acode (nth_action t pos), akind (nth_action t pos), false)
      end
  | None =>
      match m with
      | MFastList => (Denied, 0, false)
      | _ => (opposite (acode (last (actions t) (action Dunno 0))), 0, true)
      end
  end.

(* trees that the configuration code can build: a NotNode always has its (single) operand *)
Fixpoint wf_node (n : node) : bool :=
  match n with
  | Leaf _ => true
  | Inner _ k cs =>
      match k, cs with KNot, [] => false | _, _ => true end && forallb wf_node cs
  end.

(* actions configured in a tree are built with Answer(code, kind): never marked implicit *)
Definition explicit_actions (t : tree) : bool := forallb (fun a => negb (aimplicit a)) (actions t).

(* the observable part of an answer *)
Definition result (a : answer) : code * N * bool := (acode a, akind a, aimplicit a).

Definition is_real (a : att) : bool := match a with Real => true | Fake => false end.

(* a leaf ACL object that is used at several places of the tree never starts a lookup (the theorems cover
   shared synchronous ACLs; leaves that may go asynchronous must occur once) *)
Definition shared_leaves_sync (t : tree) (tbl : list (N * lscript)) : Prop :=
  forall l1 l2 j, tree_leaf_ids t = l1 ++ l2 -> In j l1 -> In j l2 -> attempts (lookup_script tbl j) = [].

(* a checkable sufficient condition *)
Definition shared_leaves_sync_b (t : tree) (tbl : list (N * lscript)) : bool :=
  forallb (fun j => (count_occ N.eq_dec (tree_leaf_ids t) j <=? 1)%nat
                    || match attempts (lookup_script tbl j) with [] => true | _ => false end)
          (tree_leaf_ids t).
