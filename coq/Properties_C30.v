(* Properties_C30.v — C30: URI parsing is canonical and validates authority.
   Statements only; proofs live in UriProofs.v.  `ipq` is the Ip::Address oracle (Section variable
   of UriProofs.v, here an explicit argument) and `ipq_contract` its assumed contract. *)
Require Import SquidV.Bytes SquidV.TokModel SquidV.QuoteModel SquidV.UriModel SquidV.UriProofs.
Require Import SquidV.gen.Uri_gen.
Local Open Scope N_scope.

(* ---- (1) what every accepted URI looks like ---- *)

(* the host of an accepted URI (any method, any configuration) has no upper-case letter *)
Theorem C30_accepted_host_is_lowercase : forall ipq c m raw u,
  ipq_contract ipq -> parse c ipq m raw = Some u -> s_id (u_scheme u) <> uri_PROTO_URN ->
  forallb (fun x => negb ((65 <=? x) && (x <=? 90))) (u_host u) = true.
Proof. exact accepted_host_lowercase. Qed.
Print Assumptions C30_accepted_host_is_lowercase.

(* its port is in 1..65535 *)
Theorem C30_accepted_port_in_range : forall ipq c m raw u,
  parse c ipq m raw = Some u -> s_id (u_scheme u) <> uri_PROTO_URN ->
  exists p, u_port u = Some p /\ 1 <= p <= 65535.
Proof. exact accepted_port_in_range. Qed.
Print Assumptions C30_accepted_port_in_range.

(* "no empty labels" is FALSE as stated: the empty host ("http://./", "http://:80/") and a host cut
   at 255 bytes by Uri::host() ("http://aaa...a.b/") are accepted *)
Theorem C30_accepted_host_no_empty_labels_refuted_empty_host :
  exists ipq c m raw u, ipq_contract ipq /\ parse c ipq m raw = Some u /\
    s_id (u_scheme u) <> uri_PROTO_URN /\ u_num u = false /\ no_empty_label (u_host u) = false.
Proof. exact no_empty_labels_refuted_empty_host. Qed.
Print Assumptions C30_accepted_host_no_empty_labels_refuted_empty_host.

Theorem C30_accepted_host_no_empty_labels_refuted_truncated_host :
  exists ipq c m raw u, ipq_contract ipq /\ parse c ipq m raw = Some u /\
    s_id (u_scheme u) <> uri_PROTO_URN /\ u_num u = false /\ u_host u <> [] /\
    no_empty_label (u_host u) = false.
Proof. exact no_empty_labels_refuted_truncated_host. Qed.
Print Assumptions C30_accepted_host_no_empty_labels_refuted_truncated_host.

(* what holds: a non-empty host that is not an IP literal and shorter than the 255-byte cut
   splits at '.' into non-empty labels only.  Missing for the full statement: the two cases above. *)
Theorem C30_accepted_host_no_empty_labels_partial : forall ipq c m raw u,
  parse c ipq m raw = Some u -> s_id (u_scheme u) <> uri_PROTO_URN ->
  u_num u = false -> u_host u <> [] -> lenN (u_host u) < uri_SQUIDHOSTNAMELEN - 1 ->
  no_empty_label (u_host u) = true.
Proof. exact accepted_host_labels_partial. Qed.
Print Assumptions C30_accepted_host_no_empty_labels_partial.

(* ---- (2) canonical form: refutations ---- *)

(* F14: "http://example.com/a?b=c" -> "http://example.com/a%3Fb=c" -> a different path *)
Theorem C30_canonical_reparse_refuted_query :
  exists ipq c m raw u u', ipq_contract ipq /\ parse c ipq m raw = Some u /\
    parse c ipq m (canonical m u) = Some u' /\ u_path u' <> u_path u.
Proof. exact canonical_reparse_refuted_query. Qed.
Print Assumptions C30_canonical_reparse_refuted_query.

(* "http://[a:80/" is accepted with host "a:80"; its canonical form "http://a:80/" names host "a" *)
Theorem C30_canonical_reparse_refuted_colon_host :
  exists ipq c m raw u u', ipq_contract ipq /\ parse c ipq m raw = Some u /\
    parse c ipq m (canonical m u) = Some u' /\ u_host u' <> u_host u.
Proof. exact canonical_reparse_refuted_colon_host. Qed.
Print Assumptions C30_canonical_reparse_refuted_colon_host.

(* "http://./" is accepted with an empty host; its canonical form "http:///" is rejected *)
Theorem C30_canonical_reparse_refuted_empty_host :
  exists ipq c m raw u, ipq_contract ipq /\ parse c ipq m raw = Some u /\
    parse c ipq m (canonical m u) = None.
Proof. exact canonical_reparse_refuted_empty_host. Qed.
Print Assumptions C30_canonical_reparse_refuted_empty_host.

(* ---- hypotheses are satisfiable ---- *)
Example C30_ex_accepted :
  exists u, parse cfg_default no_ip m_get w_query = Some u /\ s_id (u_scheme u) <> uri_PROTO_URN /\
            u_num u = false /\ u_host u <> [] /\ lenN (u_host u) < uri_SQUIDHOSTNAMELEN - 1.
Proof. eexists. split; [vm_compute; reflexivity|]. repeat split; vm_compute; discriminate || reflexivity. Qed.
