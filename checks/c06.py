"""C06: CONNECT tunnels relay both directions unchanged (end to end through the real squid)."""
import concurrent.futures, json, os, random, socket, threading, time, zlib
from vlib import std, lab, common

PID = "C06"
META = {
    "text": "Theorems (Properties_C06.v, closed under the global context) about the transcribed blind tunnel of src/tunnel.cc "
            "(tunnelStartShoveling, copyClientBytes/copyServerBytes with the preserved early client bytes, copyRead, "
            "readClient/readServer, keepGoingAfterRead, copy, writeServerDone/writeClientDone, dataSent, "
            "clientClosed/serverClosed/finishWritingAndDelete, tunnelTimeout): for ALL early byte strings and ALL event lists "
            "(peers sending any bytes in any segmentation, FINs, read completions of any size, write completions, read and "
            "write errors with partial writes, close handlers, timeouts, in any order) the bytes Squid has delivered to one "
            "side are a prefix of the bytes the other side has sent, in both directions (C06_tunnel_prefix_invariant: nothing "
            "inserted, reordered, duplicated or altered), with the exact accounting delivered ++ buffered ++ pre-read ++ "
            "unread = sent while the destination is open (C06_tunnel_accounting); when no I/O error or timeout occurs and "
            "side B's peer has not closed, Squid closes B only after every byte A sent before its FIN has been delivered to B "
            "(C06_tunnel_drain_on_close); a closed connection is never reopened or written to and a peer that sent FIN adds "
            "nothing (C06_closed_is_final); the buffer assertions (copyRead's from.len == 0, no overwrite of an unsent "
            "buffer) cannot fail (C06_no_assertion_failure). The unqualified reading 'every byte one side sends reaches the "
            "other' is REFUTED for the direction opposite to a half-close (C06_reverse_direction_cut_refuted; known finding "
            "C06-half-close-closes-both-directions, reproduced against the running squid from corpus/C06/known.jsonl). "
            "Tie: SQUID_TCP_SO_RCVBUF regenerated from the headers; the extracted model is diffed against the real squid "
            "binary between a raw TCP client and a scripted raw TCP server on random binary payloads both ways (all 256 byte "
            "values, 0..140 KB, random segmentation and interleaving, bytes sent in the same segment as the CONNECT head, "
            "half-closes by either side, also while the other side is still streaming or before it answers).",
    "note": "partial: the theorems are about the transcribed copy loops (PipetunnelModel.v part 2) over an explicit event "
            "list; that Comm delivers read/write/close callbacks as the events assume, and the CONNECT set-up path "
            "(peer selection, 200 response, hand-over of ConnStateData::inBuf), rest on the end-to-end correspondence. The "
            "opposite direction is NOT drained on a half-close: on a FIN from A Squid closes A at once, so bytes B is still "
            "sending, or sends after seeing the EOF, are cut (prefix only; witness C06_reverse_direction_cut_refuted; the "
            "third sentence of the property only promises delivery of the closing side's bytes, the second sentence read "
            "literally is violated: recorded as a known finding). Delay pools, cache_peer CONNECT and ssl-bump are not modelled. "
            "Trusted: Coq kernel, extraction, gen/gen_pipetunnel.cc, vlib/lab.py, the raw TCP stubs in this file.",
    "technique": "Coq proof (inductive invariant over all event lists of a faithful two-direction state-machine model) + "
                 "end-to-end differential correspondence of the extracted model against the running squid + independent oracle",
}


# ------------------------------------------------------------------ payloads
def chunk_bytes(ch):
    """a chunk is [n, seed] (n pseudo-random bytes) or ["all"] (the 256 byte values) or ["hex", "..."]"""
    if ch[0] == "all":
        return bytes(range(256))
    if ch[0] == "hex":
        return bytes.fromhex(ch[1])
    return random.Random(ch[1]).randbytes(ch[0])


def gen_chunks(rng, big_ok=True):
    k = rng.choice([0, 1, 1, 2, 3, 5])
    out = []
    for _ in range(k):
        r = rng.random()
        if r < 0.12:
            out.append(["all"])
        elif r < 0.2:
            out.append(["hex", rng.choice(["00", "ff", "0d0a0d0a", "485454502f312e3120323030204f4b0d0a0d0a", "0a", "00000000"])])
        elif r < 0.235 and big_ok:
            out.append([rng.choice([65534, 65535, 65536, 65536, 70000, 131072]), rng.getrandbits(30)])
        else:
            out.append([rng.choice([1, 2, 7, 100, 1460, 4096, 9000]) if rng.random() < 0.6 else rng.randrange(1, 3000), rng.getrandbits(30)])
    return out


def gen_one(rng, k):
    r = rng.random()
    early = []
    if r < 0.45:
        early = [rng.choice([["all"], [rng.randrange(1, 600), rng.getrandbits(30)], [rng.choice([1, 2000, 20000, 20000, 70000]), rng.getrandbits(30)],
                             ["hex", "474554202f20485454502f312e310d0a0d0a"]])]
    phases = []
    for _ in range(rng.choice([0, 1, 1, 2, 3])):
        phases.append({"c": gen_chunks(rng), "s": gen_chunks(rng)})
    end = rng.choice(["c_half", "c_half", "c_half", "s_half", "s_half", "s_half", "c_half_race", "c_half_race",
                      "s_half_race", "s_half_race", "c_half_reply", "s_half_reply"])
    last = None
    if end.endswith("reply"):
        # the closer sends, half-closes and waits; the other side answers only after it has seen the EOF
        last = {"c": gen_chunks(rng, False), "s": gen_chunks(rng, False)}
        other = "s" if end[0] == "c" else "c"
        if not last[other]:
            last[other] = [[rng.randrange(1, 500), rng.getrandbits(30)]]
    if end.endswith("race"):
        last = {"c": gen_chunks(rng), "s": gen_chunks(rng)}
        # the side that keeps streaming sends a lot
        last["s" if end[0] == "c" else "c"] += [[rng.choice([70000, 70000, 140000]), rng.getrandbits(30)]]
    # model-side interleaving of the internal events (by the theorems the result does not depend on it)
    msched = [rng.choice(["rC:1", "rC:70000", "rS:3", "rS:70000", "wC", "wS", "z"]) for _ in range(rng.choice([0, 2, 6]))]
    return {"early": early, "phases": phases, "end": end, "last": last, "msched": msched, "k": k}


def gen_scenarios(rng, n):
    return [gen_one(rng, k) for k in range(n)]


def all_bytes(chs):
    return b"".join(chunk_bytes(c) for c in chs)


def summ(b):
    return "%d:%d" % (len(b), zlib.adler32(b) & 0xffffffff)


def hx(b):
    return b.hex() if b else "-"


def to_case(s):
    ev = ["z"]
    ms = list(s["msched"])
    for ph in s["phases"]:
        cs, ss = list(ph["c"]), list(ph["s"])
        while cs or ss:
            if cs:
                ev.append("sC:" + hx(chunk_bytes(cs.pop(0))))
            if ss:
                ev.append("sS:" + hx(chunk_bytes(ss.pop(0))))
            if ms:
                ev.append(ms.pop(0))
        ev.append("z")
    end = s["end"]
    racy = "-"
    if end == "c_half":
        ev += ["fC", "z"]
    elif end == "s_half":
        ev += ["fS", "z"]
    elif end.endswith("reply"):
        closer, replier = ("C", "S") if end[0] == "c" else ("S", "C")
        last = s["last"]
        for ch in last["c" if closer == "C" else "s"]:
            ev.append("s%s:%s" % (closer, hx(chunk_bytes(ch))))
        ev += ["f" + closer, "z"]
        for ch in last["s" if closer == "C" else "c"]:
            ev.append("s%s:%s" % (replier, hx(chunk_bytes(ch))))
        ev.append("z")
    else:
        closer, streamer = ("C", "S") if end[0] == "c" else ("S", "C")
        last = s["last"]
        for ch in last["c" if closer == "C" else "s"]:
            ev.append("s%s:%s" % (closer, hx(chunk_bytes(ch))))
        ev.append("f" + closer)
        for ch in last["s" if closer == "C" else "c"]:
            ev.append("s%s:%s" % (streamer, hx(chunk_bytes(ch))))
            if ms:
                ev.append(ms.pop(0))
        ev.append("z")
        racy = "s2c" if closer == "C" else "c2s"
    ev = [e for e in ev if not e.endswith(":-")]
    return "tun.run %s %s %s" % (racy, hx(all_bytes(s["early"])), " ".join(ev))


# ------------------------------------------------------------------ raw TCP peers
class Peer:
    """one end of the tunnel: plays a script on a connected socket and records every byte received"""
    def __init__(self):
        self.got = b""
        self.eof = False
        self.err = None

    def play(self, c, script, pre=b""):
        self.got = pre
        c.settimeout(6)
        for act in script:
            try:
                if act[0] == "send":
                    if self.err is None:
                        c.sendall(act[1])
                        if act[2]:
                            time.sleep(act[2])
                elif act[0] == "recv":          # barrier: until `n` bytes were received in total
                    while len(self.got) < act[1] and not self.eof:
                        d = c.recv(262144)
                        if not d:
                            self.eof = True
                        self.got += d
                elif act[0] == "shut":
                    c.shutdown(socket.SHUT_WR)
                elif act[0] == "eof":
                    while not self.eof:
                        d = c.recv(262144)
                        if not d:
                            self.eof = True
                        self.got += d
            except (ConnectionResetError, BrokenPipeError) as ex:
                # the peer (squid) closed while we were still sending: what was queued for us is still readable
                if act[0] != "send":
                    self.eof = True
                self.err = type(ex).__name__
            except (OSError, socket.timeout) as ex:
                self.err = type(ex).__name__
                break
        try:
            c.close()
        except OSError:
            pass


class Target(Peer):
    """scripted raw TCP server for one tunnel (one listener per scenario, so no routing is needed)"""
    def __init__(self, script):
        Peer.__init__(self)
        self.script = script
        self.done = threading.Event()
        self.ls = socket.socket()
        self.ls.setsockopt(socket.SOL_SOCKET, socket.SO_REUSEADDR, 1)
        self.ls.bind(("127.0.0.1", 0))
        self.ls.listen(2)
        self.port = self.ls.getsockname()[1]
        self.accepted = False
        threading.Thread(target=self.run, daemon=True).start()

    def run(self):
        try:
            self.ls.settimeout(6)
            c, _ = self.ls.accept()
            self.accepted = True
            self.play(c, self.script)
        except (OSError, socket.timeout) as ex:
            self.err = type(ex).__name__
        finally:
            try:
                self.ls.close()
            except OSError:
                pass
            self.done.set()


def scripts(s, rng):
    """(client script, server script): both sides send their chunks of a phase and then wait until they have
    received everything the other side sent so far"""
    early = all_bytes(s["early"])
    cs, ss = [], []
    c_sent, s_sent = len(early), 0
    if early:
        ss.append(("recv", c_sent))
    for ph in s["phases"]:
        for ch in ph["c"]:
            b = chunk_bytes(ch); cs.append(("send", b, rng.choice([0, 0, 0.002, 0.01]))); c_sent += len(b)
        for ch in ph["s"]:
            b = chunk_bytes(ch); ss.append(("send", b, rng.choice([0, 0, 0.002, 0.01]))); s_sent += len(b)
        cs.append(("recv", s_sent))
        ss.append(("recv", c_sent))
    end = s["end"]
    if end == "c_half":
        cs += [("shut",), ("eof",)]; ss += [("eof",)]
    elif end == "s_half":
        ss += [("shut",), ("eof",)]; cs += [("eof",)]
    elif end.endswith("reply"):
        last = s["last"]
        closer, replier = (cs, ss) if end[0] == "c" else (ss, cs)
        for ch in last["c" if end[0] == "c" else "s"]:
            closer.append(("send", chunk_bytes(ch), 0))
        closer += [("shut",), ("eof",)]
        replier.append(("eof",))
        for ch in last["s" if end[0] == "c" else "c"]:
            replier.append(("send", chunk_bytes(ch), 0))
    else:
        last = s["last"]
        closer, streamer = (cs, ss) if end[0] == "c" else (ss, cs)
        for ch in last["c" if end[0] == "c" else "s"]:
            closer.append(("send", chunk_bytes(ch), 0))
        closer += [("shut",), ("eof",)]
        for ch in last["s" if end[0] == "c" else "c"]:
            streamer.append(("send", chunk_bytes(ch), 0))
        streamer += [("eof",)]
    return cs, ss


def sent_by(s):
    """(all bytes the client sends after the CONNECT head, all bytes the server sends), in order"""
    c = all_bytes(s["early"]); v = b""
    for ph in s["phases"] + ([s["last"]] if s["last"] else []):
        c += all_bytes(ph["c"]); v += all_bytes(ph["s"])
    return c, v


_state = {}


def _one(args):
    sq, s, sid = args
    rng = random.Random(sid * 7919 + s.get("k", 0))
    cscript, sscript = scripts(s, rng)
    t = Target(sscript)
    cl = Peer()
    head = b""
    try:
        c = socket.create_connection(("127.0.0.1", sq.port), timeout=5)
        c.sendall(b"CONNECT 127.0.0.1:%d HTTP/1.1\r\nHost: 127.0.0.1:%d\r\n\r\n" % (t.port, t.port) + all_bytes(s["early"]))
        c.settimeout(6)
        buf = b""
        while b"\r\n\r\n" not in buf:
            d = c.recv(262144)
            if not d:
                break
            buf += d
        if b"\r\n\r\n" not in buf:
            c.close()
            t.done.wait(8)
            return "noreply %r" % buf[:60]
        head, rest = buf.split(b"\r\n\r\n", 1)
        cl.play(c, cscript, pre=rest)
    except (OSError, socket.timeout) as ex:
        return "clienterror %s" % type(ex).__name__
    t.done.wait(10)
    status = head.split(b"\r\n")[0]
    if not status.startswith(b"HTTP/1.1 200"):
        return "status %r" % status[:40]
    csent, ssent = sent_by(s)
    end = s["end"]

    def direction(got, sent, racy):
        if not racy:
            return summ(got)
        return "P" if sent.startswith(got) else "X%d" % len(got)
    return "c2s=%s s2c=%s ceof=%d seof=%d crash=0" % (direction(t.got, csent, end == "s_half_race"),
                                                     direction(cl.got, ssent, end == "c_half_race"),
                                                     1 if cl.eof else 0, 1 if t.eof else 0)


def run_impl(L, scenarios):
    if "sq" not in _state or not _state["sq"].alive():
        if "sq" in _state:
            try:
                _state["sq"].stop()
            except Exception:
                pass
        _state["boots"] = _state.get("boots", 0) + 1
        _state["sq"] = L.squid(name="vc06b%dp%d" % (_state["boots"], os.getpid()))
        _state.setdefault("n", 0)
    sq = _state["sq"]
    jobs = []
    for s in scenarios:
        _state["n"] += 1
        jobs.append((sq, s, _state["n"]))
    with concurrent.futures.ThreadPoolExecutor(max_workers=8) as ex:
        obs = list(ex.map(_one, jobs))
    if not sq.alive() or sq.log_has("assertion failed", "FATAL:"):
        obs = [o + " squid-died" for o in obs]
    return obs


# ------------------------------------------------------------------ oracle
def oracle(s, obs):
    """The property on what squid did: after the 200, the server received exactly the bytes the client sent (early
    bytes included) and the client exactly the bytes the server sent; when one side half-closes while the other is
    still streaming, the closing side's bytes are complete at the other end (which then sees the close) and the
    streaming side's bytes arrive as an unaltered prefix."""
    if "squid-died" in obs:
        return ("oracle:squid-died", "squid crashed or logged an assertion failure while tunnelling")
    if not obs.startswith("c2s="):
        return ("oracle:no-tunnel", "the CONNECT exchange did not complete: " + obs)
    f = dict(x.split("=", 1) for x in obs.split())
    csent, ssent = sent_by(s)
    end = s["end"]
    for name, got, sent, racy, who in (("c2s", f["c2s"], csent, end == "s_half_race", "client"),
                                        ("s2c", f["s2c"], ssent, end == "c_half_race", "server")):
        if racy:
            if got != "P":
                return ("oracle:%s-not-a-prefix" % name, "the bytes relayed from the %s (%s bytes) are not a prefix of what it sent"
                        % (who, got[1:]))
            continue
        if got == summ(sent):
            continue
        if end.endswith("reply") and ((name == "s2c" and end[0] == "c") or (name == "c2s" and end[0] == "s")):
            reply = all_bytes(s["last"]["s" if end[0] == "c" else "c"])
            if reply and got == summ(sent[:len(sent) - len(reply)]):
                return ("oracle:half-close-reply-lost",
                        "the %s half-closed after sending and kept reading; the %d bytes the %s sent after seeing that EOF "
                        "never arrived (Squid closes both connections on the first FIN)"
                        % ("client" if end[0] == "c" else "server", len(reply), who))
        n = int(got.split(":")[0])
        if n < len(sent):
            return ("oracle:%s-bytes-lost" % name, "only %d of the %d bytes sent by the %s arrived" % (n, len(sent), who))
        if n > len(sent):
            return ("oracle:%s-bytes-inserted" % name, "%d bytes arrived although the %s sent only %d" % (n, who, len(sent)))
        return ("oracle:%s-bytes-altered" % name, "the %d bytes sent by the %s arrived altered or reordered" % (n, who))
    if end.endswith("reply"):
        pass
    if end[0] == "c" and f["seof"] != "1":
        return ("oracle:close-not-relayed", "the client closed after sending, but the server never saw the close")
    if end[0] == "s" and f["ceof"] != "1":
        return ("oracle:close-not-relayed", "the server closed after sending, but the client never saw the close")
    return None


def run(res, tier):
    res.rule = ("CONNECT 127.0.0.1:<port> through the real squid to a scripted raw TCP server; 45% of the tunnels carry early "
                "client bytes in the same segment as the CONNECT head (1..70000 bytes, all 256 values, a fake HTTP request); "
                "0..3 phases in which both sides send 0..5 chunks each (1 byte .. 131072 bytes, random binary, sizes around the "
                "65535-byte tunnel buffer, CRLFCRLF and fake status lines) with random pauses and then wait for each other; "
                "the tunnel ends with a half-close by the client or the server: one half plain, one third while the other side "
                "is still streaming 70-140 KB (that direction is then checked for being an unaltered prefix), one sixth with "
                "the other side answering only after it saw the EOF (known finding: the answer is lost); observables: "
                "length and Adler-32 of the bytes received at each end, EOF seen at each end; non-trivial = some payload or "
                "early bytes")
    try:
        std.run_lab(res, PID, tier, area="pipetunnel", gens=["pipetunnel"], gen_scenarios=gen_scenarios, run_impl=run_impl,
                    to_case=to_case, oracle=oracle, corr_name="PipetunnelModel (trun/tsettle) vs the running squid",
                    n_quick=100, n_thorough=2000, seed_salt=6,
                    kind_fn=lambda s, o: "%s:%s" % (s["end"], "early" if s["early"] else "noearly"),
                    nontrivial_fn=lambda s, o: bool(s["early"] or s["phases"] or s["last"]))
    finally:
        _state.clear()
