"""C61: the cache manager enforces http_access and cachemgr_passwd (end to end through the real squid)."""
import base64, concurrent.futures, json, os, random, re, threading
from vlib import std, lab, common, hbuild, recipes, coq, tables

PID = "C61"
META = {
    "text": "Theorems (Properties_C61.v, closed under the global context), for ALL action tables, cachemgr_passwd lists, http_access rule lists (over manager/all/localhost and negations), request-targets (any scheme, any user-info) and Authorization values: (1) any answer of the cache manager itself (report, index page, password challenge, its own 404) is produced only when the http_access rules - first matching line decides, else the reverse of the last line, proved as two separate lemmas - allow the request, `manager` being the built-in url_regex matched on the percent-decoded effective URI; (2) that regex (`^[^:]+://[^/]+/squid-internal-mgr/`, case-sensitive because `+i` CLEARS REG_ICASE, text regenerated from cf.data.pre each run) means exactly 'non-empty colon-free scheme, ://, non-empty slash-free authority, the prefix' on the C string (iff, all byte strings); (3) every request the cache manager would handle (internal: http/https scheme since 6b03ef7, own port and host name; manager path prefix) matches `manager`, hence `http_access deny manager` as first line leaves no cache-manager answer of any kind - at full strength, no restriction on scheme or user-info (the former bypass ftp://a%2Fb@host:port/squid-internal-mgr/x is no longer internal: it is refused or handed to the ftp gateway like any ftp URL; kept as a regression scenario replayed against the running proxy); (4) a report (action performed) implies: the action is in the table and is the URL path after the prefix up to ?/#; its first covering cachemgr_passwd line (action name or `all`; shown to be what PasswdGet computes) is not `disable`; if that line is a password then the Authorization field is Basic + base64(user:pass) with pass non-empty and EQUAL to the configured C string (same length and bytes, since 5479385; for NUL-free configured passwords supplied = configured); if no line covers it the action is not password-required; (5) disabled actions and password-required actions without a configured password get no report, no index and no 401 challenge (they are 404); (6) the explicit fuel of the two QueryParams loops of the model is always sufficient (the model is total). Tie: ACL text, URL prefixes, `all`/`index` keywords regenerated from the tree (a changed default ACL breaks C61_manager_acl_is_the_modelled_regex); extracted model diffed against the real squid binary (built from the working tree) on generated configurations x requests, the action table being read from the running binary (`menu`); the components that link without the proxy (Uri::parse/absolute/DecodeOrDupe, rfc1738_unescape, RegexPattern+regexec on the configured pattern, Mgr::QueryParams::Parse) are additionally diffed against the model in a unit harness (harness/h_mgr.cc) with Python re / RFC 3986 decoding as reference oracles.",
    "note": "partial: the theorems are about the transcribed decision functions (MgrModel.v); that the event-driven proxy runs exactly these steps in this order (clientProcessRequest -> clientAccessCheck -> internalStart -> CacheManager::start) rests on the end-to-end correspondence. Not covered: SMP (Mgr::Forwarder/Coordinator), https_port/intercept/accel ports, hostname_aliases, append_domain, global_internal_static, multiple Authorization fields, ACL types other than the built-in manager/all/localhost, cache_object:// (gone in this tree); what the ftp gateway does with a non-internal ftp:// target (the lab ends it with never_direct; the observable is only 'handed to forwarding, no manager content'). Destructive actions (shutdown, reconfigure, rotate) are only ever requested in situations where the property says they must be refused. Base64 decoding is B64Model.b64_decode (C36, libnettle variant); Tokenizer::prefix/int64 are TokModel (C50/C27) with their proved specifications. Print Assumptions: every theorem is closed under the global context. Trusted: Coq kernel, extraction, gen/gen_mgr.py, harness/h_mgr.cc, vlib/lab.py.",
    "technique": "Coq proof (case analysis of the transcribed transaction, induction on byte lists for the regex/percent-coding lemmas, vm_compute witnesses for the refutations) + end-to-end differential correspondence of the extracted model against the running squid + unit-level correspondence of the URI/regex/query components + independent oracle (rule-list evaluation, URL action name, first covering cachemgr_passwd line, RFC 7617 credentials)",
}

HOST = "verif.test"
PREFIX = "/squid-internal-mgr/"
SAFE = ["menu", "info", "counters", "5min", "io", "events", "fqdncache", "http_headers", "service_times", "store_io",
        "forward", "refresh"]
PROT_HARMLESS = ["config", "offline_toggle"]
DESTRUCTIVE = ["shutdown", "reconfigure", "rotate"]
BOGUS = ["nosuch", "Menu", "men", "menu%20", "inf%6f", "menu/", "menu/x", "MENU", "info;x", "menu%00"]
PASSWORDS = ["secret", "s3cr3t", "p:w", "Pa55", "disabled", "nonesuch"]
SUFFIXES = ["?x=1", "?a=1&b=2", "?x=1,2,3", "?x=abc", "?x=", "?x", "?=1", "?x=1#frag", "#frag", "?#f", "?&&x=1&", "?",
            "?x=99999999999", "?x=2147483647", "?x=2147483648", "?x=1,", "?x=1,,2", "?x=9223372036854775808",
            "?x=1&y", "?x=%zz", "?x=%00", "?x=1=2", "?workers=1,2", "?x_1=a,b", "?x-1=2", "?x=1&&y=2#", "#", "?x=1#?",
            "?x=0x10", "?x=-1", "?x=1;2"]
LOGINS = ["a%2Fb", "user", "a%2fb:c", "u%3Ax", "%2F", "a%252Fb", "a%2Fb%zz", "x@y", "a%2Fb%25", "u:p", "%2f%2f", "a%", "%%2F",
          "a%2", "a%00b", "a%2Fb%00"]
RULESETS = [["+a"], ["+a"], ["-m", "+a"], ["-m", "+a"], ["+m", "-a"], ["-M", "+a"], ["+lm", "-m", "+a"], ["-m"], ["+m"], [],
            ["-Lm", "+a"], ["-a"], ["+mA", "-m", "+a"], ["+M"], ["-lm", "+a"], ["+Lm", "+a"], ["-A", "-m", "+a"], ["+l"],
            ["-M"], ["+am"]]
ATOM_TXT = {"m": "manager", "M": "!manager", "a": "all", "A": "!all", "l": "localhost", "L": "!localhost"}


def default_protected():
    """actions documented as never performed without a valid password: the starred entries of the
    cachemgr_passwd documentation in src/cf.data.pre (read from the tree, not from the model)"""
    try:
        txt = open(os.path.join(common.REPO, "src", "cf.data.pre"), encoding="latin1").read()
        blk = [b for b in txt.split("\nNAME:")[1:] if b.split("\n", 1)[0].split() == ["cachemgr_passwd"]][0]
        names = re.findall(r"^\t\t(\S+) \*$", blk, re.M)
        if names:
            return set(names)
    except Exception:
        pass
    return {"config", "offline_toggle", "reconfigure", "rotate", "shutdown"}


STARRED = default_protected()


# ------------------------------------------------------------------ generator
def first_line(pw, action):
    for p, acts in pw:
        if action in acts or "all" in acts:
            return p
    return None


def gen_config(rng):
    while True:
        pw = []
        for _ in range(rng.choice([0, 1, 1, 2, 2, 3])):
            p = rng.choice(PASSWORDS + ["disable", "disable", "none", "none", "Disable", "NONE"])
            pool = SAFE + PROT_HARMLESS * 3 + DESTRUCTIVE * 2 + ["all", "all", "all", "nosuch", "index"]
            acts = rng.sample(pool, rng.randrange(1, 5))
            acts = list(dict.fromkeys(acts))
            pw.append([p, acts])
        if all(first_line(pw, d) != "none" for d in DESTRUCTIVE):
            return {"pw": pw, "rules": list(rng.choice(RULESETS))}


def b64(b):
    return base64.b64encode(b).decode()


def gen_auth(rng, cfg, action):
    if rng.random() < 0.4:
        return None
    configured = [p for p, _ in cfg["pw"] if p not in ("disable", "none")]
    right = first_line(cfg["pw"], action)
    cands = ["wrong", "", "disable", "none", "x"]
    if action not in DESTRUCTIVE:
        cands += configured * 2
        if right not in (None, "disable", "none"):
            cands += [right] * 8 + [right + "\0x", right + "\0", right + " ", right[:-1], right.upper(), "\0" + right]
    else:
        cands = [c for c in cands if c not in configured]
    pw = rng.choice(cands)
    user = rng.choice(["u", "admin", "", "a b"])
    k = rng.random()
    if k < 0.08:
        cred = pw.encode("latin1")                      # no colon at all
        if action in DESTRUCTIVE:
            cred = b"nocolon"
    elif k < 0.12:
        cred = (user + ":" + pw + ":tail").encode("latin1") if action not in DESTRUCTIVE else b"u:wrong:tail"
    else:
        cred = (user + ":" + pw).encode("latin1")
    tok = b64(cred)
    k = rng.random()
    if k < 0.05:
        tok = tok[:-1] if not tok.endswith("=") else tok[:-2]      # truncated
    elif k < 0.08:
        i = rng.randrange(0, len(tok) + 1)
        tok = tok[:i] + rng.choice(["!", "*", "=", "-", "_"]) + tok[i:]
    elif k < 0.10:
        tok = tok + "="
    elif k < 0.12:
        tok = tok.rstrip("=")
    sch = rng.choice(["Basic "] * 10 + ["basic ", "BASIC ", "Basic  ", "Basic\t", "Basic \t ", "Basicx ", "Basic", "Digest ",
                                        "Bearer ", "Basi ", "Basic: "])
    v = sch + tok
    return v.strip(" \t")


def gen_request(rng, cfg):
    q = {"method": "GET" if rng.random() < 0.93 else "POST", "scheme": "http", "login": "", "host": HOST, "port": "my",
         "form": "abs", "auth": None}
    k = rng.random()
    action = rng.choice(SAFE * 5 + PROT_HARMLESS * 5 + DESTRUCTIVE * 2 + BOGUS + ["", "index"])
    if first_line(cfg["pw"], action) == "none" and action in DESTRUCTIVE:      # (excluded by gen_config; belt and braces)
        action = "menu"
    suffix = rng.choice(SUFFIXES) if rng.random() < 0.4 else ""
    prefix = PREFIX
    if k < 0.08:                       # not an internal request: another host and port (the origin stub)
        q["host"], q["port"] = "127.0.0.1", "origin"
        prefix = rng.choice([PREFIX, PREFIX, "/SQUID-INTERNAL-MGR/", "/Squid-Internal-Mgr/", "/other/", "/squid-internal-mgr",
                             "/x/squid-internal-mgr/"])
        if action in DESTRUCTIVE:
            action = "menu"
    else:
        q["host"] = rng.choice([HOST] * 6 + ["VERIF.TEST", "Verif.Test", "verif.test.", "verif.TEST.."[:-1]])
        if k < 0.16:
            q["form"] = "origin"
            q["host"] = HOST
        elif k < 0.30:
            q["scheme"] = "ftp"
            if rng.random() < 0.75:
                q["login"] = rng.choice(LOGINS)
        elif k < 0.34:
            q["scheme"] = "https"
            if rng.random() < 0.5:
                q["login"] = rng.choice(LOGINS)
        elif k < 0.37:
            q["scheme"] = "foo"
            if rng.random() < 0.5:
                q["login"] = rng.choice(LOGINS)
        elif k < 0.42:
            q["login"] = rng.choice(LOGINS)        # http with user-info (dropped from the effective URI)
        r = rng.random()
        if r < 0.03:
            prefix = "/squid-internal-mgr"        # internal, but not the manager prefix
        elif r < 0.06:
            prefix = rng.choice(["/squid-internal-foo/", "/squid-internal-mgrx/", "/squid-internal-/"])
    q["path"] = prefix + action + suffix
    q["action"] = action
    q["auth"] = gen_auth(rng, cfg, action)
    return q


def gen_scenarios(rng, n):
    out = []
    per = 20
    while len(out) < n:
        cfg = gen_config(rng)
        for _ in range(min(per, n - len(out))):
            out.append({"cfg": cfg, "req": gen_request(rng, cfg)})
    return out


# ------------------------------------------------------------------ implementation side
_state = {}
_lock = threading.Lock()
_start_lock = threading.Lock()


def conf_text(cfg):
    # ftp:// targets are never internal (6b03ef7): they go to the ftp gateway; `never_direct` makes that end at once (no
    # peer: 502/503 from FwdState) instead of a DNS lookup / FTP dialogue with the lab's HTTP stubs
    extra = "acl verif_ftp proto FTP\nnever_direct allow verif_ftp\n"
    extra += "".join("cachemgr_passwd %s %s\n" % (p, " ".join(a)) for p, a in cfg["pw"])
    access = "\n".join("http_access %s %s" % ("allow" if r[0] == "+" else "deny", " ".join(ATOM_TXT[c] for c in r[1:]))
                       for r in cfg["rules"])
    return extra, access


def read_menu(L):
    """the action table of the binary under test: name and isPwReq (an action is listed `hidden` exactly when it is
    password-required and no cachemgr_passwd line covers it; this instance has none)"""
    sq = L.squid(name="vc61menu%d" % os.getpid())
    try:
        r, raw = lab.get(sq.port, "http://%s:%d%smenu" % (HOST, sq.port, PREFIX))
        if r is None or r.status != 200:
            raise lab.LabError("cannot read the cache manager menu: %s" % (r.status if r else "no reply"))
        menu = []
        for l in r.body.decode("latin1").splitlines():
            f = l.split("\t")
            if len(f) >= 3:
                menu.append([f[0].strip(), 1 if f[2].strip() == "hidden" else 0])
        if not menu:
            raise lab.LabError("empty cache manager menu")
        return menu
    finally:
        sq.kill()


def target(q, myport, oport):
    port = myport if q["port"] == "my" else oport
    if q["form"] == "origin":
        return q["path"]
    return "%s://%s%s:%d%s" % (q["scheme"], (q["login"] + "@") if q["login"] else "", q["host"], port, q["path"])


def observe(r, forwarded):
    if forwarded:
        return "forwarded"
    if r is None or r.status is None:
        return "noreply"
    err = (r.get("X-Squid-Error") or "").split(" ")[0]
    if not err:
        if r.status == 200 and "no-store" in (r.get("Cache-Control") or ""):
            return "report"
        return "other %d -" % r.status
    if err == "ERR_ACCESS_DENIED" and r.status == 403:
        return "denied"
    if err == "ERR_INVALID_URL" and r.status == 404:
        return "notfound"
    if err == "ERR_INVALID_REQ" and r.status == 404:
        return "badreq"
    if err == "ERR_UNSUP_REQ" and r.status == 501:
        return "unsupported"
    if (err, r.status) in (("ERR_CANNOT_FORWARD", 503), ("ERR_READ_ERROR", 502)):
        return "forwarded"        # passed http_access and was handed to forwarding, which the lab config ends at once for
                                  # ftp:// (see conf_text; this tree answers 502 ERR_READ_ERROR, HIER_NONE)
    if err == "MGR_INDEX":
        return "index"
    if err == "ERR_CACHE_MGR_ACCESS_DENIED" and r.status == 401:
        m = re.search(r'realm="([^"]*)"', r.get("WWW-Authenticate") or "")
        return "authreq " + (m.group(1).encode("latin1").hex() if m and m.group(1) else "-")
    return "other %d %s" % (r.status, err)


def _group(args):
    L, org, cfg, items = args
    extra, access = conf_text(cfg)
    with _lock:
        _state["k"] = _state.get("k", 0) + 1
        name = "vc61i%dp%d" % (_state["k"], os.getpid())
    out = {}
    with _start_lock:                                # free_port() + bind is not atomic: start instances one at a time
        sq = L.squid(extra_conf=extra, access=access, name=name)
    try:
        for idx, s, rid in items:
            q = s["req"]
            s["_myport"], s["_oport"] = sq.port, org.port
            if not sq.alive():                       # an admitted destructive action would end up here
                with _start_lock:
                    sq.start()
            hdrs = [("Host", "%s:%d" % (HOST if q["form"] == "origin" else q["host"], sq.port if q["port"] == "my" else org.port)),
                    ("X-Rid", rid)]
            if q["auth"] is not None:
                hdrs.append(("Authorization", q["auth"]))
            body = b"" if q["method"] == "POST" else None
            try:
                r, raw = lab.get(sq.port, target(q, sq.port, org.port), headers=hdrs, method=q["method"], body=body, total=8.0)
            except OSError:
                r = None
            fwd = any(("X-Rid", rid) in [(n, v) for n, v in a["headers"]] for a in org.arrivals())
            out[idx] = observe(r, fwd)
    finally:
        sq.kill()
    return out


def run_impl(L, scenarios):
    if "org" not in _state:
        _state["org"] = L.origin()
        _state["menu"] = read_menu(L)
        _state["n"] = 0
    org = _state["org"]
    groups = {}
    for idx, s in enumerate(scenarios):
        _state["n"] += 1
        key = json.dumps(s["cfg"], sort_keys=True)
        groups.setdefault(key, []).append((idx, s, "c%d" % _state["n"]))
    jobs = [(L, org, json.loads(k), items) for k, items in groups.items()]
    res = {}
    with concurrent.futures.ThreadPoolExecutor(max_workers=6) as ex:
        for part in ex.map(_group, jobs):
            res.update(part)
    return [res[i] for i in range(len(scenarios))]


# ------------------------------------------------------------------ model side
def hx(s):
    b = s.encode("latin1")
    return b.hex() if b else "-"


SCHEME_ID = {"http": "0", "ftp": "1", "https": "2"}


def to_case(s):
    q, cfg = s["req"], s["cfg"]
    menu = ",".join("%s:%d" % (hx(n), f) for n, f in _state["menu"])
    pw = ",".join("%s:%s" % (hx(p), "/".join(hx(a) for a in acts)) for p, acts in cfg["pw"]) or "none"
    rules = ",".join(cfg["rules"]) or "none"
    myport = s.get("_myport", 3128)
    port = myport if q["port"] == "my" else s.get("_oport", 3129)
    return " ".join(["mgr.req", hx(HOST), str(myport), "1", menu, pw, rules, "G" if q["method"] == "GET" else "P",
                     SCHEME_ID.get(q["scheme"], "3"), hx(q["login"]), hx(q["host"]), str(port), hx(q["path"]),
                     "absent" if q["auth"] is None else hx(q["auth"])])


# ------------------------------------------------------------------ unit level (components linked without the proxy)
FRESH = ["src/anyp/Uri.cc", "src/base/RegexPattern.cc", "lib/rfc1738.cc", "src/mgr/QueryParams.cc", "src/mgr/IntParam.cc",
         "src/mgr/StringParam.cc", "src/ipc/TypedMsgHdr.cc"]


def impl(sanitize="ubsan"):
    return hbuild.build("h_mgr", "h_mgr.cc", fresh=FRESH, link=recipes.URL, sanitize=sanitize)


def prebuild():
    impl()


def manager_acl():
    """(pattern, icase) of the built-in `manager` ACL as the tree configures it (src/cf.data.pre; -i sets, +i clears REG_ICASE)"""
    txt = open(os.path.join(common.REPO, "src", "cf.data.pre"), encoding="latin1").read()
    blk = [b for b in txt.split("\nNAME:")[1:] if b.split("\n", 1)[0].split() == ["acl"]][0]
    toks = re.findall(r"^DEFAULT:[ \t]*manager[ \t]+\S+[ \t]+(.*)$", blk, re.M)[0].split()
    icase, pat = False, None
    for t in toks:
        if t == "-i": icase = True
        elif t == "+i": icase = False
        else: pat = t
    return pat, icase


def hb(b):
    return b.hex() if b else "-"


PIECES = [b":", b"/", b"//", b"://", b"a", b"http", b"ftp", b"verif.test", b":3128", b"@", b"%", b"%2F", b"%2f", b"%00", b"%zz", b"%4",
          b"/squid-internal-mgr/", b"/squid-internal-mgr", b"squid-internal-mgr/", b"/SQUID-INTERNAL-MGR/", b"/Squid-internal-mgr/",
          b"menu", b"?x=1", b"#f", b"\0", b"\n", b" ", b"\xe9", b"u:p", b"/squid-internal-mgr/x", b"%3A", b"%25", b"."]
QPIECES = [b"&", b"=", b"#", b",", b"x", b"a_b", b"1", b"12", b"2147483647", b"2147483648", b"9223372036854775807",
           b"9223372036854775808", b"99999999999999999999", b"0x10", b"-1", b"+1", b" ", b"abc", b"1,2", b",1", b"1,", b"%20", b"x=1",
           b"x=1&y=2", b"x=", b"?", b"/", b"007", b"1a", b"\0", b";"]
HOSTS = ["verif.test", "VERIF.TEST", "Verif.Test", "verif.test.", "verif.test..", "a", "a-b.example", "127.0.0.1", "X_y.z", "h0st"]
UPATHS = ["/squid-internal-mgr/menu", "/squid-internal-mgr/", "/squid-internal-mgr/info?x=1", "/squid-internal-mgr/a%2Fb",
          "/squid-internal-mgr/%zz", "/squid-internal-mgr/%00x", "/SQUID-INTERNAL-MGR/menu", "/squid-internal-mgr", "/", "/x?y#z",
          "/squid-internal-mgr/a|b\"c<d>", "/squid-internal-mgr/%", "/%2Fsquid-internal-mgr/", "/squid-internal-mgr/\xe9t\xe9",
          "/squid-internal-mgr/x%25y", "/squid-internal-mgr/[x]{y}^`\\", "/a:b@c/squid-internal-mgr/"]


def gen_unit_cases(rng, n):
    pat, icase = manager_acl()
    ph, ic = hb(pat.encode("latin1")), "1" if icase else "0"
    out = []
    for k in range(n):
        r = k % 6
        if r == 0:
            k0 = rng.random()
            if k0 < 0.35:
                s = rng.choice([b"http", b"ftp", b"a", b"h+t.p-1", b"\n", b"/"]) + b"://" + \
                    rng.choice([b"verif.test:3128", b"verif.test", b"h", b"a:b@h", b"u@h:1", b"\xe9", b":", b"?#"]) + \
                    rng.choice([b"/squid-internal-mgr/", b"/squid-internal-mgr/menu?x#y", b"/squid-internal-mgr/\0", b"/squid-internal-mgr//"])
            elif k0 < 0.7:
                s = rng.choice([b"http", b"ftp", b"a", b"h+t.p-1", b"", b"x:y", b"\n"]) + rng.choice([b"://"] * 6 + [b":/", b"//", b":///"]) + \
                    rng.choice([b"verif.test:3128", b"verif.test", b"a/b@verif.test", b"", b"h", b"a:b@h", b"h\0", b"u@h:1", b"\xe9"]) + \
                    rng.choice([b"/squid-internal-mgr/"] * 3 + [b"/squid-internal-mgr/menu?x#y", b"/squid-internal-mgr", b"/SQUID-internal-mgr/",
                                b"/x/squid-internal-mgr/", b"squid-internal-mgr/", b"/squid-internal-mgr/\0", b"/squid-internal-mgr//"])
            else:
                s = b"".join(rng.choice(PIECES) for _ in range(rng.randrange(0, 8)))
            out.append("mgr.u.regex %s %s %s" % (ph, ic, hb(s)))
        elif r == 1:
            s = b"".join(rng.choice(PIECES + [b"%41", b"%7e", b"%FF", b"%0a", b"%g1", b"%1g", b"%%", b"%"]) for _ in range(rng.randrange(0, 8)))
            out.append("mgr.u.decode " + hb(s))
        elif r == 2:
            s = b"".join(rng.choice([b"%", b"%%", b"%2F", b"%2f", b"%00", b"%0", b"%zz", b"%4", b"%41", b"%fF", b"a", b"/", b"%25", b"%g0",
                                     b"%0g", b"\xe9", b":", b"@"]) for _ in range(rng.randrange(0, 8)))
            out.append("mgr.u.unescape " + hb(s.replace(b"\0", b"")))
        elif r == 3:
            if rng.random() < 0.5:
                s = b"&".join(rng.choice([b"x", b"a_b", b"A1", b""]) + b"=" + rng.choice(QPIECES) for _ in range(rng.randrange(0, 4)))
                s += rng.choice([b"", b"", b"#f", b"&", b"#", b" "])
            else:
                s = b"".join(rng.choice(QPIECES) for _ in range(rng.randrange(0, 7)))
            out.append("mgr.u.query " + hb(s))
        else:
            sc = rng.choice(["0", "0", "1", "1", "2"])
            login = rng.choice([""] * 3 + LOGINS + ["a%2Fb%2Fc", "%41", "a%7Eb", "a!b", "a%20b", "a|b"])
            host = rng.choice(HOSTS)
            port = rng.choice([3128, 80, 21, 443, 1, 65535, 8080])
            path = rng.choice(UPATHS)
            args = "%s %s %s %d %s" % (sc, hx(login), hx(host), port, hx(path))
            out.append(("mgr.u.uri " + args) if r == 4 else ("mgr.u.acl %s %s %s" % (ph, ic, args)))
    return out


def unit_oracle(c, o):
    """independent references: Python's re for the ERE (same syntax for this pattern), RFC 3986 percent-decoding"""
    w = c.split()
    if o.startswith("EXC") or o.startswith("ERR") or o == "bad":
        return ("oracle:unit-exception", "the real function failed: " + o)
    unhex = lambda h: b"" if h == "-" else bytes.fromhex(h)
    if w[0] == "mgr.u.regex":
        want = bool(re.match(unhex(w[1]), unhex(w[3]).split(b"\0")[0], re.S | (re.I if w[2] == "1" else 0)))
        if (o == "1") != want:
            return ("oracle:unit-regex", "regexec says %s, the reference matcher %s" % (o, want))
    elif w[0] == "mgr.u.decode":
        s = unhex(w[1])
        ok = all(re.fullmatch(rb"[0-9a-fA-F]{2}", s[i + 1:i + 3]) for i in range(len(s)) if s[i:i + 1] == b"%")
        want = re.sub(rb"%([0-9a-fA-F]{2})", lambda m: bytes([int(m.group(1), 16)]), s) if ok else s
        if unhex(o) != want:
            return ("oracle:unit-decode", "DecodeOrDupe gave %r, RFC 3986 decoding %r" % (unhex(o), want))
    return None


def unit_kind(c, o):
    e = c.split()[0]
    return e + ":" + o.split(" ")[0] if e in ("mgr.u.regex", "mgr.u.acl", "mgr.u.query") else e


def unit_stage(res, tier):
    try:
        exe = impl()
    except hbuild.BuildError as ex:
        res.fail("build", "C61: unit harness no longer builds against /repo's working tree: %s" % str(ex)[-1200:],
                 {"no_failing_input_found": True, "broken": "harness build h_mgr", "detail": str(ex)[-3000:]})
        return
    try:
        tables.regenerate(["mgr"])        # the runner must carry today's constants (the proof stage reports a failing generator)
    except Exception:
        pass
    runner = coq.build_runner("mgr")
    rng = random.Random(common.seed() * 1000003 + 6161)
    cases = std.load_corpus(PID) + gen_unit_cases(rng, 6000 if tier == "quick" else 150000)
    implo, modelo, dis = std.corr_stage(res, cases, exe, runner, kind_fn=unit_kind)
    found = 0
    for c, o in zip(cases, implo):
        v = unit_oracle(c, o)
        if v and res.fail(v[0], "C61 (unit) on input `%s`: implementation answered `%s`: %s" % (c[:400], o[:300], v[1]),
                          {"case": c, "impl": o, "oracle": v[1], "signature": v[0]}):
            found += 1
    if dis and not found:
        k, c, a, b = dis[0]
        res.fail("corr:unit", "model and implementation disagree on %d unit cases (first: `%s` impl=`%s` model=`%s`); the reference "
                 "oracle holds on every implementation answer" % (len(dis), c[:300], a[:150], b[:150]),
                 {"no_failing_input_found": True, "broken": "correspondence MgrModel components vs real functions",
                  "case": c, "impl": a, "model": b, "disagreements": len(dis)})
    res.extra["unit_cases"] = len(cases)
    res.extra["unit_disagreements"] = len(dis)


# ------------------------------------------------------------------ oracle (the property, on what squid did)
def rules_allow(rules, is_mgr, is_local=True):
    """squid.conf semantics of http_access: first line all of whose ACLs match decides; else the opposite of the last
    line; no line at all: deny"""
    val = {"m": is_mgr, "M": not is_mgr, "a": True, "A": False, "l": is_local, "L": not is_local}
    for r in rules:
        if all(val[c] for c in r[1:]):
            return r[0] == "+"
    return (rules[-1][0] == "-") if rules else False


def credentials(auth):
    """RFC 7617: `Basic` SP+ base64(user ":" password) -> password bytes, or None"""
    if auth is None:
        return None
    m = re.match(r"(?i)basic[ \t]+(\S.*)$", auth)
    if not m:
        return None
    try:
        raw = base64.b64decode(re.sub(r"\s", "", m.group(1)), validate=True)
    except Exception:
        return None
    if b":" not in raw:
        return None
    return raw.split(b":", 1)[1]


def oracle(s, obs):
    q, cfg = s["req"], s["cfg"]
    kind = obs.split(" ")[0]
    if kind in ("noreply", "other"):
        return ("oracle:no-transaction", "the transaction did not end in one of the expected ways: " + obs)
    if kind not in ("report", "index"):
        return None
    # 1. report content only if http_access allows this (manager) request
    if not rules_allow(cfg["rules"], True):
        if q["scheme"] == "ftp" and re.search(r"(?i)%2f", q["login"]):
            return ("oracle:mgr-acl-bypass:ftp-userinfo",
                    "http_access (%s) denies manager requests, yet %s was answered with a cache manager report: the decoded "
                    "user-info contains '/', so the built-in manager ACL does not match the URL"
                    % ("; ".join(cfg["rules"]), target(q, s.get("_myport", 0), s.get("_oport", 0))))
        return ("oracle:report-despite-http_access-deny",
                "http_access (%s) does not allow manager requests, yet the request was answered with a cache manager %s"
                % ("; ".join(cfg["rules"]), kind))
    if kind == "index":
        return None
    # 2. the action performed and its protection
    if not q["path"].startswith(PREFIX):
        return ("oracle:report-for-non-manager-url", "a report was produced for a URL outside " + PREFIX)
    action = re.split(r"[?#]", q["path"][len(PREFIX):], 1)[0]
    line = first_line(cfg["pw"], action)
    if line == "disable":
        return ("oracle:disabled-action-performed", "action %r is disabled by cachemgr_passwd but was performed" % action)
    if line == "none":
        return None
    if line is None:
        if action in STARRED:
            return ("oracle:pwreq-action-without-password-config",
                    "action %r requires a password, none is configured, but it was performed" % action)
        return None
    got = credentials(q["auth"])
    if got == line.encode("latin1"):
        return None
    if got is not None and got.split(b"\0", 1)[0] == line.encode("latin1"):
        return ("oracle:password-nul-suffix-accepted",
                "action %r is protected by password %r; the request supplied %r (not the configured password) and was admitted"
                % (action, line, got))
    return ("oracle:protected-action-without-password",
            "action %r is protected by password %r; the request supplied %r and was admitted" % (action, line, got))


def run(res, tier):
    res.rule = ("configurations: 0-3 cachemgr_passwd lines (passwords, `disable`, `none`, case variants; 1-4 actions incl. `all` "
                "and unknown names) x 20 http_access rule lists over manager/all/localhost with negations (incl. none at all); per "
                "configuration 20 requests: absolute (http/ftp/https/unknown scheme, optional user-info with %2F/%3A/%25/bad "
                "escapes, host in various letter case / trailing dot) or origin-form manager URLs, some to another host:port "
                "(forwarded) or other /squid-internal-* paths; action = harmless / password-required / destructive (only where "
                "it must be refused) / unknown / empty / index, with ?query and #fragment shapes hitting every QueryParams "
                "branch (int limits +-1); Authorization absent or Basic/other scheme x right/wrong/empty/NUL-suffixed/"
                "colon-less password x damaged base64; non-trivial = answered report/authreq/denied/notfound")
    unit_stage(res, tier)
    try:
        std.run_lab(res, PID, tier, area="mgr", gens=["mgr"], gen_scenarios=gen_scenarios, run_impl=run_impl,
                    to_case=to_case, oracle=oracle, corr_name="MgrModel (handle) vs the running squid",
                    n_quick=300, n_thorough=4000, seed_salt=61,
                    kind_fn=lambda s, o: o.split(" ")[0],
                    nontrivial_fn=lambda s, o: o.split(" ")[0] in ("report", "authreq", "denied", "notfound"))
    finally:
        _state.clear()


def replay(d):
    """./verif replay <file>: run the recorded scenario (or unit case) again and print what squid / the model answer"""
    rp = d.get("replay", {})
    if "case" in rp:
        exe, runner = impl(), coq.build_runner("mgr")
        from vlib import corr
        print("case :", rp["case"])
        print("impl :", corr.run_lines(exe, [rp["case"]])[0])
        print("model:", corr.run_lines(runner, [rp["case"]])[0])
        return 0
    if "scenario" not in rp:
        print(json.dumps(d, indent=1))
        return 0
    s = rp["scenario"]
    try:
        with lab.Lab(PID) as L:
            L.build()
            obs = run_impl(L, [s])[0]
            from vlib import corr
            model = corr.run_lines(coq.build_runner("mgr"), [to_case(s)])[0]
    finally:
        _state.clear()
    print("scenario:", json.dumps(s))
    print("squid   :", obs)
    print("model   :", model)
    v = oracle(s, obs)
    print("oracle  :", v if v else "property holds on this answer")
    return 1 if v else 0
