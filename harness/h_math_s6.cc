#define H_MATH_PART 6
#include "h_math_part.h"
