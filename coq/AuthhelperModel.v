(* AuthhelperModel.v — executable models for C47 (helper reply reader) and C46 (Basic proxy authentication).

   Part 1 (C47): src/helper.cc helperHandleRead / helperReturnBuffer / Helper::Session::popRequest /
   helperDispatch (channel-id allocation) / SessionBase::dropQueued, src/helper/Reply.cc finalize /
   parseResponseKeys, src/redirect.cc redirectHandleReply, ClientRequestContext::clientRedirectDone
   (rewrite-url branch), src/external_acl.cc externalAclHandleReply (result mapping).
   The reader is a step function over the chunks returned by read(2): `hread`.
   Not modelled (stated in the check's notes): helper `timeout=` (stats.timedout is 0), the 1 MB limit of
   Reply::accumulate and the rbuf size limit (ReadBufSize), NUL bytes in the helper stream (the code treats rbuf
   as a C string), the BH retry, quoted / %-escaped / backslashed values in kv-pairs (reported as Unsupported).

   Part 2 (C46): src/auth/basic/Config.cc decodeCleartext/decode, src/auth/basic/User.cc updateCached/authenticated,
   src/auth/basic/UserRequest.cc module_direction/startHelperLookup/HandleReply, src/auth/UserRequest.cc
   authenticate (Basic, no connection-bound state), src/auth/CredentialsCache.cc lookup/insert (keyed by user name).
   Not modelled: the periodic cache clean-up event, realm key extras, utf8 transcoding, credentialsttl <= 0. *)
Require Import SquidV.Bytes.
Local Open Scope N_scope.

(* ------------------------------------------------------------------ characters *)
Definition isspace (c : N) : bool := (c =? 32) || ((9 <=? c) && (c <=? 13)).       (* xisspace, C locale *)
Definition isdigit (c : N) : bool := (48 <=? c) && (c <=? 57).
Definition isgraph (c : N) : bool := (33 <=? c) && (c <=? 126).
Definition LF : N := 10.
Definition CR : N := 13.

Fixpoint skip_ws (s : bytes) : bytes :=
  match s with
  | c :: r => if isspace c then skip_ws r else s
  | [] => []
  end.

Definition hd_isspace (s : bytes) : bool :=
  match s with c :: _ => isspace c | [] => false end.        (* *e with e at the terminating NUL: not a space *)

(* ------------------------------------------------------------------ strtol(msg, &e, 10) and the range check on the channel id *)
Definition LONG_MAX : Z := 9223372036854775807%Z.
Definition LONG_MIN : Z := (-9223372036854775808)%Z.

Fixpoint dec_acc (acc : Z) (ds : bytes) : Z :=            (* magnitude, saturating above LONG_MAX *)
  match ds with
  | [] => acc
  | d :: r => dec_acc (Z.min (acc * 10 + (Z.of_N d - 48)) 9223372036854775808%Z) r
  end.

(* "i = (errno == ERANGE || parsedId < 0 || parsedId > INT_MAX) ? -1 : static_cast<int>(parsedId)":
   a number that does not fit an int names no channel (ERANGE values are LONG_MIN / LONG_MAX, both out of range) *)
Definition INT_MAX : Z := 2147483647%Z.
Definition chan_of (v : Z) : Z := if (v <? 0)%Z || (INT_MAX <? v)%Z then (-1)%Z else v.

Definition is_neg (s1 : bytes) : bool := match s1 with c :: _ => c =? 45 | [] => false end.
Definition sign_rest (s1 : bytes) : bytes :=                      (* optional '-' / '+' *)
  match s1 with
  | c :: r => if (c =? 45) || (c =? 43) then r else s1
  | [] => s1
  end.

Definition strtol (s : bytes) : Z * bytes :=
  let s1 := skip_ws s in
  let '(ds, e) := span isdigit (sign_rest s1) in
  match ds with
  | [] => (0%Z, s)                                        (* no conversion: endptr = nptr *)
  | _ => let m := dec_acc 0%Z ds in
         let v := if is_neg s1 then Z.max (- m)%Z LONG_MIN else Z.min m LONG_MAX in
         (chan_of v, e)
  end.

(* ------------------------------------------------------------------ request table of one helper process *)
(* requests: std::list in dispatch order; requestsIndex: map id -> list position (concurrent helpers only).
   An entry is (channel id, tag) where tag identifies the transaction that asked. *)
Definition reqtab := list (N * N).

Fixpoint pop_id (i : N) (rs : reqtab) : option (N * reqtab) :=
  match rs with
  | [] => None
  | (j, t) :: r =>
      if j =? i then Some (t, r)
      else match pop_id i r with
           | Some (t', r') => Some (t', (j, t) :: r')
           | None => None
           end
  end.

(* Helper::Session::popRequest(int request_number): the int is converted to the map's uint64_t key, so a
   negative number never matches a real id *)
Definition pop_request (conc : bool) (i : Z) (rs : reqtab) : option (N * reqtab) :=
  if conc then (if (i <? 0)%Z then None else pop_id (Z.to_N i) rs)
  else match rs with
       | [] => None
       | (_, t) :: r => Some (t, r)
       end.

Record hstate := mkH {
  h_rbuf : bytes;                       (* rbuf[0 .. roffset) *)
  h_cur : option (N * bytes);           (* replyXaction: (tag, reply.other_ accumulated so far) *)
  h_ign : bool;                         (* ignoreToEom *)
  h_reqs : reqtab;                      (* requests sent to the helper process and not yet answered *)
  h_next : N;                           (* nextRequestId *)
  h_closed : bool;                      (* closePipesSafely() was called *)
  h_queue : list N                      (* Helper::Client::queue: transactions waiting for a free channel *)
}.

Definition h_init : hstate := mkH [] None false [] 0 false [].

Definition h_pending (st : hstate) : N :=
  lenN (h_reqs st) + match h_cur st with Some _ => 1 | None => 0 end.      (* stats.pending *)

(* per-helper configuration: concurrency > 0 ? and the number of channels (childs.concurrency, or 1) *)
Record hcfg := mkHC { hc_conc : bool; hc_limit : N }.

(* helperDispatch: reqId = ++nextRequestId; appended to `requests` *)
Definition hdispatch (st : hstate) (tag : N) : hstate :=
  let id := h_next st + 1 in
  mkH (h_rbuf st) (h_cur st) (h_ign st) (h_reqs st ++ [(id, tag)]) id (h_closed st) (h_queue st).

(* helperKickQueue: while (GetFirstAvailable() && nextRequest()) helperDispatch() - one helper process *)
Fixpoint kick (lim : N) (q : list N) (st : hstate) : hstate :=
  match q with
  | [] => mkH (h_rbuf st) (h_cur st) (h_ign st) (h_reqs st) (h_next st) (h_closed st) []
  | t :: q' =>
      if h_pending st <? lim then kick lim q' (hdispatch st t)
      else mkH (h_rbuf st) (h_cur st) (h_ign st) (h_reqs st) (h_next st) (h_closed st) q
  end.

(* helperSubmit: straight to the helper when nothing is queued and a channel is free, else Enqueue *)
Definition hsubmit (c : hcfg) (st : hstate) (tag : N) : hstate :=
  match h_queue st with
  | [] => if h_pending st <? hc_limit c then hdispatch st tag
          else mkH (h_rbuf st) (h_cur st) (h_ign st) (h_reqs st) (h_next st) (h_closed st) [tag]
  | q => mkH (h_rbuf st) (h_cur st) (h_ign st) (h_reqs st) (h_next st) (h_closed st) (q ++ [tag])
  end.

(* a callback: Some text = hlp->callBack with the accumulated reply text; None = dropQueued (result Unknown) *)
Definition disp := (N * option bytes)%type.

(* split at every LF: complete lines (without the LF) and the unterminated tail *)
Fixpoint split_lf (b : bytes) : list bytes * bytes :=
  match b with
  | [] => ([], [])
  | c :: r =>
      let '(ls, p) := split_lf r in
      if c =? LF then ([] :: ls, p)
      else match ls with
           | [] => ([], c :: p)
           | l :: ls' => ((c :: l) :: ls', p)
           end
  end.

(* "if (eom > msg && eom[-1] == '\r' && hlp->eom == '\n')": one CR before the LF is dropped *)
Definition strip_cr (l : bytes) : bytes :=
  match l with
  | [] => []
  | _ => if last l 0 =? CR then removelast l else l
  end.

Definition set_cur (st : hstate) (c : option (N * bytes)) : hstate :=
  mkH (h_rbuf st) c (h_ign st) (h_reqs st) (h_next st) (h_closed st) (h_queue st).

(* helperReturnBuffer(srv, hlp, msg, msgSize, msgEnd) *)
Definition deliver (c : hcfg) (st : hstate) (text : bytes) (eom : bool) : hstate * list disp :=
  match h_cur st with
  | Some (tag, acc) =>
      let acc' := acc ++ text in
      if eom then (kick (hc_limit c) (h_queue st) (set_cur st None), [(tag, Some acc')])
      else (set_cur st (Some (tag, acc')), [])                      (* "We are waiting for more data." *)
  | None => (kick (hc_limit c) (h_queue st) st, [])
  end.

Definition clear_ign (eom : bool) (st : hstate) : hstate :=
  if eom && h_ign st then mkH (h_rbuf st) (h_cur st) false (h_reqs st) (h_next st) (h_closed st) (h_queue st) else st.

(* one iteration of the while loop in helperHandleRead on the segment msg .. (eom | end of data);
   None = needsMore (break; the segment stays in rbuf) *)
Definition process (c : hcfg) (eom : bool) (st : hstate) (seg : bytes) : option (hstate * list disp) :=
  let line := if eom then strip_cr seg else seg in
  let fresh := negb (h_ign st) && match h_cur st with None => true | Some _ => false end in
  if fresh then
    let '(i, e) := if hc_conc c then strtol line else (0%Z, line) in
    if hc_conc c && negb eom && negb (hd_isspace e) then None
    else
      let text := if hc_conc c then skip_ws e else line in
      let st1 := match pop_request (hc_conc c) i (h_reqs st) with
                 | Some (tag, rs) => mkH (h_rbuf st) (Some (tag, [])) false rs (h_next st) (h_closed st) (h_queue st)
                 | None => mkH (h_rbuf st) None true (h_reqs st) (h_next st) (h_closed st) (h_queue st)
                 end in
      let '(st2, out) := deliver c st1 text eom in
      Some (clear_ign eom st2, out)
  else
    let '(st2, out) := deliver c st line eom in
    Some (clear_ign eom st2, out).

Fixpoint process_lines (c : hcfg) (st : hstate) (ls : list bytes) : hstate * list disp :=
  match ls with
  | [] => (st, [])
  | l :: r =>
      match process c true st l with
      | Some (st1, o1) => let '(st2, o2) := process_lines c st1 r in (st2, o1 ++ o2)
      | None => (st, [])        (* unreachable: needsMore requires !eom *)
      end
  end.

Definition set_rbuf (st : hstate) (b : bytes) : hstate :=
  mkH b (h_cur st) (h_ign st) (h_reqs st) (h_next st) (h_closed st) (h_queue st).

(* the while loop of helperHandleRead over the accumulated buffer, then the roffset / memmove bookkeeping *)
Definition body2 (c : hcfg) (st : hstate) (ls : list bytes) (tail : bytes) : hstate * list disp :=
  let '(st1, o1) := process_lines c st ls in
  match tail with
  | [] => (st1, o1)
  | _ => match process c false st1 tail with
         | Some (st2, o2) => (st2, o1 ++ o2)
         | None => (set_rbuf st1 tail, o1)            (* memmove(rbuf, msg, msgSize); roffset = msgSize *)
         end
  end.

Definition hread_body (c : hcfg) (st : hstate) (buf : bytes) : hstate * list disp :=
  let '(ls, tail) := split_lf buf in body2 c (set_rbuf st []) ls tail.

(* helperHandleRead with len > 0 bytes appended at rbuf + roffset *)
Definition hread (c : hcfg) (st : hstate) (chunk : bytes) : hstate * list disp :=
  if h_closed st then (st, [])
  else if h_pending st =? 0 then
    (* "someone spoke without being spoken to": roffset = 0, closePipesSafely() *)
    (mkH [] (h_cur st) (h_ign st) (h_reqs st) (h_next st) true (h_queue st), [])
  else hread_body c st (h_rbuf st ++ chunk).

(* EOF / close with a single helper process: SessionBase::dropQueued() and Client::dropQueued() call every request
   back with Helper::Unknown; the popped replyXaction (a partially received reply) is not in `requests` any more
   and gets no callback *)
Definition heof (st : hstate) : hstate * list disp :=
  (mkH [] (h_cur st) (h_ign st) [] (h_next st) true [],
   map (fun e => (snd e, None)) (h_reqs st) ++ map (fun t => (t, None)) (h_queue st)).

Inductive hop := HSubmit (tag : N) | HRead (chunk : bytes) | HEof.

Definition hstep (c : hcfg) (st : hstate) (op : hop) : hstate * list disp :=
  match op with
  | HSubmit t => (hsubmit c st t, [])
  | HRead ch => hread c st ch
  | HEof => heof st
  end.

Fixpoint hrun (c : hcfg) (st : hstate) (ops : list hop) : hstate * list disp :=
  match ops with
  | [] => (st, [])
  | op :: r => let '(st1, o1) := hstep c st op in
               let '(st2, o2) := hrun c st1 r in (st2, o1 ++ o2)
  end.

Definition hreads (c : hcfg) (st : hstate) (chunks : list bytes) : hstate * list disp :=
  hrun c st (map HRead chunks).

(* ------------------------------------------------------------------ Helper::Reply::finalize *)
Inductive hresult := ROkay | RError | RBroken | RUnknown | RUnsupported.

Definition b_OK : bytes := [79; 75].
Definition b_ERR : bytes := [69; 82; 82].
Definition b_BH : bytes := [66; 72].
Definition b_TT : bytes := [84; 84; 32].
Definition b_AF : bytes := [65; 70; 32].
Definition b_NA : bytes := [78; 65; 32].

(* !strncmp(p, code, n) && (len == n || p[n] == ' ') *)
Definition code_at (code t : bytes) : bool :=
  starts_with t code &&
  match dropN (lenN code) t with
  | [] => true
  | c :: _ => c =? 32
  end.

Definition isKeyNameChar (c : N) : bool :=
  ((97 <=? c) && (c <=? 122)) || ((65 <=? c) && (c <=? 90)) || isdigit c || (c =? 45) || (c =? 95).

(* characters whose handling by strwordtok / rfc1738_unescape is not modelled *)
Definition special_val_char (c : N) : bool := (c =? 34) || (c =? 92) || (c =? 37).

(* parseResponseKeys: fuel = length of the text (each round consumes at least two bytes) *)
Fixpoint parse_keys (fuel : nat) (t : bytes) (acc : list (bytes * bytes)) : option (list (bytes * bytes) * bytes) :=
  match fuel with
  | O => Some (acc, t)
  | S k =>
      let '(key, r) := span isKeyNameChar t in
      match r with
      | 61 :: v =>                                   (* '=' *)
          match v with
          | [] => None                               (* "key=" at the very end: strwordtok error path, not modelled *)
          | c :: _ =>
              if isspace c then Some (acc, t)        (* whitespace after '=' : not a key *)
              else
                let '(val, rest) := span (fun x => negb (isspace x)) v in
                if existsb special_val_char val then None
                else
                  let rest' := match rest with _ :: r2 => skip_ws r2 | [] => [] end in
                  parse_keys k rest' (acc ++ [(key, val)])
          end
      | _ => Some (acc, t)
      end
  end.

(* returns (result, notes, other) *)
Definition finalize (t : bytes) : hresult * list (bytes * bytes) * bytes :=
  match t with
  | [] => (RError, [], [])
  | _ =>
      let '(res, p) :=
        if 2 <=? lenN t then
          let '(res0, p0) :=
            if code_at b_OK t then (ROkay, dropN 2 t)
            else if code_at b_ERR t then (RError, dropN 3 t)
            else if code_at b_BH t then (RBroken, dropN 2 t)
            else if starts_with t b_TT || starts_with t b_AF || starts_with t b_NA then (RUnsupported, t)
            else (RUnknown, t) in
          (res0, skip_ws p0)
        else (RUnknown, t) in
      let p1 := skip_ws p in
      match res with
      | RUnsupported => (RUnsupported, [], p1)
      | _ => match parse_keys (length p1) p1 [] with
             | Some (notes, other) => (res, notes, other)
             | None => (RUnsupported, [], p1)
             end
      end
  end.

Fixpoint find_note (k : bytes) (notes : list (bytes * bytes)) : option bytes :=
  match notes with
  | [] => None
  | (k', v) :: r => if list_eqb k k' then Some v else find_note k r
  end.

Definition k_url : bytes := [117; 114; 108].
Definition k_rewrite_url : bytes := [114; 101; 119; 114; 105; 116; 101; 45; 117; 114; 108].
Definition b_http : bytes := [104; 116; 116; 112; 58; 47; 47].

Definition url_char (c : N) : bool :=
  ((97 <=? c) && (c <=? 122)) || ((65 <=? c) && (c <=? 90)) || isdigit c ||
  (c =? 58) || (c =? 47) || (c =? 46) || (c =? 95) || (c =? 45) || (c =? 126).

(* stand-in for AnyP::Uri::parse on the URLs the scenarios use: http:// followed by unreserved/':'/'/' bytes *)
Definition plausible_url (u : bytes) : bool :=
  starts_with u b_http && (7 <? lenN u) && forallb url_char u.

(* what happens to the request URL: *)
Inductive rwres := RwSame | RwTo (u : bytes) | RwUnsupported.

(* redirectHandleReply (legacy mapping of Unknown results) + clientRedirectDone *)
Definition rw_apply (uri : bytes) (d : option bytes) : rwres :=
  match d with
  | None => RwSame                                         (* Helper::Unknown from dropQueued *)
  | Some t =>
      let '(res, notes, other) := finalize t in
      let rewrite (notes' : list (bytes * bytes)) :=
        match find_note k_url notes' with
        | Some _ => RwUnsupported                           (* redirect replies are not part of the scenarios *)
        | None => match find_note k_rewrite_url notes' with
                  | Some u => if list_eqb u uri then RwSame
                              else
                                (* AnyP::Uri::parse with the default "uri_whitespace strip": blanks are removed *)
                                let u' := filter (fun c => negb (isspace c)) u in
                                if plausible_url u' then RwTo u' else RwSame
                  | None => RwSame
                  end
        end in
      match res with
      | RUnsupported => RwUnsupported
      | RUnknown =>
          match other with
          | [] => RwSame
          | _ =>
              let word := fst (span (fun c => negb (c =? 32)) other) in
              match word with
              | [] => RwSame                                (* replySize == 0: the Unknown reply itself is passed on *)
              | c :: _ =>
                  if c =? 33 then RwUnsupported                      (* Squid-2 urlgroup syntax: not modelled *)
                  else if isdigit c || (c =? 43) || (c =? 45) || isspace c then
                    (* atoi(result) may be a redirect status; "NNN:location" is not modelled, a bare number is
                       never a valid rewrite URL *)
                    (if existsb (fun x => x =? 58) word then RwUnsupported else RwSame)
                  else rewrite (notes ++ [(k_rewrite_url, word)])
              end
          end
      | ROkay => rewrite notes
      | _ => RwSame
      end
  end.

(* externalAclHandleReply: only Helper::Okay allows *)
Definition acl_apply (d : option bytes) : option bool :=
  match d with
  | None => Some false
  | Some t => match finalize t with
              | (ROkay, _, _) => Some true
              | (RUnsupported, _, _) => None
              | _ => Some false
              end
  end.

(* a whole scenario: n transactions (tags 1..n) ask the helper, then the helper's writes arrive one read per
   chunk, then the helper exits. Result per tag: Some d = called back with d, None = never called back *)
Fixpoint submit_all (c : hcfg) (st : hstate) (n : nat) (tag : N) : hstate :=
  match n with
  | O => st
  | S k => submit_all c (hsubmit c st tag) k (tag + 1)
  end.

Fixpoint find_disp (tag : N) (ds : list disp) : option (option bytes) :=
  match ds with
  | [] => None
  | (t, d) :: r => if t =? tag then Some d else find_disp tag r
  end.

Definition scenario_disps (c : hcfg) (n : nat) (chunks : list bytes) : list disp :=
  let st0 := submit_all c h_init n 1 in
  let '(st1, o1) := hreads c st0 chunks in
  let '(_, o2) := heof st1 in
  o1 ++ o2.

(* ================================================================== Part 2: Basic proxy authentication *)

(* ---- libnettle base64_decode_update / base64_decode_final as called by decodeCleartext *)
Definition b64_val (c : N) : option N :=
  if (65 <=? c) && (c <=? 90) then Some (c - 65)
  else if (97 <=? c) && (c <=? 122) then Some (c - 71)
  else if isdigit c then Some (c + 4)
  else if c =? 43 then Some 62
  else if c =? 47 then Some 63
  else None.

Record b64ctx := mkB { b_word : N; b_bits : N; b_pad : N }.

Fixpoint b64_update (ctx : b64ctx) (src : bytes) (out : bytes) : option (b64ctx * bytes) :=
  match src with
  | [] => Some (ctx, out)
  | c :: r =>
      match b64_val c with
      | Some d =>
          if negb (b_pad ctx =? 0) then None
          else
            let w := (b_word ctx * 64 + d) mod 65536 in
            let bits := b_bits ctx + 6 in
            if 8 <=? bits then b64_update (mkB w (bits - 8) 0) r (out ++ [(w / 2 ^ (bits - 8)) mod 256])
            else b64_update (mkB w bits 0) r out
      | None =>
          if isspace c then b64_update ctx r out
          else if c =? 61 then
            if (b_bits ctx =? 0) || (2 <? b_pad ctx) then None
            else if negb ((b_word ctx) mod (2 ^ b_bits ctx) =? 0) then None
            else b64_update (mkB (b_word ctx) (b_bits ctx - 2) (b_pad ctx + 1)) r out
          else None
      end
  end.

Definition b64_decode (src : bytes) : option bytes :=
  match b64_update (mkB 0 0 0) src [] with
  | Some (ctx, out) => if b_bits ctx =? 0 then Some out else None
  | None => None
  end.

Definition tolower (c : N) : N := if (65 <=? c) && (c <=? 90) then c + 32 else c.

Fixpoint ci_prefix (s p : bytes) : bool :=             (* strncasecmp(s, p, strlen(p)) == 0 *)
  match p, s with
  | [], _ => true
  | y :: p', x :: s' => (tolower x =? tolower y) && ci_prefix s' p'
  | _ :: _, [] => false
  end.

Definition b_basic : bytes := [98; 97; 115; 105; 99].

Fixpoint skip_graph (s : bytes) : bytes :=
  match s with
  | c :: r => if isgraph c then skip_graph r else s
  | [] => []
  end.

Fixpoint cut_at (x : N) (s : bytes) : bytes * option bytes :=       (* (before, Some after) at the first x *)
  match s with
  | [] => ([], None)
  | c :: r => if c =? x then ([], Some r)
              else let '(a, b) := cut_at x r in (c :: a, b)
  end.

(* Auth::SchemeConfig::Find + Auth::Basic::Config::decodeCleartext + the validity rules of decode():
   Some (user, password) for credentials that reach the user cache, None for everything answered by a challenge *)
Definition decode_header (casesensitive : bool) (hdr : bytes) : option (bytes * bytes) :=
  if negb (ci_prefix hdr b_basic) then None
  else
    let eek := fst (cut_at LF (skip_ws (skip_graph hdr))) in        (* strtok(eek, "\n") on a header value *)
    match b64_decode eek with
    | None => None
    | Some clear =>
        if existsb (fun c => (c =? 0) || (c =? CR) || (c =? LF)) clear then None
        else
          match cut_at 58 clear with
          | (_, None) => None                                         (* no password: AUTH_BROKEN *)
          | (u, Some p) =>
              match p with
              | [] => None                                            (* empty password refused *)
              | _ => Some (if casesensitive then u else map tolower u, p)
              end
          end
    end.

Inductive cred := Unchecked | Pending | COk | CFailed.

Record user := mkU { u_pass : bytes; u_cred : cred; u_expire : Z; u_queue : list N }.

Record astate := mkA {
  a_users : list (bytes * user);                 (* Auth::Basic::User::Cache(), keyed by user name *)
  a_lookups : list (N * (bytes * bytes));        (* helper requests in flight: request id -> line sent (user, password) *)
  a_out : list (N * option bytes);               (* verdicts: Some user = authorised (and logged) as user; None = 407 *)
  a_now : Z                                      (* squid_curtime *)
}.

Definition a_init : astate := mkA [] [] [] 0%Z.

Fixpoint find_user (k : bytes) (us : list (bytes * user)) : option user :=
  match us with
  | [] => None
  | (k', u) :: r => if list_eqb k k' then Some u else find_user k r
  end.

Fixpoint set_user (k : bytes) (u : user) (us : list (bytes * user)) : list (bytes * user) :=
  match us with
  | [] => [(k, u)]
  | (k', u') :: r => if list_eqb k k' then (k, u) :: r else (k', u') :: set_user k u r
  end.

Record acfg := mkCfg { c_ttl : Z; c_casesensitive : bool }.

Definition is_ok (c : cred) : bool := match c with COk => true | _ => false end.

(* Auth::Basic::User::authenticated() *)
Definition user_authenticated (cfg : acfg) (now : Z) (u : user) : bool :=
  is_ok (u_cred u) && (now <? u_expire u + c_ttl cfg)%Z.

(* Auth::UserRequest::authenticate() from "if (!authenticateUserAuthenticated(*auth_user_request))" on, followed by
   ACLProxyAuth::StartLookup -> startHelperLookup when the answer is AUTH_ACL_HELPER *)
Definition evaluate (cfg : acfg) (st : astate) (rid : N) (name : bytes) : astate :=
  match find_user name (a_users st) with
  | None => mkA (a_users st) (a_lookups st) (a_out st ++ [(rid, None)]) (a_now st)
  | Some u =>
      if user_authenticated cfg (a_now st) u then
        mkA (a_users st) (a_lookups st) (a_out st ++ [(rid, Some name)]) (a_now st)
      else
        match u_cred u with
        | CFailed => mkA (a_users st) (a_lookups st) (a_out st ++ [(rid, None)]) (a_now st)
        | Pending =>                        (* queue on the shared user: node->next = queue; queue = node *)
            mkA (set_user name (mkU (u_pass u) Pending (u_expire u) (rid :: u_queue u)) (a_users st))
                (a_lookups st) (a_out st) (a_now st)
        | _ =>                              (* Unchecked, or Ok but expired: ask the helper with the CACHED password *)
            mkA (set_user name (mkU (u_pass u) Pending (u_expire u) (u_queue u)) (a_users st))
                (a_lookups st ++ [(rid, (name, u_pass u))]) (a_out st) (a_now st)
        end
  end.

(* Auth::Basic::Config::decode: cache lookup / insert / updateCached *)
Definition decode_into_cache (st : astate) (name pass : bytes) : astate :=
  let u' :=
    match find_user name (a_users st) with
    | None => mkU pass Unchecked (a_now st) []
    | Some u =>
        let u1 := if list_eqb pass (u_pass u) then u else mkU pass Unchecked (u_expire u) (u_queue u) in
        match u_cred u1 with
        | CFailed => mkU (u_pass u1) Unchecked (u_expire u1) (u_queue u1)
        | _ => u1
        end
    end in
  mkA (set_user name u' (a_users st)) (a_lookups st) (a_out st) (a_now st).

Fixpoint take_lookup (rid : N) (ls : list (N * (bytes * bytes))) : option ((bytes * bytes) * list (N * (bytes * bytes))) :=
  match ls with
  | [] => None
  | (r, x) :: rest =>
      if r =? rid then Some (x, rest)
      else match take_lookup rid rest with
           | Some (y, rest') => Some (y, (r, x) :: rest')
           | None => None
           end
  end.

Inductive aev :=
| Arrive (rid : N) (hdr : option bytes)       (* a request with this Proxy-Authorization value (None: no header) *)
| Reply (rid : N)                             (* the helper answers the lookup that request rid started *)
| Tick (dt : Z).                              (* squid_curtime advances *)

Section Auth.
  (* the helper: whether it accepts the line "user password" *)
  Variable good : bytes -> bytes -> bool.
  Variable cfg : acfg.

  Definition astep (st : astate) (ev : aev) : astate :=
    match ev with
    | Tick dt => mkA (a_users st) (a_lookups st) (a_out st) (a_now st + dt)%Z
    | Arrive rid None => mkA (a_users st) (a_lookups st) (a_out st ++ [(rid, None)]) (a_now st)
    | Arrive rid (Some hdr) =>
        match decode_header (c_casesensitive cfg) hdr with
        | None => mkA (a_users st) (a_lookups st) (a_out st ++ [(rid, None)]) (a_now st)
        | Some (name, pass) => evaluate cfg (decode_into_cache st name pass) rid name
        end
    | Reply rid =>
        match take_lookup rid (a_lookups st) with
        | None => st
        | Some ((name, sent), rest) =>
            match find_user name (a_users st) with
            | None => mkA (a_users st) rest (a_out st) (a_now st)
            | Some u =>
                (* HandleReply: verdict and expiretime written to the SHARED user object *)
                let u1 := mkU (u_pass u) (if good name sent then COk else CFailed) (a_now st) [] in
                let st1 := mkA (set_user name u1 (a_users st)) rest (a_out st) (a_now st) in
                (* r->handler, then every queued handler *)
                fold_left (fun s q => evaluate cfg s q name) (rid :: u_queue u) st1
            end
        end
    end.

  Definition arun (st : astate) (evs : list aev) : astate := fold_left astep evs st.
End Auth.

Fixpoint find_out (rid : N) (o : list (N * option bytes)) : option (option bytes) :=
  match o with
  | [] => None
  | (r, v) :: rest => if r =? rid then Some v else find_out rid rest
  end.
