(* handlers for the sbuf area (C48): operation sequences over SBuf variables.
   Output format: see harness/h_sbuf.cc *)
let rec nat_of_int i = if i <= 0 then O else S (nat_of_int (i - 1))
let rec int_of_nat = function O -> 0 | S k -> 1 + int_of_nat k
let hexs l = if l = [] then "" else hex_of_bytes l

let parse_op (tok : string) : op * int =
  let f = Array.of_list (String.split_on_char ':' tok) in
  let v k = nat_of_int (int_of_string f.(k)) in
  let n k = n_of_string f.(k) in
  let b k = f.(k) = "1" in
  let hx k = bytes_of_hex f.(k) in
  let tgt = int_of_string f.(1) in
  let q x = OQuery (v 1, x) in
  let o = match f.(0) with
    | "set" -> OSet (v 1, hx 2)
    | "asg" -> OAsg (v 1, v 2)
    | "app" -> OApp (v 1, v 2)
    | "apl" -> OApl (v 1, hx 2)
    | "apr" -> OApr (v 1, v 2, n 3, n 4)
    | "asr" -> OAsr (v 1, v 2, n 3, n 4)
    | "psh" -> OPsh (v 1, n 2)
    | "con" -> OCon (v 1, v 2, n 3)
    | "chp" -> OChp (v 1, n 2, n 3)
    | "sub" -> OSub (v 1, v 2, n 3, n 4)
    | "trm" -> OTrm (v 1, v 2, b 3, b 4)
    | "sat" -> OSat (v 1, n 2, n 3)
    | "low" -> OLow (v 1)
    | "upp" -> OUpp (v 1)
    | "clr" -> OClr (v 1)
    | "rsv" -> ORsv (v 1, n 2)
    | "rcp" -> ORcp (v 1, n 2)
    | "rsq" -> ORsq (v 1, n 2, n 3, n 4, b 5)
    | "raw" -> ORaw (v 1, n 2, hx 3)
    | "cst" -> OCst (v 1)
    | "len" -> q QLen
    | "at" -> q (QAt (n 2))
    | "cpy" -> q (QCopy (n 2))
    | "fdc" -> q (QFindChar (n 2, n 3))
    | "fds" -> q (QFind (v 2, n 3))
    | "rfc" -> q (QRfindChar (n 2, n 3))
    | "rfs" -> q (QRfind (v 2, n 3))
    | "ffo" -> q (QFirstOf (storage_of_hex f.(2), n 3))
    | "ffn" -> q (QFirstNotOf (storage_of_hex f.(2), n 3))
    | "flo" -> q (QLastOf (storage_of_hex f.(2), n 3))
    | "fln" -> q (QLastNotOf (storage_of_hex f.(2), n 3))
    | "cmp" -> q (QCompare (v 2, b 3, n 4))
    | "stw" -> q (QStartsWith (v 2, b 3))
    | "eq" -> q (QEq (v 2))
    | s -> failwith ("unknown-op-" ^ s) in
  (o, tgt)

let sb_string_of_z = function Z0 -> "0" | Zpos p -> string_of_pos p | Zneg p -> "-" ^ string_of_pos p
let show_out = function
  | RVoid -> "-" | RNum k -> string_of_n k | RInt z -> sb_string_of_z z
  | RBytes l -> "x" ^ hex_of_bytes l | RThrow -> "T" | RShort -> "SHORT" | RSkip -> "SKIP" | RUndef -> "UNDEF"

let () =
  reg "seq" (fun (nvs :: ops) ->
    let nv = int_of_string nvs in
    let st = ref (init_h (nat_of_int nv)) in
    let last = Array.make nv "" in
    let buf = Buffer.create 256 in
    (try
      List.iteri (fun k tok ->
        let (o, tgt) = parse_op tok in
        let (st', r) = step_h !st o in
        st := st';
        if k > 0 then Buffer.add_char buf ' ';
        (match first_broken st' with
         | Some b -> Buffer.add_string buf (show_out r ^ "/BROKEN:" ^ string_of_n b); raise Exit
         | None -> ());
        Buffer.add_string buf (show_out r ^ "/");
        let first = ref true in
        for i = 0 to nv - 1 do
          let cur = hexs (content st'.hp (getv st' (nat_of_int i))) in
          if cur <> last.(i) then begin
            Buffer.add_string buf ((if !first then "" else ",") ^ string_of_int i ^ "=" ^ cur);
            first := false; last.(i) <- cur end
        done;
        let t = getv st' (nat_of_int tgt) in
        let bl = getb st'.hp t.sstore in
        Buffer.add_string buf ("/" ^ string_of_n t.soff ^ "." ^ string_of_n t.slen ^ "." ^ string_of_n (bsize bl)
                               ^ "." ^ string_of_n bl.bcap ^ "." ^ string_of_n bl.blocks)) ops
    with Exit -> ());
    Buffer.contents buf)
