(* Properties_C46.v — C46: proxy authentication gates forwarding and never mixes identities. Statements only. *)
Require Import SquidV.Bytes SquidV.AuthhelperModel SquidV.AuthhelperProofs.
Local Open Scope N_scope.

Theorem C46_no_header_challenged : forall good cfg st rid,
  a_out (astep good cfg st (Arrive rid None)) = a_out st ++ [(rid, None)].
Proof. exact arrive_no_header_denied. Qed.
Print Assumptions C46_no_header_challenged.
