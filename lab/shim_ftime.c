/* LD_PRELOAD frozen-clock shim (used by checks/c12.py): while the signed 64-bit value stored in the file
 * named by VERIF_TIME_FILE (8 bytes, native endian, mmap'ed) is non-zero, gettimeofday / time /
 * clock_gettime(CLOCK_REALTIME[_COARSE]) return exactly that many seconds since the epoch with a zero
 * sub-second part; the clock moves only when the check rewrites the file.  A zero value (or a missing file)
 * passes the real time through.  Unlike shim_time.c (real time + offset) this makes Squid's squid_curtime an
 * exact, scripted quantity, so "one second before / at / one second after expiry" can be probed without any
 * dependence on how long the test machine takes. */
#define _GNU_SOURCE
#include <dlfcn.h>
#include <fcntl.h>
#include <stdint.h>
#include <stdlib.h>
#include <sys/mman.h>
#include <sys/time.h>
#include <time.h>
#include <unistd.h>

static volatile int64_t *val_ptr;
static int64_t zero;

static int64_t cur(void) {
    if (!val_ptr) {
        const char *p = getenv("VERIF_TIME_FILE");
        val_ptr = &zero;
        if (p) {
            int fd = open(p, O_RDONLY);
            if (fd >= 0) {
                void *m = mmap(0, 8, PROT_READ, MAP_SHARED, fd, 0);
                if (m != MAP_FAILED) val_ptr = (volatile int64_t *)m;
                close(fd);
            }
        }
    }
    return *val_ptr;
}

int gettimeofday(struct timeval *tv, void *tz) {
    static int (*real)(struct timeval *, void *);
    if (!real) real = dlsym(RTLD_NEXT, "gettimeofday");
    int r = real(tv, tz);
    int64_t v = cur();
    if (r == 0 && tv && v) { tv->tv_sec = v; tv->tv_usec = 0; }
    return r;
}

time_t time(time_t *t) {
    static time_t (*real)(time_t *);
    if (!real) real = dlsym(RTLD_NEXT, "time");
    int64_t v = cur();
    time_t x = v ? (time_t)v : real(0);
    if (t) *t = x;
    return x;
}

int clock_gettime(clockid_t id, struct timespec *ts) {
    static int (*real)(clockid_t, struct timespec *);
    if (!real) real = dlsym(RTLD_NEXT, "clock_gettime");
    int r = real(id, ts);
    if (r == 0 && ts && (id == CLOCK_REALTIME || id == CLOCK_REALTIME_COARSE)) {
        int64_t v = cur();
        if (v) { ts->tv_sec = v; ts->tv_nsec = 0; }
    }
    return r;
}
