(* FtpModel.v — src/ftp/Parsing.cc (Ftp::ParseIpPort, Ftp::ParseProtoIpPort, Ftp::UnescapeDoubleQuoted)
   and the directory-listing line parser ftpListParseParts of src/clients/FtpGateway.cc, over list N.

   C strings are byte lists without NUL (the harness hands the code the bytes before the first NUL).
   Machine integers are Z with explicit saturation (strtol: long) and truncation (long -> int).
   Reads through pointers derived from the listing line, stores into tokens[] and snprintf() into
   tbuf[] go through checked primitives with the distinct outcome OOB.

   External behaviour NOT modelled: getaddrinfo(AI_NUMERICHOST) behind Ip::Address::operator=(const char * );
   it is the parameter `ipf` (text -> Some 16 address bytes | None).  For the text ParseIpPort renders
   itself ("%ld.%ld.%ld.%ld" of four numbers already checked to be 0..255) the result is modelled directly:
   that dotted quad. *)
Require Import SquidV.Bytes SquidV.TokModel.
Require Import SquidV.gen.Ftp_gen SquidV.gen.FtpSrc_gen.
Local Open Scope N_scope.

(* ------------------------------------------------------------------ *)
(* C integer conversions                                               *)
(* ------------------------------------------------------------------ *)
Definition two32 : Z := 4294967296.

(* strtol()'s clamp to long (64 bit) *)
Definition sat64 (v : Z) : Z :=
  (if v >? two63 - 1 then two63 - 1 else if v <? - two63 then - two63 else v)%Z.

(* long -> int conversion (low 32 bits, two's complement) *)
Definition wrap32 (v : Z) : Z :=
  (let m := v mod two32 in if m >=? two31 then m - two32 else m)%Z.

(* what atoi() / `int x = strtol(...)` yield for the mathematical value v (EPLF size field) *)
Definition to_int (v : Z) : Z := wrap32 (sat64 v).

(* the subject sequence of strtol(,,10) and of scanf's %d: white space, optional sign, digits.
   Some (mathematical value, rest after the digits); None = no conversion *)
Definition scan_int (s : bytes) : option (Z * bytes) :=
  let '(l1, _) := skip_space s 0 in
  let '(neg, l2) :=
    match l1 with
    | c :: r => if c =? 45 then (true, r) else if c =? 43 then (false, r) else (false, l1)
    | [] => (false, l1)
    end in
  let ds := digit_run 10 l2 in
  match ds with
  | [] => None
  | _ => let v := digits_value 10 ds 0 in
         Some ((if neg then - v else v)%Z, dropN (lenN ds) l2)
  end.

(* strtol(s, &e, 10): (long value, e); no conversion: (0, s) *)
Definition strtol10 (s : bytes) : Z * bytes :=
  match scan_int s with
  | Some (v, r) => (sat64 v, r)
  | None => (0%Z, s)
  end.

(* ------------------------------------------------------------------ *)
(* Ftp::ParseIpPort                                                    *)
(* ------------------------------------------------------------------ *)
(* sscanf(buf, "%d,%d,...") with k conversions: mathematical values of the conversions that succeeded *)
Fixpoint scan_commas (k : nat) (s : bytes) : list Z :=
  match k with
  | O => []
  | S k' =>
      match scan_int s with
      | None => []
      | Some (v, r) =>
          v :: match k' with
               | O => []
               | S _ => match r with
                        | 44 :: r' => scan_commas k' r'
                        | _ => []
                        end
               end
      end
  end.

Definition zero16 : bytes := [0;0;0;0;0;0;0;0;0;0;0;0;0;0;0;0].
Definition v4mapped (a b c d : Z) : bytes :=
  [0;0;0;0;0;0;0;0;0;0;255;255; Z.to_N a; Z.to_N b; Z.to_N c; Z.to_N d].

Definition all_zero (a : bytes) : bool := forallb (fun x => x =? 0) a.
(* IN6_IS_ADDR_V4MAPPED *)
Definition is_v4 (a : bytes) : bool := list_eqb (takeN 12 a) [0;0;0;0;0;0;0;0;0;0;255;255].
(* Ip::Address::isAnyAddr: :: or ::ffff:0.0.0.0 *)
Definition is_any (a : bytes) : bool := all_zero a || list_eqb a (v4mapped 0 0 0 0).

Definition octet (h : Z) : bool := ((0 <=? h) && (h <=? 255))%Z.

(* addr = text on a default-constructed Ip::Address: a failed lookup leaves it unspecified (::) *)
Definition assign (ipf : bytes -> option bytes) (text : bytes) : bytes :=
  match ipf text with Some a => a | None => zero16 end.

(* force = None: forceIp == nullptr; Some t: forceIp = t.
   Result: Some (16 address bytes, port) = true, None = false.
   The six numbers are scanned with "%ld": glibc stores strtol()'s clamped long (sat64), no reduction modulo 2^32. *)
Definition parse_ip_port (ipf : bytes -> option bytes) (sanity : bool) (force : option bytes) (buf : bytes)
  : option (bytes * Z) :=
  match map sat64 (scan_commas 6 buf) with
  | [h1; h2; h3; h4; p1; p2] =>
      if ((p1 <? 0) || (p2 <? 0) || (p1 >? 255) || (p2 >? 255))%Z then None else
      (* "validate the IP we got even when it is not going to be used" *)
      if negb (octet h1 && octet h2 && octet h3 && octet h4) then None else
      let port := (p1 * 256 + p2)%Z in     (* static_cast<int>((p1 << 8) + p2): at most 65535 here *)
      let finish (a : bytes) :=
        if (port <=? 0)%Z then None
        else if sanity && (port <? 1024)%Z then None
        else Some (a, port) in
      match force with
      | Some t => finish (assign ipf t)
      | None =>
          (* snprintf "%ld.%ld.%ld.%ld" of four octets (at most 15 bytes into ipBuf[1024]); the numeric lookup of
             a canonical dotted quad yields that address *)
          let a := v4mapped h1 h2 h3 h4 in
          if is_any a then None else finish a
      end
  | _ => None
  end.

(* ------------------------------------------------------------------ *)
(* Ftp::ParseProtoIpPort                                               *)
(* ------------------------------------------------------------------ *)
Inductive eres := EPrecondition | EFail | EOk (a : bytes) (port : Z).

Definition head0 (s : bytes) : N := match s with c :: _ => c | [] => 0 end.   (* *p on a C string *)

Definition parse_proto_ip_port (ipf : bytes -> option bytes) (sanity : bool) (buf : bytes) : eres :=
  match buf with
  | [] => EPrecondition                 (* s = buf + 1 is already past the terminator *)
  | delim :: s =>
      let '(protoL, e) := strtol10 s in
      let proto := protoL in             (* const long proto = strtol(...): no conversion to int *)
      if negb ((proto =? 1) || (proto =? 2))%Z || negb (head0 e =? delim) then EFail else
      let s2 := dropN 1 e in
      match find_first (fun c => c =? delim) s2 with
      | None => EFail
      | Some k =>
          if max_ipstrlen <=? k then EFail else
          let a := assign ipf (takeN k s2) in
          if is_any a then EFail else
          if negb (Bool.eqb (proto =? 2)%Z (negb (is_v4 a))) then EFail else
          let s3 := dropN (k + 1) s2 in
          let '(port, e3) := strtol10 s3 in
          if ((port <=? 0) || (port >? 65535))%Z || negb (head0 e3 =? 124) then EFail else
          if sanity && (port <? 1024)%Z then EFail else EOk a port
      end
  end.

(* ------------------------------------------------------------------ *)
(* Ftp::UnescapeDoubleQuoted                                           *)
(* ------------------------------------------------------------------ *)
(* after the opening quote; None = no closing quote (path.reset()) *)
Fixpoint unq_body (s : bytes) : option bytes :=
  match s with
  | [] => None
  | c :: r =>
      if c =? 34 then
        match r with
        | d :: r' => if d =? 34 then option_map (cons 34) (unq_body r') else Some []
        | [] => Some []
        end
      else option_map (cons c) (unq_body r)
  end.

Definition unescape_dq (s : bytes) : bytes :=
  match s with
  | c :: r => if c =? 34 then match unq_body r with Some p => p | None => [] end else []
  | [] => []
  end.

(* the inverse direction used by the round-trip theorem: FTP quoting doubles every quote *)
Fixpoint dq_escape (s : bytes) : bytes :=
  match s with
  | [] => []
  | c :: r => if c =? 34 then 34 :: 34 :: dq_escape r else c :: dq_escape r
  end.

(* ------------------------------------------------------------------ *)
(* checked memory primitives                                           *)
(* ------------------------------------------------------------------ *)
Inductive chk (A : Type) := Val (a : A) | OOB.
Arguments Val {A} a.
Arguments OOB {A}.
Definition bind {A B} (x : chk A) (f : A -> chk B) : chk B :=
  match x with Val a => f a | OOB => OOB end.
Notation "'do' x <- e ; f" := (bind e (fun x => f)) (at level 200, x name, e at level 100, f at level 200).

(* the C string that starts at buf + off: valid iff off <= strlen(buf) (the terminator is readable) *)
Definition cstr_at (buf : bytes) (off : N) : chk bytes :=
  if off <=? lenN buf then Val (dropN off buf) else OOB.

Record tokrec := { t_tok : bytes; t_pos : N }.

(* tokens[i] for an int i: valid iff 0 <= i < n_tokens *)
Definition tok_get (arr : list tokrec) (i : Z) : chk tokrec :=
  if (i <? 0)%Z then OOB else
  match nthN (Z.to_N i) arr with Some t => Val t | None => OOB end.

(* snprintf(dst, size, ...) into an array of cap bytes producing the text s:
   (stored text = first size-1 bytes, return value = full length) *)
Definition snprintf_chk (cap size : N) (s : bytes) : chk (bytes * N) :=
  if (size <=? cap) && (0 <? size) then Val (takeN (size - 1) s, lenN s) else OOB.

(* ------------------------------------------------------------------ *)
(* ftpListParseParts                                                   *)
(* ------------------------------------------------------------------ *)
(* strtok(xbuf, w_space) repeatedly: maximal delimiter-free runs with their offsets *)
Fixpoint tokscan (s : bytes) (pos start : N) (cur : bytes) : list tokrec :=
  match s with
  | [] => match cur with [] => [] | _ => [{| t_tok := rev cur; t_pos := start |}] end
  | c :: r =>
      if is_wsp c then
        match cur with
        | [] => tokscan r (pos + 1) (pos + 1) []
        | _ => {| t_tok := rev cur; t_pos := start |} :: tokscan r (pos + 1) (pos + 1) []
        end
      else tokscan r (pos + 1) (match cur with [] => pos | _ => start end) (c :: cur)
  end.
Definition all_tokens (buf : bytes) : list tokrec := tokscan buf 0 0 [].

(* for (t = strtok(..); t && n_tokens < guard; t = strtok(nullptr, ..)) tokens[n_tokens++] = ...
   with tokens[] declared with cap elements *)
Fixpoint store_loop (guard cap : N) (ts : list tokrec) (arr : list tokrec) : chk (list tokrec) :=
  match ts with
  | [] => Val arr
  | t :: r =>
      if lenN arr <? guard then
        if lenN arr <? cap then store_loop guard cap r (arr ++ [t]) else OOB
      else Val arr
  end.

Definition lower (c : N) : N := if is_upper c then c + 32 else c.
Definition caseless_eqb (a b : bytes) : bool := list_eqb (map lower a) (map lower b).   (* strcasecmp == 0 *)
Definition is_month (t : bytes) : bool := existsb (caseless_eqb t) months.

Definition nonempty (s : bytes) : bool := match s with [] => false | _ => true end.
(* "^[0123456789]+$" *)
Definition re_integer (t : bytes) : bool := nonempty t && forallb is_digit t.
(* "^[0123456789:]+$" *)
Definition re_time (t : bytes) : bool := nonempty t && forallb (fun c => is_digit c || (c =? 58)) t.
(* [0-9]+ then the continuation *)
Definition digits1 (t : bytes) : option bytes :=
  let '(d, r) := span is_digit t in match d with [] => None | _ => Some r end.
(* "^[0123456789]+-[0123456789]+-[0123456789]+$" *)
Definition re_dosdate (t : bytes) : bool :=
  match digits1 t with
  | Some (45 :: r1) =>
      match digits1 r1 with
      | Some (45 :: r2) => match digits1 r2 with Some [] => true | _ => false end
      | _ => false
      end
  | _ => false
  end.
(* "^[0123456789]+:[0123456789]+[AP]M$", REG_ICASE *)
Definition re_dostime (t : bytes) : bool :=
  match digits1 t with
  | Some (58 :: r1) =>
      match digits1 r1 with
      | Some [x; y] => ((lower x =? 97) || (lower x =? 112)) && (lower y =? 109)
      | _ => false
      end
  | _ => false
  end.

Definition spaces (n : N) : bytes := repeat 32 (N.to_nat n).
Definition padl (w : N) (s : bytes) : bytes := spaces (w - lenN s) ++ s.     (* %ws  *)
Definition padr (w : N) (s : bytes) : bytes := s ++ spaces (w - lenN s).     (* %-ws *)
Definition fmt_a (mo dy yr : bytes) : bytes := mo ++ [32] ++ padl 2 dy ++ [32] ++ padl 5 yr.   (* "%s %2s %5s"  *)
Definition fmt_b (mo dy yr : bytes) : bytes := mo ++ [32] ++ padl 2 dy ++ [32] ++ padr 5 yr.   (* "%s %2s %-5s" *)

(* strncmp(a, b, n) == 0 on C strings *)
Fixpoint strncmp_eq (a b : bytes) (n : nat) : bool :=
  match n with
  | O => true
  | S k =>
      match a, b with
      | [], [] => true
      | x :: a', y :: b' => (x =? y) && strncmp_eq a' b' k
      | _, _ => false
      end
  end.

(* strstr(h, p): offset of the first occurrence *)
Fixpoint strstr (h p : bytes) : option N :=
  if starts_with h p then Some 0 else
  match h with
  | [] => None
  | _ :: r => option_map N.succ (strstr r p)
  end.

(* strtoll(s, nullptr, 10) *)
Definition strtoll_val (s : bytes) : Z := fst (strtol10 s).
(* atoi(s) *)
Definition atoi (s : bytes) : Z := match scan_int s with Some (v, _) => to_int v | None => 0%Z end.
(* strtol(s, &tmp, 0) leaves tmp == s: after white space and an optional sign there is no decimal digit
   (with base 0 any leading digit starts a decimal, octal or hex subject sequence) *)
Definition strtol0_noconv (s : bytes) : bool :=
  let '(l1, _) := skip_space s 0 in
  let l2 := match l1 with c :: r => if (c =? 45) || (c =? 43) then r else l1 | [] => l1 end in
  match l2 with c :: _ => negb (is_digit c) | [] => true end.

Record parts := { p_type : N; p_size : Z; p_date : option bytes; p_name : bytes; p_link : option bytes }.
Inductive lres := LNull | LParts (p : parts).
Inductive step := Continue | Break | Found (p : parts).

Definition arrow : bytes := [32; 45; 62; 32].    (* " -> " *)

(* one iteration of "locate the Month field" *)
Definition unix_body (skipws : bool) (buf : bytes) (arr : list tokrec) (i : Z) : chk step :=
  do sz <- tok_get arr (i - 1)%Z;
  do mo <- tok_get arr i;
  do dy <- tok_get arr (i + 1)%Z;
  do yr <- tok_get arr (i + 2)%Z;
  if negb (is_month (t_tok mo)) then Val Continue else
  if negb (re_integer (t_tok sz)) then Val Continue else
  if negb (re_integer (t_tok dy)) then Val Continue else
  if negb (re_time (t_tok yr)) then Val Continue else
  do from <- cstr_at buf (t_pos mo);                              (* copyFrom = buf + tokens[i].pos *)
  do fa <- snprintf_chk tbuf_size tbuf_size (fmt_a (t_tok mo) (t_tok dy) (t_tok yr));
  let isA := (snd fa =? 12) && strncmp_eq from (fst fa) 12 in
  do fb <- snprintf_chk tbuf_size tbuf_size (fmt_b (t_tok mo) (t_tok dy) (t_tok yr));
  let isB := ((snd fb =? 12) || (snd fb =? 11)) && strncmp_eq from (fst fb) (N.to_nat (snd fb)) in
  if isA || isB then
    do t0 <- tok_get arr 0;
    let type := head0 (t_tok t0) in
    do fd <- snprintf_chk tbuf_size tbuf_size (fmt_a (t_tok mo) (t_tok dy) (t_tok yr));
    (* point after tokens[i+2] *)
    do after <- cstr_at buf (t_pos yr + lenN (t_tok yr));
    let name0 :=
      if skipws then snd (span is_wsp after)
      else match after with c :: r => if is_wsp c then r else after | [] => after end in
    let '(name, link) :=
      if type =? 108 then
        match strstr name0 arrow with
        | Some k => (takeN k name0, Some (dropN (k + 4) name0))
        | None => (name0, None)
        end
      else (name0, None) in
    Val (Found {| p_type := type; p_size := strtoll_val (t_tok sz); p_date := Some (fst fd);
                  p_name := name; p_link := link |})
  else Val Break.

(* for (i = 3; i < n_tokens - 2; ++i): the index list is [3 .. n_tokens-3] *)
Fixpoint unix_loop (skipws : bool) (buf : bytes) (arr : list tokrec) (idx : list Z) : chk step :=
  match idx with
  | [] => Val Continue
  | i :: r =>
      do s <- unix_body skipws buf arr i;
      match s with
      | Continue => unix_loop skipws buf arr r
      | _ => Val s
      end
  end.
Definition unix_indices (n_tokens : N) : list Z :=
  map (fun k => Z.of_nat k + 3)%Z (seq 0 (N.to_nat (n_tokens - 5))).

(* "try it as a DOS listing" *)
Definition dos_try (arr : list tokrec) : chk (option parts) :=
  if 3 <? lenN arr then
    do t0 <- tok_get arr 0;
    do t1 <- tok_get arr 1;
    if re_dosdate (t_tok t0) && re_dostime (t_tok t1) then
      do t2 <- tok_get arr 2;
      do t3 <- tok_get arr 3;
      let isdir := caseless_eqb (t_tok t2) [60; 100; 105; 114; 62] in       (* "<dir>" *)
      do fd <- snprintf_chk tbuf_size tbuf_size (t_tok t0 ++ [32] ++ t_tok t1);
      Val (Some {| p_type := if isdir then 100 else 45;
                   p_size := if isdir then 0%Z else strtoll_val (t_tok t2);
                   p_date := Some (fst fd); p_name := t_tok t3; p_link := None |})
    else Val None
  else Val None.

(* EPLF: the comma separated facts of buf+1 with their offsets in buf *)
Fixpoint segscan (s : bytes) (pos start : N) (cur : bytes) : list tokrec :=
  match s with
  | [] => [{| t_tok := rev cur; t_pos := start |}]
  | c :: r =>
      if c =? 44 then {| t_tok := rev cur; t_pos := start |} :: segscan r (pos + 1) (pos + 1) []
      else segscan r (pos + 1) start (c :: cur)
  end.

Record eplf := { e_type : N; e_size : Z; e_date : option bytes; e_name : option bytes }.

(* one turn of "while (ct && *ct)" with ct = buf + t_pos and l = strcspn(ct, ",") = length of the fact *)
Definition eplf_fact (buf : bytes) (st : eplf) (f : tokrec) : chk eplf :=
  let l := lenN (t_tok f) in
  if l <? 1 then Val st else
  do s1 <- cstr_at buf (t_pos f + 1);                              (* ct + 1 *)
  let c := head0 (t_tok f) in
  if c =? 9 then       (* '\t': xstrndup(ct + 1, l + 1) copies min(strlen, l) bytes: a following comma is included *)
    Val {| e_type := e_type st; e_size := e_size st; e_date := e_date st; e_name := Some (takeN l s1) |}
  else if c =? 115 then (* 's' *)
    Val {| e_type := e_type st; e_size := atoi s1; e_date := e_date st; e_name := e_name st |}
  else if c =? 109 then (* 'm': the date is only set when strtol() converted nothing, i.e. for time 0 *)
    if strtol0_noconv s1
    then Val {| e_type := e_type st; e_size := e_size st; e_date := Some ctime_zero; e_name := e_name st |}
    else Val st
  else if c =? 47 then  (* '/' *)
    Val {| e_type := 100; e_size := e_size st; e_date := e_date st; e_name := e_name st |}
  else if c =? 114 then (* 'r' *)
    Val {| e_type := 45; e_size := e_size st; e_date := e_date st; e_name := e_name st |}
  else Val st.

Fixpoint eplf_loop (buf : bytes) (st : eplf) (fs : list tokrec) : chk eplf :=
  match fs with
  | [] => Val st
  | f :: r => do st' <- eplf_fact buf st f; eplf_loop buf st' r
  end.

Definition eplf_try (buf : bytes) : chk lres :=
  match buf with
  | 43 :: rest =>
      do st <- eplf_loop buf {| e_type := 0; e_size := 0; e_date := None; e_name := None |} (segscan rest 1 1 []);
      match e_name st with
      | Some nm => Val (LParts {| p_type := if e_type st =? 0 then 45 else e_type st; p_size := e_size st;
                                  p_date := e_date st; p_name := nm; p_link := None |})
      | None => Val LNull
      end
  | _ => Val LNull
  end.

Definition list_parse (nlst skipws : bool) (buf : bytes) : chk lres :=
  match buf with
  | [] => Val LNull
  | _ =>
      if nlst then Val (LParts {| p_type := 0; p_size := 0; p_date := None; p_name := buf; p_link := None |})
      else
        do arr <- store_loop max_tokens tokens_capacity (all_tokens buf) [];
        do s <- unix_loop skipws buf arr (unix_indices (lenN arr));
        match s with
        | Found p => Val (LParts p)
        | _ =>
            do d <- dos_try arr;
            match d with
            | Some p => Val (LParts p)
            | None => eplf_try buf
            end
        end
  end.
