(* EventProofs.v — proofs about EventModel.v (C59). *)
Require Import SquidV.Bytes SquidV.EventModel.
Require Import SquidV.gen.Event_gen.
From Coq Require Import Sorting.Sorted Sorting.Permutation ZifyBool ZifyN ZifyNat.
Local Open Scope Z_scope.
Ltac Zify.zify_post_hook ::= Z.div_mod_to_equations.

(* ------------------------------------------------------------------------------------------------ *)
(* order of firing: due time first, scheduling sequence number among equal due times *)
Definition ev_lt (x y : ev) : Prop :=
  e_when x < e_when y \/ (e_when x = e_when y /\ (e_id x < e_id y)%N).

Definition ev_due (now : Z) (x : ev) : Prop := e_when x <= now.

(* ---- sublists ---------------------------------------------------------------------------------- *)
Inductive sub {A} : list A -> list A -> Prop :=
| sub_nil : sub [] []
| sub_skip x l1 l2 : sub l1 l2 -> sub l1 (x :: l2)
| sub_keep x l1 l2 : sub l1 l2 -> sub (x :: l1) (x :: l2).

Lemma sub_refl {A} (l : list A) : sub l l.
Proof. induction l; [apply sub_nil | apply sub_keep; assumption]. Qed.

Lemma sub_nil_l {A} (l : list A) : sub [] l.
Proof. induction l; [apply sub_nil | apply sub_skip; assumption]. Qed.

Lemma sub_In {A} (l1 l2 : list A) : sub l1 l2 -> forall x, In x l1 -> In x l2.
Proof. induction 1; cbn; intros y Hy; auto. destruct Hy; auto. Qed.

Lemma sub_app_l {A} (p l1 l2 : list A) : sub l1 l2 -> sub (p ++ l1) (p ++ l2).
Proof. intros H; induction p; cbn; [assumption | apply sub_keep; assumption]. Qed.

Lemma sub_app_drop {A} (d l : list A) : sub l (d ++ l).
Proof. induction d; cbn; [apply sub_refl | apply sub_skip; assumption]. Qed.

Lemma sub_app_mid {A} (l1 : list A) x l2 : sub (l1 ++ l2) (l1 ++ x :: l2).
Proof. apply sub_app_l. apply sub_skip. apply sub_refl. Qed.

Lemma sub_filter {A} (p : A -> bool) l : sub (filter p l) l.
Proof. induction l as [|x l IH]; cbn; [constructor|]. destruct (p x); [apply sub_keep | apply sub_skip]; assumption. Qed.

Lemma sub_Forall {A} (P : A -> Prop) l1 l2 : sub l1 l2 -> Forall P l2 -> Forall P l1.
Proof. intros Hs HF. rewrite Forall_forall in *. intros x Hx. apply HF. eapply sub_In; eauto. Qed.

Lemma sub_sorted {A} (R : A -> A -> Prop) l1 l2 : sub l1 l2 -> StronglySorted R l2 -> StronglySorted R l1.
Proof.
  induction 1 as [|x l1 l2 Hs IH|x l1 l2 Hs IH]; intros HS; [constructor| |].
  - inversion HS; subst. auto.
  - inversion HS as [|? ? HS' HF]; subst. constructor; [auto|]. eapply sub_Forall; eauto.
Qed.

Lemma sub_map {A B} (f : A -> B) l1 l2 : sub l1 l2 -> sub (map f l1) (map f l2).
Proof. induction 1; cbn; [apply sub_nil | apply sub_skip | apply sub_keep]; assumption. Qed.

Lemma sub_NoDup {A} (l1 l2 : list A) : sub l1 l2 -> NoDup l2 -> NoDup l1.
Proof.
  induction 1 as [|x l1 l2 Hs IH|x l1 l2 Hs IH]; intros HN; [constructor| |].
  - inversion HN; subst; auto.
  - inversion HN as [|? ? Hni HN']; subst. constructor; [|auto]. intros Hin. apply Hni. eapply sub_In; eauto.
Qed.

Lemma sorted_impl {A} (R S : A -> A -> Prop) l :
  (forall x y, R x y -> S x y) -> StronglySorted R l -> StronglySorted S l.
Proof.
  intros HRS; induction 1 as [|x l HS IH HF]; constructor; [assumption|].
  rewrite Forall_forall in *. auto.
Qed.

Lemma NoDup_map_inj {A B} (f : A -> B) l a b :
  NoDup (map f l) -> In a l -> In b l -> f a = f b -> a = b.
Proof.
  induction l as [|x l IH]; cbn; intros HN Ha Hb Hf; [contradiction|].
  inversion HN as [|? ? Hni HN']; subst.
  destruct Ha as [->|Ha], Hb as [->|Hb]; auto.
  - exfalso. apply Hni. rewrite Hf. apply in_map. assumption.
  - exfalso. apply Hni. rewrite <- Hf. apply in_map. assumption.
Qed.

(* ---- schedule ---------------------------------------------------------------------------------- *)
Lemma ev_lt_when x y : ev_lt x y -> e_when x <= e_when y.
Proof. unfold ev_lt; lia. Qed.

Lemma insert_In e q y : In y (ev_insert e q) <-> y = e \/ In y q.
Proof.
  induction q as [|x r IH]; cbn [ev_insert].
  - cbn. intuition.
  - destruct (e_when x >? e_when e); cbn [In]; [intuition|]. rewrite IH. intuition.
Qed.

Lemma insert_perm e q : Permutation (ev_insert e q) (e :: q).
Proof.
  induction q as [|x r IH]; cbn [ev_insert]; [reflexivity|].
  destruct (e_when x >? e_when e); [reflexivity|].
  rewrite IH. apply perm_swap.
Qed.

Lemma insert_sorted e q :
  StronglySorted ev_lt q -> Forall (fun x => (e_id x < e_id e)%N) q -> StronglySorted ev_lt (ev_insert e q).
Proof.
  induction 1 as [|x r HS IH HF]; intros Hid; cbn [ev_insert]; [repeat constructor|].
  inversion Hid as [|? ? Hx Hr]; subst.
  destruct (e_when x >? e_when e) eqn:E.
  - constructor; [constructor; assumption|].
    constructor; [unfold ev_lt; lia|].
    rewrite Forall_forall in *. intros y Hy. specialize (HF y Hy). apply ev_lt_when in HF. unfold ev_lt. lia.
  - constructor; [auto|].
    rewrite Forall_forall in *. intros y Hy. apply insert_In in Hy. destruct Hy as [->|Hy]; [|auto].
    unfold ev_lt. lia.
Qed.

(* schedule() inserts behind every event with the same or an earlier time, in front of all later ones *)
Lemma insert_spec e q :
  StronglySorted ev_lt q ->
  ev_insert e q = filter (fun x => e_when x <=? e_when e) q ++ e :: filter (fun x => e_when x >? e_when e) q.
Proof.
  induction 1 as [|x r HS IH HF]; cbn [ev_insert filter]; [reflexivity|].
  destruct (e_when x >? e_when e) eqn:E.
  - replace (e_when x <=? e_when e) with false by lia.
    assert (Hall : forall y, In y r -> e_when y > e_when e).
    { rewrite Forall_forall in HF. intros y Hy. specialize (HF y Hy). apply ev_lt_when in HF. lia. }
    replace (filter (fun x0 => e_when x0 <=? e_when e) r) with (@nil ev).
    2:{ symmetry. clear -Hall. induction r as [|y r IH]; cbn; [reflexivity|].
        replace (e_when y <=? e_when e) with false by (specialize (Hall y (or_introl eq_refl)); lia).
        apply IH. intros; apply Hall; right; assumption. }
    replace (filter (fun x0 => e_when x0 >? e_when e) r) with r; [reflexivity|].
    clear -Hall. induction r as [|y r IH]; cbn; [reflexivity|].
    replace (e_when y >? e_when e) with true by (specialize (Hall y (or_introl eq_refl)); lia).
    f_equal. apply IH. intros; apply Hall; right; assumption.
  - replace (e_when x <=? e_when e) with true by lia. cbn [app]. f_equal. apply IH.
Qed.

(* ---- cancel ------------------------------------------------------------------------------------ *)
Lemma cancel_loop_sub f a q : sub (fst (ev_cancel_loop f a q)) q.
Proof.
  induction q as [|x r IH]; cbn [ev_cancel_loop]; [constructor|].
  destruct (ev_nomatch f a x).
  - destruct (ev_cancel_loop f a r) as [r' ret]; cbn [fst] in *. apply sub_keep; assumption.
  - destruct (negb (a =? 0)%N); cbn [fst]; apply sub_skip; [apply sub_refl | assumption].
Qed.

Lemma cancel_sub f a q : sub (fst (ev_cancel f a q)) q.
Proof.
  unfold ev_cancel. pose proof (cancel_loop_sub f a q) as H.
  destruct (ev_cancel_loop f a q); assumption.
Qed.

(* cancel(func, nullptr): exactly the events of func go, no trap *)
Lemma cancel_all_spec f q :
  ev_cancel f 0%N q = (filter (fun x => negb (e_func x =? f)%N) q, false).
Proof.
  unfold ev_cancel.
  assert (H : ev_cancel_loop f 0%N q = (filter (fun x => negb (e_func x =? f)%N) q, false)).
  { induction q as [|x r IH]; cbn [ev_cancel_loop filter]; [reflexivity|].
    unfold ev_nomatch. cbn [N.eqb negb andb]. rewrite orb_false_r.
    destruct (negb (e_func x =? f)%N); [rewrite IH; reflexivity | apply IH]. }
  rewrite H. reflexivity.
Qed.

Lemma cancel_loop_one f a q : a <> 0%N ->
  (forallb (ev_nomatch f a) q = true /\ ev_cancel_loop f a q = (q, false)) \/
  (exists l1 x l2, q = l1 ++ x :: l2 /\ forallb (ev_nomatch f a) l1 = true /\ ev_nomatch f a x = false /\
                   ev_cancel_loop f a q = (l1 ++ l2, true)).
Proof.
  intros Ha.
  assert (Hn : negb (a =? 0)%N = true) by (destruct (N.eqb_spec a 0); [contradiction | reflexivity]).
  induction q as [|x r IH]; cbn [ev_cancel_loop forallb].
  - left. split; reflexivity.
  - destruct (ev_nomatch f a x) eqn:E.
    + destruct IH as [[Hall Hc] | (l1 & y & l2 & Hq & Hl1 & Hy & Hc)].
      * left. rewrite Hc. split; [assumption|reflexivity].
      * right. exists (x :: l1), y, l2. rewrite Hc. cbn [forallb app]. rewrite E, Hl1, Hq. repeat split; auto.
    + right. exists [], x, r. rewrite Hn. cbn. repeat split; auto.
Qed.

(* cancel(func, arg), arg != nullptr: exactly the first match goes; no match => the queue is untouched and
   debug_trap is called *)
Lemma cancel_one_spec f a q : a <> 0%N ->
  (forallb (ev_nomatch f a) q = true /\ ev_cancel f a q = (q, true)) \/
  (exists l1 x l2, q = l1 ++ x :: l2 /\ forallb (ev_nomatch f a) l1 = true /\ ev_nomatch f a x = false /\
                   ev_cancel f a q = (l1 ++ l2, false)).
Proof.
  intros Ha.
  assert (Hn : negb (a =? 0)%N = true) by (destruct (N.eqb_spec a 0); [contradiction | reflexivity]).
  unfold ev_cancel.
  destruct (cancel_loop_one f a q Ha) as [[Hall Hc] | (l1 & y & l2 & Hq & Hl1 & Hy & Hc)]; rewrite Hc, Hn.
  - left. split; [assumption|reflexivity].
  - right. exists l1, y, l2. repeat split; auto.
Qed.

(* ---- timeRemaining ----------------------------------------------------------------------------- *)
Lemma remaining_zero_iff now q :
  ev_time_remaining now q = CRes 0 <-> exists x r, q = x :: r /\ e_when x <= now.
Proof.
  unfold ev_time_remaining. destruct q as [|x r].
  - split; [intros H; inversion H | intros (x & r & H & _); discriminate].
  - destruct (e_when x <=? now) eqn:E.
    + split; [intros _; exists x, r; split; [reflexivity|lia] | reflexivity].
    + split.
      * destruct (_ >? ev_int_max); intros H; [discriminate|]. inversion H. lia.
      * intros (y & r' & Hq & Hle). inversion Hq; subst. lia.
Qed.

Lemma remaining_spec now q :
  match q with
  | [] => ev_time_remaining now q = CRes ev_idle
  | x :: _ =>
    (e_when x <= now /\ ev_time_remaining now q = CRes 0) \/
    (e_when x > now /\
     ((1000 * (e_when x - now) > 1024 * ev_int_max /\ ev_time_remaining now q = CUndef) \/
      (exists ms, ev_time_remaining now q = CRes ms /\ 1 <= ms <= ev_int_max /\
                  1024 * ms >= 1000 * (e_when x - now) /\            (* never shorter than the real distance *)
                  (ms = 1 \/ 1024 * (ms - 1) < 1000 * (e_when x - now)))))   (* rounded up, not further *)
  end.
Proof.
  destruct q as [|x r]; [reflexivity|]. unfold ev_time_remaining.
  destruct (e_when x <=? now) eqn:E; [left; split; [lia|reflexivity]|]. right. split; [lia|].
  unfold ev_int_max.
  destruct ((1000 * (e_when x - now) + 1023) / 1024 >? 2147483647) eqn:E2.
  - left. split; [lia|reflexivity].
  - right. eexists. split; [reflexivity|]. lia.
Qed.

(* ---- checkEvents ------------------------------------------------------------------------------- *)
Lemma check_loop_spec now inv q d q' r :
  q <> [] -> ev_check_loop now inv q = (d, q', r) ->
  q = d ++ q' /\ r = ev_time_remaining now q' /\
  exists d0 z, d = d0 ++ [z] /\ forallb (fun x => negb (ev_heavy inv x)) d0 = true /\
               (ev_heavy inv z = true \/ ev_time_remaining now q' <> CRes 0).
Proof.
  revert d q' r. induction q as [|x rest IH]; intros d q' r Hne H; [contradiction|].
  cbn [ev_check_loop] in H.
  destruct (ev_heavy inv x) eqn:Eh.
  - inversion H; subst. split; [reflexivity|]. split; [reflexivity|].
    exists [], x. cbn. repeat split; auto.
  - destruct (ev_time_remaining now rest) as [rz| |] eqn:Er.
    + destruct (Z.eq_dec rz 0) as [->|Hnz].
      * destruct (ev_check_loop now inv rest) as [[d1 q1] r1] eqn:El. inversion H; subst.
        assert (Hrest : rest <> []) by (apply remaining_zero_iff in Er; destruct Er as (? & ? & -> & _); discriminate).
        destruct (IH d1 q' r Hrest eq_refl) as (Hq & Hr & d0 & z & Hd & Hd0 & Hz).
        split; [cbn; f_equal; assumption|]. split; [assumption|].
        exists (x :: d0), z. subst d1. cbn [app forallb]. rewrite Eh, Hd0. repeat split; auto.
      * assert (H' : ([x], rest, CRes rz) = (d, q', r)) by (destruct rz; [contradiction| |]; assumption).
        inversion H'; subst. split; [reflexivity|]. split; [symmetry; assumption|].
        exists [], x. cbn. repeat split; auto. right. rewrite Er. intros Hc; inversion Hc; contradiction.
    + inversion H; subst. split; [reflexivity|]. split; [symmetry; assumption|].
      exists [], x. cbn. repeat split; auto. right. rewrite Er. discriminate.
    + inversion H; subst. split; [reflexivity|]. split; [symmetry; assumption|].
      exists [], x. cbn. repeat split; auto. right. rewrite Er. discriminate.
Qed.

Lemma check_loop_due now inv q d q' r :
  ev_time_remaining now q = CRes 0 -> ev_check_loop now inv q = (d, q', r) -> Forall (ev_due now) d.
Proof.
  revert d q' r. induction q as [|x rest IH]; intros d q' r H0 H.
  - cbn in H. inversion H. constructor.
  - assert (Hx : ev_due now x).
    { apply remaining_zero_iff in H0. destruct H0 as (y & r' & Hq & Hle). inversion Hq; subst. exact Hle. }
    cbn [ev_check_loop] in H.
    destruct (ev_heavy inv x); [inversion H; subst; repeat constructor; assumption|].
    destruct (ev_time_remaining now rest) as [rz| |] eqn:Er; try (inversion H; subst; repeat constructor; assumption).
    destruct (Z.eq_dec rz 0) as [->|Hnz].
    + destruct (ev_check_loop now inv rest) as [[d1 q1] r1] eqn:El. inversion H; subst.
      constructor; [assumption|]. eapply IH; eauto.
    + assert (H' : ([x], rest, CRes rz) = (d, q', r)) by (destruct rz; [contradiction| |]; assumption).
      inversion H'; subst. repeat constructor; assumption.
Qed.

(* checkEvents: what is dequeued is a prefix of the queue, every dequeued event is due, the result is the
   time remaining for what is left, assert(event) cannot fail, and the prefix is the longest one that is due
   and contains no heavy event before its last element *)
Lemma check_events_spec now inv q d q' r :
  ev_check_events now inv q = (d, q', r) ->
  q = d ++ q' /\ Forall (ev_due now) d /\ r = ev_time_remaining now q' /\ r <> CAssert /\
  ((d = [] /\ ev_time_remaining now q <> CRes 0) \/
   (exists d0 z, d = d0 ++ [z] /\ forallb (fun x => negb (ev_heavy inv x)) d0 = true /\
                 (ev_heavy inv z = true \/ ev_time_remaining now q' <> CRes 0))).
Proof.
  unfold ev_check_events. intros H.
  assert (Hna : forall l, ev_time_remaining now l <> CAssert).
  { intros l. unfold ev_time_remaining. destruct l as [|x l]; [discriminate|].
    destruct (e_when x <=? now); [discriminate|]. destruct (_ >? ev_int_max); discriminate. }
  destruct (ev_time_remaining now q) as [rz| |] eqn:Er.
  - destruct (Z.eq_dec rz 0) as [->|Hnz].
    + assert (Hne : q <> []) by (apply remaining_zero_iff in Er; destruct Er as (? & ? & -> & _); discriminate).
      destruct (check_loop_spec now inv q d q' r Hne H) as (Hq & Hr & d0 & z & Hd & Hd0 & Hz).
      split; [assumption|]. split; [eapply check_loop_due; eauto|]. split; [assumption|].
      split; [rewrite Hr; apply Hna|]. right. exists d0, z. auto.
    + assert (H' : ([], q, CRes rz) = (d, q', r)) by (destruct rz; [contradiction| |]; assumption).
      inversion H'; subst. split; [reflexivity|]. split; [constructor|]. split; [symmetry; assumption|].
      split; [discriminate|]. left. split; [reflexivity|]. rewrite Er. intros Hc; inversion Hc; contradiction.
  - inversion H; subst. split; [reflexivity|]. split; [constructor|]. split; [symmetry; assumption|].
    split; [discriminate|]. left. split; [reflexivity|]. rewrite Er. discriminate.
  - exfalso. eapply Hna; eauto.
Qed.
