// Table generator for the dns area: the constants of src/dns/rfc1035.cc / rfc3596.h / rfc2671.h
// as the code defines them *now*. rfc1035.cc is included textually so that its file-local
// macros (RFC1035_MAXLABELSZ, rfc1035_unpack_error) are the ones printed.
#include "squid.h"
#include "dns/rfc1035.cc"
#include "dns/rfc3596.h"
#include "dns/rfc2671.h"
#include <iostream>

int main() {
    std::cout << "@@FILE Dns_gen.v\n";
    std::cout << "(* generated from /repo by gen/gen_dns.cc -- do not edit *)\n"
              "Require Import SquidV.Bytes.\nLocal Open Scope N_scope.\n";
#define K(name, val) std::cout << "Definition dns_" << name << " : N := " << (unsigned long long)(val) << ".\n"
    K("MAXHOSTNAMESZ", RFC1035_MAXHOSTNAMESZ);
    K("MAXLABELSZ", RFC1035_MAXLABELSZ);
    K("unpack_error", rfc1035_unpack_error);
    K("TYPE_A", RFC1035_TYPE_A);
    K("TYPE_CNAME", RFC1035_TYPE_CNAME);
    K("TYPE_PTR", RFC1035_TYPE_PTR);
    K("TYPE_AAAA", RFC1035_TYPE_AAAA);
    K("TYPE_OPT", RFC1035_TYPE_OPT);
    K("CLASS_IN", RFC1035_CLASS_IN);
    K("UDP_SO_RCVBUF", SQUID_UDP_SO_RCVBUF);
    K("sizeof_query_name", sizeof(((rfc1035_query *)nullptr)->name));
    K("sizeof_rr_name", sizeof(((rfc1035_rr *)nullptr)->name));
    K("sizeof_ushort", sizeof(unsigned short));
    K("sizeof_uint", sizeof(unsigned int));
    return 0;
}
