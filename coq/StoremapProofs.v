(* StoremapProofs.v — proofs about StoremapModel.v (C55), part 2 (part 1: StoremapLock.v).

   Data invariants on top of the per-anchor lock invariant: what protects the key, the
   waitingToBeFreed mark and the slices of an entry is that every transition changing them is made
   by an activity that holds the anchor's lock exclusively, and an exclusive holder excludes every
   other holder. *)
Require Import SquidV.Bytes SquidV.RwlockModel SquidV.RwlockProofs SquidV.StoremapModel SquidV.StoremapLock.
Require Import ZifyBool ZifyN ZifyNat.
Local Open Scope Z_scope.

(* ---------- case analysis of one activity step ---------- *)
Ltac astepA_cases p E :=
  destruct p; cbn [astepA] in E;
  repeat match type of E with
         | context [pstep ?x ?y ?z] => destruct (pstep x y z) as [[[? ?] ?] ?] eqn:?
         | context [match ?x with Ready _ => _ | _ => _ end] => destruct x eqn:?
         | context [if ?c then _ else _] => destruct c eqn:?
         | context [match getS ?a ?b with _ => _ end] => destruct (getS a b) eqn:?
         | context [match sidx ?a ?b with _ => _ end] => destruct (sidx a b) eqn:?
         | context [match ?c with Some _ => _ | None => _ end] => destruct c eqn:?
         | context [match ?c with FcOW _ => _ | _ => _ end] => destruct c eqn:?
         end;
  inversion E; subst; clear E.

Lemma astepA_anchors : forall sh a p a' sh1 r evs, astepA sh a p = (a', sh1, r, evs) -> anchors sh1 = anchors sh.
Proof. intros sh a p a' sh1 r evs E. astepA_cases p E; reflexivity. Qed.

Lemma key_eq_dec : forall a b : key, {a = b} + {a <> b}.
Proof. intros [a1 a2] [b1 b2]. destruct (N.eq_dec a1 b1); destruct (N.eq_dec a2 b2); subst; try (left; reflexivity); right; congruence. Qed.

Lemma ksame_eq : forall a b, ksame a b = true -> a = b.
Proof.
  intros [a1 a2] [b1 b2] H. unfold ksame in H. cbn [fst snd] in H.
  apply andb_true_iff in H. destruct H as [H1 H2].
  apply N.eqb_eq in H1. apply N.eqb_eq in H2. subst. reflexivity.
Qed.

(* the key, a set waitingToBeFreed mark and the pool membership of slices are only changed by an
   activity that holds the anchor's lock exclusively *)
Lemma astepA_protected : forall sh a p a' sh1 r evs,
  astepA sh a p = (a', sh1, r, evs) ->
  akey a' <> akey a \/ (wtbf a = true /\ wtbf a' = false) \/ (exists sid, In (MFree sid) evs) ->
  alock p = Ready MExcl.
Proof.
  intros sh a p a' sh1 r evs E H.
  astepA_cases p E; try reflexivity;
    cbn [akey wtbf set_lk set_wtbf set_halted set_akey set_astart set_asplice] in H;
    exfalso; destruct H as [H|[[H1 H2]|[sid0 H]]]; try congruence; try (apply H; reflexivity);
    try (cbn [In] in H; tauto).
Qed.

(* ---------- the same at the level of processes ---------- *)
Definition exclOn (f : N) (th : mthread) : Prop := pri f th = Ready MExcl \/ tra f th = Ready MExcl.

Lemma start_op_anchors : forall sh m o sh' p' evs, start_op sh m o = (sh', p', evs) -> anchors sh' = anchors sh.
Proof.
  intros sh m o sh' p' evs E. destruct m; destruct o; cbn [start_op] in E;
    repeat match type of E with
           | context [if ?x then _ else _] => destruct x
           | context [match first_free ?a ?b with _ => _ end] => destruct (first_free a b)
           end; inversion E; subst; reflexivity.
Qed.

Lemma start_op_nofree : forall sh m o sh' p' evs sid, start_op sh m o = (sh', p', evs) -> ~ In (MFree sid) evs.
Proof.
  intros sh m o sh' p' evs sid E. destruct m; destruct o; cbn [start_op] in E;
    repeat match type of E with
           | context [if ?x then _ else _] => destruct x
           | context [match first_free ?a ?b with _ => _ end] => destruct (first_free a b)
           end; inversion E; subst; cbn [In]; intuition discriminate.
Qed.

(* what a step of a process does to the anchors: nothing, or one anchor through astepA *)
Lemma tstep_anchor_effect : forall sh th sh' th' evs,
  nou_pc (tpc th) = true ->
  tstep sh th = (sh', th', evs) ->
  (anchors sh' = anchors sh /\ forall sid, ~ In (MFree sid) evs) \/
  exists g p a0 a1 sh1 r evs1,
    (tpc th = Prim g p \/ tpc th = Tran g p) /\ nthN g (anchors sh) = Some a0 /\
    astepA sh a0 p = (a1, sh1, r, evs1) /\ anchors sh' = updN g a1 (anchors sh) /\
    (forall sid, In (MFree sid) evs -> In (MFree sid) evs1).
Proof.
  intros sh [m p c s] sh' th' evs NU E. unfold tstep in E. cbn [cm tpc cur scr] in E. cbn [tpc] in NU.
  destruct p as [ | | |f0 m0|g0 m0|k|k|k|g p|g p|u q]; [ | | | | | | | | | |discriminate NU].
  - left. destruct (fetchk m s) as [[o r]|].
    + destruct (start_op sh m o) as [[sh1 p1] evs1] eqn:S. inversion E; subst; clear E.
      split; [eapply start_op_anchors; eassumption|].
      intros sid [H|H]; [discriminate|]. eapply start_op_nofree; eassumption.
    + inversion E; subst. split; [reflexivity|]. intros sid [H|H]; [discriminate | contradiction].
  - left. inversion E; subst. split; [reflexivity | intros sid H; contradiction].
  - left. inversion E; subst. split; [reflexivity | intros sid H; contradiction].
  - left. inversion E; subst. split; [reflexivity | intros sid H; contradiction].
  - left. inversion E; subst. split; [reflexivity | intros sid H; contradiction].
  - left. destruct (fileno_of sh k); inversion E; subst; (split; [reflexivity|]); intros sid H; cbn [In] in H;
      try contradiction; destruct H as [H|H]; try discriminate; contradiction.
  - left. destruct (fileno_of sh k); inversion E; subst; (split; [reflexivity|]); intros sid H; cbn [In] in H;
      try contradiction; destruct H as [H|H]; try discriminate; contradiction.
  - left. destruct (fileno_of sh k); inversion E; subst; (split; [reflexivity|]); intros sid H; cbn [In] in H;
      try contradiction; destruct H as [H|H]; try discriminate; contradiction.
  - destruct (astep sh g p) as [[sh1 r] evs1] eqn:EA.
    destruct (nthN g (anchors sh)) as [a0|] eqn:Ha0.
    + right. destruct (astep_anchors _ _ _ _ _ _ _ Ha0 EA) as (a1 & sh2 & EA2 & An & _).
      exists g, p, a0, a1, sh2, r, evs1. cbn [tpc]. split; [left; reflexivity|]. split; [exact Ha0|]. split; [assumption|].
      destruct r; inversion E; subst; (split; [assumption|]); intros sid H; try assumption;
        apply in_app_or in H; destruct H as [H|H]; try assumption;
        try (destruct c; cbn [In] in H); cbn [In] in H; try contradiction; destruct H as [H|H]; try discriminate; contradiction.
    + left. unfold astep in EA. rewrite Ha0 in EA. inversion EA; subst; clear EA. inversion E; subst.
      split; [reflexivity|]. intros sid H; cbn [In app] in H. destruct H as [H|H]; [discriminate | contradiction].
  - destruct (astep sh g p) as [[sh1 r] evs1] eqn:EA.
    destruct (nthN g (anchors sh)) as [a0|] eqn:Ha0.
    + right. destruct (astep_anchors _ _ _ _ _ _ _ Ha0 EA) as (a1 & sh2 & EA2 & An & _).
      exists g, p, a0, a1, sh2, r, evs1. cbn [tpc]. split; [right; reflexivity|]. split; [exact Ha0|]. split; [assumption|].
      destruct r; inversion E; subst; (split; [assumption|]); intros sid H; try assumption;
        apply in_app_or in H; destruct H as [H|H]; try assumption;
        try (destruct c; cbn [In] in H); cbn [In] in H; try contradiction; destruct H as [H|H]; try discriminate; contradiction.
    + left. unfold astep in EA. rewrite Ha0 in EA. inversion EA; subst; clear EA. inversion E; subst.
      split; [reflexivity|]. intros sid H; cbn [In app] in H. destruct H as [H|H]; [discriminate | contradiction].
Qed.

Lemma pri_prim : forall g p m c s, pri g (mkT m (Prim g p) c s) = alock p.
Proof. intros. cbn [pri tpc]. rewrite N.eqb_refl. reflexivity. Qed.
Lemma tra_tran : forall g p m c s, tra g (mkT m (Tran g p) c s) = alock p.
Proof. intros. cbn [tra tpc]. rewrite N.eqb_refl. reflexivity. Qed.

Theorem tstep_protected : forall sh th sh' th' evs f a a',
  nou_pc (tpc th) = true ->
  tstep sh th = (sh', th', evs) ->
  nthN f (anchors sh) = Some a -> nthN f (anchors sh') = Some a' ->
  akey a' <> akey a \/ (wtbf a = true /\ wtbf a' = false) -> exclOn f th.
Proof.
  intros sh th sh' th' evs f a a' NU E Ha Ha' H.
  destruct (tstep_anchor_effect _ _ _ _ _ NU E) as [[An _]|(g & p & a0 & a1 & sh1 & r & evs1 & TP & Ha0 & EA & An & _)].
  - rewrite An in Ha'. rewrite Ha in Ha'. inversion Ha'; subst. exfalso. destruct H as [H|[H1 H2]]; congruence.
  - rewrite An in Ha'. destruct (N.eq_dec g f) as [->|D].
    + rewrite (nthN_updN_same _ _ _ _ _ Ha0) in Ha'. inversion Ha'; subst a'. rewrite Ha in Ha0. inversion Ha0; subst a0.
      assert (AL : alock p = Ready MExcl).
      { eapply astepA_protected; [exact EA|]. destruct H as [H|H]; [left; exact H | right; left; exact H]. }
      destruct th as [m pc0 c s]. cbn [tpc] in TP. destruct TP as [-> | ->].
      * left. rewrite pri_prim. exact AL.
      * right. rewrite tra_tran. exact AL.
    + rewrite nthN_updN_other in Ha' by assumption. rewrite Ha in Ha'. inversion Ha'; subst. exfalso.
      destruct H as [H|[H1 H2]]; congruence.
Qed.

Theorem tstep_free_excl : forall sh th sh' th' evs sid,
  nou_pc (tpc th) = true ->
  tstep sh th = (sh', th', evs) -> In (MFree sid) evs ->
  exists g, exclOn g th /\ exists p, (tpc th = Prim g p \/ tpc th = Tran g p).
Proof.
  intros sh th sh' th' evs sid NU E I.
  destruct (tstep_anchor_effect _ _ _ _ _ NU E) as [[_ NF]|(g & p & a0 & a1 & sh1 & r & evs1 & TP & Ha0 & EA & An & FR)].
  - exfalso. eapply NF. exact I.
  - exists g. split; [|exists p; exact TP].
    assert (AL : alock p = Ready MExcl).
    { eapply astepA_protected; [exact EA|]. right. right. exists sid. apply FR. exact I. }
    destruct th as [m pc0 c s]. cbn [tpc] in TP. destruct TP as [-> | ->].
    + left. rewrite pri_prim. exact AL.
    + right. rewrite tra_tran. exact AL.
Qed.

(* ---------- readers: the key of an open entry ---------- *)
Definition rdctx (c : fcx) : bool := match c with FcCrf => true | _ => false end.
(* pcs of the operations a reader may call on its entry (chain walk, closeForReading, closeForReadingAndFreeIdle) *)
Definition rdclass (p : apc) : bool :=
  match p with
  | LK0 | LK1 | LK2 _ _ | LK3 _ _ | LK4 _ _ _ | CR1 | CF1 | CF2 | CF3 => true
  | AL LcCR _ | AL LcCF _ => true
  | AL (LcFcUX c) _ => rdctx c
  | FC0 c | FC1 c _ | FL1 c _ _ | FL2 c _ _ _ | FL3 c _ _ _ | RW1 c | RW2 c | RW3 c | RW4 c | RW5 c | RW6 c | CT c => rdctx c
  | _ => false
  end.

Lemma rdclass_next : forall sh a p a' sh1 p' evs,
  astepA sh a p = (a', sh1, ANext p', evs) -> rdclass p = true -> rdclass p' = true.
Proof.
  intros sh a p a' sh1 p' evs E R.
  destruct p; cbn [rdclass] in R; try discriminate R;
    try match goal with c : lcx |- _ => destruct c; cbn [rdclass] in R; try discriminate R end;
    try match goal with c : fcx |- _ => destruct c; cbn [rdctx] in R; try discriminate R end;
    cbn [astepA] in E;
    repeat match type of E with
           | context [pstep ?x ?y ?z] => destruct (pstep x y z) as [[[? ?] ?] ?] eqn:?
           | context [match ?x with Ready _ => _ | _ => _ end] => destruct x eqn:?
           end;
    unfold lcont, fc_entry, fl_head, lk_head, callL in E; cbn [keep] in E;
    repeat match type of E with
           | context [match ?m with MIdle => _ | _ => _ end] => destruct m
           | context [if ?c then _ else _] => destruct c eqn:?
           | context [match getS ?a ?b with _ => _ end] => destruct (getS a b) eqn:?
           | context [match sidx ?a ?b with _ => _ end] => destruct (sidx a b) eqn:?
           end;
    inversion E; subst; reflexivity.
Qed.

(* a reader-class step that arrives at a pc holding the shared lock started from one, and does not touch the key *)
Lemma rdclass_shared : forall sh a p a' sh1 p' evs,
  astepA sh a p = (a', sh1, ANext p', evs) -> rdclass p = true -> alock p' = Ready MShared ->
  alock p = Ready MShared /\ akey a' = akey a.
Proof.
  intros sh a p a' sh1 p' evs E R S.
  destruct p; cbn [rdclass] in R; try discriminate R;
    try match goal with c : lcx |- _ => destruct c; cbn [rdclass] in R; try discriminate R end;
    try match goal with c : fcx |- _ => destruct c; cbn [rdctx] in R; try discriminate R end;
    cbn [astepA] in E;
    repeat match type of E with
           | context [pstep ?x ?y ?z] => destruct (pstep x y z) as [[[? ?] ?] ?] eqn:?
           | context [match ?x with Ready _ => _ | _ => _ end] => destruct x eqn:?
           end;
    unfold lcont, fc_entry, fl_head, lk_head, callL in E; cbn [keep] in E;
    repeat match type of E with
           | context [match ?m with MIdle => _ | _ => _ end] => destruct m
           | context [if ?c then _ else _] => destruct c eqn:?
           | context [match getS ?a ?b with _ => _ end] => destruct (getS a b) eqn:?
           | context [match sidx ?a ?b with _ => _ end] => destruct (sidx a b) eqn:?
           end;
    inversion E; subst; cbn [alock amode entry is_append keep] in S; try discriminate S;
    split; reflexivity.
Qed.

(* an operation ends with "opened for reading under k" only in openForReadingAt, after sameKey(k) *)
Lemma astepA_opened : forall sh a p a' sh1 m k evs,
  astepA sh a p = (a', sh1, ADone m (OOpenR (Some k)), evs) -> a' = a /\ akey a = k /\ wtbf a = false.
Proof.
  intros sh a p a' sh1 m k evs E.
  destruct p; cbn [astepA] in E;
    repeat match type of E with
           | context [pstep ?x ?y ?z] => destruct (pstep x y z) as [[[? ?] ?] ?] eqn:?
           | context [match ?x with Ready _ => _ | _ => _ end] => destruct x eqn:?
           end;
    try match goal with c : lcx |- _ => destruct c end;
    unfold lcont, fc_entry, fl_head, lk_head, callL in E; cbn [keep] in E;
    repeat match type of E with
           | context [match ?m with MIdle => _ | _ => _ end] => destruct m
           | context [if ?c then _ else _] => destruct c eqn:?
           | context [match getS ?a ?b with _ => _ end] => destruct (getS a b) eqn:?
           | context [match sidx ?a ?b with _ => _ end] => destruct (sidx a b) eqn:?
           | context [match ?c with Some _ => _ | None => _ end] => destruct c eqn:?
           | context [match ?c with FcOW _ => _ | _ => _ end] => destruct c eqn:?
           end;
    inversion E; subst.
  split; [reflexivity|]. split; [apply ksame_eq; assumption | auto].
Qed.

(* a chain walk ends where it started: holding the shared lock, key untouched *)
Lemma astepA_looked : forall sh a p a' sh1 m l w evs,
  astepA sh a p = (a', sh1, ADone m (OLook l w), evs) -> a' = a /\ alock p = Ready MShared.
Proof.
  intros sh a p a' sh1 m l w evs E.
  destruct p; cbn [astepA] in E;
    repeat match type of E with
           | context [pstep ?x ?y ?z] => destruct (pstep x y z) as [[[? ?] ?] ?] eqn:?
           | context [match ?x with Ready _ => _ | _ => _ end] => destruct x eqn:?
           end;
    try match goal with c : lcx |- _ => destruct c end;
    unfold lcont, fc_entry, fl_head, lk_head, callL in E; cbn [keep] in E;
    repeat match type of E with
           | context [match ?m with MIdle => _ | _ => _ end] => destruct m
           | context [if ?c then _ else _] => destruct c eqn:?
           | context [match getS ?a ?b with _ => _ end] => destruct (getS a b) eqn:?
           | context [match sidx ?a ?b with _ => _ end] => destruct (sidx a b) eqn:?
           | context [match ?c with Some _ => _ | None => _ end] => destruct c eqn:?
           | context [match ?c with FcOW _ => _ | _ => _ end] => destruct c eqn:?
           end;
    inversion E; subst; split; reflexivity.
Qed.

(* between two lock calls an activity is at a pc of the form Ready m *)
Lemma astepA_next_holds : forall sh a p a' sh1 p' evs x,
  astepA sh a p = (a', sh1, ANext p', evs) -> holds (alock p') = Some x -> alock p' = Ready x.
Proof.
  intros sh a p a' sh1 p' evs x E H.
  destruct p; cbn [astepA] in E;
    repeat match type of E with
           | context [pstep ?x ?y ?z] => destruct (pstep x y z) as [[[? ?] ?] ?] eqn:?
           | context [match ?x with Ready _ => _ | _ => _ end] => destruct x eqn:?
           end;
    try match goal with c : lcx |- _ => destruct c end;
    unfold lcont, fc_entry, fl_head, lk_head, callL in E; cbn [keep] in E;
    repeat match type of E with
           | context [match ?m with MIdle => _ | _ => _ end] => destruct m
           | context [if ?c then _ else _] => destruct c eqn:?
           | context [match getS ?a ?b with _ => _ end] => destruct (getS a b) eqn:?
           | context [match sidx ?a ?b with _ => _ end] => destruct (sidx a b) eqn:?
           | context [match ?c with Some _ => _ | None => _ end] => destruct c eqn:?
           | context [match ?c with FcOW _ => _ | _ => _ end] => destruct c eqn:?
           end;
    inversion E; subst; cbn [alock amode entry holds keep wmode_of is_append] in *; try discriminate H;
    inversion H; subst; reflexivity.
Qed.

(* well-formedness of a reading client: it only runs reader operations, on its own entry *)
Definition wf1 (th : mthread) : Prop :=
  match cm th with
  | CRead g _ =>
      match tpc th with
      | Prim f p => f = g /\ rdclass p = true
      | StuckP f _ => f = g
      | KeyW _ | KeyR _ => False
      | _ => True
      end
  | _ => True
  end.

Definition isReader (th : mthread) (f : N) (k : key) : Prop := cm th = CRead f k /\ holdsP f th = Some MShared.

Lemma newcm_read : forall old g lm o f k,
  newcm old g lm o = CRead f k ->
  g = f /\ lm = MShared /\ (o = OOpenR (Some k) \/ (exists l w, o = OLook l w) /\ old = CRead f k).
Proof.
  intros old g lm o f k H. destruct lm; cbn [newcm] in H; try discriminate H.
  destruct o as [| |[k0|]| | |l w| | ]; try discriminate H.
  - inversion H; subst. repeat split. left. reflexivity.
  - destruct old; try discriminate H. destruct (N.eqb_spec f0 g); [|discriminate H].
    inversion H; subst. repeat split. right. split; [exists l, w; reflexivity | reflexivity].
Qed.

Lemma tstep_wf1 : forall sh th sh' th' evs, nou_pc (tpc th) = true -> wf1 th -> tstep sh th = (sh', th', evs) -> wf1 th'.
Proof.
  intros sh [m p c s] sh' th' evs NU W E. unfold tstep in E. cbn [cm tpc cur scr] in E. unfold wf1 in *. cbn [cm tpc] in W. cbn [tpc] in NU.
  destruct p as [ | | |f0 m0|g0 m0|k|k|k|g p|g p|u q]; [ | | | | | | | | | |discriminate NU].
  - destruct (fetchk m s) as [[o r]|] eqn:F.
    + destruct (start_op sh m o) as [[sh1 p1] evs1] eqn:S. inversion E; subst; clear E. cbn [cm tpc].
      destruct (fetchk_legal _ _ _ _ F) as [Lg _].
      destruct m; try exact I.
      destruct o; try discriminate Lg; cbn [start_op cm_anchor] in S;
        repeat match type of S with context [if ?x then _ else _] => destruct x end;
        inversion S; subst; try exact I; split; reflexivity.
    + inversion E; subst. cbn [cm tpc]. destruct m; exact I.
  - inversion E; subst. exact W.
  - inversion E; subst. exact W.
  - inversion E; subst. exact W.
  - inversion E; subst. exact W.
  - destruct m; try (destruct (fileno_of sh k); inversion E; subst; exact I). contradiction.
  - destruct m; try (destruct (fileno_of sh k); inversion E; subst; exact I). contradiction.
  - destruct (fileno_of sh k); inversion E; subst; cbn [cm tpc]; destruct m; exact I.
  - destruct (astep sh g p) as [[sh1 r] evs1] eqn:EA.
    destruct r as [p'|lm o| |lm]; inversion E; subst; clear E; cbn [cm tpc].
    + destruct m; try exact I. destruct W as [-> R]. split; [reflexivity|].
      unfold astep in EA. destruct (nthN f (anchors sh)) as [a0|]; [|inversion EA].
      destruct (astepA sh a0 p) as [[[a1 sh2] r1] evs2] eqn:EA2. inversion EA; subst.
      eapply rdclass_next; eassumption.
    + destruct (newcm m g lm o); exact I.
    + destruct m; exact I.
    + destruct m; try exact I. destruct W as [-> _]. reflexivity.
  - destruct (astep sh g p) as [[sh1 r] evs1] eqn:EA.
    destruct r as [p'|lm o| |lm]; inversion E; subst; clear E; cbn [cm tpc]; destruct m; try exact I;
      destruct lm; exact I.
Qed.

(* a process that is a reader after its own step either was one before (and its own step left the key alone
   unless it was made by its exclusive transient activity), or has just passed sameKey() *)
Lemma tstep_reader : forall sh th sh' th' evs f k a a',
  nou_pc (tpc th) = true -> wf1 th -> tstep sh th = (sh', th', evs) -> tpc th' <> CrashedL ->
  isReader th' f k -> nthN f (anchors sh) = Some a -> nthN f (anchors sh') = Some a' ->
  isReader th f k \/ akey a' = k.
Proof.
  intros sh [m p c s] sh' th' evs f k a a' NU W E NC [C H] Ha Ha'.
  unfold tstep in E. cbn [cm tpc cur scr] in E. cbn [tpc] in NU. unfold wf1 in W. cbn [cm tpc] in W. unfold isReader, holdsP in *.
  destruct p as [ | | |f0 m0|g0 m0|k0|k0|k0|g p|g p|u q]; [ | | | | | | | | | |discriminate NU].
  - left. destruct (fetchk m s) as [[o r]|] eqn:F.
    + destruct (start_op sh m o) as [[sh1 p1] evs1] eqn:S. inversion E; subst; clear E. cbn [cm tpc] in *. subst m.
      split; [reflexivity|]. cbn [pri tpc cm cm_lmode]. rewrite N.eqb_refl. reflexivity.
    + inversion E; subst; clear E. cbn [cm] in C. subst m. split; [reflexivity|].
      cbn [pri tpc cm cm_lmode]. rewrite N.eqb_refl. reflexivity.
  - left. inversion E; subst. split; assumption.
  - left. inversion E; subst. split; assumption.
  - left. inversion E; subst. split; assumption.
  - left. inversion E; subst. split; assumption.
  - exfalso. destruct (fileno_of sh k0); inversion E; subst; cbn [cm] in C; subst m; exact W.
  - exfalso. destruct (fileno_of sh k0); inversion E; subst; cbn [cm] in C; subst m; exact W.
  - left. destruct (fileno_of sh k0); inversion E; subst; cbn [cm] in C; subst m; (split; [reflexivity|]);
      cbn [pri tpc cm cm_lmode]; rewrite N.eqb_refl; reflexivity.
  - destruct (astep sh g p) as [[sh1 r] evs1] eqn:EA.
    unfold astep in EA. destruct (nthN g (anchors sh)) as [a0|] eqn:Ha0.
    + destruct (astepA sh a0 p) as [[[a1 sh2] r1] evs2] eqn:EA2. inversion EA; subst; clear EA.
      destruct r as [p'|lm o| |lm]; inversion E; subst; clear E; cbn [cm tpc] in *.
      * (* still inside the operation *)
        subst m. destruct W as [-> R]. rewrite pri_prim in H.
        pose proof (astepA_next_holds _ _ _ _ _ _ _ _ EA2 H) as S.
        destruct (rdclass_shared _ _ _ _ _ _ _ EA2 R S) as [S0 _].
        left. split; [reflexivity|]. rewrite pri_prim. rewrite S0. reflexivity.
      * (* the operation returned *)
        destruct (newcm_read _ _ _ _ _ _ C) as (-> & -> & [->|[(l & w & ->) ->]]).
        -- right. destruct (astepA_opened _ _ _ _ _ _ _ _ EA2) as (-> & K & _).
           cbn [putA set_anchors anchors] in Ha'.
           pose proof (astepA_anchors _ _ _ _ _ _ _ EA2) as An.
           rewrite An in Ha'. rewrite (nthN_updN_same _ _ _ _ _ Ha0) in Ha'. inversion Ha'; first [subst a'; exact K | congruence].
        -- left. destruct (astepA_looked _ _ _ _ _ _ _ _ _ EA2) as [-> S0]. destruct W as [_ R].
           split; [reflexivity|]. rewrite pri_prim. rewrite S0. reflexivity.
      * exfalso. apply NC. reflexivity.
      * subst m. destruct W as [-> R]. left. split; [reflexivity|]. rewrite pri_prim.
        cbn [pri tpc] in H. rewrite N.eqb_refl in H. cbn [holds] in H. inversion H; subst lm.
        (* the pc that failed a data assertion held the shared lock *)
        clear - EA2 R. 
        destruct p; cbn [rdclass] in R; try discriminate R;
          try match goal with c : lcx |- _ => destruct c; cbn [rdclass] in R; try discriminate R end;
          try match goal with c : fcx |- _ => destruct c; cbn [rdctx] in R; try discriminate R end;
          cbn [astepA] in EA2;
          repeat match type of EA2 with
                 | context [pstep ?x ?y ?z] => destruct (pstep x y z) as [[[? ?] ?] ?] eqn:?
                 | context [match ?x with Ready _ => _ | _ => _ end] => destruct x eqn:?
                 end;
          unfold lcont, fc_entry, fl_head, lk_head, callL in EA2; cbn [keep] in EA2;
          repeat match type of EA2 with
                 | context [match ?m with MIdle => _ | _ => _ end] => destruct m
                 | context [if ?c then _ else _] => destruct c eqn:?
                 | context [match getS ?a ?b with _ => _ end] => destruct (getS a b) eqn:?
                 | context [match sidx ?a ?b with _ => _ end] => destruct (sidx a b) eqn:?
                 end;
          inversion EA2; subst; reflexivity.
    + inversion EA; subst; clear EA. inversion E; subst; clear E. cbn [cm tpc] in *. subst m. destruct W as [-> R].
      left. rewrite Ha in Ha0. discriminate Ha0.
  - (* transient activity: cm and the primary share do not change *)
    left. destruct (astep sh g p) as [[sh1 r] evs1] eqn:EA.
    destruct r as [p'|lm o| |lm]; inversion E; subst; clear E; cbn [cm tpc] in *; subst m;
      (split; [reflexivity|]); cbn [pri tpc cm cm_lmode]; rewrite N.eqb_refl; reflexivity.
Qed.

(* ---------- invariant: every reader's key is the key stored in its anchor ---------- *)
Definition WF1 (st : mstate) : Prop := forall th, In th (mths st) -> wf1 th.
Definition KInv (st : mstate) : Prop :=
  forall t th f k a, nthN t (mths st) = Some th -> isReader th f k ->
                     nthN f (anchors (msh st)) = Some a -> akey a = k.

Lemma nthN_In : forall (A : Type) (l : list A) n x, nthN n l = Some x -> In x l.
Proof.
  intros A l n x H. destruct (nthN_split _ _ _ _ H) as (l1 & l2 & E & _ & _). rewrite E. apply in_or_app. right. left. reflexivity.
Qed.

Lemma nthN_updN_inv : forall (A : Type) (l : list A) n m (x y : A),
  nthN m (updN n x l) = Some y -> exists z, nthN m l = Some z.
Proof.
  induction l as [|a l IH]; intros n m x y H; simpl in *; [discriminate|].
  destruct (n =? 0)%N; simpl in H; destruct (m =? 0)%N; eauto.
Qed.

(* an exclusive activity on f excludes a reader of f, whoever they are *)
Lemma excl_vs_reader : forall st f a i j thi thj k,
  LInvC st -> nthN f (anchors (msh st)) = Some a ->
  nthN i (mths st) = Some thi -> nthN j (mths st) = Some thj ->
  isReader thi f k -> exclOn f thj -> False.
Proof.
  intros st f a i j thi thj k HI Ha Ni Nj [_ R] [X|X].
  - destruct (N.eq_dec i j) as [->|D].
    + rewrite Ni in Nj. inversion Nj; subst. unfold holdsP in R. rewrite X in R. discriminate R.
    + assert (C : compat MShared MExcl = true).
      { eapply (holders_compat_PP st HI f a i j); try eassumption. unfold holdsP. rewrite X. reflexivity. }
      discriminate C.
  - assert (C : compat MShared MExcl = true).
    { eapply (holders_compat_PT st HI f a i j); try eassumption. unfold holdsT. rewrite X. reflexivity. }
    discriminate C.
Qed.

Lemma sstep_kinv : forall st t0 st' evs b,
  LInvC st -> WF1 st -> KInv st -> sstep st t0 = (st', evs, b) -> WF1 st' /\ KInv st'.
Proof.
  intros [sh l] t0 st' evs b HI HW HK E.
  pose proof (sstep_linv _ _ _ _ _ HI E) as HI'.
  unfold sstep in E. cbn [msh mths] in E.
  destruct (nthN t0 l) as [th0|] eqn:N0; [|inversion E; subst; split; assumption].
  destruct (terminalk (tpc th0)) eqn:T; [inversion E; subst; split; assumption|].
  destruct (tstep sh th0) as [[sh1 th1] evs1] eqn:TS.
  inversion E; subst; clear E.
  assert (W0 : wf1 th0) by (apply HW; cbn [mths]; eapply nthN_In; eassumption).
  assert (N1 : nthN t0 (updN t0 th1 l) = Some th1) by (eapply nthN_updN_same; eassumption).
  assert (NC : tpc th1 <> CrashedL).
  { destruct HI' as [_ [HN _]]. apply HN. cbn [mths]. eapply nthN_In. exact N1. }
  assert (NU : nou_pc (tpc th0) = true).
  { destruct HI as [_ [_ HU]]. destruct (HU th0) as (_ & X & _); [cbn [mths]; eapply nthN_In; eassumption | exact X]. }
  split.
  - intros th I. cbn [mths] in I.
    destruct (nthN_split _ _ _ _ N0) as (l1 & l2 & E1 & E2 & _). rewrite E2 in I. apply in_app_or in I.
    destruct I as [I|[I|I]].
    + apply HW. cbn [mths]. rewrite E1. apply in_or_app. left. exact I.
    + subst th. eapply tstep_wf1; [exact NU | exact W0 | exact TS].
    + apply HW. cbn [mths]. rewrite E1. apply in_or_app. right. right. exact I.
  - intros t th f k a' Nt R Ha'. cbn [msh mths] in *.
    assert (EX : exists a, nthN f (anchors sh) = Some a).
    { destruct (tstep_anchor_effect _ _ _ _ _ NU TS) as [[An _]|(g & p & a0 & a1 & sh2 & r & evs2 & _ & _ & _ & An & _)];
        rewrite An in Ha'; [eauto | eapply nthN_updN_inv; eassumption]. }
    destruct EX as [a Ha].
    assert (KEEP : forall i thi, nthN i l = Some thi -> isReader thi f k -> akey a' = k).
    { intros i thi Ni Ri.
      pose proof (HK i thi f k a Ni Ri Ha) as K0.
      destruct (key_eq_dec (akey a') (akey a)) as [Q|Q]; [congruence|].
      exfalso. eapply (excl_vs_reader (mkS sh l) f a i t0 thi th0 k); cbn [msh mths]; try eassumption.
      eapply tstep_protected; try eassumption. left. exact Q. }
    destruct (N.eq_dec t t0) as [->|D].
    + rewrite N1 in Nt. inversion Nt; subst th.
      destruct (tstep_reader _ _ _ _ _ _ _ _ _ NU W0 TS NC R Ha Ha') as [R0|K1]; [|exact K1].
      eapply KEEP; eassumption.
    + rewrite nthN_updN_other in Nt by congruence. eapply KEEP; eassumption.
Qed.

Lemma sexec_kinv : forall sched st st' evs n,
  LInvC st -> WF1 st -> KInv st -> sexec st sched = (st', evs, n) -> WF1 st' /\ KInv st'.
Proof.
  induction sched as [|t r IH]; intros st st' evs n HI HW HK E; simpl in E.
  - inversion E; subst; split; assumption.
  - destruct (sstep st t) as [[st1 e1] b] eqn:S1.
    destruct (sexec st1 r) as [[st2 e2] n2] eqn:S2.
    inversion E; subst; clear E.
    destruct (sstep_kinv _ _ _ _ _ HI HW HK S1) as [W1 K1].
    eapply IH; [ | exact W1 | exact K1 | eassumption]. eapply sstep_linv; eassumption.
Qed.

Lemma sinit_kinv : forall n scripts, WF1 (sinit n scripts) /\ KInv (sinit n scripts).
Proof.
  intros n scripts. split.
  - intros th I. cbn [sinit mths] in I. apply in_map_iff in I. destruct I as (s & E & _). subst th. exact I.
  - intros t th f k a Nt [C _] _. cbn [sinit mths] in Nt. apply nthN_In in Nt. apply in_map_iff in Nt.
    destruct Nt as (s & E & _). subst th. discriminate C.
Qed.

Theorem sreach_kinv : forall n scripts sched, noupd scripts = true -> KInv (sreach n scripts sched).
Proof.
  intros n scripts sched NU. unfold sreach. destruct (sexec (sinit n scripts) sched) as [[st e] k] eqn:E. simpl.
  destruct (sinit_kinv n scripts) as [W K].
  destruct (sexec_kinv _ _ _ _ _ (sinit_linv n scripts NU) W K E) as [_ K']. exact K'.
Qed.

Lemma reach_nou_pc : forall n scripts sched t th,
  noupd scripts = true -> nthN t (mths (sreach n scripts sched)) = Some th -> nou_pc (tpc th) = true.
Proof.
  intros n scripts sched t th NU Nt. destruct (sreach_linv n scripts sched NU) as [_ [_ HU]].
  destruct (HU th (nthN_In _ _ _ _ Nt)) as (_ & X & _). exact X.
Qed.

(* ---------- statements in the form used by Properties_C55.v ---------- *)
Theorem reach_reader_key : forall n scripts sched t th f k a,
  let st := sreach n scripts sched in
  noupd scripts = true ->
  nthN t (mths st) = Some th -> isReader th f k -> nthN f (anchors (msh st)) = Some a -> akey a = k.
Proof. intros n scripts sched t th f k a st NU. apply (sreach_kinv n scripts sched NU). Qed.

Theorem reach_one_writer : forall n scripts sched f a i j thi thj x y,
  let st := sreach n scripts sched in
  noupd scripts = true ->
  nthN f (anchors (msh st)) = Some a ->
  i <> j -> nthN i (mths st) = Some thi -> nthN j (mths st) = Some thj ->
  holdsP f thi = Some x -> holdsP f thj = Some y -> is_writer x = true -> is_writer y = true -> False.
Proof.
  intros n scripts sched f a i j thi thj x y st NU Ha D Ni Nj Hx Hy Wx Wy.
  pose proof (holders_compat_PP st (sreach_linv n scripts sched NU) f a i j thi thj x y Ha D Ni Nj Hx Hy) as C.
  destruct x, y; simpl in *; discriminate.
Qed.

Theorem reach_reader_vs_writer : forall n scripts sched f a i j thi thj k y,
  let st := sreach n scripts sched in
  noupd scripts = true ->
  nthN f (anchors (msh st)) = Some a ->
  i <> j -> nthN i (mths st) = Some thi -> nthN j (mths st) = Some thj ->
  isReader thi f k -> holdsP f thj = Some y -> is_writer y = true -> y = MAppend \/ y = MBusy.
Proof.
  intros n scripts sched f a i j thi thj k y st NU Ha D Ni Nj [_ R] Hy Wy.
  pose proof (holders_compat_PP st (sreach_linv n scripts sched NU) f a i j thi thj MShared y Ha D Ni Nj R Hy) as C.
  destruct y; simpl in *; try discriminate; auto.
Qed.

Theorem reach_reader_vs_transient : forall n scripts sched f a i j thi thj k y,
  let st := sreach n scripts sched in
  noupd scripts = true ->
  nthN f (anchors (msh st)) = Some a ->
  nthN i (mths st) = Some thi -> nthN j (mths st) = Some thj ->
  isReader thi f k -> holdsT f thj = Some y -> y = MIdle \/ y = MShared \/ y = MHeaders \/ y = MAppend \/ y = MBusy.
Proof.
  intros n scripts sched f a i j thi thj k y st NU Ha Ni Nj [_ R] Hy.
  pose proof (holders_compat_PT st (sreach_linv n scripts sched NU) f a i j thi thj MShared y Ha Ni Nj R Hy) as C.
  destruct y; simpl in *; try discriminate; auto.
Qed.

Theorem reach_no_lock_assert : forall n scripts sched i th,
  noupd scripts = true ->
  nthN i (mths (sreach n scripts sched)) = Some th -> tpc th <> CrashedL.
Proof. intros n scripts sched i th NU. apply no_lock_assert_fails. apply sreach_linv. exact NU. Qed.

(* a step that changes the key of an anchor or clears its waitingToBeFreed mark is made by an exclusive holder *)
Theorem reach_step_protected : forall n scripts sched t st' evs b f a a',
  let st := sreach n scripts sched in
  noupd scripts = true ->
  sstep st t = (st', evs, b) ->
  nthN f (anchors (msh st)) = Some a -> nthN f (anchors (msh st')) = Some a' ->
  akey a' <> akey a \/ (wtbf a = true /\ wtbf a' = false) ->
  exists th, nthN t (mths st) = Some th /\ exclOn f th.
Proof.
  intros n scripts sched t st' evs b f a a' st NU E Ha Ha' H.
  unfold sstep in E. destruct (nthN t (mths st)) as [th|] eqn:Nt.
  - destruct (terminalk (tpc th)).
    + inversion E; subst. rewrite Ha in Ha'. inversion Ha'; subst. exfalso. destruct H as [H|[H1 H2]]; congruence.
    + destruct (tstep (msh st) th) as [[sh1 th1] evs1] eqn:TS. inversion E; subst; clear E. cbn [msh] in Ha'.
      exists th. split; [reflexivity|]. eapply tstep_protected; try eassumption. eapply reach_nou_pc; eassumption.
  - inversion E; subst. rewrite Ha in Ha'. inversion Ha'; subst. exfalso. destruct H as [H|[H1 H2]]; congruence.
Qed.

(* while a reader holds an entry, no step of any process changes its key or removes its mark *)
Theorem reach_stable_while_read : forall n scripts sched t st' evs b f a a' i thi k,
  let st := sreach n scripts sched in
  noupd scripts = true ->
  sstep st t = (st', evs, b) ->
  nthN f (anchors (msh st)) = Some a -> nthN f (anchors (msh st')) = Some a' ->
  nthN i (mths st) = Some thi -> isReader thi f k ->
  akey a' = akey a /\ (wtbf a = true -> wtbf a' = true).
Proof.
  intros n scripts sched t st' evs b f a a' i thi k st NU E Ha Ha' Ni R.
  assert (X : ~ (akey a' <> akey a \/ (wtbf a = true /\ wtbf a' = false))).
  { intro H. destruct (reach_step_protected n scripts sched t st' evs b f a a' NU E Ha Ha' H) as (th & Nt & EX).
    eapply (excl_vs_reader st f a i t thi th k); try eassumption. apply sreach_linv. exact NU. }
  split.
  - destruct (key_eq_dec (akey a') (akey a)); [assumption|]. exfalso. apply X. left. assumption.
  - intro W. destruct (wtbf a') eqn:W'; [reflexivity|]. exfalso. apply X. right. split; auto.
Qed.

(* a slice is given back to the pool only by an activity holding exclusively the anchor whose chain it walks ... *)
Theorem reach_free_by_exclusive : forall n scripts sched t st' evs b sid,
  let st := sreach n scripts sched in
  noupd scripts = true ->
  sstep st t = (st', evs, b) -> In (t, MFree sid) evs ->
  exists th g p, nthN t (mths st) = Some th /\ exclOn g th /\ (tpc th = Prim g p \/ tpc th = Tran g p).
Proof.
  intros n scripts sched t st' evs b sid st NU E I.
  unfold sstep in E. destruct (nthN t (mths st)) as [th|] eqn:Nt; [|inversion E; subst; contradiction].
  destruct (terminalk (tpc th)); [inversion E; subst; contradiction|].
  destruct (tstep (msh st) th) as [[sh1 th1] evs1] eqn:TS. inversion E; subst; clear E.
  apply in_map_iff in I. destruct I as (e & Ee & Ie). inversion Ee; subst e.
  destruct (tstep_free_excl _ _ _ _ _ _ (reach_nou_pc _ _ _ _ _ NU Nt) TS Ie) as (g & EX & p & TP).
  exists th, g, p. repeat split; assumption.
Qed.

(* ... hence never while some process has that entry open for reading *)
Theorem reach_no_free_while_read : forall n scripts sched t st' evs b sid,
  let st := sreach n scripts sched in
  noupd scripts = true ->
  sstep st t = (st', evs, b) -> In (t, MFree sid) evs ->
  exists th g p, nthN t (mths st) = Some th /\ (tpc th = Prim g p \/ tpc th = Tran g p) /\
    forall a i thi k, nthN g (anchors (msh st)) = Some a -> nthN i (mths st) = Some thi -> ~ isReader thi g k.
Proof.
  intros n scripts sched t st' evs b sid st NU E I.
  destruct (reach_free_by_exclusive n scripts sched t st' evs b sid NU E I) as (th & g & p & Nt & EX & TP).
  exists th, g, p. repeat split; try assumption.
  intros a i thi k Ha Ni R. eapply (excl_vs_reader st g a i t thi th k); try eassumption. apply sreach_linv. exact NU.
Qed.

(* ---------- a successful open for reading saw an unmarked anchor with the requested key ---------- *)
Lemma astepA_evs_free : forall sh a p a' sh1 r evs e,
  astepA sh a p = (a', sh1, r, evs) -> In e evs -> exists sid, e = MFree sid.
Proof.
  intros sh a p a' sh1 r evs e E I.
  astepA_cases p E; cbn [In] in I; try contradiction; destruct I as [I|I]; try contradiction; subst; eexists; reflexivity.
Qed.

Lemma tstep_opened : forall sh th sh' th' evs c k m',
  nou_pc (tpc th) = true ->
  tstep sh th = (sh', th', evs) -> In (MRet c (OOpenR (Some k)) m') evs ->
  exists f a p, (tpc th = Prim f p \/ tpc th = Tran f p) /\ nthN f (anchors sh) = Some a /\ wtbf a = false /\ akey a = k.
Proof.
  intros sh [m p c0 s] sh' th' evs c k m' NU E I. unfold tstep in E. cbn [cm tpc cur scr] in E. cbn [tpc] in NU.
  destruct p as [ | | |f0 m0|g0 m0|k0|k0|k0|g p|g p|u q]; [ | | | | | | | | | |discriminate NU].
  - exfalso. destruct (fetchk m s) as [[o r]|].
    + destruct (start_op sh m o) as [[sh1 p1] evs1] eqn:S. inversion E; subst; clear E.
      destruct I as [I|I]; [discriminate|].
      destruct m; destruct o; cbn [start_op] in S;
        repeat match type of S with
               | context [if ?x then _ else _] => destruct x
               | context [match first_free ?a ?b with _ => _ end] => destruct (first_free a b)
               end; inversion S; subst; cbn [In] in I; intuition discriminate.
    + inversion E; subst. cbn [In] in I. intuition discriminate.
  - inversion E; subst. contradiction.
  - inversion E; subst. contradiction.
  - inversion E; subst. contradiction.
  - inversion E; subst. contradiction.
  - exfalso. destruct (fileno_of sh k0); inversion E; subst; cbn [In] in I; intuition discriminate.
  - exfalso. destruct (fileno_of sh k0); inversion E; subst; cbn [In] in I; intuition discriminate.
  - exfalso. destruct (fileno_of sh k0); inversion E; subst; cbn [In] in I; intuition discriminate.
  - destruct (astep sh g p) as [[sh1 r] evs1] eqn:EA. unfold astep in EA.
    destruct (nthN g (anchors sh)) as [a0|] eqn:Ha0.
    + destruct (astepA sh a0 p) as [[[a1 sh2] r1] evs2] eqn:EA2. inversion EA; subst; clear EA.
      assert (NF : ~ In (MRet c (OOpenR (Some k)) m') evs1).
      { intro X. destruct (astepA_evs_free _ _ _ _ _ _ _ _ EA2 X) as [sid Q]. discriminate Q. }
      destruct r as [p'|lm o| |lm]; inversion E; subst; clear E.
      * contradiction.
      * apply in_app_or in I. destruct I as [I|I]; [contradiction|].
        destruct c0; cbn [In] in I; [|contradiction]. destruct I as [I|I]; [|contradiction]. inversion I; subst.
        destruct (astepA_opened _ _ _ _ _ _ _ _ EA2) as (_ & K & W).
        exists g, a0, p. cbn [tpc]. repeat split; auto.
      * apply in_app_or in I. destruct I as [I|I]; [contradiction|]. cbn [In] in I. intuition discriminate.
      * apply in_app_or in I. destruct I as [I|I]; [contradiction|]. cbn [In] in I. intuition discriminate.
    + inversion EA; subst. inversion E; subst. cbn [In app] in I. intuition discriminate.
  - destruct (astep sh g p) as [[sh1 r] evs1] eqn:EA. unfold astep in EA.
    destruct (nthN g (anchors sh)) as [a0|] eqn:Ha0.
    + destruct (astepA sh a0 p) as [[[a1 sh2] r1] evs2] eqn:EA2. inversion EA; subst; clear EA.
      assert (NF : ~ In (MRet c (OOpenR (Some k)) m') evs1).
      { intro X. destruct (astepA_evs_free _ _ _ _ _ _ _ _ EA2 X) as [sid Q]. discriminate Q. }
      destruct r as [p'|lm o| |lm]; inversion E; subst; clear E.
      * contradiction.
      * apply in_app_or in I. destruct I as [I|I]; [contradiction|].
        destruct c0; cbn [In] in I; [|contradiction]. destruct I as [I|I]; [|contradiction]. inversion I; subst.
        destruct (astepA_opened _ _ _ _ _ _ _ _ EA2) as (_ & K & W).
        exists g, a0, p. cbn [tpc]. repeat split; auto.
      * apply in_app_or in I. destruct I as [I|I]; [contradiction|]. cbn [In] in I. intuition discriminate.
      * apply in_app_or in I. destruct I as [I|I]; [contradiction|]. cbn [In] in I. intuition discriminate.
    + inversion EA; subst. inversion E; subst. cbn [In app] in I. intuition discriminate.
Qed.

Theorem reach_open_saw_unmarked : forall n scripts sched t st' evs b c k m',
  let st := sreach n scripts sched in
  noupd scripts = true ->
  sstep st t = (st', evs, b) -> In (t, MRet c (OOpenR (Some k)) m') evs ->
  exists f a, nthN f (anchors (msh st)) = Some a /\ wtbf a = false /\ akey a = k.
Proof.
  intros n scripts sched t st' evs b c k m' st NU E I.
  unfold sstep in E. destruct (nthN t (mths st)) as [th|] eqn:Nt; [|inversion E; subst; contradiction].
  destruct (terminalk (tpc th)); [inversion E; subst; contradiction|].
  destruct (tstep (msh st) th) as [[sh1 th1] evs1] eqn:TS. inversion E; subst; clear E.
  apply in_map_iff in I. destruct I as (e & Ee & Ie). inversion Ee; subst e.
  destruct (tstep_opened _ _ _ _ _ _ _ _ (reach_nou_pc _ _ _ _ _ NU Nt) TS Ie) as (f & a & p & _ & Ha & W & K).
  exists f, a. repeat split; assumption.
Qed.

(* ---------- when every process has closed everything, every anchor's lock is idle and can be taken ---------- *)
Definition allClosed (st : mstate) : Prop :=
  forall th f, In th (mths st) -> holdsP f th = Some MIdle /\ holdsT f th = Some MIdle.

Theorem reach_idle_when_all_closed : forall n scripts sched f a,
  let st := sreach n scripts sched in
  noupd scripts = true ->
  allClosed st -> nthN f (anchors (msh st)) = Some a ->
  lk a = idle_shared /\ probe (lk a) = Some [EvRet OpLX true; EvRet OpLS true; EvRet OpLH true].
Proof.
  intros n scripts sched f a st NU AC Ha.
  destruct (sreach_linv n scripts sched NU) as [HL _]. specialize (HL f a Ha). fold st in HL.
  assert (ID : lk a = idle_shared).
  { apply (idle_when_all_released _ HL). cbn [ths]. intros x I. unfold proj in I. apply in_flat_map in I.
    destruct I as (th & It & Ix). destruct (AC th f It) as [P T]. cbn [In] in Ix.
    destruct Ix as [<-|[<-|[]]]; cbn [fst]; assumption. }
  split; [exact ID|]. rewrite ID. apply probe_idle.
Qed.

(* a decidable sufficient condition for allClosed: every process is between calls (or ended) and holds nothing *)
Definition closedb (st : mstate) : bool :=
  forallb (fun th => match cm th, tpc th with CIdle, Rdy | CIdle, Fin => true | _, _ => false end) (mths st).

Lemma closedb_allClosed : forall st, closedb st = true -> allClosed st.
Proof.
  intros st H th f I. unfold closedb in H. rewrite forallb_forall in H. specialize (H th I).
  unfold holdsP, holdsT, pri, tra. destruct (cm th); try discriminate H; destruct (tpc th); try discriminate H; split; reflexivity.
Qed.

(* ---------- the known finding with updaters: witness (see Properties_C55.v) ---------- *)
Definition wit_scripts : list (list kop) :=
  [[KW (1%N, 0%N); KAdd 2; KAdd 3; KCw; KU (1%N, 0%N); KSp 1; KAdd 5; KCu; KK (1%N, 0%N)]; [KR (1%N, 0%N); KLook; KLook; KLook; KCr]].
Definition wit_sched : list N := repeat 0%N 35 ++ repeat 1%N 15 ++ repeat 0%N 220.

(* what reader 1 sees and what is freed meanwhile: its chain walks, its close, and all MFree events, in order *)
Definition reader1_view (evs : list (N * mevent)) : list (N * mevent) :=
  filter (fun e => match e with
                   | (1%N, MRet KLook _ _) | (1%N, MRet KCr _ _) | (1%N, MRet (KR _) _ _) | (_, MFree _) => true
                   | _ => false
                   end) evs.

Lemma stale_reader_witness :
  exists scripts sched st evs n,
    srun_case 4 scripts sched = Some (st, evs, n) /\
    reader1_view evs =
      [ (1%N, MRet (KR (1%N, 0%N)) (OOpenR (Some (1%N, 0%N))) (CRead 1 (1%N, 0%N)));
        (1%N, MRet KLook (OLook [(0, 2%N); (1, 3%N)] true) (CRead 1 (1%N, 0%N)));
        (0%N, MFree 2); (0%N, MFree 1);
        (1%N, MRet KLook (OLook [(0, 2%N); (1, 0%N)] true) (CRead 1 (1%N, 0%N)));
        (1%N, MRet KLook (OLook [(0, 2%N); (1, 0%N)] true) (CRead 1 (1%N, 0%N)));
        (1%N, MRet KCr OUnit CIdle) ].
Proof.
  exists wit_scripts, wit_sched.
  destruct (srun_case 4 wit_scripts wit_sched) as [[[st evs] n]|] eqn:E; [|vm_compute in E; discriminate E].
  exists st, evs, n. split; [reflexivity|].
  vm_compute in E. inversion E; subst; clear E. vm_compute. reflexivity.
Qed.
