// Harness: Time::ParseRfc1123 / Time::FormatRfc1123 (src/time/rfc1123.cc) from /repo's working tree,
// plus raw glibc timegm / gmtime entries so that the model's calendar functions are diffed directly.
// stdin: one case per line (same syntax as ml/run_date.ml); stdout: one result line.
#include "squid.h"
#include "time/gadgets.h"
#include "hcommon.h"
#include <ctime>
#include <cstring>
#include <cstdlib>

// gmtime() fails (NULL) only when the year does not fit an int; keep far away from that
static bool timeInRange(long long t) { return t > -(1LL << 55) && t < (1LL << 55); }

int main() {
    std::string line;
    while (std::getline(std::cin, line)) {
        auto a = splitws(line);
        if (a.empty()) { std::cout << "\n"; continue; }
        const std::string &op = a[0];
        std::ostringstream o;
        try {
            if (op == "date.parse") {
                // the argument is a C string: bytes after an embedded NUL are not seen by the code
                std::string s = unhex(a[1]);
                const time_t t = Time::ParseRfc1123(s.c_str());
                o << static_cast<long long>(t);
            }
            else if (op == "date.fmt") {
                const long long t = std::stoll(a[1]);
                if (!timeInRange(t)) o << "ERR range";
                else { const char *p = Time::FormatRfc1123(static_cast<time_t>(t)); o << tohex(p, strlen(p)); }
            }
            else if (op == "date.rt") {
                // parse(format(t)); also shows the intermediate string
                const long long t = std::stoll(a[1]);
                if (!timeInRange(t)) o << "ERR range";
                else {
                    const char *p = Time::FormatRfc1123(static_cast<time_t>(t));
                    std::string s(p);
                    const time_t back = Time::ParseRfc1123(s.c_str());
                    o << static_cast<long long>(back) << " " << tohex(s);
                }
            }
            else if (op == "date.timegm") {
                // raw glibc timegm on (tm_year, tm_mon, tm_mday, tm_hour, tm_min, tm_sec); tm_isdst = -1 as the code sets it
                struct tm tm; memset(&tm, 0, sizeof(tm));
                tm.tm_year = std::stoi(a[1]); tm.tm_mon = std::stoi(a[2]); tm.tm_mday = std::stoi(a[3]);
                tm.tm_hour = std::stoi(a[4]); tm.tm_min = std::stoi(a[5]); tm.tm_sec = std::stoi(a[6]);
                tm.tm_isdst = -1;
                const time_t t = timegm(&tm);
                o << static_cast<long long>(t);
            }
            else if (op == "date.gmtime") {
                const long long t = std::stoll(a[1]);
                if (!timeInRange(t)) o << "ERR range";
                else {
                    time_t tt = static_cast<time_t>(t);
                    struct tm *g = gmtime(&tt);
                    if (!g) o << "null";
                    else o << g->tm_year << " " << g->tm_mon << " " << g->tm_mday << " " << g->tm_hour << " "
                           << g->tm_min << " " << g->tm_sec << " " << g->tm_wday;
                }
            }
            else o << "ERR unknown-entry " << op;
        } catch (const std::exception &e) { o.str(""); o << "EXC " << e.what(); }
        catch (...) { o.str(""); o << "EXC"; }
        std::cout << o.str() << "\n" << std::flush;
    }
    return 0;
}
