(* handlers for the mgr area (C61).
   mgr.req <myhost> <myport> <local> <menu> <pw> <rules> <method> <scheme> <login> <host> <port> <path> <auth>
     menu  : hexname:0|1 joined by ','              (action name : isPwReq)
     pw    : hexpasswd:hexaction/hexaction… joined by ','   ("none" = no cachemgr_passwd line)
     rules : [+-]atoms joined by ',' ; atoms m M a A l L = manager !manager all !all localhost !localhost ("none" = no http_access)
     method G|P ; scheme 0 http 1 ftp 2 https 3 other ; login/host/path hex ; auth hex or "absent" *)
let split c s = if s = "none" then [] else String.split_on_char c s
let menu_of s = List.map (fun it -> match String.split_on_char ':' it with
    | [n; f] -> { a_name = bytes_of_hex n; a_pwreq = (f = "1") } | _ -> failwith "menu") (split ',' s)
let pw_of s = List.map (fun it -> match String.split_on_char ':' it with
    | [p; acts] -> { pe_passwd = bytes_of_hex p; pe_actions = List.map bytes_of_hex (String.split_on_char '/' acts) }
    | _ -> failwith "pw") (split ',' s)
let atom_of = function 'm' -> AMgr | 'M' -> ANotMgr | 'a' -> AAll | 'A' -> ANotAll | 'l' -> ALocal | 'L' -> ANotLocal
  | _ -> failwith "atom"
let rules_of s = List.map (fun it ->
    { r_allow = (it.[0] = '+'); r_atoms = List.init (String.length it - 1) (fun i -> atom_of it.[i + 1]) }) (split ',' s)
let scheme_of = function "0" -> SHttp | "1" -> SFtp | "2" -> SHttps | "3" -> SOther | _ -> failwith "scheme"
let req_of m sc login host port path auth =
  { q_method = (if m = "G" then MGet else MPost); q_scheme = scheme_of sc; q_login = bytes_of_hex login;
    q_host = bytes_of_hex host; q_port = n_of_string port; q_path = bytes_of_hex path;
    q_auth = (if auth = "absent" then None else Some (bytes_of_hex auth)) }
let show = function
  | RUnsupported -> "unsupported" | RDenied -> "denied" | RForwarded -> "forwarded" | RBadReq -> "badreq"
  | RNotFound -> "notfound" | RAuthReq r -> "authreq " ^ hex_of_bytes r | RIndex -> "index" | RReport _ -> "report"
  | RFuel -> "fuel"

let () =
  reg "mgr.req" (fun [myhost; myport; local; menu; pw; rules; m; sc; login; host; port; path; auth] ->
      let e = { e_myhost = bytes_of_hex myhost; e_myport = n_of_string myport; e_local = (local = "1") } in
      show (handle e (menu_of menu) (pw_of pw) (rules_of rules) (req_of m sc login host port path auth)));
  reg "mgr.uri" (fun [m; sc; login; host; port; path] ->
      hex_of_bytes (effective_uri (req_of m sc login host port path "absent")));
  reg "mgr.acl" (fun [m; sc; login; host; port; path] -> b2s (acl_manager (req_of m sc login host port path "absent")));
  reg "mgr.regex" (fun [s] -> b2s (mgr_regex_match (bytes_of_hex s)));
  (* unit level (same case lines as harness/h_mgr.cc; the pattern/icase arguments are what the tree configures, the model
     has them as regenerated constants) *)
  reg "mgr.u.regex" (fun [_; _; s] -> b2s (mgr_regex_match (bytes_of_hex s)));
  reg "mgr.u.decode" (fun [s] -> hex_of_bytes (decode_or_dupe (bytes_of_hex s)));
  reg "mgr.u.unescape" (fun [s] -> hex_of_bytes (rfc1738_unescape (bytes_of_hex s)));
  reg "mgr.u.query" (fun [s] -> match query_parse_top (bytes_of_hex s) with
      | QOk r -> "ok " ^ hex_of_bytes r | QThrow -> "throw" | QFuel -> "fuel");
  reg "mgr.u.uri" (fun [sc; login; host; port; path] -> hex_of_bytes (effective_uri (req_of "G" sc login host port path "absent")));
  reg "mgr.u.acl" (fun [_; _; sc; login; host; port; path] -> b2s (acl_manager (req_of "G" sc login host port path "absent")));
  reg "mgr.password" (fun [a] -> hex_of_bytes (supplied_password (if a = "absent" then None else Some (bytes_of_hex a))))
