(* RelayProofs.v — proofs about RelayModel.v (C01, C02). *)
Require Import SquidV.Bytes SquidV.RelayModel.
Require Import SquidV.gen.Relay_gen.
Require Import ZifyBool ZifyN ZifyNat.
Local Open Scope N_scope.
Ltac Zify.zify_post_hook ::= Z.div_mod_to_equations.

(* ====================================================================================================== *)
(* 0. the framing decision functions agree with HttpReply.cc on the regenerated table                      *)
(* ====================================================================================================== *)
Definition enc_size (o : option N) : N := match o with None => 0 | Some n => n + 1 end.
Definition row_ok (r : (N * bool * bool * bool) * (bool * N * N)) : bool :=
  let '((st, hd, cl, ch), (eb, sz, bs)) := r in
  let h := {| h_status := st; h_head := hd; h_clen := if cl then Some 5 else None; h_chunked := ch |} in
  Bool.eqb (expecting_body h) eb &&
  (if eb then enc_size (expected_size h) =? sz else true) &&
  (enc_size (body_size h) =? bs).

Lemma framing_table_ok : forallb row_ok framing_table = true.
Proof. vm_compute. reflexivity. Qed.

(* ====================================================================================================== *)
(* 1. list helpers                                                                                         *)
(* ====================================================================================================== *)
Definition nonempty (l : bytes) : Prop := l <> [].

Lemma takeN_0 {A} (l : list A) : takeN 0 l = [].
Proof. destruct l; reflexivity. Qed.

Lemma dropN_0 {A} (l : list A) : dropN 0 l = l.
Proof. destruct l; reflexivity. Qed.

Lemma takeN_app {A} k (a b : list A) : takeN k (a ++ b) = takeN k a ++ takeN (k - lenN a) b.
Proof.
  revert k; induction a as [|x a IH]; intros k.
  - cbn [app takeN lenN]. now rewrite N.sub_0_r.
  - cbn [app takeN lenN]. destruct (k =? 0) eqn:E.
    + apply N.eqb_eq in E. subst k. cbn [app]. now rewrite takeN_0.
    + apply N.eqb_neq in E. cbn [app]. rewrite IH.
      replace (N.pred k - lenN a) with (k - N.succ (lenN a)) by lia. reflexivity.
Qed.

Lemma dropN_app {A} k (a b : list A) : dropN k (a ++ b) = dropN k a ++ dropN (k - lenN a) b.
Proof.
  revert k; induction a as [|x a IH]; intros k.
  - cbn [app dropN lenN]. now rewrite N.sub_0_r.
  - cbn [app dropN lenN]. destruct (k =? 0) eqn:E.
    + apply N.eqb_eq in E. subst k. now rewrite dropN_0.
    + apply N.eqb_neq in E. rewrite IH.
      replace (N.pred k - lenN a) with (k - N.succ (lenN a)) by lia. reflexivity.
Qed.

Lemma takeN_all {A} k (l : list A) : lenN l <= k -> takeN k l = l.
Proof.
  revert k; induction l as [|x l IH]; intros k H; cbn [takeN lenN] in *; [reflexivity|].
  destruct (k =? 0) eqn:E; [apply N.eqb_eq in E; lia|]. f_equal. apply IH. lia.
Qed.

Lemma dropN_all {A} k (l : list A) : lenN l <= k -> dropN k l = [].
Proof.
  revert k; induction l as [|x l IH]; intros k H; cbn [dropN lenN] in *; [reflexivity|].
  destruct (k =? 0) eqn:E; [apply N.eqb_eq in E; lia|]. apply IH. lia.
Qed.

Lemma lenN_dropN {A} k (l : list A) : lenN (dropN k l) = lenN l - k.
Proof.
  revert k; induction l as [|x l IH]; intros k; cbn [dropN lenN]; [lia|].
  destruct (k =? 0) eqn:E; [apply N.eqb_eq in E; subst; cbn [lenN]; lia|].
  apply N.eqb_neq in E. rewrite IH. lia.
Qed.

Lemma lenN_nil_iff {A} (l : list A) : lenN l = 0 <-> l = [].
Proof. destruct l; cbn [lenN]; split; intros H; try reflexivity; try discriminate; lia. Qed.

Lemma lenN_pos {A} (l : list A) : l <> [] -> 1 <= lenN l.
Proof. destruct l; cbn [lenN]; [congruence|lia]. Qed.

(* ====================================================================================================== *)
(* 2. the reference chunked reader                                                                         *)
(* ====================================================================================================== *)
Lemma crun_final s l : cst_final s = true -> crun s l = (s, [], l).
Proof. intros H. destruct l; cbn [crun]; [reflexivity| now rewrite H]. Qed.

Lemma crun_cons s c r : cst_final s = false ->
  crun s (c :: r) = let '(s1, o1) := cstep s c in let '(s2, o2, rest) := crun s1 r in (s2, o1 ++ o2, rest).
Proof. intros H. cbn [crun]. now rewrite H. Qed.

(* reading is independent of how the input is cut *)
Lemma crun_app s a b :
  crun s (a ++ b) =
  let '(s1, o1, r1) := crun s a in
  let '(s2, o2, r2) := crun s1 (r1 ++ b) in (s2, o1 ++ o2, r2).
Proof.
  revert s; induction a as [|c a IH]; intros s.
  - cbn [app crun]. destruct (crun s b) as [[s2 o2] r2]. reflexivity.
  - destruct (cst_final s) eqn:F.
    + rewrite (crun_final s (c :: a) F). cbv beta iota.
      rewrite !(crun_final s ((c :: a) ++ b) F). reflexivity.
    + change ((c :: a) ++ b) with (c :: (a ++ b)). rewrite !crun_cons by exact F.
      destruct (cstep s c) as [s1 o1]. rewrite IH.
      destruct (crun s1 a) as [[sa oa] ra]. destruct (crun sa (ra ++ b)) as [[s2 o2] r2].
      now rewrite app_assoc.
Qed.

(* the reader stops early only in a final state *)
Lemma crun_rest s l st o r : crun s l = (st, o, r) -> cst_final st = false -> r = [].
Proof.
  revert s st o r; induction l as [|c l IH]; intros s st o r H F.
  - cbn [crun] in H. now inversion H.
  - destruct (cst_final s) eqn:Fs.
    + rewrite crun_final in H by exact Fs. inversion H; subst. congruence.
    + rewrite crun_cons in H by exact Fs. destruct (cstep s c) as [s1 o1].
      destruct (crun s1 l) as [[s2 o2] r2] eqn:E. inversion H; subst. eapply IH; eauto.
Qed.

Lemma crun_final_stays s l st o r : crun s l = (st, o, r) -> cst_final s = true -> st = s /\ o = [] /\ r = l.
Proof. intros H F. rewrite crun_final in H by exact F. inversion H; auto. Qed.

(* continuation form of one step *)
Lemma crun_step s c r s1 : cst_final s = false -> cstep s c = (s1, []) -> crun s (c :: r) = crun s1 r.
Proof.
  intros F H. rewrite crun_cons by exact F. rewrite H. destruct (crun s1 r) as [[s2 o2] r2]. reflexivity.
Qed.

(* ---------- hexadecimal chunk sizes ---------- *)
Lemma hexdig_ok u n : n < 16 -> is_hex (hexdig u n) = true /\ hexval (hexdig u n) = n.
Proof.
  intros H.
  assert (C : n = 0 \/ n = 1 \/ n = 2 \/ n = 3 \/ n = 4 \/ n = 5 \/ n = 6 \/ n = 7 \/ n = 8 \/ n = 9 \/
              n = 10 \/ n = 11 \/ n = 12 \/ n = 13 \/ n = 14 \/ n = 15) by lia.
  destruct u; repeat (destruct C as [C|C]; [subst n; vm_compute; split; reflexivity|]); subst n; vm_compute; split; reflexivity.
Qed.

Lemma pow16_succ (k : nat) : 16 ^ N.of_nat (S k) = 16 * 16 ^ N.of_nat k.
Proof. rewrite Nat2N.inj_succ. now rewrite N.pow_succ_r'. Qed.

Lemma hex_run u : forall (k : nat) n rest,
  n < 16 ^ N.of_nat (S k) ->
  (crun CSize0 (hex_digits (S k) u n ++ rest) = crun (CSize n) rest) /\
  (forall a, crun (CSize a) (hex_digits (S k) u n ++ rest) =
             crun (CSize (a * 16 ^ N.of_nat (length (hex_digits (S k) u n)) + n)) rest).
Proof.
  induction k as [|k IH]; intros n rest Hn.
  - assert (E : n <? 16 = true) by (apply N.ltb_lt; cbn in Hn; lia).
    cbn [hex_digits]. rewrite E. apply N.ltb_lt in E. destruct (hexdig_ok u n E) as [Hh Hv]. split.
    + cbn [app]. rewrite (crun_step CSize0 _ _ (CSize n)); [reflexivity|reflexivity|].
      cbn [cstep]. now rewrite Hh, Hv.
    + intros a. cbn [app length]. rewrite (crun_step (CSize a) _ _ (CSize (a * 16 + n))); [|reflexivity|].
      * do 2 f_equal.
      * cbn [cstep]. now rewrite Hh, Hv.
  - remember (S k) as k1 eqn:Hk1. cbn [hex_digits]. destruct (n <? 16) eqn:E.
    + apply N.ltb_lt in E. destruct (hexdig_ok u n E) as [Hh Hv]. split.
      * cbn [app]. rewrite (crun_step CSize0 _ _ (CSize n)); [reflexivity|reflexivity|].
        cbn [cstep]. now rewrite Hh, Hv.
      * intros a. cbn [app length]. rewrite (crun_step (CSize a) _ _ (CSize (a * 16 + n))); [|reflexivity|].
        -- do 2 f_equal.
        -- cbn [cstep]. now rewrite Hh, Hv.
    + apply N.ltb_ge in E. rewrite pow16_succ in Hn.
      assert (Hq : n / 16 < 16 ^ N.of_nat k1) by (apply N.div_lt_upper_bound; lia).
      assert (Hm : n mod 16 < 16) by (apply N.mod_lt; lia).
      destruct (hexdig_ok u (n mod 16) Hm) as [Hh Hv].
      destruct (IH (n / 16) ([hexdig u (n mod 16)] ++ rest) Hq) as [I1 I2].
      assert (Hd : n = 16 * (n / 16) + n mod 16) by (apply N.div_mod; lia).
      split.
      * rewrite <- app_assoc. rewrite I1. cbn [app].
        rewrite (crun_step (CSize (n / 16)) _ _ (CSize n)); [reflexivity|reflexivity|].
        cbn [cstep]. rewrite Hh, Hv. do 2 f_equal. lia.
      * intros a. rewrite <- app_assoc. rewrite I2. cbn [app].
        rewrite (crun_step _ _ _ (CSize ((a * 16 ^ N.of_nat (length (hex_digits k1 u (n / 16))) + n / 16) * 16 + n mod 16)));
          [|reflexivity|cbn [cstep]; now rewrite Hh, Hv].
        do 2 f_equal. rewrite app_length. cbn [length]. rewrite Nat.add_1_r, pow16_succ. lia.
Qed.

Lemma lt_pow16 (k : nat) : N.of_nat k < 16 ^ N.of_nat (S k).
Proof.
  induction k as [|k IH]; [cbn; lia|].
  rewrite pow16_succ. rewrite Nat2N.inj_succ in *. lia.
Qed.

Lemma hex_len_run u (d : bytes) rest :
  crun CSize0 (hex_digits (S (length d)) u (lenN d) ++ rest) = crun (CSize (lenN d)) rest.
Proof. apply hex_run. rewrite lenN_length. apply lt_pow16. Qed.

(* ---------- chunk extensions ---------- *)
Lemma ext_body_run n e rest : forallb no_crlf e = true ->
  crun (CExt n) (e ++ 13 :: rest) = crun (CSizeLF n) rest.
Proof.
  induction e as [|c e IH]; intros H.
  - cbn [app]. apply crun_step; reflexivity.
  - cbn [forallb] in H. apply andb_prop in H. destruct H as [Hc He].
    cbn [app]. rewrite (crun_step (CExt n) c _ (CExt n)); [now apply IH|reflexivity|].
    unfold no_crlf in Hc. cbn [cstep].
    destruct (c =? 13) eqn:E1; [discriminate|]. destruct (c =? 10) eqn:E2; [discriminate|]. reflexivity.
Qed.

Lemma ext_run n e rest : ext_ok e = true ->
  crun (CSize n) (e ++ 13 :: rest) = crun (CSizeLF n) rest.
Proof.
  destruct e as [|c e]; intros H.
  - cbn [app]. apply crun_step; reflexivity.
  - cbn [ext_ok] in H. apply andb_prop in H. destruct H as [Hc He].
    cbn [forallb] in He. apply andb_prop in He. destruct He as [Hn He].
    cbn [app]. rewrite (crun_step (CSize n) c _ (CExt n)); [now apply ext_body_run|reflexivity|].
    cbn [cstep]. unfold no_crlf in Hn.
    assert (Hx : is_hex c = false).
    { unfold is_hex, is_digit, is_uhex, is_lhex.
      destruct (c =? 59) eqn:A; [apply N.eqb_eq in A; subst; reflexivity|].
      destruct (c =? 32) eqn:B; [apply N.eqb_eq in B; subst; reflexivity|].
      destruct (c =? 9) eqn:C; [apply N.eqb_eq in C; subst; reflexivity|]. discriminate. }
    rewrite Hx. destruct (c =? 13) eqn:E1; [discriminate|]. now rewrite Hc.
Qed.

(* ---------- chunk data ---------- *)
Lemma data_run : forall (d : bytes) n rest s o r,
  lenN d = n -> 1 <= n -> crun CDataCR rest = (s, o, r) ->
  crun (CData n) (d ++ rest) = (s, d ++ o, r).
Proof.
  induction d as [|c d IH]; intros n rest s o r Hl Hn Hc.
  - cbn [lenN] in Hl. lia.
  - cbn [lenN] in Hl. cbn [app]. rewrite crun_cons by reflexivity. cbn [cstep].
    destruct (n =? 1) eqn:E.
    + apply N.eqb_eq in E. assert (d = []) by (apply lenN_nil_iff; lia). subst d. cbn [app].
      rewrite Hc. reflexivity.
    + apply N.eqb_neq in E. rewrite (IH (n - 1) rest s o r); [reflexivity|lia|lia|exact Hc].
Qed.

(* ---------- one chunk, the last chunk, a whole body ---------- *)
Lemma chunk_run u ext d rest s o r :
  ext_ok ext = true -> d <> [] -> crun CSize0 rest = (s, o, r) ->
  crun CSize0 (enc_chunk u ext d ++ rest) = (s, d ++ o, r).
Proof.
  intros He Hd Hc. unfold enc_chunk. rewrite <- !app_assoc. rewrite hex_len_run.
  unfold crlf. cbn [app]. rewrite ext_run by exact He.
  assert (Hl : 1 <= lenN d) by now apply lenN_pos.
  rewrite (crun_step (CSizeLF (lenN d)) 10 _ (CData (lenN d))); [|reflexivity|].
  2:{ cbn [cstep]. destruct (lenN d =? 0) eqn:E; [apply N.eqb_eq in E; lia|reflexivity]. }
  apply data_run; [reflexivity|exact Hl|].
  rewrite (crun_step CDataCR 13 _ CDataLF) by reflexivity.
  rewrite (crun_step CDataLF 10 _ CSize0) by reflexivity. exact Hc.
Qed.

Lemma trailer_line_run l rest : line_ok l = true ->
  crun CTr0 (l ++ crlf ++ rest) = crun CTr0 rest.
Proof.
  unfold line_ok. intros H. apply andb_prop in H. destruct H as [Hne Hall].
  destruct l as [|c l]; [discriminate|]. cbn [forallb] in Hall. apply andb_prop in Hall. destruct Hall as [Hc Hl].
  cbn [app]. rewrite (crun_step CTr0 c _ CTr); [|reflexivity|].
  2:{ unfold no_crlf in Hc. cbn [cstep]. destruct (c =? 13); [discriminate|]. destruct (c =? 10); [discriminate|reflexivity]. }
  clear Hc Hne. induction l as [|x l IH].
  - unfold crlf. cbn [app]. rewrite (crun_step CTr 13 _ CTrLF) by reflexivity.
    now rewrite (crun_step CTrLF 10 _ CTr0) by reflexivity.
  - cbn [forallb] in Hl. apply andb_prop in Hl. destruct Hl as [Hx Hl]. cbn [app].
    rewrite (crun_step CTr x _ CTr); [now apply IH|reflexivity|].
    unfold no_crlf in Hx. cbn [cstep]. destruct (x =? 13); [discriminate|]. destruct (x =? 10); [discriminate|reflexivity].
Qed.

Lemma trailer_run ls rest : forallb line_ok ls = true ->
  crun CTr0 (enc_trailer ls ++ rest) = crun CTr0 rest.
Proof.
  induction ls as [|l ls IH]; intros H; [reflexivity|].
  cbn [forallb] in H. apply andb_prop in H. destruct H as [Hl Hls].
  unfold enc_trailer. cbn [map concat]. rewrite <- !app_assoc. rewrite trailer_line_run by exact Hl.
  now apply IH.
Qed.

Lemma last_run ext ls rest :
  ext_ok ext = true -> forallb line_ok ls = true ->
  crun CSize0 (enc_last ext (enc_trailer ls) ++ rest) = (CDone, [], rest).
Proof.
  intros He Hl. unfold enc_last, crlf. rewrite <- !app_assoc. cbn [app].
  rewrite (crun_step CSize0 48 _ (CSize 0)) by reflexivity.
  rewrite ext_run by exact He.
  rewrite (crun_step (CSizeLF 0) 10 _ CTr0) by reflexivity.
  rewrite trailer_run by exact Hl. cbn [app].
  rewrite (crun_step CTr0 13 _ CEndLF) by reflexivity.
  rewrite (crun_step CEndLF 10 _ CDone) by reflexivity.
  apply crun_final. reflexivity.
Qed.

Lemma chunks_run u ext ds rest s o r :
  ext_ok ext = true -> Forall nonempty ds -> crun CSize0 rest = (s, o, r) ->
  crun CSize0 (concat (map (enc_chunk u ext) ds) ++ rest) = (s, concat ds ++ o, r).
Proof.
  intros He Hd Hc. induction Hd as [|d ds Hne Hds IH]; [exact Hc|].
  cbn [map concat]. rewrite <- !app_assoc. now apply chunk_run.
Qed.

Theorem chunked_roundtrip u ext ds tr rest :
  ext_ok ext = true -> Forall nonempty ds -> forallb line_ok tr = true ->
  crun CSize0 (enc_chunked u ext ds tr ++ rest) = (CDone, concat ds, rest).
Proof.
  intros He Hd Ht. unfold enc_chunked. rewrite <- app_assoc.
  rewrite (chunks_run u ext ds _ CDone [] rest He Hd); [now rewrite app_nil_r|].
  now apply last_run.
Qed.

Theorem chunks_without_last u ext ds :
  ext_ok ext = true -> Forall nonempty ds ->
  crun CSize0 (concat (map (enc_chunk u ext) ds)) = (CSize0, concat ds, []).
Proof.
  intros He Hd. rewrite <- (app_nil_r (concat (map (enc_chunk u ext) ds))).
  rewrite (chunks_run u ext ds [] CSize0 [] [] He Hd); [now rewrite app_nil_r|reflexivity].
Qed.

Lemma pack_chunk_nil : pack_chunk [] = last_chunk.
Proof. reflexivity. Qed.
Lemma last_chunk_enc : last_chunk = enc_last [] (enc_trailer []).
Proof. reflexivity. Qed.

(* ====================================================================================================== *)
(* 3. origin side: what reaches the store, for every segmentation                                          *)
(* ====================================================================================================== *)
Definition srv_from (f : oframing) (s : srv) (evs : list oev) : srv := fold_left (srv_step f) evs s.

Lemma srv_from_app f s a b : srv_from f s (a ++ b) = srv_from f (srv_from f s a) b.
Proof. unfold srv_from. apply fold_left_app. Qed.

Lemma srv_done_stays f evs : forall s, sv_done s = true -> srv_from f s evs = s.
Proof.
  induction evs as [|e evs IH]; intros s H; [reflexivity|].
  change (srv_from f s (e :: evs)) with (srv_from f (srv_step f s e) evs).
  assert (E : srv_step f s e = s) by (unfold srv_step; now rewrite H). rewrite E. now apply IH.
Qed.

Lemma srv_from_cons f s e evs : srv_from f s (e :: evs) = srv_from f (srv_step f s e) evs.
Proof. reflexivity. Qed.
Lemma srv_from_nil f s : srv_from f s [] = s.
Proof. reflexivity. Qed.

(* ---- Content-Length ---- *)
Lemma srv_len_segs n : forall segs s tail,
  sv_done s = false -> sv_seen s <= n ->
  let fin := srv_from (OLen n) s (map OSeg segs ++ OEof :: tail) in
  sv_body fin = sv_body s ++ takeN (n - sv_seen s) (concat segs) /\
  sv_whole fin = (n - sv_seen s <=? lenN (concat segs)) /\ sv_done fin = true.
Proof.
  induction segs as [|b segs IH]; intros s tail Hd Hs.
  - cbn [map app concat]. rewrite srv_from_cons. unfold srv_step. rewrite Hd.
    rewrite srv_done_stays by reflexivity. cbn [sv_body sv_whole sv_done lenN].
    rewrite (takeN_all _ (@nil N)) by (cbn [lenN]; lia).
    split; [now rewrite app_nil_r|]. split; [|reflexivity].
    destruct (sv_seen s =? n) eqn:E; [apply N.eqb_eq in E|apply N.eqb_neq in E]; symmetry;
      [apply N.leb_le|apply N.leb_gt]; lia.
  - cbn [map app concat]. rewrite srv_from_cons. unfold srv_step. rewrite Hd.
    set (take := takeN (n - sv_seen s) b).
    set (s1 := {| sv_dec := sv_dec s; sv_seen := sv_seen s + lenN take; sv_body := sv_body s ++ take;
                  sv_whole := sv_seen s + lenN take =? n; sv_done := sv_seen s + lenN take =? n |}).
    assert (Hlt : lenN take = N.min (n - sv_seen s) (lenN b)) by apply lenN_takeN.
    destruct (sv_seen s + lenN take =? n) eqn:E.
    + apply N.eqb_eq in E. rewrite srv_done_stays by reflexivity.
      cbn [sv_body sv_whole sv_done s1]. rewrite takeN_app.
      assert (Hk : n - sv_seen s - lenN b = 0) by lia. rewrite Hk, takeN_0, app_nil_r.
      split; [reflexivity|]. split; [|reflexivity].
      rewrite lenN_app. symmetry. apply N.leb_le. lia.
    + apply N.eqb_neq in E.
      assert (Hb : lenN b < n - sv_seen s) by lia.
      assert (Ht : take = b) by (apply takeN_all; lia).
      destruct (IH s1 tail) as [I1 [I2 I3]]; [reflexivity|cbn [sv_seen s1]; lia|].
      cbn zeta in I1, I2, I3. rewrite I1, I2, I3. cbn [sv_body sv_seen s1]. rewrite Ht.
      rewrite takeN_app, (takeN_all _ b) by lia. rewrite <- app_assoc.
      replace (n - (sv_seen s + lenN b)) with (n - sv_seen s - lenN b) by lia.
      split; [reflexivity|]. split; [|reflexivity]. rewrite lenN_app.
      destruct (n - sv_seen s - lenN b <=? lenN (concat segs)) eqn:L;
        [apply N.leb_le in L; symmetry; apply N.leb_le; lia| apply N.leb_gt in L; symmetry; apply N.leb_gt; lia].
Qed.

(* enough data: complete without waiting for EOF (persistent connection), whatever follows *)
Lemma srv_len_enough n : forall segs s tail,
  sv_done s = false -> sv_seen s <= n -> segs <> [] -> n - sv_seen s <= lenN (concat segs) ->
  let fin := srv_from (OLen n) s (map OSeg segs ++ tail) in
  sv_body fin = sv_body s ++ takeN (n - sv_seen s) (concat segs) /\ sv_whole fin = true /\ sv_done fin = true.
Proof.
  induction segs as [|b segs IH]; intros s tail Hd Hs Hne Hl; [congruence|].
  cbn [map app concat]. rewrite srv_from_cons. unfold srv_step. rewrite Hd.
  set (take := takeN (n - sv_seen s) b).
  set (s1 := {| sv_dec := sv_dec s; sv_seen := sv_seen s + lenN take; sv_body := sv_body s ++ take;
                sv_whole := sv_seen s + lenN take =? n; sv_done := sv_seen s + lenN take =? n |}).
  assert (Hlt : lenN take = N.min (n - sv_seen s) (lenN b)) by apply lenN_takeN.
  destruct (sv_seen s + lenN take =? n) eqn:E.
  - apply N.eqb_eq in E. rewrite srv_done_stays by reflexivity.
    cbn [sv_body sv_whole sv_done s1]. rewrite takeN_app.
    assert (Hk : n - sv_seen s - lenN b = 0) by lia. rewrite Hk, takeN_0, app_nil_r.
    repeat split; reflexivity.
  - apply N.eqb_neq in E.
    assert (Hb : lenN b < n - sv_seen s) by lia.
    assert (Ht : take = b) by (apply takeN_all; lia).
    cbn [concat] in Hl. rewrite lenN_app in Hl.
    assert (Hsegs : segs <> []).
    { intros ->. cbn [concat lenN] in Hl. lia. }
    destruct (IH s1 tail) as [I1 [I2 I3]];
      [reflexivity|cbn [sv_seen s1]; lia|exact Hsegs|cbn [sv_seen s1]; lia|].
    cbn zeta in I1, I2, I3. rewrite I1, I2, I3. cbn [sv_body sv_seen s1]. rewrite Ht.
    rewrite takeN_app, (takeN_all _ b) by lia. rewrite <- app_assoc.
    replace (n - (sv_seen s + lenN b)) with (n - sv_seen s - lenN b) by lia. auto.
Qed.

(* ---- close-delimited ---- *)
Lemma srv_close_segs : forall segs s tail,
  sv_done s = false ->
  let fin := srv_from OClose s (map OSeg segs ++ OEof :: tail) in
  sv_body fin = sv_body s ++ concat segs /\ sv_whole fin = true /\ sv_done fin = true.
Proof.
  induction segs as [|b segs IH]; intros s tail Hd.
  - cbn [map app concat]. rewrite srv_from_cons. unfold srv_step. rewrite Hd.
    rewrite srv_done_stays by reflexivity. cbn [sv_body sv_whole sv_done]. now rewrite app_nil_r.
  - cbn [map app concat]. rewrite srv_from_cons. unfold srv_step. rewrite Hd.
    match goal with |- context [srv_from OClose ?x _] => destruct (IH x tail) as [I1 [I2 I3]]; [reflexivity|] end.
    cbn zeta in I1, I2, I3. rewrite I1, I2, I3. cbn [sv_body]. now rewrite <- app_assoc.
Qed.

(* ---- chunked ---- *)
Lemma srv_chunked_segs : forall segs s tail d out rest,
  sv_done s = false -> cst_final (sv_dec s) = false ->
  crun (sv_dec s) (concat segs) = (d, out, rest) ->
  let fin := srv_from OChunked s (map OSeg segs ++ OEof :: tail) in
  sv_done fin = true /\
  match d with
  | CDone => sv_body fin = sv_body s ++ out /\ sv_whole fin = true
  | CErr => sv_whole fin = false /\ exists o1 o2, out = o1 ++ o2 /\ sv_body fin = sv_body s ++ o1
  | _ => sv_body fin = sv_body s ++ out /\ sv_whole fin = false
  end.
Proof.
  induction segs as [|b segs IH]; intros s tail d out rest Hd Hf Hc.
  - cbn [concat crun] in Hc. inversion Hc; subst d out rest. clear Hc.
    cbn [map app]. rewrite srv_from_cons. unfold srv_step. rewrite Hd.
    rewrite srv_done_stays by reflexivity. cbn [sv_body sv_whole sv_done]. rewrite app_nil_r.
    split; [reflexivity|]. destruct (sv_dec s); try discriminate; auto.
  - cbn [concat] in Hc. rewrite crun_app in Hc.
    destruct (crun (sv_dec s) b) as [[s1 o1] r1] eqn:E1.
    destruct (crun s1 (r1 ++ concat segs)) as [[s2 o2] r2] eqn:E2. inversion Hc; subst d out rest. clear Hc.
    cbn [map app]. rewrite srv_from_cons. unfold srv_step. rewrite Hd, E1.
    destruct (cst_err s1) eqn:Eerr.
    + (* exception in this call *)
      assert (s1 = CErr) by (destruct s1; try discriminate; reflexivity). subst s1.
      rewrite srv_done_stays by reflexivity. cbn [sv_body sv_whole sv_done].
      destruct (crun_final_stays _ _ _ _ _ E2 eq_refl) as [-> [-> _]].
      split; [reflexivity|]. split; [reflexivity|]. exists [], o1. split; now rewrite app_nil_r.
    + destruct (cst_done s1) eqn:Edone.
      * assert (s1 = CDone) by (destruct s1; try discriminate; reflexivity). subst s1.
        rewrite srv_done_stays by reflexivity. cbn [sv_body sv_whole sv_done].
        destruct (crun_final_stays _ _ _ _ _ E2 eq_refl) as [-> [-> _]]. rewrite app_nil_r. auto.
      * assert (Hnf : cst_final s1 = false) by (destruct s1; try discriminate; reflexivity).
        assert (r1 = []) by (eapply crun_rest; eauto). subst r1. cbn [app] in E2.
        match goal with |- context [srv_from OChunked ?x _] =>
          destruct (IH x tail s2 o2 r2) as [I1 I2]; [reflexivity|exact Hnf|exact E2|] end.
        cbn zeta in I1, I2. split; [exact I1|]. cbn [sv_body] in I2.
        destruct s2; try (destruct I2 as [I2 I3]; rewrite I2, I3; now rewrite <- app_assoc).
        destruct I2 as [I2 [p1 [p2 [Hp I3]]]]. split; [exact I2|]. exists (o1 ++ p1), p2.
        rewrite I3, Hp. now rewrite <- !app_assoc.
Qed.

(* the same without EOF when the message is complete (persistent connection) *)
Lemma srv_chunked_enough : forall segs s tail out rest,
  sv_done s = false -> cst_final (sv_dec s) = false ->
  crun (sv_dec s) (concat segs) = (CDone, out, rest) ->
  let fin := srv_from OChunked s (map OSeg segs ++ tail) in
  sv_done fin = true /\ sv_body fin = sv_body s ++ out /\ sv_whole fin = true.
Proof.
  induction segs as [|b segs IH]; intros s tail out rest Hd Hf Hc.
  - cbn [concat crun] in Hc. inversion Hc as [[H0 H1 H2]]. rewrite H0 in Hf. discriminate.
  - cbn [concat] in Hc. rewrite crun_app in Hc.
    destruct (crun (sv_dec s) b) as [[s1 o1] r1] eqn:E1.
    destruct (crun s1 (r1 ++ concat segs)) as [[s2 o2] r2] eqn:E2. inversion Hc; subst s2 out rest. clear Hc.
    cbn [map app]. rewrite srv_from_cons. unfold srv_step. rewrite Hd, E1.
    destruct (cst_err s1) eqn:Eerr.
    + assert (s1 = CErr) by (destruct s1; try discriminate; reflexivity). subst s1.
      destruct (crun_final_stays _ _ _ _ _ E2 eq_refl) as [Hx _]. discriminate.
    + destruct (cst_done s1) eqn:Edone.
      * assert (s1 = CDone) by (destruct s1; try discriminate; reflexivity). subst s1.
        rewrite srv_done_stays by reflexivity. cbn [sv_body sv_whole sv_done].
        destruct (crun_final_stays _ _ _ _ _ E2 eq_refl) as [_ [-> _]]. rewrite app_nil_r. auto.
      * assert (Hnf : cst_final s1 = false) by (destruct s1; try discriminate; reflexivity).
        assert (r1 = []) by (eapply crun_rest; eauto). subst r1. cbn [app] in E2.
        match goal with |- context [srv_from OChunked ?x _] =>
          destruct (IH x tail o2 r2) as [I1 [I2 I3]]; [reflexivity|exact Hnf|exact E2|] end.
        cbn zeta in I1, I2, I3. cbn [sv_body] in I2. rewrite I1, I2, I3. now rewrite <- app_assoc.
Qed.

(* a strict prefix of a complete chunked body is neither complete nor malformed, and decodes to a prefix *)
Lemma crun_strict_prefix s pre post out :
  crun s (pre ++ post) = (CDone, out, []) -> post <> [] ->
  exists s1 o1 o2, crun s pre = (s1, o1, []) /\ cst_final s1 = false /\ out = o1 ++ o2.
Proof.
  intros H Hp. rewrite crun_app in H.
  destruct (crun s pre) as [[s1 o1] r1] eqn:E1.
  destruct (crun s1 (r1 ++ post)) as [[s2 o2] r2] eqn:E2. inversion H; subst s2 out r2. clear H.
  destruct (cst_final s1) eqn:F.
  - destruct (crun_final_stays _ _ _ _ _ E2 F) as [_ [_ Hr]]. symmetry in Hr. apply app_eq_nil in Hr.
    destruct Hr as [_ Hr]. congruence.
  - exists s1, o1, o2. assert (r1 = []) by (eapply crun_rest; eauto). subst r1. auto.
Qed.

(* ====================================================================================================== *)
(* 4. client side: the reference reader on what squid writes                                               *)
(* ====================================================================================================== *)
Lemma length_dropN_lt {A} k (l : list A) : l <> [] -> 1 <= k -> (length (dropN k l) < length l)%nat.
Proof.
  intros Hl Hk. assert (H := lenN_dropN k l). rewrite !lenN_length in H.
  assert (1 <= lenN l) by (destruct l; [congruence|cbn [lenN]; lia]). rewrite lenN_length in H0. lia.
Qed.

Lemma chop_aux_ok : forall (fuel : nat) k l, 1 <= k -> (length l <= fuel)%nat ->
  concat (chop_aux fuel k l) = l /\ Forall nonempty (chop_aux fuel k l).
Proof.
  induction fuel as [|f IH]; intros k l Hk Hl.
  - destruct l; [cbn; auto|cbn in Hl; lia].
  - cbn [chop_aux]. destruct l as [|x l]; [cbn; auto|].
    assert (Hd : (length (dropN k (x :: l)) < length (x :: l))%nat) by (apply length_dropN_lt; [discriminate|exact Hk]).
    destruct (IH k (dropN k (x :: l)) Hk) as [I1 I2]; [lia|].
    split.
    + cbn [concat]. rewrite I1. apply takeN_dropN.
    + constructor; [|exact I2]. unfold nonempty. cbn [takeN].
      destruct (k =? 0) eqn:E; [apply N.eqb_eq in E; lia|discriminate].
Qed.

Lemma chop_ok k l : concat (chop k l) = l /\ Forall nonempty (chop k l).
Proof. unfold chop. apply chop_aux_ok; lia. Qed.

Lemma view_len_whole n ps : lenN (concat ps) = n -> client_view (CLen n) true ps = (concat ps, true, []).
Proof.
  intros H. unfold client_view, client_stream, ref_read. cbn [negb].
  rewrite takeN_all, dropN_all by lia. f_equal. f_equal. apply N.leb_le. lia.
Qed.

Lemma view_len_short n ps : lenN (concat ps) < n -> client_view (CLen n) false ps = (concat ps, false, []).
Proof.
  intros H. unfold client_view, client_stream, ref_read. cbn [negb].
  rewrite takeN_all, dropN_all by lia. f_equal. f_equal. apply N.leb_gt. lia.
Qed.

Lemma view_chunked_whole ps : Forall nonempty ps -> client_view CChunked true ps = (concat ps, true, []).
Proof.
  intros H. unfold client_view, client_stream, ref_read. rewrite pack_chunk_nil, last_chunk_enc.
  assert (R := chunked_roundtrip true [] ps [] [] eq_refl H eq_refl).
  unfold enc_chunked in R. rewrite app_nil_r in R. unfold pack_chunk. rewrite R. reflexivity.
Qed.

Lemma view_chunked_short ps : Forall nonempty ps -> client_view CChunked false ps = (concat ps, false, []).
Proof.
  intros H. unfold client_view, client_stream, ref_read. rewrite app_nil_r.
  unfold pack_chunk. rewrite (chunks_without_last true [] ps eq_refl H). reflexivity.
Qed.

Lemma view_close w ps : client_view CCloseDelim w ps = (concat ps, true, []).
Proof. reflexivity. Qed.

(* ====================================================================================================== *)
(* 5. the whole relay                                                                                      *)
(* ====================================================================================================== *)
Lemma expecting_facts h : expecting_body h = true ->
  h_head h = false /\ body_size h = eff_clen h.
Proof.
  unfold expecting_body, body_size. intros H.
  destruct (h_head h); [discriminate|]. split; [reflexivity|].
  destruct (h_status h =? sc_no_content); [discriminate|].
  destruct (h_status h =? sc_not_modified); [discriminate|].
  destruct (h_status h <? sc_okay); [discriminate|].
  destruct (h_status h =? sc_okay); reflexivity.
Qed.

Lemma srv_run_from f evs : srv_run f evs = srv_from f srv_init evs.
Proof. reflexivity. Qed.

Theorem relay_exact_len h c11 n body extra segs tail ps :
  h_chunked h = false -> expecting_body h = true -> h_clen h = Some n ->
  lenN body = n -> segs <> [] -> concat segs = body ++ extra ->
  let s := srv_run (origin_framing h) (map OSeg segs ++ tail) in
  concat ps = sv_body s -> Forall nonempty ps ->
  sv_body s = body /\ sv_whole s = true /\
  client_view (client_framing h c11) (sv_whole s) ps = (body, true, []).
Proof.
  intros Hc He Hl Hb Hs Hcat s Hps Hne.
  destruct (expecting_facts h He) as [Hh Hbs].
  assert (Hf : origin_framing h = OLen n).
  { unfold origin_framing, eff_clen. now rewrite Hc, He, Hl. }
  assert (Hcf : client_framing h c11 = CLen n).
  { unfold client_framing. rewrite Hh, Hbs. unfold eff_clen. now rewrite Hc, Hl, He. }
  subst s. rewrite Hf, Hcf in *. rewrite srv_run_from in *.
  destruct (srv_len_enough n segs srv_init tail eq_refl) as [I1 [I2 I3]];
    [cbn [sv_seen srv_init]; lia|exact Hs|cbn [sv_seen srv_init]; rewrite Hcat, lenN_app; lia|].
  cbn zeta in I1, I2, I3. cbn [sv_body sv_seen srv_init app] in I1. rewrite N.sub_0_r in I1.
  assert (Hk : takeN n (concat segs) = body).
  { rewrite Hcat, takeN_app, (takeN_all n body) by lia. replace (n - lenN body) with 0 by lia.
    now rewrite takeN_0, app_nil_r. }
  rewrite Hk in I1.
  rewrite I1 in *. rewrite I2. repeat split; try reflexivity.
  rewrite <- Hps. apply view_len_whole. now rewrite Hps.
Qed.

Theorem relay_exact_chunked h c11 u ext ds tr extra segs tail ps :
  h_chunked h = true -> expecting_body h = true ->
  ext_ok ext = true -> Forall nonempty ds -> forallb line_ok tr = true ->
  concat segs = enc_chunked u ext ds tr ++ extra ->
  let s := srv_run (origin_framing h) (map OSeg segs ++ tail) in
  concat ps = sv_body s -> Forall nonempty ps ->
  sv_body s = concat ds /\ sv_whole s = true /\
  client_view (client_framing h c11) (sv_whole s) ps = (concat ds, true, []).
Proof.
  intros Hc He Hx Hd Ht Hcat s Hps Hne.
  destruct (expecting_facts h He) as [Hh Hbs].
  assert (Hf : origin_framing h = OChunked) by (unfold origin_framing; now rewrite Hc).
  assert (Hcf : client_framing h c11 = if c11 then CChunked else CCloseDelim).
  { unfold client_framing. rewrite Hh, Hbs. unfold eff_clen. now rewrite Hc. }
  subst s. rewrite Hf, Hcf in *. rewrite srv_run_from in *.
  assert (R := chunked_roundtrip u ext ds tr extra Hx Hd Ht). rewrite <- Hcat in R.
  destruct (srv_chunked_enough segs srv_init tail (concat ds) extra eq_refl eq_refl R) as [I1 [I2 I3]].
  cbn zeta in I1, I2, I3. cbn [sv_body srv_init app] in I2. rewrite I2 in *. rewrite I3.
  repeat split; try reflexivity. rewrite <- Hps.
  destruct c11; [now apply view_chunked_whole|apply view_close].
Qed.

Theorem relay_exact_close h c11 segs tail ps :
  h_chunked h = false -> expecting_body h = true -> h_clen h = None ->
  let s := srv_run (origin_framing h) (map OSeg segs ++ OEof :: tail) in
  concat ps = sv_body s -> Forall nonempty ps ->
  sv_body s = concat segs /\ sv_whole s = true /\
  client_view (client_framing h c11) (sv_whole s) ps = (concat segs, true, []).
Proof.
  intros Hc He Hl s Hps Hne.
  destruct (expecting_facts h He) as [Hh Hbs].
  assert (Hf : origin_framing h = OClose).
  { unfold origin_framing, eff_clen. now rewrite Hc, He, Hl. }
  assert (Hcf : client_framing h c11 = if c11 then CChunked else CCloseDelim).
  { unfold client_framing. rewrite Hh, Hbs. unfold eff_clen. now rewrite Hc, Hl. }
  subst s. rewrite Hf, Hcf in *. rewrite srv_run_from in *.
  destruct (srv_close_segs segs srv_init tail eq_refl) as [I1 [I2 I3]].
  cbn zeta in I1, I2, I3. cbn [sv_body srv_init app] in I1. rewrite I1 in *. rewrite I2.
  repeat split; try reflexivity. rewrite <- Hps.
  destruct c11; [now apply view_chunked_whole|apply view_close].
Qed.

(* the origin closes before Content-Length bytes arrived *)
Theorem truncation_visible_len h c11 n segs tail ps :
  h_chunked h = false -> expecting_body h = true -> h_clen h = Some n ->
  lenN (concat segs) < n ->
  let s := srv_run (origin_framing h) (map OSeg segs ++ OEof :: tail) in
  concat ps = sv_body s -> Forall nonempty ps ->
  sv_body s = concat segs /\ sv_whole s = false /\
  client_view (client_framing h c11) (sv_whole s) ps = (concat segs, false, []).
Proof.
  intros Hc He Hl Hlt s Hps Hne.
  destruct (expecting_facts h He) as [Hh Hbs].
  assert (Hf : origin_framing h = OLen n).
  { unfold origin_framing, eff_clen. now rewrite Hc, He, Hl. }
  assert (Hcf : client_framing h c11 = CLen n).
  { unfold client_framing. rewrite Hh, Hbs. unfold eff_clen. now rewrite Hc, Hl, He. }
  subst s. rewrite Hf, Hcf in *. rewrite srv_run_from in *.
  destruct (srv_len_segs n segs srv_init tail eq_refl) as [I1 [I2 I3]]; [cbn [sv_seen srv_init]; lia|].
  cbn zeta in I1, I2, I3. cbn [sv_body sv_seen srv_init app] in I1, I2. rewrite N.sub_0_r in I1, I2.
  rewrite takeN_all in I1 by lia.
  assert (Hw : (n <=? lenN (concat segs)) = false) by (apply N.leb_gt; lia).
  rewrite Hw in I2. rewrite I1 in *. rewrite I2. repeat split; try reflexivity.
  rewrite <- Hps. apply view_len_short. now rewrite Hps.
Qed.

(* the origin closes inside a chunked body: an HTTP/1.1 client gets chunks without last-chunk *)
Theorem truncation_visible_chunked11 h u ext ds tr pre post segs tail ps :
  h_chunked h = true -> expecting_body h = true ->
  ext_ok ext = true -> Forall nonempty ds -> forallb line_ok tr = true ->
  enc_chunked u ext ds tr = pre ++ post -> post <> [] -> concat segs = pre ->
  let s := srv_run (origin_framing h) (map OSeg segs ++ OEof :: tail) in
  concat ps = sv_body s -> Forall nonempty ps ->
  sv_whole s = false /\ (exists rest, concat ds = sv_body s ++ rest) /\
  client_view (client_framing h true) (sv_whole s) ps = (sv_body s, false, []).
Proof.
  intros Hc He Hx Hd Ht Henc Hpost Hcat s Hps Hne.
  destruct (expecting_facts h He) as [Hh Hbs].
  assert (Hf : origin_framing h = OChunked) by (unfold origin_framing; now rewrite Hc).
  assert (Hcf : client_framing h true = CChunked).
  { unfold client_framing. rewrite Hh, Hbs. unfold eff_clen. now rewrite Hc. }
  subst s. rewrite Hf, Hcf in *. rewrite srv_run_from in *.
  assert (R := chunked_roundtrip u ext ds tr [] Hx Hd Ht). rewrite app_nil_r, Henc in R.
  destruct (crun_strict_prefix CSize0 pre post (concat ds) R Hpost) as [s1 [o1 [o2 [E1 [F1 Ho]]]]].
  rewrite <- Hcat in E1.
  destruct (srv_chunked_segs segs srv_init tail s1 o1 [] eq_refl eq_refl E1) as [I1 I2].
  cbn zeta in I1, I2. cbn [sv_body srv_init app] in I2.
  assert (I : sv_body (srv_from OChunked srv_init (map OSeg segs ++ OEof :: tail)) = o1 /\
              sv_whole (srv_from OChunked srv_init (map OSeg segs ++ OEof :: tail)) = false).
  { destruct s1; try discriminate; exact I2. }
  destruct I as [Ib Iw]. rewrite Ib in *. rewrite Iw.
  split; [reflexivity|]. split; [now exists o2|]. rewrite <- Hps. now apply view_chunked_short.
Qed.

(* malformed chunk framing from the origin never produces a complete message for an HTTP/1.1 client *)
Theorem malformed_chunked_incomplete h segs tail out rest ps :
  h_chunked h = true -> expecting_body h = true ->
  crun CSize0 (concat segs) = (CErr, out, rest) ->
  let s := srv_run (origin_framing h) (map OSeg segs ++ OEof :: tail) in
  concat ps = sv_body s -> Forall nonempty ps ->
  sv_whole s = false /\ snd (fst (client_view (client_framing h true) (sv_whole s) ps)) = false.
Proof.
  intros Hc He E1 s Hps Hne.
  destruct (expecting_facts h He) as [Hh Hbs].
  assert (Hf : origin_framing h = OChunked) by (unfold origin_framing; now rewrite Hc).
  assert (Hcf : client_framing h true = CChunked).
  { unfold client_framing. rewrite Hh, Hbs. unfold eff_clen. now rewrite Hc. }
  subst s. rewrite Hf, Hcf in *. rewrite srv_run_from in *.
  destruct (srv_chunked_segs segs srv_init tail CErr out rest eq_refl eq_refl E1) as [I1 [I2 _]].
  cbn zeta in I1, I2. rewrite I2. split; [reflexivity|].
  rewrite (view_chunked_short ps Hne). reflexivity.
Qed.

(* relay with the store-delivery partition of the running proxy *)
Corollary relay_chop_partition k body : concat (chop k body) = body /\ Forall nonempty (chop k body).
Proof. apply chop_ok. Qed.

(* bodiless replies and HEAD *)
Theorem head_reply_no_body h c11 evs k :
  h_head h = true -> relay h c11 evs k = (CHeadOnly, ([], false)).
Proof. intros H. unfold relay, client_framing. now rewrite H. Qed.

Lemma srv_nobody_body_empty evs : forall s, sv_body s = [] -> sv_body (srv_from ONoBody s evs) = [].
Proof.
  induction evs as [|e evs IH]; intros s H; [exact H|].
  rewrite srv_from_cons. apply IH. unfold srv_step. destruct (sv_done s); [exact H|]. destruct e; exact H.
Qed.

(* 204 / 304 / 1xx-class status: nothing follows the head, whatever the origin sends and however it is segmented *)
Theorem bodiless_reply_clean h c11 evs k :
  h_head h = false -> h_chunked h = false -> expecting_body h = false ->
  relay h c11 evs k = (CNoBody, ([], false)).
Proof.
  intros Hh Hc He. unfold relay.
  assert (Hf : origin_framing h = ONoBody) by (unfold origin_framing; now rewrite Hc, He).
  assert (Hcf : client_framing h c11 = CNoBody).
  { unfold client_framing. rewrite Hh, He. unfold body_size. rewrite Hh.
    unfold expecting_body in He. rewrite Hh in He.
    destruct (h_status h =? sc_okay) eqn:E.
    - apply N.eqb_eq in E. rewrite E in He. vm_compute in He. discriminate.
    - destruct (h_status h =? sc_no_content); [reflexivity|].
      destruct (h_status h =? sc_not_modified); [reflexivity|].
      destruct (h_status h <? sc_okay); [reflexivity|discriminate]. }
  rewrite Hf, Hcf. rewrite srv_run_from, (srv_nobody_body_empty evs srv_init eq_refl). reflexivity.
Qed.

(* ---------- refutations (witnesses are replayed against the running proxy: corpus/C01/known.jsonl) ---------- *)
Definition w_head (st : N) (chunked : bool) : rhead :=
  {| h_status := st; h_head := false; h_clen := None; h_chunked := chunked |}.
(* "3\r\nabc\r\n4\r\ndefg\r\n0\r\n\r\n" cut after "3\r\nabc\r\n4\r\nde" *)
Definition w_pre : bytes := [51;13;10;97;98;99;13;10;52;13;10;100;101].
Definition w_post : bytes := [102;103;13;10;48;13;10;13;10].
Definition w_ds : list bytes := [[97;98;99];[100;101;102;103]].

Theorem truncation_http10_refuted :
  enc_chunked false [] w_ds [] = w_pre ++ w_post /\ w_post <> [] /\
  let '(cf, (stream, closed)) := relay (w_head 200 true) false [OSeg w_pre; OEof] 4096 in
  ref_read cf stream closed = ([97;98;99;100;101], true, []) /\ [97;98;99;100;101] <> concat w_ds.
Proof. vm_compute. repeat split; discriminate. Qed.


(* ====================================================================================================== *)
(* 6. request direction                                                                                    *)
(* ====================================================================================================== *)
Definition produced (q : rq) : bytes := concat (q_pieces q) ++ q_buf q.

(* bytes the client connection has delivered so far *)
Definition fed_of (evs : list qev) : bytes :=
  concat (map (fun e => match e with QSeg b => b | _ => [] end) evs).

Definition rq_from (cap : N) (up : upmode) (q : rq) (evs : list qev) : rq := fold_left (rq_step cap up) evs q.

(* ---- A. counters, FIFO bookkeeping, notification flags ---- *)
Record invA (q : rq) : Prop := {
  a_get : lenN (concat (q_pieces q)) = q_get q;
  a_put : q_get q + lenN (q_buf q) = q_put q;
  a_ne : Forall nonempty (q_pieces q);
  a_whole : q_whole q = true -> q_prod q = false /\ q_size q = Some (q_put q);
  a_abort : q_abort q = true -> q_prod q = false /\ q_size q <> Some (q_put q);
  a_last : q_last q = true -> q_whole q = true /\ q_buf q = [] }.

Lemma invA_init clen : invA (rq_init clen).
Proof. constructor; cbn; try discriminate; auto. Qed.

Lemma concat_snoc (l : list bytes) (x : bytes) : concat (l ++ [x]) = concat l ++ x.
Proof. rewrite concat_app. cbn. now rewrite app_nil_r. Qed.

Lemma intake_prod_false cap q : q_prod q = false -> intake cap q = q.
Proof. intros H. unfold intake. now rewrite H. Qed.

Lemma intake_invA cap q : invA q -> invA (intake cap q).
Proof.
  intros I. destruct (q_prod q) eqn:P; [|now rewrite intake_prod_false].
  assert (W : q_whole q = false) by (destruct (q_whole q) eqn:W; [destruct (a_whole q I W); congruence|reflexivity]).
  assert (Ab : q_abort q = false) by (destruct (q_abort q) eqn:Ab; [destruct (a_abort q I Ab); congruence|reflexivity]).
  assert (L : q_last q = false) by (destruct (q_last q) eqn:L; [destruct (a_last q I L); congruence|reflexivity]).
  unfold intake. rewrite P. cbn [negb].
  destruct (q_chunked_in q).
  - destruct (q_inbuf q) as [|c r] eqn:Ein; [exact I|]. rewrite <- Ein.
    destruct (crun_cap (pipe_space cap (q_buf q)) (q_dec q) (q_inbuf q)) as [[d out] rest].
    destruct (cst_err d).
    + constructor; cbn; try (rewrite ?W, ?Ab, ?L; discriminate); try apply I.
    + constructor; cbn; try (rewrite ?W, ?Ab, ?L; discriminate); try apply I.
      rewrite lenN_app. destruct I as [_ Hp _ _ _ _]. lia.
  - constructor; cbn; try (rewrite ?W, ?Ab, ?L; discriminate); try apply I.
    rewrite lenN_app, lenN_takeN. destruct I as [_ Hp _ _ _ _].
    set (sz := N.min (N.min (lenN (q_inbuf q)) match q_size q with Some n => n - q_put q | None => 0 end)
                     (pipe_space cap (q_buf q))). lia.
Qed.

Lemma step_invA cap up q e : invA q -> invA (rq_step cap up q e).
Proof.
  intros I. destruct e; cbn [rq_step].
  - apply intake_invA. destruct I; constructor; cbn; auto.
  - now apply intake_invA.
  - destruct (q_prod q) eqn:P; [|exact I].
    assert (W : q_whole q = false) by (destruct (q_whole q) eqn:W; [destruct (a_whole q I W); congruence|reflexivity]).
    assert (Ab : q_abort q = false) by (destruct (q_abort q) eqn:Ab; [destruct (a_abort q I Ab); congruence|reflexivity]).
    assert (L : q_last q = false) by (destruct (q_last q) eqn:L; [destruct (a_last q I L); congruence|reflexivity]).
    constructor; cbn; try (rewrite ?W, ?Ab, ?L; discriminate); try apply I.
  - destruct (q_prod q) eqn:P; [exact I|].
    constructor; cbn; try apply I.
    + intros H. split; [reflexivity|]. apply orb_prop in H. destruct H as [H|H]; [now apply (a_whole q I)|].
      destruct (q_size q) as [n|]; [|discriminate]. apply N.eqb_eq in H. now subst.
    + intros H. split; [reflexivity|]. apply orb_prop in H. destruct H as [H|H]; [now apply (a_abort q I)|].
      destruct (q_size q) as [n|]; [|discriminate]. intros E. inversion E; subst. rewrite N.eqb_refl in H. discriminate.
    + intros H. destruct (a_last q I H) as [H1 H2]. now rewrite H1.
  - destruct (q_abort q) eqn:Ab; [exact I|].
    destruct (q_buf q) as [|c r] eqn:B.
    + destruct up; [exact I|]. destruct (q_whole q && negb (q_last q)) eqn:E; [|exact I].
      apply andb_prop in E. destruct E as [W _].
      constructor; cbn; try apply I; try discriminate; try (rewrite Ab; discriminate).
      * destruct I as [_ Hp _ _ _ _]. now rewrite B in Hp.
      * auto.
    + constructor; cbn [q_pieces q_get q_buf q_put q_whole q_prod q_size q_abort q_last].
      * rewrite concat_snoc, lenN_app. destruct I as [Hg _ _ _ _ _]. now rewrite Hg.
      * destruct I as [_ Hp _ _ _ _]. rewrite B in Hp. cbn [lenN] in *. lia.
      * apply Forall_app. split; [apply I|]. constructor; [discriminate|constructor].
      * apply I.
      * discriminate.
      * intros H. split; [|reflexivity]. destruct up; [now apply (a_last q I)|].
        apply orb_prop in H. destruct H as [H|H]; [now apply (a_last q I)|exact H].
Qed.

Lemma run_invA cap up evs : forall q, invA q -> invA (rq_from cap up q evs).
Proof.
  induction evs as [|e evs IH]; intros q I; [exact I|].
  unfold rq_from in *. cbn [fold_left]. apply IH. now apply step_invA.
Qed.

(* FIFO: at every moment of every schedule, what the server side took out of the pipe followed by what is still
   buffered is exactly what was put in, and the counters are the lengths *)
Theorem bodypipe_fifo cap up clen evs :
  let q := rq_run cap up clen evs in
  lenN (concat (q_pieces q)) = q_get q /\ lenN (produced q) = q_put q /\ q_get q <= q_put q /\
  Forall nonempty (q_pieces q).
Proof.
  intros q. assert (I : invA q) by (apply run_invA, invA_init).
  destruct I as [Hg Hp Hn _ _ _]. unfold produced. rewrite lenN_app, Hg. repeat split; auto; lia.
Qed.

(* the upstream byte stream is validly framed at every moment *)
Theorem upstream_framing_valid cap up clen evs :
  let q := rq_run cap up clen evs in
  match up with
  | UpChunked => crun CSize0 (up_stream UpChunked q) = (if q_last q then CDone else CSize0, concat (q_pieces q), [])
  | UpLen n => up_stream (UpLen n) q = concat (q_pieces q)
  end.
Proof.
  intros q. assert (I : invA q) by (apply run_invA, invA_init).
  destruct up; [reflexivity|]. unfold up_stream, up_chunk. destruct (q_last q).
  - rewrite last_chunk_enc.
    assert (R := chunked_roundtrip false [] (q_pieces q) [] [] eq_refl (a_ne q I) eq_refl).
    unfold enc_chunked in R. now rewrite app_nil_r in R.
  - rewrite app_nil_r. apply chunks_without_last; [reflexivity|apply I].
Qed.

(* last-chunk goes out only after the end notification, with nothing left in the pipe *)
Theorem last_chunk_only_when_whole cap up clen evs :
  let q := rq_run cap up clen evs in
  q_last q = true -> q_whole q = true /\ q_buf q = [] /\ q_prod q = false /\ q_size q = Some (q_put q) /\
                     lenN (concat (q_pieces q)) = q_put q.
Proof.
  intros q H. assert (I : invA q) by (apply run_invA, invA_init).
  destruct (a_last q I H) as [W B]. destruct (a_whole q I W) as [P S].
  repeat split; auto. destruct I as [Hg Hp _ _ _ _]. rewrite B in Hp. cbn [lenN] in Hp. lia.
Qed.

(* ---- B. what was produced is a prefix of the client's body as the reference reader decodes it ---- *)
Lemma crun_cap_split : forall l cap s s' out rest,
  crun_cap cap s l = (s', out, rest) -> exists used, l = used ++ rest /\ crun s used = (s', out, []).
Proof.
  induction l as [|c r IH]; intros cap s s' out rest H.
  - cbn [crun_cap] in H. inversion H; subst. exists []. auto.
  - cbn [crun_cap] in H. destruct (cst_final s) eqn:F.
    + inversion H; subst. exists []. auto.
    + assert (G : forall cap', (let '(s1, o1) := cstep s c in
                                let '(s2, o2, rest0) := crun_cap cap' s1 r in (s2, o1 ++ o2, rest0)) = (s', out, rest) ->
                  exists used, c :: r = used ++ rest /\ crun s used = (s', out, [])).
      { intros cap' H'. destruct (cstep s c) as [s1 o1] eqn:Es.
        destruct (crun_cap cap' s1 r) as [[s2 o2] rest0] eqn:Ec. inversion H'; subst.
        destruct (IH _ _ _ _ _ Ec) as [used [Hu Hr]]. exists (c :: used). split; [cbn; now rewrite <- Hu|].
        rewrite crun_cons by exact F. rewrite Es, Hr. reflexivity. }
      destruct s; try (now apply (G cap)); try discriminate.
      destruct (cap =? 0); [inversion H; subst; exists []; auto|now apply (G (cap - 1))].
Qed.

Definition invB (clen : option N) (q : rq) (fed : bytes) : Prop :=
  match clen with
  | Some n =>
      q_chunked_in q = false /\ q_size q = Some n /\ q_put q <= n /\
      exists rest, fed = produced q ++ rest /\ (q_prod q = true -> rest = q_inbuf q /\ q_put q < n)
  | None =>
      q_chunked_in q = true /\
      exists consumed rest dd, fed = consumed ++ rest /\ crun CSize0 consumed = (dd, produced q, []) /\
        (q_prod q = true -> rest = q_inbuf q /\ dd = q_dec q /\ cst_final dd = false /\ q_size q = None) /\
        (q_prod q = false -> (q_size q = Some (q_put q) /\ dd = CDone) \/ q_size q = None)
  end.

Lemma invB_init clen : match clen with Some n => 1 <= n | None => True end -> invB clen (rq_init clen) [].
Proof.
  destruct clen as [n|]; intros H; cbn.
  - split; [reflexivity|]. split; [reflexivity|]. split; [lia|]. exists []. split; [reflexivity|].
    intros _. split; [reflexivity|lia].
  - split; [reflexivity|]. exists [], [], CSize0. split; [reflexivity|]. split; [reflexivity|].
    split; [auto|discriminate].
Qed.

Lemma intake_invB cap clen q fed : invA q -> invB clen q fed -> invB clen (intake cap q) fed.
Proof.
  intros IA IB. destruct (q_prod q) eqn:P; [|now rewrite intake_prod_false].
  unfold intake. rewrite P. cbn [negb]. destruct clen as [n|]; cbn [invB] in *.
  - destruct IB as [Hm [Hs [Hle [rest [Hf Hp]]]]]. rewrite Hm. destruct (Hp P) as [Hr Hlt]. subst rest.
    rewrite Hs. set (sz := N.min (N.min (lenN (q_inbuf q)) (n - q_put q)) (pipe_space cap (q_buf q))).
    cbn [q_chunked_in q_size q_put q_prod q_inbuf]. repeat split; try lia.
    exists (dropN sz (q_inbuf q)). split.
    + unfold produced. cbn [q_pieces q_buf]. rewrite Hf. unfold produced.
      rewrite <- !app_assoc. now rewrite takeN_dropN.
    + intros Hprod. split; [reflexivity|]. destruct (sz =? 0) eqn:E.
      * apply N.eqb_eq in E. lia.
      * apply N.ltb_lt in Hprod. exact Hprod.
  - destruct IB as [Hm [consumed [rest [dd [Hf [Hc [Hp Hnp]]]]]]]. rewrite Hm.
    destruct (Hp P) as [Hr [Hd [Hfin Hsz]]]. subst rest dd.
    destruct (q_inbuf q) as [|c r] eqn:Ein.
    + split; [exact Hm|]. exists consumed, [], (q_dec q). rewrite Ein in *. repeat split; auto.
    + rewrite <- Ein in *.
      destruct (crun_cap (pipe_space cap (q_buf q)) (q_dec q) (q_inbuf q)) as [[d out] rest'] eqn:Ecap.
      destruct (crun_cap_split _ _ _ _ _ _ Ecap) as [used [Hu Hrun]].
      destruct (cst_err d) eqn:Eerr.
      * cbn [invB q_chunked_in]. split; [reflexivity|]. exists consumed, (q_inbuf q), (q_dec q).
        unfold produced. cbn [q_pieces q_buf q_prod q_size q_put]. repeat split; auto; try discriminate.
      * cbn [q_chunked_in]. split; [reflexivity|]. exists (consumed ++ used), rest', d.
        unfold produced. cbn [q_pieces q_buf q_prod q_size q_put q_inbuf q_dec]. split; [|split; [|split]].
        -- rewrite Hf, Hu. now rewrite app_assoc.
        -- rewrite crun_app, Hc. cbn [app]. rewrite Hrun. unfold produced. now rewrite app_assoc.
        -- intros Hprod. apply negb_true_iff in Hprod. rewrite Hprod. repeat split; auto.
           destruct d; try discriminate; reflexivity.
        -- intros Hprod. apply negb_false_iff in Hprod. rewrite Hprod. left. split; [reflexivity|].
           destruct d; try discriminate; reflexivity.
Qed.

Definition ev_bytes (e : qev) : bytes := match e with QSeg b => b | _ => [] end.

Lemma step_invB cap up clen q fed e :
  invA q -> invB clen q fed -> invB clen (rq_step cap up q e) (fed ++ ev_bytes e).
Proof.
  intros IA IB. destruct e; cbn [rq_step ev_bytes]; rewrite ?app_nil_r.
  - (* QSeg *)
    apply intake_invB.
    + destruct IA; constructor; cbn; auto.
    + destruct clen as [n|]; cbn [invB] in *.
      * destruct IB as [Hm [Hs [Hle [rest [Hf Hp]]]]]. cbn [q_chunked_in q_size q_put q_prod q_inbuf].
        repeat split; auto. exists (rest ++ b). split; [unfold produced in *; cbn [q_pieces q_buf]; rewrite Hf; now rewrite app_assoc|].
        intros Hprod. destruct (Hp Hprod) as [Hr Hlt]. now subst.
      * destruct IB as [Hm [consumed [rest [dd [Hf [Hc [Hp Hnp]]]]]]]. cbn [q_chunked_in]. split; [exact Hm|].
        exists consumed, (rest ++ b), dd. unfold produced in *. cbn [q_pieces q_buf q_prod q_inbuf q_dec q_size q_put].
        split; [rewrite Hf; now rewrite app_assoc|]. split; [exact Hc|]. split; [|exact Hnp].
        intros Hprod. destruct (Hp Hprod) as [Hr [Hd [Hfin Hsz]]]. subst. auto.
  - now apply intake_invB.
  - (* QAbort *)
    destruct (q_prod q) eqn:P; [|exact IB]. destruct clen as [n|]; cbn [invB] in *.
    + destruct IB as [Hm [Hs [Hle [rest [Hf Hp]]]]]. cbn [q_chunked_in q_size q_put q_prod]. repeat split; auto.
      exists rest. split; [exact Hf|discriminate].
    + destruct IB as [Hm [consumed [rest [dd [Hf [Hc [Hp Hnp]]]]]]]. cbn [q_chunked_in]. split; [exact Hm|].
      exists consumed, rest, dd. unfold produced in *. cbn [q_pieces q_buf q_prod q_size q_put].
      repeat split; auto; try discriminate. intros _. right. now destruct (Hp P) as [_ [_ [_ Hsz]]].
  - (* QNote *)
    destruct (q_prod q) eqn:P; [exact IB|]. destruct clen as [n|]; cbn [invB] in *.
    + destruct IB as [Hm [Hs [Hle [rest [Hf Hp]]]]]. cbn [q_chunked_in q_size q_put q_prod]. repeat split; auto.
      exists rest. split; [exact Hf|discriminate].
    + destruct IB as [Hm [consumed [rest [dd [Hf [Hc [Hp Hnp]]]]]]]. cbn [q_chunked_in]. split; [exact Hm|].
      exists consumed, rest, dd. unfold produced in *. cbn [q_pieces q_buf q_prod q_size q_put].
      repeat split; auto; try discriminate; try (intros _; rewrite P in Hnp; now apply Hnp).
  - (* QGet *)
    destruct (q_abort q); [exact IB|]. destruct (q_buf q) as [|c r] eqn:B.
    + destruct up; [exact IB|]. destruct (q_whole q && negb (q_last q)); [|exact IB].
      destruct clen as [n|]; cbn [invB] in *; unfold produced in *; cbn [q_pieces q_buf q_chunked_in q_size q_put q_prod q_inbuf q_dec];
        rewrite B in IB; exact IB.
    + assert (Hprod : concat (q_pieces q ++ [c :: r]) ++ [] = concat (q_pieces q) ++ c :: r)
        by (now rewrite concat_snoc, app_nil_r).
      destruct clen as [n|]; cbn [invB] in *; unfold produced in *;
        cbn [q_pieces q_buf q_chunked_in q_size q_put q_prod q_inbuf q_dec]; rewrite B in IB; rewrite Hprod; exact IB.
Qed.

Lemma fed_of_cons e evs : fed_of (e :: evs) = ev_bytes e ++ fed_of evs.
Proof. reflexivity. Qed.

Lemma run_invB cap up clen evs : forall q fed,
  invA q -> invB clen q fed -> invB clen (rq_from cap up q evs) (fed ++ fed_of evs).
Proof.
  induction evs as [|e evs IH]; intros q fed IA IB.
  - cbn. now rewrite app_nil_r.
  - unfold rq_from in *. cbn [fold_left]. rewrite fed_of_cons, app_assoc.
    apply IH; [now apply step_invA|now apply step_invB].
Qed.

Definition clen_ok (clen : option N) : Prop := match clen with Some n => 1 <= n | None => True end.

Lemma run_inv cap up clen evs : clen_ok clen ->
  invA (rq_run cap up clen evs) /\ invB clen (rq_run cap up clen evs) (fed_of evs).
Proof.
  intros H. split; [apply run_invA, invA_init|].
  change (fed_of evs) with ([] ++ fed_of evs). apply run_invB; [apply invA_init|now apply invB_init].
Qed.

(* Content-Length client body: produced bytes are a prefix of the first n bytes the client sent; whole => all n *)
Theorem produced_prefix_len cap up n evs : 1 <= n ->
  let q := rq_run cap up (Some n) evs in
  (exists rest, takeN n (fed_of evs) = produced q ++ rest) /\
  (q_whole q = true -> produced q = takeN n (fed_of evs) /\ n <= lenN (fed_of evs)).
Proof.
  intros Hn q. destruct (run_inv cap up (Some n) evs Hn) as [IA IB]. fold q in IA, IB.
  cbn [invB] in IB. destruct IB as [Hm [Hs [Hle [rest [Hf Hp]]]]].
  assert (Hl : lenN (produced q) = q_put q).
  { unfold produced. rewrite lenN_app. destruct IA as [Hg Hpt _ _ _ _]. lia. }
  split.
  - exists (takeN (n - q_put q) rest). rewrite Hf, takeN_app, takeN_all by lia. now rewrite Hl.
  - intros W. destruct (a_whole q IA W) as [_ Hsz]. rewrite Hs in Hsz. inversion Hsz as [Hn'].
    rewrite Hf, takeN_app, takeN_all by lia. rewrite Hl, <- Hn', N.sub_diag, takeN_0, app_nil_r.
    split; [reflexivity|]. rewrite lenN_app. lia.
Qed.

(* chunked client body: produced bytes are a prefix of what the reference reader decodes from the client's bytes;
   whole => the reference reader finds the message complete with exactly that body *)
Theorem produced_prefix_chunked cap up evs :
  let q := rq_run cap up None evs in
  (exists d o2 r, crun CSize0 (fed_of evs) = (d, produced q ++ o2, r)) /\
  (q_whole q = true -> exists r, crun CSize0 (fed_of evs) = (CDone, produced q, r)).
Proof.
  intros q. destruct (run_inv cap up None evs I) as [IA IB]. fold q in IA, IB.
  cbn [invB] in IB. destruct IB as [Hm [consumed [rest [dd [Hf [Hc [Hp Hnp]]]]]]].
  split.
  - rewrite Hf, crun_app, Hc. cbn [app]. destruct (crun dd rest) as [[s2 o2] r2]. now exists s2, o2, r2.
  - intros W. destruct (a_whole q IA W) as [Hprod Hsz]. destruct (Hnp Hprod) as [[_ Hd]|Hnone]; [|congruence].
    subst dd. rewrite Hf, crun_app, Hc. cbn [app]. rewrite crun_final by reflexivity. exists rest. now rewrite app_nil_r.
Qed.

(* upstream completeness is exactness. Chunked upstream: once last-chunk is out, the reference reader decodes the
   upstream stream, complete, to exactly the client's body *)
Theorem upstream_complete_exact_chunked cap evs clen : clen_ok clen ->
  let q := rq_run cap UpChunked clen evs in
  q_last q = true ->
  exists body, crun CSize0 (up_stream UpChunked q) = (CDone, body, []) /\
    match clen with
    | Some n => body = takeN n (fed_of evs) /\ n <= lenN (fed_of evs)
    | None => exists r, crun CSize0 (fed_of evs) = (CDone, body, r)
    end.
Proof.
  intros Hok q HL. assert (F := upstream_framing_valid cap UpChunked clen evs). cbn zeta in F. fold q in F.
  rewrite HL in F. exists (concat (q_pieces q)). split; [exact F|].
  destruct (last_chunk_only_when_whole cap UpChunked clen evs HL) as [W [B _]]. fold q in W, B.
  assert (Hpr : produced q = concat (q_pieces q)) by (unfold produced; rewrite B; apply app_nil_r).
  destruct clen as [n|].
  - destruct (produced_prefix_len cap UpChunked n evs Hok) as [_ H]. fold q in H. rewrite <- Hpr. now apply H.
  - destruct (produced_prefix_chunked cap UpChunked evs) as [_ H]. fold q in H. rewrite <- Hpr. now apply H.
Qed.

(* Content-Length upstream (Content-Length client): the stream is always a prefix of the client's first n bytes and
   reaches the declared length only as exactly those n bytes *)
Theorem upstream_len_exact cap n evs : 1 <= n ->
  let q := rq_run cap (UpLen n) (Some n) evs in
  (exists rest, takeN n (fed_of evs) = up_stream (UpLen n) q ++ rest) /\
  (lenN (up_stream (UpLen n) q) = n -> up_stream (UpLen n) q = takeN n (fed_of evs) /\ n <= lenN (fed_of evs)).
Proof.
  intros Hn q. destruct (produced_prefix_len cap (UpLen n) n evs Hn) as [[rest Hr] _]. fold q in Hr.
  unfold up_stream. unfold produced in Hr. split.
  - exists (q_buf q ++ rest). now rewrite Hr, app_assoc.
  - intros Hl. assert (Ht : lenN (takeN n (fed_of evs)) = N.min n (lenN (fed_of evs))) by apply lenN_takeN.
    rewrite Hr, !lenN_app in Ht.
    assert (Hb : q_buf q = []) by (apply lenN_nil_iff; lia).
    assert (Hrest : rest = []) by (apply lenN_nil_iff; lia).
    rewrite Hr, Hb, Hrest, !app_nil_r. split; [reflexivity|lia].
Qed.

(* a client body that never completes (abort, or malformed chunking) never completes upstream *)
Theorem upstream_abort_visible cap up clen evs : clen_ok clen ->
  match clen with
  | Some n => lenN (fed_of evs) < n
  | None => cst_done (fst (fst (crun CSize0 (fed_of evs)))) = false
  end ->
  let q := rq_run cap up clen evs in
  q_whole q = false /\ q_last q = false /\
  match up with UpLen m => clen = Some m -> lenN (up_stream up q) < m | UpChunked => True end.
Proof.
  intros Hok Hshort q.
  assert (W : q_whole q = false).
  { destruct (q_whole q) eqn:W; [|reflexivity]. destruct clen as [n|].
    - destruct (produced_prefix_len cap up n evs Hok) as [_ H]. fold q in H. destruct (H W). lia.
    - destruct (produced_prefix_chunked cap up evs) as [_ H]. fold q in H. destruct (H W) as [r Hr].
      rewrite Hr in Hshort. discriminate. }
  split; [exact W|].
  assert (IA : invA q) by (apply run_invA, invA_init).
  split.
  - destruct (q_last q) eqn:L; [|reflexivity]. destruct (a_last q IA L). congruence.
  - destruct up as [m|]; [|exact I]. intros ->.
    destruct (produced_prefix_len cap (UpLen m) m evs Hok) as [[rest Hr] _]. fold q in Hr.
    assert (Ht : lenN (takeN m (fed_of evs)) = N.min m (lenN (fed_of evs))) by apply lenN_takeN.
    unfold up_stream. unfold produced in Hr. rewrite Hr, !lenN_app in Ht. lia.
Qed.

(* once the client's body has been produced completely, end notification + two consumer turns flush everything *)
Theorem end_of_body_is_flushed cap up clen evs :
  let q := rq_run cap up clen evs in
  q_prod q = false -> q_size q = Some (q_put q) -> q_abort q = false ->
  let q' := rq_from cap up q [QNote; QGet; QGet] in
  q_buf q' = [] /\ concat (q_pieces q') = produced q /\ q_whole q' = true /\
  match up with UpChunked => q_last q' = true | UpLen _ => True end.
Proof.
  intros q P S Ab. assert (IA : invA q) by (apply run_invA, invA_init).
  assert (Hl : q_last q = true -> q_buf q = []) by (intros L; now destruct (a_last q IA L)).
  clearbody q. clear IA. destruct q as [ci inb dec buf put get size prod whole abort pieces last].
  cbn [q_prod q_size q_put q_abort q_last q_buf] in P, S, Ab, Hl. subst prod size abort.
  unfold rq_from, produced. cbn [fold_left rq_step q_prod q_size q_put q_abort q_buf q_whole q_last q_pieces
                                 q_chunked_in q_inbuf q_dec q_get negb].
  rewrite N.eqb_refl. cbn [negb orb]. rewrite !orb_true_r. cbn [orb].
  destruct buf as [|c r].
  - destruct up as [m|]; cbn [q_abort q_buf q_whole q_last q_pieces andb negb].
    + rewrite app_nil_r. auto.
    + destruct last; cbn [negb andb q_abort q_buf q_whole q_last q_pieces]; rewrite app_nil_r; auto.
  - assert (last = false) by (destruct last; [specialize (Hl eq_refl); discriminate|reflexivity]). subst last.
    destruct up as [m|]; cbn [q_abort q_buf q_whole q_last q_pieces andb negb orb];
      rewrite concat_snoc; auto.
Qed.
