"""C22: request-line acceptance matches the HTTP grammar."""
import random, re
from vlib import std, hbuild, coq, recipes, common
from checks import c21

PID = "C22"
META = {
    "text": "Theorems (Properties_C22.v, closed under the global context) about the model of RequestParser::parseRequestFirstLine "
            "and its field parsers (bidirectional parse: method and delimiters from the front; CRs, HTTP-version and delimiters from "
            "the back; target in the middle), for ALL lines: (1) strict mode, grammar => accept: every RFC 9112 request-line "
            "(1..32 tchar, SP, 1*URI characters within the URI limit, SP, HTTP/d.d with major >= 1, CR LF) is accepted and the "
            "extracted method, target and version are the grammar's fields; (2) strict mode, accept => grammar for every accepted "
            "line with version major >= 1 (_partial), with the same fields; (3) the full 'accept iff grammar' is REFUTED by a witness "
            "confirmed on the real parser: 'POST /xHTTP/0.9' CRLF is accepted in strict mode as POST /x HTTP/0.9 (no delimiter is "
            "required in front of an HTTP/0.x or multi-digit version token) - known finding C22-http0-version-token-without-delimiter, "
            "candidate repair in fixes/; (4) both modes: an accepted line with major >= 1 is method, 1*delimiter, target, 1*delimiter, "
            "HTTP/d.d, CRs where relaxed mode adds exactly the listed tolerances (delimiters SP/HT/VT/FF/CR in any number, any number "
            "of CRs before LF, the relaxed target set, case-insensitive known methods) and strict mode allows exactly one SP and one CR; "
            "(5) the delimiter/target sets regenerated from the code are what the tolerances say (all 256 byte values); (6) the request "
            "line is what precedes the first LF. Tie: CharSets_gen.v/ReqTabs_gen.v regenerated every run; extracted model diffed against "
            "the real parser on grammar-generated lines + single-byte mutations over the whole alphabet; an independent Python "
            "reference grammar is evaluated on every implementation answer.",
    "note": "partial: accept => grammar is proved for version major >= 1 only (HTTP/0.9 simple requests and the major-0 quirk are "
            "covered by the correspondence run and the reference-grammar oracle, not by a theorem); relaxed-mode completeness "
            "(every tolerated line is accepted) rests on correspondence. request-target is checked at the lexical level only "
            "(1*URI characters); target forms/authority belong to AnyP::Uri (C30). A parser success with version 0.x (x != 9) or a "
            "multi-digit version (reported as 0.0) is turned into 505 by the caller (Http::One::Server::buildHttpRequest). "
            "Trusted: Coq kernel, extraction, gen/gen_charsets.cc, gen/gen_reqparse.cc, harness/h_reqparse.cc.",
    "technique": "Coq proof (inversion of the tokenizer operations via the TokProofs soundness lemmas; forward computation on "
                 "grammar-shaped inputs via suffix/trailing-run lemmas; vm_compute sweep over the 256 regenerated table entries) + "
                 "extracted-model differential correspondence + independent reference-grammar oracle",
}

TCHAR = set(b"!#$%&'*+-.^_`|~0123456789ABCDEFGHIJKLMNOPQRSTUVWXYZabcdefghijklmnopqrstuvwxyz")
URI_STRICT = set(b":/?#[]@!$&'()*+,;=-._~%0123456789ABCDEFGHIJKLMNOPQRSTUVWXYZabcdefghijklmnopqrstuvwxyz")
DELIM_RELAXED = set(b" \t\x0b\x0c\r")
URI_RELAXED = URI_STRICT | DELIM_RELAXED | set(b"\"\\|^<>`{}") | set(range(128, 256))
# methods this Squid knows by name (RFC 9110, 2068, 3253, 4918, 5323, 9113 + PURGE); relaxed mode maps them case-insensitively
KNOWN = [b"GET", b"POST", b"PUT", b"HEAD", b"CONNECT", b"TRACE", b"OPTIONS", b"DELETE", b"LINK", b"UNLINK", b"CHECKOUT",
         b"CHECKIN", b"UNCHECKOUT", b"MKWORKSPACE", b"VERSION-CONTROL", b"REPORT", b"UPDATE", b"LABEL", b"MERGE",
         b"BASELINE-CONTROL", b"MKACTIVITY", b"PROPFIND", b"PROPPATCH", b"MKCOL", b"COPY", b"MOVE", b"LOCK", b"UNLOCK",
         b"SEARCH", b"PRI", b"PURGE", b"METHOD_OTHER"]
MAX_URI = 65536


def hx(b):
    return bytes(b).hex() if len(b) else "-"


# ------------------------------------------------------------------ reference grammar (independent of the model)
def split_strict(line):
    """RFC 9112 request-line (line = bytes before LF, must end in CR): (method, target, major, minor) or None"""
    if not line.endswith(b"\r"):
        return None
    parts = line[:-1].split(b" ")
    if len(parts) != 3:
        return None
    m, t, v = parts
    if not (1 <= len(m) <= 32 and set(m) <= TCHAR):
        return None
    if not (1 <= len(t) <= MAX_URI and set(t) <= URI_STRICT):
        return None
    if not re.fullmatch(rb"HTTP/[0-9]\.[0-9]", v):
        return None
    return m, t, v[5] - 48, v[7] - 48


def split_simple(line):
    """HTTP/0.9 simple request: "GET" SP target CR"""
    if not (line.endswith(b"\r") and line.startswith(b"GET ")):
        return None
    t = line[4:-1]
    if not (1 <= len(t) <= MAX_URI and set(t) <= URI_STRICT):
        return None
    if re.search(rb"HTTP/[0-9]+\.[0-9]+$", t):
        return None      # ends in an HTTP-version token: a (malformed) full request-line, not a simple request
    return t


VERSION_TOKEN_0 = re.compile(rb"HTTP/(0\.[0-9]|[0-9]{2,}\.[0-9]+|[0-9]+\.[0-9]{2,})$")


def split_relaxed(line):
    """tolerant form: method 1*D target 1*D HTTP/d.d *CR with D = SP/HT/VT/FF/CR; target = relaxed characters,
    not beginning or ending with a delimiter"""
    body = line.rstrip(b"\r")
    mo = re.search(rb"HTTP/([0-9])\.([0-9])$", body)
    if not mo:
        return None
    pre = body[:mo.start()]
    k = 0
    while k < len(pre) and k < 32 and pre[k] in TCHAR:
        k += 1
    m = pre[:k]
    rest = pre[k:]
    if not m or not rest or rest[0] not in DELIM_RELAXED:
        return None
    i = 0
    while i < len(rest) and rest[i] in DELIM_RELAXED:
        i += 1
    j = len(rest)
    while j > i and rest[j - 1] in DELIM_RELAXED:
        j -= 1
    t = rest[i:j]
    if not t or j == len(rest) or not (set(t) <= URI_RELAXED) or len(t) > MAX_URI:
        return None
    return m, t, int(mo.group(1)), int(mo.group(2))


def canon_method(m, relaxed):
    if relaxed:
        for k in KNOWN:
            if k.lower() == m.lower():
                return k
    return m


def oracle(case, out):
    if out.startswith(("CRASH", "EXC", "ERR")) or "BAD-" in out:
        return ("oracle:crash", "implementation crashed / threw / broke its own accounting: " + out[:200])
    a = case.split()
    if a[0] != "rp.one":
        return None
    relaxed = a[1] == "1"
    data = c21.unhx(a[3])
    try:
        o = c21.parse_obs(out)
    except Exception as ex:
        return ("oracle:unparsable", str(ex))
    # the request line: bytes before the first LF (after tolerated empty lines in relaxed mode)
    k = 0
    if relaxed:
        while k < len(data) and (data[k] == 10 or (data[k] == 13 and k + 1 < len(data) and data[k + 1] == 10)):
            k += 1
    j = data.find(b"\n", k)
    if j < 0:
        return None if o["kind"] != "A" else ("oracle:accept-without-line-end", "accepted although no LF terminates the request line")
    line = data[k:j]
    accepted_line = o["kind"] == "A" or (o["kind"] in ("M", "R") and o["stage"] in ("M",)) or (o["kind"] == "R" and o["code"] == "431")
    got = (c21.unhx(o["mimg"]), c21.unhx(o["uri"]), o["ver"])
    quirk = bool(VERSION_TOKEN_0.search(line.rstrip(b"\r")))
    if not relaxed:
        g = split_strict(line)
        if g and g[2] >= 1:
            exp = (g[0], g[1], "%d.%d" % (g[2], g[3]))
            if not accepted_line:
                return ("oracle:strict-rejects-grammar", "RFC 9112 request line rejected: " + out[:80])
            if got != exp:
                return ("oracle:strict-fields", "extracted %r, the grammar's fields are %r" % (got, exp))
            return None
        if g:            # version major 0: rejecting (or leaving to the caller's 505) is fine
            return None
        t = split_simple(line)
        if t is not None:
            if not accepted_line:
                return ("oracle:strict-rejects-simple-request", "HTTP/0.9 simple request rejected: " + out[:80])
            if got != (b"GET", t, "0.9"):
                return ("oracle:strict-fields", "extracted %r, expected GET %r 0.9" % (got, t))
            return None
        if accepted_line:
            if quirk and o["ver"].startswith("0.") and re.search(rb" HTTP/[0-9]+\.[0-9]+$", line.rstrip(b"\r")) and o["ver"] != "0.9":
                return None      # delimited but unsupported version token (0.x, multi-digit => 0.0): the caller answers 505
            if quirk and o["ver"].startswith("0."):
                return ("oracle:http0-version-token-without-delimiter:accept",
                        "strict parser accepted %r (not a request-line, not a simple request) as %r" % (line, got))
            return ("oracle:strict-accepts-non-grammar", "strict parser accepted %r as %r" % (line, got))
        return None
    # relaxed: accepted => tolerated form; every strict-grammar line is accepted with the same fields
    g = split_strict(line)
    if g and g[2] >= 1:
        exp = (canon_method(g[0], True), g[1], "%d.%d" % (g[2], g[3]))
        if not accepted_line:
            return ("oracle:relaxed-rejects-grammar", "RFC 9112 request line rejected in relaxed mode: " + out[:80])
        if got != exp:
            return ("oracle:relaxed-fields", "extracted %r, expected %r" % (got, exp))
        return None
    if accepted_line:
        r = split_relaxed(line)
        if r and r[2] >= 1:
            exp = (canon_method(r[0], True), r[1], "%d.%d" % (r[2], r[3]))
            if got != exp:
                return ("oracle:relaxed-fields", "extracted %r, expected %r" % (got, exp))
            return None
        if o["ver"].startswith("0."):
            # HTTP/0.9 forms: GET (any case) 1*D target *CR, or the version-token quirk
            body = line.rstrip(b"\r")
            if quirk:
                return None if re.match(rb"[!-~]", body) else ("oracle:relaxed-accepts-non-tolerance", "accepted %r" % line)
            mo = re.match(rb"([Gg][Ee][Tt])([ \t\x0b\x0c\r]+)", body)
            if mo and got[0] == b"GET" and got[1] == body[mo.end():] and set(got[1]) <= URI_RELAXED and got[2] == "0.9":
                return None
        return ("oracle:relaxed-accepts-non-tolerance", "relaxed parser accepted %r as %r, which is not one of the documented tolerances"
                % (line, got))
    return None


# ------------------------------------------------------------------ generator
BASE_METHODS = [b"GET", b"GET", b"GET", b"POST", b"HEAD", b"PUT", b"OPTIONS", b"DELETE", b"CONNECT", b"TRACE", b"PURGE", b"PRI",
                b"FOO", b"X", b"M" * 32, b"a!#$%&'*+-.^_`|~Z", b"get", b"Post", b"METHOD_OTHER", b"OTHER", b"NONE"]
INTERESTING = [0, 9, 10, 11, 12, 13, 32, 33, 34, 37, 46, 47, 48, 49, 57, 58, 72, 80, 84, 92, 94, 96, 123, 124, 125, 126, 127, 128, 255]


def base_line(rng):
    m = rng.choice(BASE_METHODS) if rng.random() < 0.85 else bytes(rng.choice(sorted(TCHAR)) for _ in range(rng.choice([1, 2, 5, 31, 32])))
    n = rng.choice([1, 1, 2, 3, 5, 8, 13])
    t = b"/" + bytes(rng.choice(sorted(URI_STRICT)) for _ in range(n - 1))
    k = rng.random()
    if k < 0.12:
        t = b"http://h.example:80" + t
    elif k < 0.2:
        t = b"*" if rng.random() < 0.5 else b"h.example:443"
    elif k < 0.3:
        t += rng.choice([b"1", b".1", b"1.1", b"/1.1", b"HTTP/", b"HTTP/1", b"HTTP/1.1", b"HTTP/0.9", b"HTTP/10.1", b"P/1.1", b"9", b"HTTP/1.12"])
    v = rng.choice([b"HTTP/1.1"] * 5 + [b"HTTP/1.0"] * 2 + [b"HTTP/1.7", b"HTTP/2.0", b"HTTP/9.9", b"HTTP/0.9", b"HTTP/0.3", None, None])
    if v is None:
        if rng.random() < 0.7:
            m = b"GET"
        return m + b" " + t + b"\r"
    return m + b" " + t + b" " + v + b"\r"


def relax(rng, line):
    """apply documented tolerances to a strict line"""
    parts = line[:-1].split(b" ")
    ds = [b" ", b"  ", b"\t", b"\x0b", b"\x0c", b"\r", b" \t", b"\t \r "]
    out = parts[0]
    for p in parts[1:]:
        out += rng.choice(ds) + p
    return out + rng.choice([b"\r", b"\r", b"", b"\r\r", b"\r\r\r"])


def mutate1(rng, line):
    b = bytearray(line)
    k = rng.random()
    i = rng.randrange(len(b)) if b else 0
    c = rng.choice(INTERESTING) if rng.random() < 0.5 else rng.randrange(256)
    if k < 0.6 and b:
        b[i] = c
    elif k < 0.8:
        b.insert(i, c)
    elif b:
        del b[i]
    return bytes(b)


def gen_cases(rng, n):
    cases = []
    while len(cases) < n:
        line = base_line(rng)
        k = rng.random()
        for relaxed in (0, 1):
            l2 = line
            if relaxed and rng.random() < 0.4:
                l2 = relax(rng, line)
            variants = [l2]
            for _ in range(3):
                variants.append(mutate1(rng, l2))
            if k < 0.05:
                variants.append(mutate1(rng, mutate1(rng, l2)))
            for v in variants:
                lead = b""
                if rng.random() < 0.06:
                    lead = rng.choice([b"\r\n", b"\n", b"\r\n\r\n", b"\r", b"\n\r\n"])
                tail = rng.choice([b"\n\r\n", b"\n\r\n", b"\n\r\n", b"\nHost: x\r\n\r\n", b"\n\n", b"\n"])
                cases.append("rp.one %d 65536 %s" % (relaxed, hx(lead + v + tail)))
    return cases[:n]


def exhaustive_cases(rng, nbase):
    """every position x every byte value for a few base lines (thorough tier)"""
    cases = []
    for _ in range(nbase):
        line = base_line(rng)[:40]
        for relaxed in (0, 1):
            for i in range(len(line)):
                for c in range(256):
                    b = bytearray(line); b[i] = c
                    cases.append("rp.one %d 65536 %s" % (relaxed, hx(bytes(b) + b"\n\r\n")))
    return cases


def gen_all(rng, n):
    if n > 100000:
        ex = exhaustive_cases(rng, 12)
        return ex + gen_cases(rng, max(n - len(ex), 1000))
    ex = exhaustive_cases(rng, 1)
    return ex + gen_cases(rng, max(n - len(ex), 1000))


def mutate(rng, case):
    a = case.split()
    a[3] = hx(mutate1(rng, c21.unhx(a[3])))
    return " ".join(a)


def kind_fn(c, o):
    f = o.split(",")
    mode = "relaxed" if c.split()[1] == "1" else "strict"
    if len(f) < 3:
        return "other"
    return mode + ":" + f[0] + (f[2] if f[0] == "R" else "")


def impl():
    return c21.impl()


def prebuild():
    impl()


def run(res, tier):
    res.rule = ("grammar-generated request lines (all method/target/version forms incl. targets ending like a version, HTTP/0.9 "
                "simple requests) in strict and relaxed mode, relaxed lines with the documented tolerances applied, and single-byte "
                "substitutions / insertions / deletions over the whole byte alphabet (one base line exhaustively: every position x all "
                "256 values; thorough: 12 base lines); a case is non-trivial when the line reached the field parsers (not need-more)")
    std.run_standard(res, PID, tier, area="reqparse", build_impl=impl, gen_cases=gen_all, oracle=oracle,
                     corr_name="ReqparseModel (parse_line) vs src/http/one/RequestParser.cc, src/base/CharacterSet.cc, http/RequestMethod.cc",
                     gens=["charsets", "reqparse"], n_quick=36000, n_thorough=600000, seed_salt=22, mutate=mutate,
                     kind_fn=kind_fn, nontrivial_fn=lambda c, o: not o.startswith("M,N") and not o.startswith("M,F"))
