(* Properties_C43.v — C43: integer-range ACLs match exactly the configured ranges.
   Statements only; proofs live in IntrangeProofs.v. *)
Require Import SquidV.Bytes SquidV.TokModel SquidV.IntrangeModel SquidV.IntrangeProofs.
Local Open Scope Z_scope.

(* --- what a token lists: N or A-B split at the first '-', C integer numerals, 16-bit, ordered --- *)
Theorem C43_token_lists_a_16bit_range : forall t lo hi,
  tok_range t = Some (lo, hi) <->
  (0 <= lo <= hi /\ hi <= 65535) /\
  ((~ In 45%N t /\ numeral t = Some lo /\ hi = lo) \/
   (exists a b, t = a ++ 45%N :: b /\ ~ In 45%N a /\ numeral a = Some lo /\ numeral b = Some hi)).
Proof. exact tok_range_meaning. Qed.
Print Assumptions C43_token_lists_a_16bit_range.

(* --- xatos accepts exactly the numerals whose value fits 16 bits, and returns that value --- *)
Theorem C43_xatos_reads_16bit_numerals : forall s, clean s = true ->
  xatos s = match numeral s with Some p => if (0 <=? p) && (p <=? 65535) then Some p else None | None => None end.
Proof. exact xatos_spec. Qed.
Print Assumptions C43_xatos_reads_16bit_numerals.

(* --- the configuration is accepted exactly when every token lists a range --- *)
Theorem C43_accepted_iff_every_token_lists_a_range : forall toks, forallb clean toks = true ->
  (exists rs, fst (ir_parse toks [] false) = Some rs) <-> (forall t, In t toks -> tok_range t <> None).
Proof. exact intrange_accept_iff. Qed.
Print Assumptions C43_accepted_iff_every_token_lists_a_range.

(* --- one stored half-open range per token, in order: [lo, hi+1) --- *)
Theorem C43_stored_ranges_are_the_listed_ranges : forall toks rs, forallb clean toks = true ->
  fst (ir_parse toks [] false) = Some rs ->
  Forall2 (fun t r => exists lo hi, tok_range t = Some (lo, hi) /\ r = (lo, hi + 1)) toks rs.
Proof. exact intrange_stored. Qed.
Print Assumptions C43_stored_ranges_are_the_listed_ranges.

(* --- the property: match(i) <-> i lies in the union of the listed ranges; any list, order, overlap --- *)
Theorem C43_match_iff_in_union_of_listed_ranges : forall toks rs i, forallb clean toks = true ->
  fst (ir_parse toks [] false) = Some rs -> - two31 <= i < int_max ->
  (fst (ir_match rs i) = true <-> exists t lo hi, In t toks /\ tok_range t = Some (lo, hi) /\ lo <= i <= hi).
Proof. exact intrange_match_iff. Qed.
Print Assumptions C43_match_iff_in_union_of_listed_ranges.

(* --- no int overflow while parsing, nor in match(i) for any i < INT_MAX (so for every 16-bit i) --- *)
Theorem C43_no_int_overflow_below_int_max : forall toks, forallb clean toks = true ->
  snd (ir_parse toks [] false) = false /\
  forall rs i, fst (ir_parse toks [] false) = Some rs -> - two31 <= i < int_max -> snd (ir_match rs i) = false.
Proof. exact intrange_no_overflow. Qed.
Print Assumptions C43_no_int_overflow_below_int_max.

(* --- the bound is sharp: match(INT_MAX) computes INT_MAX + 1 (unreachable from the port ACLs) --- *)
Theorem C43_match_overflows_at_int_max : forall rs, snd (ir_match rs int_max) = true.
Proof. exact ir_match_int_max_overflows. Qed.
Print Assumptions C43_match_overflows_at_int_max.

(* --- the hypotheses are satisfiable: "80 1-1024 443" --- *)
Example C43_ex_tokens : forallb clean [[56;48]; [49;45;49;48;50;52]; [52;52;51]]%N = true.
Proof. vm_compute. reflexivity. Qed.
Example C43_ex_parse :
  ir_parse [[56;48]; [49;45;49;48;50;52]; [52;52;51]]%N [] false = (Some [(80, 81); (1, 1025); (443, 444)], false).
Proof. vm_compute. reflexivity. Qed.
Example C43_ex_range : tok_range [49;45;49;48;50;52]%N = Some (1, 1024).
Proof. vm_compute. reflexivity. Qed.
Example C43_ex_match : map (fun i => fst (ir_match [(80, 81); (1, 1025); (443, 444)] i)) [0; 1; 80; 1024; 1025; 65535]
                       = [false; true; true; true; false; false].
Proof. vm_compute. reflexivity. Qed.
Example C43_ex_rejected : fst (ir_parse [[53;45;49]]%N [] false) = None /\ tok_range [53;45;49]%N = None.
Proof. vm_compute. split; reflexivity. Qed.
