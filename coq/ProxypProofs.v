(* ProxypProofs.v — lemmas and proofs for C38 (PROXY protocol). *)
Require Import SquidV.Bytes SquidV.TokModel SquidV.TokProofs SquidV.ProxypModel.
Require Import SquidV.gen.Proxyp_gen.
Require Import ZifyBool ZifyN ZifyNat.
Local Open Scope N_scope.
Ltac Zify.zify_post_hook ::= Z.div_mod_to_equations.

(* ================================================================== *)
(* lists                                                              *)

Lemma takeN_app_le {A} n (d x : list A) : n <= lenN d -> takeN n (d ++ x) = takeN n d.
Proof.
  revert n; induction d as [|a d IH]; intros n H; cbn [lenN] in H.
  - assert (n = 0) by lia; subst. cbn [app]. rewrite takeN_0. reflexivity.
  - cbn [app takeN]. destruct (n =? 0) eqn:E; [reflexivity|]. rewrite IH by lia. reflexivity.
Qed.

Lemma dropN_app_le {A} n (d x : list A) : n <= lenN d -> dropN n (d ++ x) = dropN n d ++ x.
Proof.
  revert n; induction d as [|a d IH]; intros n H; cbn [lenN] in H.
  - assert (n = 0) by lia; subst. cbn [app]. rewrite dropN_0. reflexivity.
  - cbn [app dropN]. destruct (n =? 0) eqn:E; [reflexivity|]. rewrite IH by lia. reflexivity.
Qed.

Lemma takeN_app_ge {A} n (a b : list A) : lenN a <= n -> takeN n (a ++ b) = a ++ takeN (n - lenN a) b.
Proof.
  revert n; induction a as [|x a IH]; intros n H; cbn [lenN] in *.
  - cbn [app]. rewrite N.sub_0_r. reflexivity.
  - cbn [app takeN]. destruct (n =? 0) eqn:E; [lia|]. rewrite IH by lia.
    replace (N.pred n - lenN a) with (n - N.succ (lenN a)) by lia. reflexivity.
Qed.

Lemma lenN_dropN {A} n (l : list A) : lenN (dropN n l) = lenN l - n.
Proof.
  revert n; induction l as [|x l IH]; intros n; cbn [dropN lenN]; [lia|].
  destruct (n =? 0) eqn:E; cbn [lenN]; [lia|]. rewrite IH. lia.
Qed.

Lemma lenN_nil_iff {A} (l : list A) : lenN l = 0 <-> l = [].
Proof. split; [apply lenN_0_nil| intros ->; reflexivity]. Qed.

Lemma span_app_all {A} (p : A -> bool) a b :
  forallb p a = true -> span p (a ++ b) = (a ++ fst (span p b), snd (span p b)).
Proof.
  induction a as [|x a IH]; cbn [forallb app]; intros H.
  - destruct (span p b); reflexivity.
  - apply andb_true_iff in H as [Hx Ha]. cbn [span]. rewrite Hx, (IH Ha). reflexivity.
Qed.

Definition stops (set : cset) (r : bytes) : Prop :=
  match r with [] => True | y :: _ => set y = false end.

Lemma span_stops set r : stops set r -> span set r = ([], r).
Proof. destruct r as [|y r]; cbn [stops span]; [reflexivity|]. intros ->. reflexivity. Qed.

Lemma stops_takeN set n r : stops set r -> stops set (takeN n r).
Proof. destruct r as [|y r]; cbn [takeN stops]; [trivial|]. destruct (n =? 0); cbn [stops]; trivial. Qed.

Lemma stops_app set r x : r <> [] -> stops set r -> stops set (r ++ x).
Proof. destruct r as [|y r]; [congruence|]. cbn [app stops]. trivial. Qed.

(* ================================================================== *)
(* Tokenizer::prefix: introduction rules and stability under extension *)

Lemma prefix_spec_intro set limit t r :
  t <> [] -> forallb set t = true -> lenN t <= limit ->
  (lenN t = limit \/ stops set r) ->
  tok_prefix set limit (t ++ r) = Some (t, r).
Proof.
  intros Hne Hall Hle Hstop. rewrite tok_prefix_eq_spec. unfold prefix_spec.
  rewrite (takeN_app_ge limit t r Hle), (span_app_all set t _ Hall). cbn [fst].
  assert (E : fst (span set (takeN (limit - lenN t) r)) = []).
  { destruct Hstop as [Heq|Hs].
    - replace (limit - lenN t) with 0 by lia. rewrite takeN_0. reflexivity.
    - rewrite (span_stops set _ (stops_takeN set _ r Hs)). reflexivity. }
  rewrite E, app_nil_r. destruct t as [|x t]; [congruence|].
  rewrite dropN_app_exact. reflexivity.
Qed.

Lemma prefix_spec_none_intro set limit b :
  (limit = 0 \/ match b with y :: _ => set y = false | [] => True end) ->
  tok_prefix set limit b = None.
Proof.
  intros H. rewrite tok_prefix_eq_spec. unfold prefix_spec.
  destruct H as [->|H]; [rewrite takeN_0; reflexivity|].
  destruct b as [|y b]; [reflexivity|]. cbn [takeN]. destruct (limit =? 0); [reflexivity|].
  cbn [span]. rewrite H. reflexivity.
Qed.

Lemma tok_prefix_ext_some set limit b x t r :
  tok_prefix set limit b = Some (t, r) -> r <> [] ->
  tok_prefix set limit (b ++ x) = Some (t, r ++ x).
Proof.
  intros H Hr. destruct (tok_prefix_sound _ _ _ _ _ H) as (Hb & Hne & Hall & Hle & Hstop).
  subst b. rewrite <- app_assoc. apply prefix_spec_intro; try assumption.
  destruct Hstop as [Hs|Hs]; [left; exact Hs|right].
  apply stops_app; [exact Hr|]. exact Hs.
Qed.

Lemma tok_prefix_ext_none set limit b x :
  tok_prefix set limit b = None -> b <> [] -> tok_prefix set limit (b ++ x) = None.
Proof.
  intros H Hb. apply prefix_spec_none_intro.
  destruct (tok_prefix_none _ _ _ H) as [->|[->|Hy]]; [congruence|left; reflexivity|right].
  destruct b as [|y b]; [congruence|]. exact Hy.
Qed.

(* ================================================================== *)
(* BinaryTokenizer steps under extension of the input (expectMore = true) *)

Lemma bt_area_ext n d x v r : bt_area true n d = BOk v r -> bt_area true n (d ++ x) = BOk v (r ++ x).
Proof.
  unfold bt_area. destruct (lenN d <? n) eqn:E; [cbn; discriminate|]. intros H; inversion H; subst; clear H.
  rewrite lenN_app. destruct (lenN d + lenN x <? n) eqn:E2; [lia|].
  rewrite takeN_app_le, dropN_app_le by lia. reflexivity.
Qed.

Lemma bt_area_true_nofail n d : bt_area true n d <> BFail.
Proof. unfold bt_area, bt_short. destruct (lenN d <? n); discriminate. Qed.

Lemma bt_area_len em n d v r : bt_area em n d = BOk v r -> lenN v = n /\ lenN d = n + lenN r /\ d = v ++ r.
Proof.
  unfold bt_area. destruct (lenN d <? n) eqn:E; [destruct em; discriminate|]. intros H; inversion H; subst; clear H.
  rewrite lenN_takeN, lenN_dropN, takeN_dropN. repeat split; lia.
Qed.

Lemma bt_uintN_ext k d x v r : bt_uintN true k d = BOk v r -> bt_uintN true k (d ++ x) = BOk v (r ++ x).
Proof.
  unfold bt_uintN. destruct (bt_area true k d) as [a r'| |] eqn:E; try discriminate.
  intros H; inversion H; subst; clear H. rewrite (bt_area_ext _ _ x _ _ E). reflexivity.
Qed.

Lemma bt_uintN_true_nofail k d : bt_uintN true k d <> BFail.
Proof. unfold bt_uintN. pose proof (bt_area_true_nofail k d). destruct (bt_area true k d); congruence. Qed.

Lemma bt_uintN_len em k d v r : bt_uintN em k d = BOk v r -> lenN d = k + lenN r.
Proof.
  unfold bt_uintN. destruct (bt_area em k d) as [a r'| |] eqn:E; try discriminate.
  intros H; inversion H; subst; clear H. apply bt_area_len in E. lia.
Qed.

Lemma bt_pstringN_ext k d x v r : bt_pstringN true k d = BOk v r -> bt_pstringN true k (d ++ x) = BOk v (r ++ x).
Proof.
  unfold bt_pstringN. destruct (bt_uintN true k d) as [len r'| |] eqn:E; try discriminate.
  rewrite (bt_uintN_ext _ _ x _ _ E). destruct (len =? 0).
  - intros H; inversion H; subst; reflexivity.
  - apply bt_area_ext.
Qed.

Lemma bt_pstringN_true_nofail k d : bt_pstringN true k d <> BFail.
Proof.
  unfold bt_pstringN. pose proof (bt_uintN_true_nofail k d).
  destruct (bt_uintN true k d) as [len r| |]; try congruence.
  destruct (len =? 0); [discriminate|apply bt_area_true_nofail].
Qed.

Lemma bt_pstringN_len em k d v r : bt_pstringN em k d = BOk v r -> lenN d = k + lenN v + lenN r.
Proof.
  unfold bt_pstringN. destruct (bt_uintN em k d) as [len r'| |] eqn:E; try discriminate.
  apply bt_uintN_len in E. destruct (len =? 0).
  - intros H; inversion H; subst; cbn [lenN]; lia.
  - intros H. apply bt_area_len in H. lia.
Qed.

(* ================================================================== *)
(* v2: definitive outcomes are stable under extension                  *)

Lemma v2_parse_ext b x : v2_parse b <> More -> v2_parse (b ++ x) = v2_parse b.
Proof.
  unfold v2_parse, bt_uint8, bt_pstring16.
  destruct (bt_uintN true 1 b) as [vc r1| |] eqn:E1; [|congruence|exfalso; exact (bt_uintN_true_nofail _ _ E1)].
  rewrite (bt_uintN_ext _ _ x _ _ E1).
  destruct (negb (vc / 16 =? 2)); [reflexivity|].
  destruct (pp_cmdProxy <? vc mod 16); [reflexivity|].
  destruct (bt_uintN true 1 r1) as [fp r2| |] eqn:E2; [|congruence|exfalso; exact (bt_uintN_true_nofail _ _ E2)].
  rewrite (bt_uintN_ext _ _ x _ _ E2).
  destruct (pp_afUnix <? fp / 16); [reflexivity|].
  destruct (pp_tpDgram <? fp mod 16); [reflexivity|].
  destruct (bt_pstringN true 2 r2) as [raw r3| |] eqn:E3; [|congruence|exfalso; exact (bt_pstringN_true_nofail _ _ E3)].
  rewrite (bt_pstringN_ext _ _ x _ _ E3). reflexivity.
Qed.

(* ================================================================== *)
(* v1 line isolator                                                    *)

Lemma skipChar_ext c r x : r <> [] -> tok_skipChar c (r ++ x) =
  (fst (tok_skipChar c r), snd (tok_skipChar c r) ++ x).
Proof.
  destruct r as [|y r]; [congruence|]. intros _. cbn [app tok_skipChar].
  destruct (y =? c); reflexivity.
Qed.

Lemma v1_isolate_ext b x : v1_isolate b <> IsoMore -> v1_isolate (b ++ x) = v1_isolate b.
Proof.
  unfold v1_isolate.
  destruct (tok_prefix nonCR v1_maxInteriorLength b) as [[t r1]|] eqn:P.
  - destruct r1 as [|c1 r1'].
    + cbn. congruence.
    + rewrite (tok_prefix_ext_some _ _ _ x _ _ P) by discriminate.
      cbn [app tok_skipChar]. destruct (c1 =? 13); [|reflexivity].
      destruct r1' as [|c2 r2'].
      * cbn. congruence.
      * cbn [app tok_skipChar]. destruct (c2 =? 10); reflexivity.
  - destruct b as [|c b'].
    + cbn. congruence.
    + rewrite (tok_prefix_ext_none _ _ _ x P) by discriminate. reflexivity.
Qed.

Lemma v1_parse_ext ipf b x : v1_parse ipf b <> More -> v1_parse ipf (b ++ x) = v1_parse ipf b.
Proof.
  unfold v1_parse. intros H.
  destruct (v1_isolate b) as [i n| |] eqn:E; try congruence;
    rewrite v1_isolate_ext by (rewrite E; discriminate); rewrite E; reflexivity.
Qed.

(* ================================================================== *)
(* magic dispatch                                                      *)

Lemma starts_with_nil l : starts_with l [] = true.
Proof. destruct l; reflexivity. Qed.

Lemma starts_with_len l p : starts_with l p = true -> lenN p <= lenN l.
Proof.
  revert l; induction p as [|y p IH]; intros l H; cbn [lenN]; [lia|].
  destruct l as [|a l]; cbn [starts_with] in H; [discriminate|].
  apply andb_true_iff in H as [_ H]. apply IH in H. cbn [lenN]. lia.
Qed.

Lemma starts_with_app l p x : starts_with l p = true -> starts_with (l ++ x) p = true.
Proof.
  revert l; induction p as [|y p IH]; intros l H; [apply starts_with_nil|].
  destruct l as [|a l]; cbn [starts_with app] in *; [discriminate|].
  apply andb_true_iff in H as [H1 H2]. rewrite H1, (IH _ H2). reflexivity.
Qed.

Lemma starts_with_false_ext l p x : starts_with l p = false -> lenN p <= lenN l -> starts_with (l ++ x) p = false.
Proof.
  revert l; induction p as [|y p IH]; intros l H Hl; [rewrite starts_with_nil in H; discriminate|].
  destruct l as [|a l]; cbn [lenN] in Hl; [lia|]. cbn [starts_with app] in *.
  destruct (a =? y); [|reflexivity]. cbn [andb] in *. apply IH; [exact H|lia].
Qed.

Lemma starts_with_self_app p y : starts_with (p ++ y) p = true.
Proof. induction p as [|a p IH]; [apply starts_with_nil|]. cbn [app starts_with]. rewrite N.eqb_refl, IH. reflexivity. Qed.

Definition hd_differ (m1 m2 : bytes) : bool :=
  match m1, m2 with a :: _, c :: _ => negb (a =? c) | _, _ => false end.

Lemma starts_with_hd_conflict m1 m2 l :
  hd_differ m1 m2 = true -> starts_with l m1 = true -> starts_with l m2 = false.
Proof.
  destruct m1 as [|a m1], m2 as [|c m2]; cbn [hd_differ]; try discriminate.
  intros Hd H. destruct l as [|y l]; cbn [starts_with] in *; [reflexivity|].
  apply andb_true_iff in H as [H _]. apply N.eqb_eq in H. subst y.
  apply negb_true_iff in Hd. rewrite Hd. reflexivity.
Qed.

Lemma magic_hd_differ : hd_differ pp_magic1 pp_magic2 = true.
Proof. reflexivity. Qed.
Lemma magic_len_le : lenN pp_magic1 <= lenN pp_magic2.
Proof. vm_compute. discriminate. Qed.
Lemma magic1_nonempty : (lenN pp_magic1 =? 0) = false.
Proof. reflexivity. Qed.
Lemma magic2_nonempty : (lenN pp_magic2 =? 0) = false.
Proof. reflexivity. Qed.

Lemma add_size_more k o : add_size k o <> More <-> o <> More.
Proof. destruct o; cbn [add_size]; split; congruence. Qed.

(* the first sentence of the property: whatever is not "need more" is final *)
Theorem pp_parse_ext ipf b x : pp_parse ipf b <> More -> pp_parse ipf (b ++ x) = pp_parse ipf b.
Proof.
  unfold pp_parse, tok_skip.
  destruct (starts_with b pp_magic2) eqn:S2.
  - rewrite (starts_with_app _ _ x S2). rewrite magic2_nonempty. cbn [negb].
    rewrite dropN_app_le by (apply starts_with_len; exact S2).
    intros H. apply add_size_more in H. rewrite (v2_parse_ext _ x H). reflexivity.
  - destruct (starts_with b pp_magic1) eqn:S1.
    + rewrite (starts_with_hd_conflict _ _ _ magic_hd_differ (starts_with_app _ _ x S1)).
      rewrite (starts_with_app _ _ x S1). rewrite magic1_nonempty. cbn [negb].
      rewrite dropN_app_le by (apply starts_with_len; exact S1).
      intros H. apply add_size_more in H. rewrite (v1_parse_ext ipf _ x H). reflexivity.
    + destruct (lenN pp_magic2 <=? lenN b) eqn:L; [|congruence]. intros _.
      pose proof magic_len_le.
      rewrite (starts_with_false_ext _ _ x S2) by lia.
      rewrite (starts_with_false_ext _ _ x S1) by lia.
      rewrite lenN_app. destruct (lenN pp_magic2 <=? lenN b + lenN x) eqn:L2; [reflexivity|lia].
Qed.

Corollary pp_ok_stable ipf b x h n : pp_parse ipf b = Ok h n -> pp_parse ipf (b ++ x) = Ok h n.
Proof. intros H. rewrite pp_parse_ext; [exact H|rewrite H; discriminate]. Qed.

Corollary pp_reject_stable ipf b x e : pp_parse ipf b = Reject e -> pp_parse ipf (b ++ x) = Reject e.
Proof. intros H. rewrite pp_parse_ext; [exact H|rewrite H; discriminate]. Qed.


(* ================================================================== *)
(* decimal ports through Tokenizer::int64(port, 10, false)            *)
Definition is_dec (c : N) : Prop := 48 <= c <= 57.
Definition dec_val_from (ds : bytes) (a : N) : N := fold_left (fun a c => a * 10 + (c - 48)) ds a.
Definition stops10 (r : bytes) : Prop := match r with [] => True | c :: _ => digit_of 10 c = None end.
Definition cutoff10 : Z := ((two63 - 1) / 10)%Z.
Definition cutlim10 : Z := ((two63 - 1) mod 10)%Z.

Lemma cut_facts : (cutoff10 * 10 + cutlim10 = two63 - 1 /\ 0 <= cutlim10 < 10 /\ two63 - 1 < two64 /\ 0 < two63)%Z.
Proof. vm_compute. repeat split; congruence. Qed.

Lemma digit_of_dec c : is_dec c -> digit_of 10 c = Some (Z.of_N c - 48)%Z.
Proof.
  unfold is_dec, digit_of, digit_raw, is_digit. intros H.
  replace ((48 <=? c) && (c <=? 57)) with true by lia.
  destruct (Z.of_N c - 48 >=? 10)%Z eqn:E; [lia|reflexivity].
Qed.

Lemma dec_val_from_ge ds : forall a, a <= dec_val_from ds a.
Proof.
  induction ds as [|c ds IH]; intros a; cbn [dec_val_from fold_left]; [lia|].
  specialize (IH (a * 10 + (c - 48))). unfold dec_val_from in IH. lia.
Qed.

Lemma int64_loop_exact ds : forall r any a n,
  Forall is_dec ds -> stops10 r -> (0 <= any)%Z -> (Z.of_N (dec_val_from ds a) <= two63 - 1)%Z ->
  int64_loop 10 cutoff10 cutlim10 (ds ++ r) {| st_any := any; st_acc := Z.of_N a; st_n := n |}
  = {| st_any := match ds with [] => any | _ => 1%Z end; st_acc := Z.of_N (dec_val_from ds a); st_n := n + lenN ds |}.
Proof.
  induction ds as [|c ds IH]; intros r any a n Hd Hs Hany Hle.
  - cbn [app lenN dec_val_from fold_left]. rewrite N.add_0_r.
    destruct r as [|y r]; cbn [int64_loop]; [reflexivity|]. cbn [stops10] in Hs. rewrite Hs. reflexivity.
  - inversion Hd as [|c' ds' Hc Hds]; subst. cbn [app int64_loop]. rewrite (digit_of_dec c Hc).
    cbn [dec_val_from fold_left] in Hle |- *. fold (dec_val_from ds (a * 10 + (c - 48))) in Hle |- *.
    pose proof (dec_val_from_ge ds (a * 10 + (c - 48))) as Hge.
    destruct cut_facts as (F1 & F2 & F3 & F4). unfold is_dec in Hc.
    cbn [st_any st_acc st_n].
    destruct ((any <? 0)%Z || (Z.of_N a >? cutoff10)%Z || ((Z.of_N a =? cutoff10)%Z && (Z.of_N c - 48 >? cutlim10)%Z)) eqn:C; [lia|].
    replace ((Z.of_N a * 10 + (Z.of_N c - 48)) mod two64)%Z with (Z.of_N (a * 10 + (c - 48))).
    2:{ rewrite Z.mod_small by lia. lia. }
    rewrite IH; try assumption; try lia.
    f_equal; [destruct ds; reflexivity| cbn [lenN]; lia].
Qed.

Lemma int64_loop_neg l : forall st, (st_any st < 0)%Z -> (st_any (int64_loop 10 cutoff10 cutlim10 l st) < 0)%Z.
Proof.
  induction l as [|c l IH]; intros st H; cbn [int64_loop]; [exact H|].
  destruct (digit_of 10 c); [|exact H]. apply IH.
  replace (st_any st <? 0)%Z with true by lia. cbn [orb st_any]. lia.
Qed.

(* for any digit string: either the loop reports overflow, or the value is exact *)
Lemma int64_loop_dich ds : forall r any a n,
  Forall is_dec ds -> stops10 r -> (0 <= any)%Z -> (Z.of_N a <= two63 - 1)%Z ->
  (st_any (int64_loop 10 cutoff10 cutlim10 (ds ++ r) {| st_any := any; st_acc := Z.of_N a; st_n := n |}) < 0)%Z \/
  int64_loop 10 cutoff10 cutlim10 (ds ++ r) {| st_any := any; st_acc := Z.of_N a; st_n := n |}
  = {| st_any := match ds with [] => any | _ => 1%Z end; st_acc := Z.of_N (dec_val_from ds a); st_n := n + lenN ds |}.
Proof.
  induction ds as [|c ds IH]; intros r any a n Hd Hs Hany Hle.
  - right. apply int64_loop_exact; assumption.
  - inversion Hd as [|c' ds' Hc Hds]; subst. cbn [app int64_loop]. rewrite (digit_of_dec c Hc).
    destruct cut_facts as (F1 & F2 & F3 & F4). unfold is_dec in Hc. cbn [st_any st_acc st_n].
    destruct ((any <? 0)%Z || (Z.of_N a >? cutoff10)%Z || ((Z.of_N a =? cutoff10)%Z && (Z.of_N c - 48 >? cutlim10)%Z)) eqn:C.
    + left. apply int64_loop_neg. cbn [st_any]. lia.
    + replace ((Z.of_N a * 10 + (Z.of_N c - 48)) mod two64)%Z with (Z.of_N (a * 10 + (c - 48))).
      2:{ rewrite Z.mod_small by lia. lia. }
      assert (H1 : (0 <= 1)%Z) by lia.
      assert (H2 : (Z.of_N (a * 10 + (c - 48)) <= two63 - 1)%Z) by lia.
      destruct (IH r 1%Z (a * 10 + (c - 48)) (N.succ n) Hds Hs H1 H2) as [L|R]; [left; exact L|right].
      rewrite R. cbn [dec_val_from fold_left lenN]. f_equal; [destruct ds; reflexivity|lia].
Qed.

Lemma int64_front_base10 core limit buf :
  int64_front core 10 false limit buf =
  match buf with [] => None | _ => if limit =? 0 then None else core 10%Z false (takeN limit buf) 0 end.
Proof.
  unfold int64_front. destruct buf as [|b0 buf]; [reflexivity|]. destruct (limit =? 0); [reflexivity|].
  set (range := takeN limit (b0 :: buf)). cbn [orb Z.eqb].
  destruct range as [|c [|x r]]; try reflexivity.
  destruct c as [|p]; [reflexivity|]. do 6 (destruct p as [p|p|]; try reflexivity).
Qed.

Lemma int64_core_exact ds r n :
  ds <> [] -> Forall is_dec ds -> stops10 r -> (Z.of_N (dec_value ds) <= two63 - 1)%Z ->
  int64_core 10 false (ds ++ r) n = Some (Z.of_N (dec_value ds), n + lenN ds).
Proof.
  intros Hne Hd Hs Hle. unfold int64_core.
  destruct ds as [|c ds]; [congruence|]. cbn [app].
  change (((two63 - 1) / 10)%Z) with cutoff10. change (((two63 - 1) mod 10)%Z) with cutlim10.
  change (c :: ds ++ r) with ((c :: ds) ++ r).
  assert (H0 : (0 <= 0)%Z) by lia.
  pose proof (int64_loop_exact (c :: ds) r 0%Z 0 n Hd Hs H0 Hle) as E. change (Z.of_N 0) with 0%Z in E.
  rewrite E. cbn [st_any st_acc st_n]. reflexivity.
Qed.

(* any digit string: int64 either fails or returns exactly its value *)
Lemma int64_core_dich ds r n :
  ds <> [] -> Forall is_dec ds -> stops10 r ->
  int64_core 10 false (ds ++ r) n = None \/
  int64_core 10 false (ds ++ r) n = Some (Z.of_N (dec_value ds), n + lenN ds).
Proof.
  intros Hne Hd Hs. unfold int64_core.
  destruct ds as [|c ds]; [congruence|]. cbn [app].
  change (((two63 - 1) / 10)%Z) with cutoff10. change (((two63 - 1) mod 10)%Z) with cutlim10.
  change (c :: ds ++ r) with ((c :: ds) ++ r).
  assert (H0 : (0 <= 0)%Z) by lia.
  assert (H1 : (Z.of_N 0 <= two63 - 1)%Z) by (destruct cut_facts as (_ & _ & _ & F); cbn; lia).
  destruct (int64_loop_dich (c :: ds) r 0%Z 0 n Hd Hs H0 H1) as [L|R]; change (Z.of_N 0) with 0%Z in *.
  - left. destruct (st_any _ =? 0)%Z; [reflexivity|]. replace (st_any _ <? 0)%Z with true by lia. reflexivity.
  - right. rewrite R. cbn [st_any st_acc st_n]. reflexivity.
Qed.

Lemma int64_core_nondigit c r n : digit_of 10 c = None -> int64_core 10 false (c :: r) n = None.
Proof. intros H. unfold int64_core. cbn [int64_loop]. rewrite H. reflexivity. Qed.

Lemma stops10_sp r : stops10 (32 :: r).
Proof. reflexivity. Qed.

Lemma tok_int64_dec ds r :
  ds <> [] -> Forall is_dec ds -> stops10 r -> (Z.of_N (dec_value ds) <= two63 - 1)%Z -> lenN (ds ++ r) <= npos ->
  tok_int64 10 false npos (ds ++ r) = Some (Z.of_N (dec_value ds), lenN ds).
Proof.
  intros Hne Hd Hs Hle Hlen. unfold tok_int64. rewrite int64_front_base10.
  destruct ds as [|c ds]; [congruence|]. cbn [app]. change (c :: ds ++ r) with ((c :: ds) ++ r).
  change (npos =? 0) with false. cbv iota. rewrite takeN_all by exact Hlen.
  rewrite int64_core_exact; try assumption. rewrite N.add_0_l. reflexivity.
Qed.

Lemma extract_port_sp ds r :
  ds <> [] -> Forall is_dec ds -> dec_value ds <= 65535 -> lenN (ds ++ 32 :: r) <= npos ->
  v1_extract_port true (ds ++ 32 :: r) = inr (dec_value ds, r).
Proof.
  intros Hne Hd Hv Hlen. unfold v1_extract_port.
  rewrite tok_int64_dec; try assumption; [|apply stops10_sp|unfold two63; lia].
  rewrite dropN_app_exact. cbn [tok_skipChar N.eqb Pos.eqb].
  destruct (Z.of_N (dec_value ds) >? 65535)%Z eqn:E; [lia|].
  rewrite Z.mod_small by lia. rewrite N2Z.id. reflexivity.
Qed.

Lemma extract_port_last ds r :
  ds <> [] -> Forall is_dec ds -> dec_value ds <= 65535 -> stops10 r -> lenN (ds ++ r) <= npos ->
  v1_extract_port false (ds ++ r) = inr (dec_value ds, r).
Proof.
  intros Hne Hd Hv Hs Hlen. unfold v1_extract_port.
  rewrite tok_int64_dec; try assumption; [|unfold two63; lia].
  rewrite dropN_app_exact.
  destruct (Z.of_N (dec_value ds) >? 65535)%Z eqn:E; [lia|].
  rewrite Z.mod_small by lia. rewrite N2Z.id. reflexivity.
Qed.

(* a port field whose digits denote more than 65535 (any number of digits) is rejected *)
Lemma extract_port_big ts ds r :
  ds <> [] -> Forall is_dec ds -> 65535 < dec_value ds -> stops10 r -> lenN (ds ++ r) <= npos ->
  exists e, v1_extract_port ts (ds ++ r) = inl e.
Proof.
  intros Hne Hd Hv Hs Hlen. unfold v1_extract_port, tok_int64. rewrite int64_front_base10.
  destruct ds as [|c ds]; [congruence|]. cbn [app]. change (c :: ds ++ r) with ((c :: ds) ++ r).
  change (npos =? 0) with false. cbv iota. rewrite takeN_all by exact Hlen.
  destruct (int64_core_dich (c :: ds) r 0 Hne Hd Hs) as [E|E]; rewrite E; [eexists; reflexivity|].
  destruct (if ts then tok_skipChar 32 (dropN (0 + lenN (c :: ds)) ((c :: ds) ++ r)) else (true, dropN (0 + lenN (c :: ds)) ((c :: ds) ++ r))) as [[|] r2];
    [|eexists; reflexivity].
  replace (Z.of_N (dec_value (c :: ds)) >? 65535)%Z with true by lia. eexists; reflexivity.
Qed.

Lemma extract_port_nondigit ts c r :
  digit_of 10 c = None -> v1_extract_port ts (c :: r) = inl E1_port_malformed.
Proof.
  intros H. unfold v1_extract_port, tok_int64. rewrite int64_front_base10.
  change (npos =? 0) with false. cbv iota.
  cbn [takeN]. change (npos =? 0) with false. cbv iota.
  rewrite int64_core_nondigit by exact H. reflexivity.
Qed.

(* ================================================================== *)
(* the character classes, from the regenerated tables                  *)
Lemma tbl_get_out {A} (d : A) t c : lenN t <= c -> tbl_get d t c = d.
Proof.
  revert c; induction t as [|x t IH]; intros c H; cbn [tbl_get]; [reflexivity|].
  cbn [lenN] in H. destruct (c =? 0) eqn:E; [lia|]. apply IH. lia.
Qed.

Lemma nonCR_spec c : nonCR c = negb (c =? 13).
Proof.
  destruct (N.ltb_spec c 256) as [H|H].
  - apply (forallb_bytes (fun c => Bool.eqb (nonCR c) (negb (c =? 13)))) in H; [apply eqb_prop; exact H|].
    vm_compute. reflexivity.
  - unfold nonCR, pp_CR, mem_tbl. rewrite tbl_get_out by (vm_compute lenN; exact H).
    destruct (c =? 13) eqn:E; [lia|reflexivity].
Qed.

Lemma ipChars_not_sp_cr c : ipChars c = true -> c <> 32 /\ c <> 13.
Proof. intros H. split; intros ->; vm_compute in H; discriminate. Qed.

Lemma forallb_impl {A} (p q : A -> bool) l : (forall x, p x = true -> q x = true) -> forallb p l = true -> forallb q l = true.
Proof.
  intros Hpq. induction l as [|x l IH]; cbn [forallb]; [trivial|]. intros H.
  apply andb_true_iff in H as [H1 H2]. rewrite (Hpq _ H1), (IH H2). reflexivity.
Qed.

Lemma forallb_Forall_dec ds : Forall is_dec ds -> forallb nonCR ds = true.
Proof.
  induction 1 as [|c ds Hc _ IH]; cbn [forallb]; [reflexivity|]. rewrite IH, nonCR_spec.
  unfold is_dec in Hc. destruct (c =? 13) eqn:E; [lia|reflexivity].
Qed.

Lemma forallb_ip_nonCR t : forallb ipChars t = true -> forallb nonCR t = true.
Proof.
  apply forallb_impl. intros c H. apply ipChars_not_sp_cr in H as [_ H]. rewrite nonCR_spec.
  destruct (c =? 13) eqn:E; [lia|reflexivity].
Qed.

Lemma stops_ip_sp r : stops ipChars (32 :: r).
Proof. reflexivity. Qed.

(* ================================================================== *)
(* v1: the pieces                                                      *)
Lemma pp_parse_v1 ipf y : pp_parse ipf (pp_magic1 ++ y) = add_size (lenN pp_magic1) (v1_parse ipf y).
Proof.
  unfold pp_parse, tok_skip.
  rewrite (starts_with_hd_conflict _ _ _ magic_hd_differ (starts_with_self_app pp_magic1 y)).
  rewrite starts_with_self_app, magic1_nonempty, dropN_app_exact. reflexivity.
Qed.

Lemma pp_parse_v2 ipf y : pp_parse ipf (pp_magic2 ++ y) = add_size (lenN pp_magic2) (v2_parse y).
Proof.
  unfold pp_parse, tok_skip. rewrite starts_with_self_app, magic2_nonempty, dropN_app_exact. reflexivity.
Qed.

Lemma v1_isolate_ok interior rest :
  interior <> [] -> forallb nonCR interior = true -> lenN interior <= v1_maxInteriorLength ->
  v1_isolate (interior ++ 13 :: 10 :: rest) = IsoOk interior (lenN interior + 1 + 1).
Proof.
  intros Hne Hall Hle. unfold v1_isolate.
  rewrite prefix_spec_intro; try assumption; [|right; reflexivity].
  reflexivity.
Qed.

Lemma extract_ip_ok ipf t a r :
  t <> [] -> forallb ipChars t = true -> ipf t = Some a -> lenN t <= npos ->
  v1_extract_ip ipf (t ++ 32 :: r) = inr (a, r).
Proof.
  intros Hne Hall Hip Hlen. unfold v1_extract_ip.
  rewrite prefix_spec_intro; try assumption; [|right; apply stops_ip_sp].
  cbn [tok_skipChar N.eqb Pos.eqb]. rewrite Hip. reflexivity.
Qed.

Lemma tok_skip_self p y : tok_skip p (p ++ y) = (negb (lenN p =? 0), y).
Proof. unfold tok_skip. rewrite starts_with_self_app, dropN_app_exact. reflexivity. Qed.

Lemma list_eqb_refl a : list_eqb a a = true.
Proof. induction a as [|x a IH]; cbn [list_eqb]; [reflexivity|]. rewrite N.eqb_refl, IH. reflexivity. Qed.

Lemma forallb_app' {A} (p : A -> bool) a b : forallb p a = true -> forallb p b = true -> forallb p (a ++ b) = true.
Proof. intros H1 H2. rewrite forallb_app, H1, H2. reflexivity. Qed.

Definition v1_interior_tcp (fam : N) (st dt sps dps : bytes) : bytes :=
  32 :: s_TCP ++ fam :: 32 :: st ++ 32 :: dt ++ 32 :: sps ++ 32 :: dps.

Lemma enc_v1_tcp_shape fam st dt sps dps rest :
  enc_v1_tcp fam st dt sps dps ++ rest = pp_magic1 ++ (v1_interior_tcp fam st dt sps dps ++ 13 :: 10 :: rest).
Proof. unfold enc_v1_tcp, v1_interior_tcp. repeat (rewrite <- app_assoc; cbn [app]). reflexivity. Qed.

Lemma enc_v1_tcp_len fam st dt sps dps :
  lenN (enc_v1_tcp fam st dt sps dps) = 16 + lenN st + lenN dt + lenN sps + lenN dps /\
  lenN (v1_interior_tcp fam st dt sps dps) = 9 + lenN st + lenN dt + lenN sps + lenN dps.
Proof.
  unfold enc_v1_tcp, v1_interior_tcp. repeat (rewrite lenN_app || cbn [lenN]).
  change (lenN pp_magic1) with 5. change (lenN s_TCP) with 3. lia.
Qed.

Theorem v1_tcp_roundtrip ipf fam st dt sa da sps dps rest :
  st <> [] -> dt <> [] -> forallb ipChars st = true -> forallb ipChars dt = true ->
  ipf st = Some sa -> ipf dt = Some da ->
  ((fam = 52 /\ is_ipv4 sa = true /\ is_ipv4 da = true) \/ (fam = 54 /\ is_ipv4 sa = false /\ is_ipv4 da = false)) ->
  sps <> [] -> Forall is_dec sps -> dec_value sps <= 65535 ->
  dps <> [] -> Forall is_dec dps -> dec_value dps <= 65535 ->
  lenN (enc_v1_tcp fam st dt sps dps) <= v1_maxHeaderLength ->
  pp_parse ipf (enc_v1_tcp fam st dt sps dps ++ rest) =
  Ok {| h_v2 := false; h_cmd := pp_cmdProxy; h_ignore := false;
        h_src := sa; h_sport := dec_value sps; h_dst := da; h_dport := dec_value dps; h_tlvs := [] |}
     (lenN (enc_v1_tcp fam st dt sps dps)).
Proof.
  intros Hst Hdt Hsc Hdc Hsa Hda Hfam Hsp1 Hsp2 Hsp3 Hdp1 Hdp2 Hdp3 Hlen.
  destruct (enc_v1_tcp_len fam st dt sps dps) as [L1 L2].
  change v1_maxHeaderLength with 107 in Hlen.
  rewrite enc_v1_tcp_shape, pp_parse_v1. unfold v1_parse.
  assert (Hfc : famChars fam = true) by (destruct Hfam as [(-> & _)|(-> & _)]; reflexivity).
  assert (Hfn : nonCR fam = true) by (destruct Hfam as [(-> & _)|(-> & _)]; vm_compute; reflexivity).
  rewrite v1_isolate_ok.
  2:{ unfold v1_interior_tcp. discriminate. }
  2:{ unfold v1_interior_tcp. cbn [forallb].
      replace (nonCR 32) with true by (vm_compute; reflexivity). cbn [andb].
      apply forallb_app'; [vm_compute; reflexivity|]. cbn [forallb]. rewrite Hfn.
      replace (nonCR 32) with true by (vm_compute; reflexivity). cbn [andb].
      apply forallb_app'; [apply forallb_ip_nonCR; exact Hsc|]. cbn [forallb].
      replace (nonCR 32) with true by (vm_compute; reflexivity). cbn [andb].
      apply forallb_app'; [apply forallb_ip_nonCR; exact Hdc|]. cbn [forallb].
      replace (nonCR 32) with true by (vm_compute; reflexivity). cbn [andb].
      apply forallb_app'; [apply forallb_Forall_dec; exact Hsp2|]. cbn [forallb].
      replace (nonCR 32) with true by (vm_compute; reflexivity). cbn [andb].
      apply forallb_Forall_dec; exact Hdp2. }
  2:{ change v1_maxInteriorLength with 100. lia. }
  unfold v1_interior, v1_interior_tcp. cbn [tok_skipChar N.eqb Pos.eqb].
  rewrite tok_skip_self. change (negb (lenN s_TCP =? 0)) with true. cbv iota.
  unfold v1_addresses.
  change (fam :: 32 :: st ++ 32 :: dt ++ 32 :: sps ++ 32 :: dps) with ([fam] ++ 32 :: st ++ 32 :: dt ++ 32 :: sps ++ 32 :: dps).
  rewrite prefix_spec_intro; [|discriminate|cbn [forallb]; rewrite Hfc; reflexivity|cbn [lenN]; lia|left; reflexivity].
  cbn [tok_skipChar N.eqb Pos.eqb].
  unfold npos in *.
  rewrite (extract_ip_ok ipf st sa _ Hst Hsc Hsa) by (unfold npos; lia).
  rewrite (extract_ip_ok ipf dt da _ Hdt Hdc Hda) by (unfold npos; lia).
  assert (Haf : address_family sa da = [fam]).
  { unfold address_family. destruct Hfam as [(-> & -> & ->)|(-> & -> & ->)]; reflexivity. }
  rewrite Haf, list_eqb_refl. cbn [negb].
  rewrite extract_port_sp; try assumption; [|rewrite lenN_app; cbn [lenN]; unfold npos; lia].
  rewrite <- (app_nil_r dps) at 1.
  rewrite extract_port_last; try assumption; [|exact I|rewrite app_nil_r; unfold npos; lia].
  cbn [bt_atEnd add_size]. unfold header_set_addrs, header_new. cbn [h_v2 h_cmd h_ignore h_tlvs].
  f_equal. rewrite L1. repeat (rewrite lenN_app || cbn [lenN]).
  change (lenN pp_magic1) with 5. change (lenN s_TCP) with 3. lia.
Qed.

(* ================================================================== *)
(* v1 UNKNOWN, and the v1 rejection list                               *)
Theorem v1_unknown_roundtrip ipf junk rest :
  forallb nonCR junk = true -> lenN (enc_v1_unknown junk) <= v1_maxHeaderLength ->
  pp_parse ipf (enc_v1_unknown junk ++ rest) =
  Ok {| h_v2 := false; h_cmd := pp_cmdProxy; h_ignore := true;
        h_src := addr_empty; h_sport := 0; h_dst := addr_empty; h_dport := 0; h_tlvs := [] |}
     (lenN (enc_v1_unknown junk)).
Proof.
  intros Hj Hlen. unfold enc_v1_unknown in *. change v1_maxHeaderLength with 107 in Hlen.
  repeat (rewrite lenN_app in Hlen || cbn [lenN] in Hlen). change (lenN pp_magic1) with 5 in Hlen. change (lenN s_UNKNOWN) with 7 in Hlen.
  replace ((pp_magic1 ++ [32] ++ s_UNKNOWN ++ junk ++ [13; 10]) ++ rest)
    with (pp_magic1 ++ ((32 :: s_UNKNOWN ++ junk) ++ 13 :: 10 :: rest))
    by (repeat (rewrite <- app_assoc; cbn [app]); reflexivity).
  rewrite pp_parse_v1. unfold v1_parse. rewrite v1_isolate_ok.
  2:{ discriminate. }
  2:{ cbn [forallb]. replace (nonCR 32) with true by (vm_compute; reflexivity). cbn [andb].
      apply forallb_app'; [vm_compute; reflexivity|exact Hj]. }
  2:{ change v1_maxInteriorLength with 100. repeat (rewrite lenN_app || cbn [lenN]). change (lenN s_UNKNOWN) with 7. lia. }
  unfold v1_interior. cbn [tok_skipChar N.eqb Pos.eqb].
  assert (T : tok_skip s_TCP (s_UNKNOWN ++ junk) = (false, s_UNKNOWN ++ junk)) by reflexivity.
  rewrite T. rewrite tok_skip_self. change (negb (lenN s_UNKNOWN =? 0)) with true. cbv iota.
  cbn [add_size]. f_equal.
  repeat (rewrite lenN_app || cbn [lenN]). change (lenN pp_magic1) with 5. change (lenN s_UNKNOWN) with 7. lia.
Qed.

(* oversized v1 line: 101 bytes without CR after the magic *)
Theorem v1_oversized_rejected ipf body rest :
  forallb nonCR body = true -> v1_maxInteriorLength < lenN body ->
  pp_parse ipf (pp_magic1 ++ body ++ rest) = Reject E1_malformed_header.
Proof.
  intros Hb Hlen. rewrite pp_parse_v1. unfold v1_parse, v1_isolate.
  pose proof (takeN_dropN v1_maxInteriorLength body) as Hsplit.
  pose proof (lenN_takeN v1_maxInteriorLength body) as Ht.
  pose proof (lenN_dropN v1_maxInteriorLength body) as Hd.
  set (t := takeN v1_maxInteriorLength body) in *. set (r := dropN v1_maxInteriorLength body) in *.
  assert (Hall : forallb nonCR t = true /\ forallb nonCR r = true).
  { rewrite <- Hsplit, forallb_app in Hb. apply andb_true_iff in Hb. exact Hb. }
  destruct Hall as [Hat Har].
  rewrite <- Hsplit, <- app_assoc.
  destruct r as [|c r']; [cbn [lenN] in Hd; lia|].
  rewrite prefix_spec_intro; [| | exact Hat | lia | left; lia].
  2:{ intros E. rewrite E in Ht. cbn [lenN] in Ht. change v1_maxInteriorLength with 100 in *. lia. }
  cbn [app tok_skipChar]. cbn [forallb] in Har. apply andb_true_iff in Har as [Hc _].
  rewrite nonCR_spec in Hc. destruct (c =? 13); [discriminate|]. reflexivity.
Qed.

(* a complete "PROXY TCP..." line: the outcome is that of One::ParseAddresses on what follows "TCP" *)
Lemma v1_tcp_line ipf t rest :
  forallb nonCR t = true -> lenN t <= 96 ->
  pp_parse ipf (pp_magic1 ++ (32 :: s_TCP ++ t) ++ 13 :: 10 :: rest) =
  match v1_addresses ipf t with
  | inl e => Reject e
  | inr (s, sp, d, dp, lo) =>
      if bt_atEnd lo
      then Ok (header_set_addrs (header_new false pp_cmdProxy) s sp d dp) (lenN pp_magic1 + (lenN (32 :: s_TCP ++ t) + 1 + 1))
      else Reject E1_garbage_after_dst_port
  end.
Proof.
  intros Ht Hlen. rewrite pp_parse_v1. unfold v1_parse. rewrite v1_isolate_ok.
  2:{ discriminate. }
  2:{ cbn [forallb]. replace (nonCR 32) with true by (vm_compute; reflexivity). cbn [andb].
      apply forallb_app'; [vm_compute; reflexivity|exact Ht]. }
  2:{ change v1_maxInteriorLength with 100. repeat (rewrite lenN_app || cbn [lenN]). change (lenN s_TCP) with 3. lia. }
  unfold v1_interior. cbn [tok_skipChar N.eqb Pos.eqb]. rewrite tok_skip_self.
  change (negb (lenN s_TCP =? 0)) with true. cbv iota.
  destruct (v1_addresses ipf t) as [e|[[[[s sp] d] dp] lo]]; [reflexivity|]. destruct (bt_atEnd lo); reflexivity.
Qed.

(* One::ParseAddresses up to the family check *)
Lemma v1_addresses_upto_family ipf fam st dt sa da more :
  famChars fam = true -> st <> [] -> dt <> [] -> forallb ipChars st = true -> forallb ipChars dt = true ->
  ipf st = Some sa -> ipf dt = Some da -> lenN st <= npos -> lenN dt <= npos ->
  v1_addresses ipf (fam :: 32 :: st ++ 32 :: dt ++ 32 :: more) =
  if negb (list_eqb (address_family sa da) [fam]) then inl E1_family_mismatch else
  match v1_extract_port true more with
  | inl e => inl e
  | inr (sp, r5) => match v1_extract_port false r5 with inl e => inl e | inr (dp, r6) => inr (sa, sp, da, dp, r6) end
  end.
Proof.
  intros Hfc Hst Hdt Hsc Hdc Hsa Hda L1 L2. unfold v1_addresses.
  change (fam :: 32 :: st ++ 32 :: dt ++ 32 :: more) with ([fam] ++ 32 :: st ++ 32 :: dt ++ 32 :: more).
  rewrite prefix_spec_intro; [|discriminate|cbn [forallb]; rewrite Hfc; reflexivity|cbn [lenN]; lia|left; reflexivity].
  cbn [tok_skipChar N.eqb Pos.eqb].
  rewrite (extract_ip_ok ipf st sa _ Hst Hsc Hsa L1).
  rewrite (extract_ip_ok ipf dt da _ Hdt Hdc Hda L2). reflexivity.
Qed.

Theorem v1_family_mismatch_rejected ipf fam st dt sa da more rest :
  st <> [] -> dt <> [] -> forallb ipChars st = true -> forallb ipChars dt = true ->
  ipf st = Some sa -> ipf dt = Some da ->
  ((fam = 52 /\ (is_ipv4 sa = false \/ is_ipv4 da = false)) \/ (fam = 54 /\ (is_ipv4 sa = true \/ is_ipv4 da = true))) ->
  forallb nonCR more = true -> lenN (fam :: 32 :: st ++ 32 :: dt ++ 32 :: more) <= 96 ->
  pp_parse ipf (pp_magic1 ++ (32 :: s_TCP ++ fam :: 32 :: st ++ 32 :: dt ++ 32 :: more) ++ 13 :: 10 :: rest)
  = Reject E1_family_mismatch.
Proof.
  intros Hst Hdt Hsc Hdc Hsa Hda Hfam Hm Hlen.
  assert (Hfc : famChars fam = true) by (destruct Hfam as [(-> & _)|(-> & _)]; reflexivity).
  assert (Hfn : nonCR fam = true) by (destruct Hfam as [(-> & _)|(-> & _)]; vm_compute; reflexivity).
  pose proof Hlen as Hlen'. repeat (rewrite lenN_app in Hlen' || cbn [lenN] in Hlen').
  rewrite v1_tcp_line; [| |exact Hlen].
  2:{ cbn [forallb]. rewrite Hfn. replace (nonCR 32) with true by (vm_compute; reflexivity). cbn [andb].
      apply forallb_app'; [apply forallb_ip_nonCR; exact Hsc|]. cbn [forallb].
      replace (nonCR 32) with true by (vm_compute; reflexivity). cbn [andb].
      apply forallb_app'; [apply forallb_ip_nonCR; exact Hdc|]. cbn [forallb].
      replace (nonCR 32) with true by (vm_compute; reflexivity). exact Hm. }
  rewrite (v1_addresses_upto_family ipf fam st dt sa da more Hfc Hst Hdt Hsc Hdc Hsa Hda) by (unfold npos; lia).
  assert (E : list_eqb (address_family sa da) [fam] = false).
  { unfold address_family.
    destruct Hfam as [(-> & [H|H])|(-> & [H|H])]; rewrite H; destruct (is_ipv4 sa), (is_ipv4 da); reflexivity. }
  rewrite E. reflexivity.
Qed.

(* a source or destination port above 65535 (any number of digits, leading zeros included) *)
Theorem v1_big_src_port_rejected ipf fam st dt sa da sps more rest :
  st <> [] -> dt <> [] -> forallb ipChars st = true -> forallb ipChars dt = true ->
  ipf st = Some sa -> ipf dt = Some da -> famChars fam = true ->
  sps <> [] -> Forall is_dec sps -> 65535 < dec_value sps -> stops10 more ->
  forallb nonCR more = true -> lenN (fam :: 32 :: st ++ 32 :: dt ++ 32 :: sps ++ more) <= 96 ->
  exists e, pp_parse ipf (pp_magic1 ++ (32 :: s_TCP ++ fam :: 32 :: st ++ 32 :: dt ++ 32 :: sps ++ more) ++ 13 :: 10 :: rest)
  = Reject e.
Proof.
  intros Hst Hdt Hsc Hdc Hsa Hda Hfc Hs1 Hs2 Hs3 Hstop Hm Hlen.
  assert (Hfn : nonCR fam = true).
  { unfold famChars in Hfc. rewrite nonCR_spec. destruct (fam =? 13) eqn:E; [|reflexivity].
    apply N.eqb_eq in E. subst. discriminate. }
  pose proof Hlen as Hlen'. repeat (rewrite lenN_app in Hlen' || cbn [lenN] in Hlen').
  rewrite v1_tcp_line; [| |exact Hlen].
  2:{ cbn [forallb]. rewrite Hfn. replace (nonCR 32) with true by (vm_compute; reflexivity). cbn [andb].
      apply forallb_app'; [apply forallb_ip_nonCR; exact Hsc|]. cbn [forallb].
      replace (nonCR 32) with true by (vm_compute; reflexivity). cbn [andb].
      apply forallb_app'; [apply forallb_ip_nonCR; exact Hdc|]. cbn [forallb].
      replace (nonCR 32) with true by (vm_compute; reflexivity). cbn [andb].
      apply forallb_app'; [apply forallb_Forall_dec; exact Hs2|exact Hm]. }
  rewrite (v1_addresses_upto_family ipf fam st dt sa da (sps ++ more) Hfc Hst Hdt Hsc Hdc Hsa Hda) by (unfold npos; lia).
  destruct (negb _); [eexists; reflexivity|].
  destruct (extract_port_big true sps more Hs1 Hs2 Hs3 Hstop) as [e He]; [rewrite lenN_app; unfold npos; lia|].
  rewrite He. eexists; reflexivity.
Qed.

Theorem v1_nonnumeric_src_port_rejected ipf fam st dt sa da c more rest :
  st <> [] -> dt <> [] -> forallb ipChars st = true -> forallb ipChars dt = true ->
  ipf st = Some sa -> ipf dt = Some da -> famChars fam = true ->
  digit_of 10 c = None ->
  forallb nonCR (c :: more) = true -> lenN (fam :: 32 :: st ++ 32 :: dt ++ 32 :: c :: more) <= 96 ->
  exists e, pp_parse ipf (pp_magic1 ++ (32 :: s_TCP ++ fam :: 32 :: st ++ 32 :: dt ++ 32 :: c :: more) ++ 13 :: 10 :: rest)
  = Reject e.
Proof.
  intros Hst Hdt Hsc Hdc Hsa Hda Hfc Hc Hm Hlen.
  assert (Hfn : nonCR fam = true).
  { unfold famChars in Hfc. rewrite nonCR_spec. destruct (fam =? 13) eqn:E; [|reflexivity].
    apply N.eqb_eq in E. subst. discriminate. }
  pose proof Hlen as Hlen'. repeat (rewrite lenN_app in Hlen' || cbn [lenN] in Hlen').
  rewrite v1_tcp_line; [| |exact Hlen].
  2:{ cbn [forallb]. rewrite Hfn. replace (nonCR 32) with true by (vm_compute; reflexivity). cbn [andb].
      apply forallb_app'; [apply forallb_ip_nonCR; exact Hsc|]. cbn [forallb].
      replace (nonCR 32) with true by (vm_compute; reflexivity). cbn [andb].
      apply forallb_app'; [apply forallb_ip_nonCR; exact Hdc|]. cbn [forallb].
      replace (nonCR 32) with true by (vm_compute; reflexivity). exact Hm. }
  rewrite (v1_addresses_upto_family ipf fam st dt sa da (c :: more) Hfc Hst Hdt Hsc Hdc Hsa Hda) by (unfold npos; lia).
  destruct (negb _); [eexists; reflexivity|].
  rewrite (extract_port_nondigit true c more Hc). eexists; reflexivity.
Qed.

Theorem v1_big_dst_port_rejected ipf fam st dt sa da sps dps more rest :
  st <> [] -> dt <> [] -> forallb ipChars st = true -> forallb ipChars dt = true ->
  ipf st = Some sa -> ipf dt = Some da -> famChars fam = true ->
  sps <> [] -> Forall is_dec sps -> dec_value sps <= 65535 ->
  dps <> [] -> Forall is_dec dps -> 65535 < dec_value dps -> stops10 more ->
  forallb nonCR more = true -> lenN (fam :: 32 :: st ++ 32 :: dt ++ 32 :: sps ++ 32 :: dps ++ more) <= 96 ->
  exists e, pp_parse ipf (pp_magic1 ++ (32 :: s_TCP ++ fam :: 32 :: st ++ 32 :: dt ++ 32 :: sps ++ 32 :: dps ++ more) ++ 13 :: 10 :: rest)
  = Reject e.
Proof.
  intros Hst Hdt Hsc Hdc Hsa Hda Hfc Hs1 Hs2 Hs3 Hd1 Hd2 Hd3 Hstop Hm Hlen.
  assert (Hfn : nonCR fam = true).
  { unfold famChars in Hfc. rewrite nonCR_spec. destruct (fam =? 13) eqn:E; [|reflexivity].
    apply N.eqb_eq in E. subst. discriminate. }
  pose proof Hlen as Hlen'. repeat (rewrite lenN_app in Hlen' || cbn [lenN] in Hlen').
  rewrite v1_tcp_line; [| |exact Hlen].
  2:{ cbn [forallb]. rewrite Hfn. replace (nonCR 32) with true by (vm_compute; reflexivity). cbn [andb].
      apply forallb_app'; [apply forallb_ip_nonCR; exact Hsc|]. cbn [forallb].
      replace (nonCR 32) with true by (vm_compute; reflexivity). cbn [andb].
      apply forallb_app'; [apply forallb_ip_nonCR; exact Hdc|]. cbn [forallb].
      replace (nonCR 32) with true by (vm_compute; reflexivity). cbn [andb].
      apply forallb_app'; [apply forallb_Forall_dec; exact Hs2|]. cbn [forallb].
      replace (nonCR 32) with true by (vm_compute; reflexivity). cbn [andb].
      apply forallb_app'; [apply forallb_Forall_dec; exact Hd2|exact Hm]. }
  rewrite (v1_addresses_upto_family ipf fam st dt sa da (sps ++ 32 :: dps ++ more) Hfc Hst Hdt Hsc Hdc Hsa Hda) by (unfold npos; lia).
  destruct (negb _); [eexists; reflexivity|].
  rewrite extract_port_sp; try assumption; [|repeat (rewrite lenN_app || cbn [lenN]); unfold npos; lia].
  destruct (extract_port_big false dps more Hd1 Hd2 Hd3 Hstop) as [e He]; [rewrite lenN_app; unfold npos; lia|].
  rewrite He. eexists; reflexivity.
Qed.

(* ================================================================== *)
(* v2: BinaryTokenizer on encoded fields                               *)
Lemma bt_area_app_exact em a b : bt_area em (lenN a) (a ++ b) = BOk a b.
Proof.
  unfold bt_area. rewrite lenN_app. destruct (lenN a + lenN b <? lenN a) eqn:E; [lia|].
  rewrite takeN_app_exact, dropN_app_exact. reflexivity.
Qed.

Lemma bt_uint8_cons em c l : bt_uintN em 1 (c :: l) = BOk c l.
Proof. change (c :: l) with ([c] ++ l). unfold bt_uintN. change 1 with (lenN [c]) at 1. rewrite bt_area_app_exact. cbn. reflexivity. Qed.

Lemma bt_uint16_u16be em n l : n < 65536 -> bt_uintN em 2 (u16be n ++ l) = BOk n l.
Proof.
  intros H. unfold bt_uintN. change 2 with (lenN (u16be n)) at 1. rewrite bt_area_app_exact.
  unfold u16be, be_value. cbn [fold_left]. f_equal. lia.
Qed.

Lemma bt_pstring16_enc em v l : lenN v < 65536 -> bt_pstringN em 2 (u16be (lenN v) ++ v ++ l) = BOk v l.
Proof.
  intros H. unfold bt_pstringN. rewrite bt_uint16_u16be by exact H.
  destruct (lenN v =? 0) eqn:E.
  - apply N.eqb_eq in E. apply lenN_0_nil in E. subst. reflexivity.
  - apply bt_area_app_exact.
Qed.

(* the fixed part of a v2 header *)
Lemma v2_parse_enc cmd fam proto payload rest :
  cmd <= pp_cmdProxy -> fam <= pp_afUnix -> proto <= pp_tpDgram -> lenN payload < 65536 ->
  v2_parse ([2 * 16 + cmd; fam * 16 + proto] ++ u16be (lenN payload) ++ payload ++ rest) = v2_finish cmd fam proto payload.
Proof.
  intros Hc Hf Hp Hl. unfold v2_parse, bt_uint8, bt_pstring16. cbn [app].
  change pp_cmdProxy with 1 in *. change pp_afUnix with 3 in *. change pp_tpDgram with 2 in *.
  rewrite bt_uint8_cons.
  replace ((2 * 16 + cmd) / 16) with 2 by lia. replace ((2 * 16 + cmd) mod 16) with cmd by lia.
  cbn [N.eqb Pos.eqb negb]. destruct (1 <? cmd) eqn:E1; [lia|].
  rewrite bt_uint8_cons.
  replace ((fam * 16 + proto) / 16) with fam by lia. replace ((fam * 16 + proto) mod 16) with proto by lia.
  destruct (3 <? fam) eqn:E2; [lia|]. destruct (2 <? proto) eqn:E3; [lia|].
  rewrite bt_pstring16_enc by exact Hl. reflexivity.
Qed.

Lemma enc_v2_shape cmd fam proto payload rest :
  enc_v2 cmd fam proto payload ++ rest = pp_magic2 ++ ([2 * 16 + cmd; fam * 16 + proto] ++ u16be (lenN payload) ++ payload ++ rest).
Proof. unfold enc_v2. repeat (rewrite <- app_assoc; cbn [app]). reflexivity. Qed.

Lemma enc_v2_len cmd fam proto payload : lenN (enc_v2 cmd fam proto payload) = 16 + lenN payload.
Proof. unfold enc_v2, u16be. repeat (rewrite lenN_app || cbn [lenN]). change (lenN pp_magic2) with 12. lia. Qed.

(* TLV lists *)
Lemma enc_tlvs_length tlvs : (length tlvs <= length (enc_tlvs tlvs))%nat.
Proof.
  induction tlvs as [|t ts IH]; cbn [enc_tlvs map concat length]; [lia|].
  fold (enc_tlvs ts). unfold enc_tlv. cbn [app length]. rewrite app_length. lia.
Qed.

Lemma tlvs_loop_enc tlvs : forall fuel,
  Forall (fun t => lenN (snd t) < 65536) tlvs -> (length tlvs <= fuel)%nat ->
  tlvs_loop fuel (enc_tlvs tlvs) = TOk tlvs.
Proof.
  induction tlvs as [|[ty v] ts IH]; intros fuel Hwf Hf.
  - destruct fuel; reflexivity.
  - inversion Hwf as [|x xs Hv Hts]; subst. cbn [snd] in Hv.
    cbn [enc_tlvs map concat]. fold (enc_tlvs ts). unfold enc_tlv. cbn [fst snd app].
    destruct fuel as [|f]; [cbn [length] in Hf; lia|]. cbn [tlvs_loop bt_atEnd].
    unfold bt_uint8, bt_pstring16. rewrite bt_uint8_cons. rewrite <- app_assoc.
    rewrite bt_pstring16_enc by exact Hv.
    rewrite IH; [reflexivity|exact Hts|cbn [length] in Hf; lia].
Qed.

Lemma parse_tlvs_enc tlvs :
  Forall (fun t => lenN (snd t) < 65536) tlvs -> parse_tlvs (enc_tlvs tlvs) = TOk tlvs.
Proof. intros H. unfold parse_tlvs. apply tlvs_loop_enc; [exact H|]. apply le_S, enc_tlvs_length. Qed.

(* the TLV loop never runs out of fuel *)
Lemma tlvs_loop_fuel : forall fuel d, (length d < fuel)%nat -> tlvs_loop fuel d <> TFuel.
Proof.
  induction fuel as [|f IH]; intros d H; [lia|].
  cbn [tlvs_loop]. destruct (bt_atEnd d); [discriminate|].
  destruct (bt_uint8 false d) as [ty r1| |] eqn:E1; try discriminate.
  destruct (bt_pstring16 false r1) as [v r2| |] eqn:E2; try discriminate.
  apply bt_uintN_len in E1. apply bt_pstringN_len in E2. rewrite !lenN_length in *.
  specialize (IH r2). destruct (tlvs_loop f r2); try discriminate. apply IH. lia.
Qed.

Lemma parse_tlvs_fuel d : parse_tlvs d <> TFuel.
Proof. apply tlvs_loop_fuel. lia. Qed.

(* ================================================================== *)
(* v2 round trips                                                      *)
Lemma bt_uint16_u16be' em n l : n < 65536 -> bt_uint16 em (u16be n ++ l) = BOk n l.
Proof. apply bt_uint16_u16be. Qed.

Lemma v2_addresses_enc a more :
  v2addr_wf a ->
  v2_addresses (v2addr_family a) (enc_v2_addr a ++ more) =
  Some (h_src (v2_expected 0 a []), h_sport (v2_expected 0 a []), h_dst (v2_expected 0 a []), h_dport (v2_expected 0 a []), more).
Proof.
  destruct a as [s d sp dp|s d sp dp|raw]; cbn [v2addr_wf v2addr_family enc_v2_addr v2_expected h_src h_sport h_dst h_dport].
  - intros (Hs & Hd & Hsp & Hdp). unfold v2_addresses. change (pp_afInet =? pp_afInet) with true. cbv iota.
    unfold bt_inet4. change pp_in4_size with 4. rewrite <- Hs at 1. rewrite <- !app_assoc. rewrite bt_area_app_exact.
    rewrite <- Hd at 1. rewrite bt_area_app_exact.
    rewrite bt_uint16_u16be' by exact Hsp. rewrite bt_uint16_u16be' by exact Hdp. reflexivity.
  - intros (Hs & Hd & Hsp & Hdp). unfold v2_addresses. change (pp_afInet6 =? pp_afInet) with false.
    change (pp_afInet6 =? pp_afInet6) with true. cbv iota.
    unfold bt_inet6. change pp_in6_size with 16. rewrite <- Hs at 1. rewrite <- !app_assoc. rewrite bt_area_app_exact.
    rewrite <- Hd at 1. rewrite bt_area_app_exact.
    rewrite bt_uint16_u16be' by exact Hsp. rewrite bt_uint16_u16be' by exact Hdp. reflexivity.
  - intros Hr. unfold v2_addresses. change (pp_afUnix =? pp_afInet) with false.
    change (pp_afUnix =? pp_afInet6) with false. change (pp_afUnix =? pp_afUnix) with true. cbv iota.
    unfold bt_skip. rewrite lenN_app, Hr. destruct (216 + lenN more <? 216) eqn:E; [lia|].
    rewrite <- Hr. rewrite dropN_app_exact. reflexivity.
Qed.

Lemma v2addr_family_bounds a : v2addr_family a <= pp_afUnix /\ (v2addr_family a =? pp_afUnspecified) = false.
Proof. destruct a; split; vm_compute; congruence. Qed.

(* PROXY command: addresses, ports and every TLV come back; consumed = header length *)
Theorem v2_proxy_roundtrip ipf a proto tlvs rest :
  v2addr_wf a -> (proto = pp_tpStream \/ proto = pp_tpDgram) ->
  Forall (fun t => lenN (snd t) < 65536) tlvs ->
  lenN (enc_v2_addr a ++ enc_tlvs tlvs) < 65536 ->
  pp_parse ipf (enc_v2 pp_cmdProxy (v2addr_family a) proto (enc_v2_addr a ++ enc_tlvs tlvs) ++ rest) =
  Ok (v2_expected pp_cmdProxy a tlvs) (lenN (enc_v2 pp_cmdProxy (v2addr_family a) proto (enc_v2_addr a ++ enc_tlvs tlvs))).
Proof.
  intros Hwf Hp Htl Hlen. destruct (v2addr_family_bounds a) as [Hf1 Hf2].
  rewrite enc_v2_shape, pp_parse_v2, enc_v2_len.
  rewrite v2_parse_enc; [|vm_compute; congruence|exact Hf1|destruct Hp as [->| ->]; vm_compute; congruence|exact Hlen].
  unfold v2_finish. rewrite Hf2.
  replace (proto =? pp_tpUnspecified) with false by (destruct Hp as [->| ->]; reflexivity). cbn [orb].
  rewrite (v2_addresses_enc a _ Hwf).
  change (has_forwarded_addresses _) with true. cbv iota.
  rewrite (parse_tlvs_enc tlvs Htl). cbn [add_size]. change (lenN pp_magic2) with 12.
  f_equal; [destruct a; reflexivity|lia].
Qed.

(* LOCAL command: the address block is read, whatever follows it inside the header is discarded *)
Theorem v2_local_roundtrip ipf a proto extra rest :
  v2addr_wf a -> (proto = pp_tpStream \/ proto = pp_tpDgram) ->
  lenN (enc_v2_addr a ++ extra) < 65536 ->
  pp_parse ipf (enc_v2 pp_cmdLocal (v2addr_family a) proto (enc_v2_addr a ++ extra) ++ rest) =
  Ok (v2_expected pp_cmdLocal a []) (lenN (enc_v2 pp_cmdLocal (v2addr_family a) proto (enc_v2_addr a ++ extra))).
Proof.
  intros Hwf Hp Hlen. destruct (v2addr_family_bounds a) as [Hf1 Hf2].
  rewrite enc_v2_shape, pp_parse_v2, enc_v2_len.
  rewrite v2_parse_enc; [|vm_compute; congruence|exact Hf1|destruct Hp as [->| ->]; vm_compute; congruence|exact Hlen].
  unfold v2_finish. rewrite Hf2.
  replace (proto =? pp_tpUnspecified) with false by (destruct Hp as [->| ->]; reflexivity). cbn [orb].
  rewrite (v2_addresses_enc a _ Hwf).
  change (has_forwarded_addresses _) with false. cbv iota.
  cbn [add_size]. change (lenN pp_magic2) with 12.
  f_equal; [destruct a; reflexivity|lia].
Qed.

(* unspecified family or protocol: the block is skipped as a whole and no address is reported *)
Theorem v2_unspec_roundtrip ipf cmd fam proto payload rest :
  cmd <= pp_cmdProxy -> fam <= pp_afUnix -> proto <= pp_tpDgram ->
  (fam = pp_afUnspecified \/ proto = pp_tpUnspecified) -> lenN payload < 65536 ->
  pp_parse ipf (enc_v2 cmd fam proto payload ++ rest) =
  Ok {| h_v2 := true; h_cmd := cmd; h_ignore := true;
        h_src := addr_empty; h_sport := 0; h_dst := addr_empty; h_dport := 0; h_tlvs := [] |}
     (lenN (enc_v2 cmd fam proto payload)).
Proof.
  intros Hc Hf Hp Hu Hlen. rewrite enc_v2_shape, pp_parse_v2, enc_v2_len.
  rewrite v2_parse_enc by assumption. unfold v2_finish.
  replace ((proto =? pp_tpUnspecified) || (fam =? pp_afUnspecified)) with true
    by (destruct Hu as [->| ->]; [rewrite orb_true_r|]; reflexivity).
  cbn [add_size]. change (lenN pp_magic2) with 12. unfold header_ignore, header_new. cbn [h_v2 h_cmd h_ignore h_src h_sport h_dst h_dport h_tlvs]. f_equal. lia.
Qed.

(* ================================================================== *)
(* v2 rejection list                                                   *)
Theorem v2_bad_version_rejected ipf vc rest : vc / 16 <> 2 ->
  pp_parse ipf (pp_magic2 ++ vc :: rest) = Reject (E2_version (vc / 16)).
Proof.
  intros H. rewrite pp_parse_v2. unfold v2_parse, bt_uint8. rewrite bt_uint8_cons.
  destruct (vc / 16 =? 2) eqn:E; [lia|]. reflexivity.
Qed.

Theorem v2_bad_command_rejected ipf vc rest : vc / 16 = 2 -> pp_cmdProxy < vc mod 16 ->
  pp_parse ipf (pp_magic2 ++ vc :: rest) = Reject (E2_command (vc mod 16)).
Proof.
  intros H1 H2. rewrite pp_parse_v2. unfold v2_parse, bt_uint8. rewrite bt_uint8_cons.
  rewrite H1. cbn [N.eqb Pos.eqb negb]. destruct (pp_cmdProxy <? vc mod 16) eqn:E; [|lia]. reflexivity.
Qed.

Theorem v2_bad_family_rejected ipf vc fp rest : vc / 16 = 2 -> vc mod 16 <= pp_cmdProxy -> pp_afUnix < fp / 16 ->
  pp_parse ipf (pp_magic2 ++ vc :: fp :: rest) = Reject (E2_family (fp / 16)).
Proof.
  intros H1 H2 H3. rewrite pp_parse_v2. unfold v2_parse, bt_uint8. rewrite !bt_uint8_cons.
  rewrite H1. cbn [N.eqb Pos.eqb negb]. destruct (pp_cmdProxy <? vc mod 16) eqn:E; [lia|].
  destruct (pp_afUnix <? fp / 16) eqn:E2; [|lia]. reflexivity.
Qed.

Theorem v2_bad_proto_rejected ipf vc fp rest :
  vc / 16 = 2 -> vc mod 16 <= pp_cmdProxy -> fp / 16 <= pp_afUnix -> pp_tpDgram < fp mod 16 ->
  pp_parse ipf (pp_magic2 ++ vc :: fp :: rest) = Reject (E2_proto (fp mod 16)).
Proof.
  intros H1 H2 H3 H4. rewrite pp_parse_v2. unfold v2_parse, bt_uint8. rewrite !bt_uint8_cons.
  rewrite H1. cbn [N.eqb Pos.eqb negb]. destruct (pp_cmdProxy <? vc mod 16) eqn:E; [lia|].
  destruct (pp_afUnix <? fp / 16) eqn:E2; [lia|]. destruct (pp_tpDgram <? fp mod 16) eqn:E3; [|lia]. reflexivity.
Qed.

(* the declared length is too small for the address block of the declared family *)
Definition v2_block_size (fam : N) : N :=
  if fam =? pp_afInet then 12 else if fam =? pp_afInet6 then 36 else 216.

Lemma v2_addresses_short fam raw :
  (fam = pp_afInet \/ fam = pp_afInet6 \/ fam = pp_afUnix) -> lenN raw < v2_block_size fam -> v2_addresses fam raw = None.
Proof.
  intros Hf Hl. unfold v2_addresses, v2_block_size in *.
  assert (A : forall n d v r, bt_area false n d = BOk v r -> lenN d = n + lenN r) by (intros n d v r H; apply bt_area_len in H; lia).
  destruct Hf as [->|[->| ->]].
  - change (pp_afInet =? pp_afInet) with true in *. cbv iota in *.
    unfold bt_inet4, bt_uint16. change pp_in4_size with 4.
    destruct (bt_area false 4 raw) as [v1 r1| |] eqn:E1; try reflexivity.
    destruct (bt_area false 4 r1) as [v2 r2| |] eqn:E2; try reflexivity.
    destruct (bt_uintN false 2 r2) as [v3 r3| |] eqn:E3; try reflexivity.
    destruct (bt_uintN false 2 r3) as [v4 r4| |] eqn:E4; try reflexivity.
    apply A in E1. apply A in E2. apply bt_uintN_len in E3. apply bt_uintN_len in E4. lia.
  - change (pp_afInet6 =? pp_afInet) with false in *. change (pp_afInet6 =? pp_afInet6) with true in *. cbv iota in *.
    unfold bt_inet6, bt_uint16. change pp_in6_size with 16.
    destruct (bt_area false 16 raw) as [v1 r1| |] eqn:E1; try reflexivity.
    destruct (bt_area false 16 r1) as [v2 r2| |] eqn:E2; try reflexivity.
    destruct (bt_uintN false 2 r2) as [v3 r3| |] eqn:E3; try reflexivity.
    destruct (bt_uintN false 2 r3) as [v4 r4| |] eqn:E4; try reflexivity.
    apply A in E1. apply A in E2. apply bt_uintN_len in E3. apply bt_uintN_len in E4. lia.
  - change (pp_afUnix =? pp_afInet) with false in *. change (pp_afUnix =? pp_afInet6) with false in *.
    change (pp_afUnix =? pp_afUnix) with true. cbv iota in *.
    unfold bt_skip. destruct (lenN raw <? 216) eqn:E; [reflexivity|lia].
Qed.

Theorem v2_short_address_block_rejected ipf cmd fam proto payload rest :
  cmd <= pp_cmdProxy -> (fam = pp_afInet \/ fam = pp_afInet6 \/ fam = pp_afUnix) ->
  (proto = pp_tpStream \/ proto = pp_tpDgram) -> lenN payload < v2_block_size fam ->
  pp_parse ipf (enc_v2 cmd fam proto payload ++ rest) = Reject E_must.
Proof.
  intros Hc Hf Hp Hl. rewrite enc_v2_shape, pp_parse_v2.
  rewrite v2_parse_enc; [|exact Hc|destruct Hf as [->|[->| ->]]; vm_compute; congruence|destruct Hp as [->| ->]; vm_compute; congruence|].
  2:{ unfold v2_block_size in Hl. destruct (fam =? pp_afInet); [lia|]. destruct (fam =? pp_afInet6); lia. }
  unfold v2_finish.
  replace (proto =? pp_tpUnspecified) with false by (destruct Hp as [->| ->]; reflexivity).
  replace (fam =? pp_afUnspecified) with false by (destruct Hf as [->|[->| ->]]; reflexivity). cbn [orb].
  rewrite (v2_addresses_short fam payload Hf Hl). reflexivity.
Qed.

(* ================================================================== *)
(* neither magic                                                       *)
Theorem invalid_magic_rejected ipf b :
  starts_with b pp_magic1 = false -> starts_with b pp_magic2 = false -> lenN pp_magic2 <= lenN b ->
  pp_parse ipf b = Reject E_magic.
Proof.
  intros H1 H2 Hl. unfold pp_parse, tok_skip. rewrite H2, H1.
  destruct (lenN pp_magic2 <=? lenN b) eqn:E; [reflexivity|lia].
Qed.

(* ================================================================== *)
(* the consumed size lies within the input that produced the header    *)
Lemma v2_finish_size c f p raw h n : v2_finish c f p raw = Ok h n -> n = 1 + 1 + (2 + lenN raw).
Proof.
  unfold v2_finish. destruct ((p =? pp_tpUnspecified) || (f =? pp_afUnspecified)); [intros H; inversion H; subst; reflexivity|].
  destruct (v2_addresses f raw) as [[[[[s sp] d] dp] lo]|]; [|discriminate].
  destruct (has_forwarded_addresses _); [|intros H; inversion H; subst; reflexivity].
  destruct (parse_tlvs lo); try discriminate. intros H; inversion H; subst; reflexivity.
Qed.

Lemma v2_ok_size d h n : v2_parse d = Ok h n -> n <= lenN d.
Proof.
  unfold v2_parse, bt_uint8, bt_pstring16.
  destruct (bt_uintN true 1 d) as [vc r1| |] eqn:E1; try discriminate.
  destruct (negb (vc / 16 =? 2)); [discriminate|].
  destruct (pp_cmdProxy <? vc mod 16); [discriminate|].
  destruct (bt_uintN true 1 r1) as [fp r2| |] eqn:E2; try discriminate.
  destruct (pp_afUnix <? fp / 16); [discriminate|].
  destruct (pp_tpDgram <? fp mod 16); [discriminate|].
  destruct (bt_pstringN true 2 r2) as [raw r3| |] eqn:E3; try discriminate.
  intros H. apply v2_finish_size in H. apply bt_uintN_len in E1. apply bt_uintN_len in E2. apply bt_pstringN_len in E3. lia.
Qed.

Lemma v1_isolate_size buf i m : v1_isolate buf = IsoOk i m -> m <= lenN buf.
Proof.
  unfold v1_isolate.
  destruct (tok_prefix nonCR v1_maxInteriorLength buf) as [[t r1]|] eqn:P.
  - apply tok_prefix_sound in P as (Hb & _). subst buf.
    destruct r1 as [|c1 r1]; [cbn; discriminate|]. cbn [tok_skipChar]. destruct (c1 =? 13); [|cbn; discriminate].
    destruct r1 as [|c2 r2]; [cbn; discriminate|]. cbn [tok_skipChar]. destruct (c2 =? 10); [|cbn; discriminate].
    intros H; inversion H; subst. rewrite lenN_app. cbn [lenN]. lia.
  - destruct (bt_atEnd buf); discriminate.
Qed.

Lemma v1_interior_size ipf i m h n : v1_interior ipf i m = Ok h n -> n = m.
Proof.
  unfold v1_interior. destruct (tok_skipChar 32 i) as [[|] t1]; [|discriminate].
  destruct (tok_skip s_TCP t1) as [[|] t2].
  - destruct (v1_addresses ipf t2) as [e|[[[[s sp] d] dp] lo]]; [discriminate|]. destruct (bt_atEnd lo); [|discriminate].
    intros H; inversion H; subst; reflexivity.
  - destruct (tok_skip s_UNKNOWN t1) as [[|] t3]; [|discriminate]. intros H; inversion H; subst; reflexivity.
Qed.

Lemma add_size_ok k o h n : add_size k o = Ok h n -> exists n', o = Ok h n' /\ n = k + n'.
Proof. destruct o; cbn [add_size]; try discriminate. intros H; inversion H; subst. eexists; split; reflexivity. Qed.

Theorem pp_ok_size_le ipf b h n : pp_parse ipf b = Ok h n -> n <= lenN b.
Proof.
  unfold pp_parse, tok_skip.
  destruct (starts_with b pp_magic2) eqn:S2.
  - rewrite magic2_nonempty. cbn [negb]. intros H. apply add_size_ok in H as (n' & H & ->).
    apply v2_ok_size in H. rewrite lenN_dropN in H. apply starts_with_len in S2. lia.
  - destruct (starts_with b pp_magic1) eqn:S1.
    + rewrite magic1_nonempty. cbn [negb]. intros H. apply add_size_ok in H as (n' & H & ->).
      unfold v1_parse in H. destruct (v1_isolate (dropN (lenN pp_magic1) b)) as [i m| |] eqn:I; try discriminate.
      apply v1_interior_size in H. subst n'. apply v1_isolate_size in I. rewrite lenN_dropN in I.
      apply starts_with_len in S1. lia.
    + destruct (lenN pp_magic2 <=? lenN b); discriminate.
Qed.

(* the out-of-fuel artefact of the TLV loop is unreachable *)
Theorem pp_never_out_of_fuel ipf b : pp_parse ipf b <> Reject E_fuel.
Proof.
  assert (A : forall k o, add_size k o = Reject E_fuel -> o = Reject E_fuel) by (intros k [h n| |e]; cbn; congruence).
  unfold pp_parse, tok_skip. destruct (starts_with b pp_magic2).
  - rewrite magic2_nonempty. cbn [negb]. intros H. apply A in H. revert H.
    unfold v2_parse. destruct (bt_uint8 true _) as [vc r1| |]; try discriminate.
    destruct (negb _); [discriminate|]. destruct (pp_cmdProxy <? _); [discriminate|].
    destruct (bt_uint8 true r1) as [fp r2| |]; try discriminate.
    destruct (pp_afUnix <? _); [discriminate|]. destruct (pp_tpDgram <? _); [discriminate|].
    destruct (bt_pstring16 true r2) as [raw r3| |]; try discriminate.
    unfold v2_finish. destruct (_ || _); [discriminate|].
    destruct (v2_addresses _ raw) as [[[[[s sp] d] dp] lo]|]; [|discriminate].
    destruct (has_forwarded_addresses _); [|discriminate].
    pose proof (parse_tlvs_fuel lo). destruct (parse_tlvs lo); try discriminate. congruence.
  - destruct (starts_with b pp_magic1).
    + rewrite magic1_nonempty. cbn [negb]. intros H. apply A in H. revert H.
      unfold v1_parse. destruct (v1_isolate _) as [i m| |]; try discriminate.
      unfold v1_interior. destruct (tok_skipChar 32 i) as [[|] t1]; [|discriminate].
      destruct (tok_skip s_TCP t1) as [[|] t2].
      * destruct (v1_addresses ipf t2) as [e|[[[[s sp] d] dp] lo]] eqn:V; [|destruct (bt_atEnd lo); discriminate].
        intros Q0; inversion Q0; subst e. clear Q0. revert V. unfold v1_addresses.
        destruct (tok_prefix famChars 1 t2) as [[fam r1]|]; [|discriminate].
        destruct (tok_skipChar 32 r1) as [[|] r2]; [|discriminate].
        assert (IPX : forall t e, v1_extract_ip ipf t = inl e -> e <> E_fuel).
        { intros t e. unfold v1_extract_ip. destruct (tok_prefix ipChars npos t) as [[ip q]|]; [|intros Q; inversion Q; discriminate].
          destruct (tok_skipChar 32 q) as [[|] q2]; [|intros Q; inversion Q; discriminate].
          destruct (ipf ip); intros Q; inversion Q; discriminate. }
        assert (PX : forall ts t e, v1_extract_port ts t = inl e -> e <> E_fuel).
        { intros ts t e. unfold v1_extract_port. destruct (tok_int64 10 false npos t) as [[port k]|]; [|intros Q; inversion Q; discriminate].
          destruct (if ts then _ else _) as [[|] q2]; [|intros Q; inversion Q; discriminate].
          destruct (port >? 65535)%Z; intros Q; inversion Q; discriminate. }
        destruct (v1_extract_ip ipf r2) as [e|[src r3]] eqn:X1; [intros Q; inversion Q; subst; exact (IPX _ _ X1 eq_refl)|].
        destruct (v1_extract_ip ipf r3) as [e|[dst r4]] eqn:X2; [intros Q; inversion Q; subst; exact (IPX _ _ X2 eq_refl)|].
        destruct (negb _); [discriminate|].
        destruct (v1_extract_port true r4) as [e|[sp r5]] eqn:X3; [intros Q; inversion Q; subst; exact (PX _ _ _ X3 eq_refl)|].
        destruct (v1_extract_port false r5) as [e|[dp r6]] eqn:X4; [intros Q; inversion Q; subst; exact (PX _ _ _ X4 eq_refl)|].
        discriminate.
      * destruct (tok_skip s_UNKNOWN t1) as [[|] t3]; discriminate.
    + destruct (lenN pp_magic2 <=? lenN b); discriminate.
Qed.

(* ================================================================== *)
(* the first sentence, in the words of the property                    *)
Theorem pp_prefix_consistent ipf p x :
  pp_parse ipf p = More \/ pp_parse ipf p = pp_parse ipf (p ++ x).
Proof.
  destruct (pp_parse ipf p) as [h n| |e] eqn:E; [right|left; reflexivity|right]; symmetry.
  - apply pp_ok_stable; exact E.
  - apply pp_reject_stable; exact E.
Qed.

Lemma inits_spec l p : In p (inits l) -> exists x, l = p ++ x.
Proof.
  revert p; induction l as [|a l IH]; intros p H; cbn [inits] in H.
  - destruct H as [<-|[]]. exists []. reflexivity.
  - destruct H as [<-|H]; [exists (a :: l); reflexivity|].
    apply in_map_iff in H as (q & <- & Hq). destruct (IH q Hq) as (x & ->). exists x. reflexivity.
Qed.

Theorem pp_all_prefixes_consistent ipf full o :
  In o (pp_parse_prefixes ipf full) -> o = More \/ o = pp_parse ipf full.
Proof.
  unfold pp_parse_prefixes. intros H. apply in_map_iff in H as (p & <- & Hp).
  destruct (inits_spec _ _ Hp) as (x & ->). apply pp_prefix_consistent.
Qed.

(* ================================================================== *)
(* bytes after the digits of the destination port: rejected (since the repair of One::Parse) *)
Theorem v1_trailing_bytes_rejected ipf fam st dt sa da sps dps junk rest :
  st <> [] -> dt <> [] -> forallb ipChars st = true -> forallb ipChars dt = true ->
  ipf st = Some sa -> ipf dt = Some da -> famChars fam = true ->
  sps <> [] -> Forall is_dec sps -> dps <> [] -> Forall is_dec dps ->
  junk <> [] -> stops10 junk -> forallb nonCR junk = true ->
  lenN (fam :: 32 :: st ++ 32 :: dt ++ 32 :: sps ++ 32 :: dps ++ junk) <= 96 ->
  exists e,
  pp_parse ipf (pp_magic1 ++ (32 :: s_TCP ++ fam :: 32 :: st ++ 32 :: dt ++ 32 :: sps ++ 32 :: dps ++ junk) ++ 13 :: 10 :: rest)
  = Reject e.
Proof.
  intros Hst Hdt Hsc Hdc Hsa Hda Hfc Hs1 Hs2 Hd1 Hd2 Hjn Hstop Hj Hlen.
  assert (Hfn : nonCR fam = true).
  { unfold famChars in Hfc. rewrite nonCR_spec. destruct (fam =? 13) eqn:E; [|reflexivity].
    apply N.eqb_eq in E. subst. discriminate. }
  pose proof Hlen as Hlen'. repeat (rewrite lenN_app in Hlen' || cbn [lenN] in Hlen').
  rewrite v1_tcp_line; [| |exact Hlen].
  2:{ cbn [forallb]. rewrite Hfn. replace (nonCR 32) with true by (vm_compute; reflexivity). cbn [andb].
      apply forallb_app'; [apply forallb_ip_nonCR; exact Hsc|]. cbn [forallb].
      replace (nonCR 32) with true by (vm_compute; reflexivity). cbn [andb].
      apply forallb_app'; [apply forallb_ip_nonCR; exact Hdc|]. cbn [forallb].
      replace (nonCR 32) with true by (vm_compute; reflexivity). cbn [andb].
      apply forallb_app'; [apply forallb_Forall_dec; exact Hs2|]. cbn [forallb].
      replace (nonCR 32) with true by (vm_compute; reflexivity). cbn [andb].
      apply forallb_app'; [apply forallb_Forall_dec; exact Hd2|exact Hj]. }
  rewrite (v1_addresses_upto_family ipf fam st dt sa da (sps ++ 32 :: dps ++ junk) Hfc Hst Hdt Hsc Hdc Hsa Hda) by (unfold npos; lia).
  destruct (negb _); [eexists; reflexivity|].
  destruct (N.leb_spec (dec_value sps) 65535) as [Hs3|Hs3].
  2:{ destruct (extract_port_big true sps (32 :: dps ++ junk) Hs1 Hs2 Hs3 (stops10_sp _)) as [e He];
        [repeat (rewrite lenN_app || cbn [lenN]); unfold npos; lia|]. rewrite He. eexists; reflexivity. }
  rewrite extract_port_sp; try assumption; [|repeat (rewrite lenN_app || cbn [lenN]); unfold npos; lia].
  destruct (N.leb_spec (dec_value dps) 65535) as [Hd3|Hd3].
  2:{ destruct (extract_port_big false dps junk Hd1 Hd2 Hd3 Hstop) as [e He]; [rewrite lenN_app; unfold npos; lia|].
      rewrite He. eexists; reflexivity. }
  rewrite extract_port_last; try assumption; [|rewrite lenN_app; unfold npos; lia].
  destruct junk as [|j junk']; [congruence|]. cbn [bt_atEnd]. eexists; reflexivity.
Qed.

Definition b_1111 : bytes := [49;46;49;46;49;46;49].                      (* "1.1.1.1" *)
Definition a_1111 : ipaddr := v4_prefix ++ [1;1;1;1].
Definition b_mapped : bytes := [58;58;102;102;102;102;58;49;46;49;46;49;46;49].   (* "::ffff:1.1.1.1" *)
Definition b_v6 : bytes := [58;58;49].                                    (* "::1" *)
Definition a_v6 : ipaddr := [0;0;0;0;0;0;0;0;0;0;0;0;0;0;0;1].
(* "PROXY TCP4 1.1.1.1 1.1.1.1 1 2xyz\r\n" *)
Definition line_trailing : bytes :=
  pp_magic1 ++ (32 :: s_TCP ++ 52 :: 32 :: b_1111 ++ 32 :: b_1111 ++ 32 :: [49] ++ 32 :: [50] ++ [120;121;122]) ++ 13 :: 10 :: [].
(* "PROXY TCP6 ::ffff:1.1.1.1 ::1 1 2\r\n" *)
Definition line_mapped : bytes :=
  pp_magic1 ++ (32 :: s_TCP ++ 54 :: 32 :: b_mapped ++ 32 :: b_v6 ++ 32 :: [49;32;50]) ++ 13 :: 10 :: [].

Theorem v1_bytes_after_dst_port_rejected ipf :
  ipf b_1111 = Some a_1111 ->
  forall rest, pp_parse ipf (line_trailing ++ rest) = Reject E1_garbage_after_dst_port.
Proof.
  intros H rest.
  change (line_trailing ++ rest) with
    (pp_magic1 ++ (32 :: s_TCP ++ 52 :: 32 :: b_1111 ++ 32 :: b_1111 ++ 32 :: [49] ++ 32 :: [50] ++ [120;121;122]) ++ 13 :: 10 :: rest).
  rewrite v1_tcp_line; [|vm_compute; reflexivity|vm_compute; discriminate].
  rewrite (v1_addresses_upto_family ipf 52 b_1111 b_1111 a_1111 a_1111 ([49] ++ 32 :: [50] ++ [120;121;122]));
    try assumption; try discriminate; try reflexivity.
Qed.

Theorem v1_tcp6_v4mapped_refuted ipf :
  ipf b_mapped = Some a_1111 -> ipf b_v6 = Some a_v6 ->
  pp_parse ipf line_mapped = Reject E1_family_mismatch.
Proof.
  intros H1 H2. unfold line_mapped.
  apply (v1_family_mismatch_rejected ipf 54 b_mapped b_v6 a_1111 a_v6 [49;32;50] []);
    try assumption; try discriminate; try reflexivity.
  right. split; [reflexivity|left; reflexivity].
Qed.

(* ================================================================== *)
(* canonical decimal text of a port                                    *)
Definition dec_ok (p : N) : bool :=
  negb (lenN (dec p) =? 0) && forallb (fun c => (48 <=? c) && (c <=? 57)) (dec p) && (dec_value (dec p) =? p).

Lemma dec_ok_all : forallb (fun hi => forallb (fun lo => dec_ok (hi * 256 + lo)) all_bytes) all_bytes = true.
Proof. vm_compute. reflexivity. Qed.

Lemma dec_canonical p : p < 65536 -> dec p <> [] /\ Forall is_dec (dec p) /\ dec_value (dec p) = p.
Proof.
  intros H. assert (Hhi : p / 256 < 256) by lia. assert (Hlo : p mod 256 < 256) by lia.
  pose proof (forallb_bytes _ dec_ok_all _ Hhi) as A. cbv beta in A.
  pose proof (forallb_bytes _ A _ Hlo) as B. cbv beta in B.
  replace (p / 256 * 256 + p mod 256) with p in B by lia.
  unfold dec_ok in B. apply andb_true_iff in B as [B B3]. apply andb_true_iff in B as [B1 B2].
  split; [|split].
  - intros E. rewrite E in B1. discriminate.
  - clear B1 B3. induction (dec p) as [|c l IH]; [constructor|]. cbn [forallb] in B2.
    apply andb_true_iff in B2 as [Hc Hl]. constructor; [unfold is_dec; lia|exact (IH Hl)].
  - apply N.eqb_eq. exact B3.
Qed.

Corollary v1_tcp_roundtrip_numeric ipf fam st dt sa da sp dp rest :
  st <> [] -> dt <> [] -> forallb ipChars st = true -> forallb ipChars dt = true ->
  ipf st = Some sa -> ipf dt = Some da ->
  ((fam = 52 /\ is_ipv4 sa = true /\ is_ipv4 da = true) \/ (fam = 54 /\ is_ipv4 sa = false /\ is_ipv4 da = false)) ->
  sp < 65536 -> dp < 65536 ->
  lenN (enc_v1_tcp fam st dt (dec sp) (dec dp)) <= v1_maxHeaderLength ->
  pp_parse ipf (enc_v1_tcp fam st dt (dec sp) (dec dp) ++ rest) =
  Ok {| h_v2 := false; h_cmd := pp_cmdProxy; h_ignore := false;
        h_src := sa; h_sport := sp; h_dst := da; h_dport := dp; h_tlvs := [] |}
     (lenN (enc_v1_tcp fam st dt (dec sp) (dec dp))).
Proof.
  intros Hst Hdt Hsc Hdc Hsa Hda Hfam Hsp Hdp Hlen.
  destruct (dec_canonical sp Hsp) as (S1 & S2 & S3). destruct (dec_canonical dp Hdp) as (D1 & D2 & D3).
  rewrite (v1_tcp_roundtrip ipf fam st dt sa da (dec sp) (dec dp) rest); try assumption; try lia.
  rewrite S3, D3. reflexivity.
Qed.

(* ================================================================== *)
(* converse direction: what One::Parse accepts as a TCP line IS well-formed *)
Lemma skipChar_inv c buf r : tok_skipChar c buf = (true, r) -> buf = c :: r.
Proof.
  destruct buf as [|y b]; cbn [tok_skipChar]; [discriminate|].
  destruct (y =? c) eqn:E; [|discriminate]. intros H; inversion H; subst. apply N.eqb_eq in E. subst. reflexivity.
Qed.

Lemma starts_with_split l p : starts_with l p = true -> l = p ++ dropN (lenN p) l.
Proof.
  revert l; induction p as [|y p IH]; intros l H; [cbn [lenN app]; rewrite dropN_0; reflexivity|].
  destruct l as [|a l]; cbn [starts_with] in H; [discriminate|].
  apply andb_true_iff in H as [H1 H2]. apply N.eqb_eq in H1. subst a.
  cbn [lenN app dropN]. destruct (N.succ (lenN p) =? 0) eqn:E; [lia|]. rewrite N.pred_succ. f_equal. apply IH, H2.
Qed.

Lemma tok_skip_inv p buf r : tok_skip p buf = (true, r) -> buf = p ++ r.
Proof.
  unfold tok_skip. destruct (starts_with buf p) eqn:S; [|discriminate].
  intros H; inversion H; subst. apply starts_with_split, S.
Qed.

Lemma digit_of_nondigit c : is_digit c = false -> digit_of 10 c = None.
Proof.
  unfold digit_of, digit_raw. intros ->.
  destruct (is_upper c) eqn:U.
  - unfold is_upper in U. destruct (Z.of_N c - 55 >=? 10)%Z eqn:E; [reflexivity|lia].
  - destruct (is_lower c) eqn:L; [|reflexivity].
    unfold is_lower in L. destruct (Z.of_N c - 87 >=? 10)%Z eqn:E; [reflexivity|lia].
Qed.

Lemma digit_split t : exists ds r, t = ds ++ r /\ Forall is_dec ds /\ stops10 r.
Proof.
  exists (fst (span is_digit t)), (snd (span is_digit t)).
  split; [symmetry; apply span_app|]. split.
  - pose proof (span_all is_digit t) as H. induction (fst (span is_digit t)) as [|c l IH]; [constructor|].
    cbn [forallb] in H. apply andb_true_iff in H as [Hc Hl]. constructor; [unfold is_digit in Hc; unfold is_dec; lia|exact (IH Hl)].
  - pose proof (span_stop is_digit t) as H. destruct (snd (span is_digit t)) as [|y r]; [exact I|].
    cbn [stops10]. apply digit_of_nondigit, H.
Qed.

Lemma tok_int64_inv t v k :
  lenN t <= npos -> tok_int64 10 false npos t = Some (v, k) ->
  exists ds r, t = ds ++ r /\ ds <> [] /\ Forall is_dec ds /\ stops10 r /\ v = Z.of_N (dec_value ds) /\ k = lenN ds.
Proof.
  intros Hl H. destruct (digit_split t) as (ds & r & -> & Hd & Hs).
  unfold tok_int64 in H. rewrite int64_front_base10 in H.
  destruct ds as [|c ds].
  - cbn [app] in *. destruct r as [|y r]; [discriminate|]. change (npos =? 0) with false in H. cbv iota in H.
    rewrite takeN_all in H by exact Hl. rewrite int64_core_nondigit in H by exact Hs. discriminate.
  - change ((c :: ds) ++ r) with (c :: ds ++ r) in H. change (npos =? 0) with false in H. cbv iota in H.
    change (c :: ds ++ r) with ((c :: ds) ++ r) in H. rewrite takeN_all in H by exact Hl.
    assert (Hne : c :: ds <> []) by discriminate.
    destruct (int64_core_dich (c :: ds) r 0 Hne Hd Hs) as [E|E]; rewrite E in H; [discriminate|].
    inversion H; subst. exists (c :: ds), r. repeat split; try assumption; try lia.
Qed.

Lemma extract_port_inv ts t p r2 :
  lenN t <= npos -> v1_extract_port ts t = inr (p, r2) ->
  exists ds, t = ds ++ (if ts then 32 :: r2 else r2) /\ ds <> [] /\ Forall is_dec ds /\
             p = dec_value ds /\ p <= 65535 /\ (if ts then True else stops10 r2).
Proof.
  intros Hl. unfold v1_extract_port.
  destruct (tok_int64 10 false npos t) as [[port k]|] eqn:E; [|discriminate].
  destruct (tok_int64_inv t port k Hl E) as (ds & r & -> & Hne & Hd & Hs & -> & ->).
  rewrite dropN_app_exact.
  destruct ts.
  - destruct (tok_skipChar 32 r) as [[|] q] eqn:S; [|discriminate]. apply skipChar_inv in S. subst r.
    destruct (Z.of_N (dec_value ds) >? 65535)%Z eqn:G; [discriminate|]. intros H; inversion H; subst.
    exists ds. rewrite Z.mod_small by lia. rewrite N2Z.id. repeat split; try assumption. lia.
  - destruct (Z.of_N (dec_value ds) >? 65535)%Z eqn:G; [discriminate|]. intros H; inversion H; subst.
    exists ds. rewrite Z.mod_small by lia. rewrite N2Z.id. repeat split; try assumption. lia.
Qed.

Lemma extract_ip_inv ipf t a r2 :
  v1_extract_ip ipf t = inr (a, r2) ->
  exists ip, t = ip ++ 32 :: r2 /\ ip <> [] /\ forallb ipChars ip = true /\ ipf ip = Some a.
Proof.
  unfold v1_extract_ip. destruct (tok_prefix ipChars npos t) as [[ip r1]|] eqn:P; [|discriminate].
  apply tok_prefix_sound in P as (Ht & Hne & Hall & _).
  destruct (tok_skipChar 32 r1) as [[|] q] eqn:S; [|discriminate]. apply skipChar_inv in S. subst r1.
  destruct (ipf ip) as [a'|] eqn:I; [|discriminate]. intros H; inversion H; subst.
  exists ip. repeat split; assumption.
Qed.

Lemma list_eqb_eq a b : list_eqb a b = true -> a = b.
Proof.
  revert b; induction a as [|x a IH]; intros [|y b]; cbn [list_eqb]; try discriminate; [reflexivity|].
  intros H. apply andb_true_iff in H as [H1 H2]. apply N.eqb_eq in H1. subst. f_equal. apply IH, H2.
Qed.

Lemma v1_addresses_inv ipf t s sp d dp lo :
  lenN t <= npos -> v1_addresses ipf t = inr (s, sp, d, dp, lo) ->
  exists fam st dt sps dps,
    t = fam :: 32 :: st ++ 32 :: dt ++ 32 :: sps ++ 32 :: dps ++ lo /\
    famChars fam = true /\ address_family s d = [fam] /\
    st <> [] /\ forallb ipChars st = true /\ ipf st = Some s /\
    dt <> [] /\ forallb ipChars dt = true /\ ipf dt = Some d /\
    sps <> [] /\ Forall is_dec sps /\ sp = dec_value sps /\ sp <= 65535 /\
    dps <> [] /\ Forall is_dec dps /\ dp = dec_value dps /\ dp <= 65535 /\ stops10 lo.
Proof.
  intros Hl. unfold v1_addresses.
  destruct (tok_prefix famChars 1 t) as [[fam r1]|] eqn:P; [|discriminate].
  apply tok_prefix_sound in P as (Ht & Hne & Hall & Hle & _).
  assert (exists f, fam = [f]) as (f & ->).
  { destruct fam as [|f [|g fam]]; [congruence|exists f; reflexivity|cbn [lenN] in Hle; lia]. }
  cbn [forallb] in Hall. rewrite andb_true_r in Hall.
  destruct (tok_skipChar 32 r1) as [[|] r2] eqn:S; [|discriminate]. apply skipChar_inv in S. subst r1.
  destruct (v1_extract_ip ipf r2) as [e|[src r3]] eqn:X1; [discriminate|].
  apply extract_ip_inv in X1 as (st & -> & Hst & Hsc & Hsa).
  destruct (v1_extract_ip ipf r3) as [e|[dst r4]] eqn:X2; [discriminate|].
  apply extract_ip_inv in X2 as (dt & -> & Hdt & Hdc & Hda).
  destruct (negb (list_eqb (address_family src dst) [f])) eqn:F; [discriminate|].
  apply negb_false_iff, list_eqb_eq in F.
  subst t. repeat (rewrite lenN_app in Hl || cbn [lenN] in Hl).
  destruct (v1_extract_port true r4) as [e|[p1 r5]] eqn:X3; [discriminate|].
  apply extract_port_inv in X3 as (sps & -> & Hs1 & Hs2 & -> & Hs3 & _); [|lia].
  repeat (rewrite lenN_app in Hl || cbn [lenN] in Hl).
  destruct (v1_extract_port false r5) as [e|[p2 r6]] eqn:X4; [discriminate|].
  apply extract_port_inv in X4 as (dps & -> & Hd1 & Hd2 & -> & Hd3 & Hstop); [|lia].
  intros H; inversion H; subst.
  exists f, st, dt, sps, dps. cbn [app]. repeat split; assumption.
Qed.

(* every input on which Parse reports a v1 header with addresses starts with a well-formed
   TCP line (modulo leading zeros in ports and what the IP conversion accepts), the reported
   fields are the written ones and the size is the length of that line *)
Theorem v1_accepted_is_wellformed ipf b h n :
  pp_parse ipf b = Ok h n -> h_v2 h = false -> h_ignore h = false ->
  exists fam st dt sps dps rest,
    b = enc_v1_tcp fam st dt sps dps ++ rest /\ n = lenN (enc_v1_tcp fam st dt sps dps) /\
    n <= v1_maxHeaderLength /\
    famChars fam = true /\ address_family (h_src h) (h_dst h) = [fam] /\
    st <> [] /\ forallb ipChars st = true /\ ipf st = Some (h_src h) /\
    dt <> [] /\ forallb ipChars dt = true /\ ipf dt = Some (h_dst h) /\
    sps <> [] /\ Forall is_dec sps /\ h_sport h = dec_value sps /\ h_sport h <= 65535 /\
    dps <> [] /\ Forall is_dec dps /\ h_dport h = dec_value dps /\ h_dport h <= 65535 /\
    h_cmd h = pp_cmdProxy /\ h_tlvs h = [].
Proof.
  unfold pp_parse. intros H Hv Hi.
  destruct (tok_skip pp_magic2 b) as [[|] r] eqn:S2.
  - apply add_size_ok in H as (n' & H & ->). exfalso. revert H. unfold v2_parse.
    destruct (bt_uint8 true r) as [vc r1| |]; try discriminate.
    destruct (negb _); [discriminate|]. destruct (pp_cmdProxy <? _); [discriminate|].
    destruct (bt_uint8 true r1) as [fp r2| |]; try discriminate.
    destruct (pp_afUnix <? _); [discriminate|]. destruct (pp_tpDgram <? _); [discriminate|].
    destruct (bt_pstring16 true r2) as [raw r3| |]; try discriminate.
    unfold v2_finish. destruct (_ || _); [intros H; inversion H; subst; discriminate|].
    destruct (v2_addresses _ raw) as [[[[[s sp] d] dp] lo]|]; [|discriminate].
    destruct (has_forwarded_addresses _); [|intros H; inversion H; subst; discriminate].
    destruct (parse_tlvs lo); try discriminate. intros H; inversion H; subst; discriminate.
  - destruct (tok_skip pp_magic1 b) as [[|] r1] eqn:S1; [|destruct (lenN pp_magic2 <=? lenN b); discriminate].
    apply tok_skip_inv in S1. subst b.
    apply add_size_ok in H as (n' & H & ->). unfold v1_parse in H.
    destruct (v1_isolate r1) as [i m| |] eqn:I; try discriminate.
    unfold v1_isolate in I.
    destruct (tok_prefix nonCR v1_maxInteriorLength r1) as [[t q1]|] eqn:P; [|destruct (bt_atEnd r1); discriminate].
    apply tok_prefix_sound in P as (Hr1 & _ & _ & Hle & _).
    destruct (tok_skipChar 13 q1) as [[|] q2] eqn:C1; [|destruct (bt_atEnd q1); discriminate]. apply skipChar_inv in C1. subst q1.
    destruct (tok_skipChar 10 q2) as [[|] q3] eqn:C2; [|destruct (bt_atEnd q2); discriminate]. apply skipChar_inv in C2. subst q2.
    inversion I; subst i m. clear I.
    unfold v1_interior in H.
    destruct (tok_skipChar 32 t) as [[|] t1] eqn:C3; [|discriminate]. apply skipChar_inv in C3. subst t.
    destruct (tok_skip s_TCP t1) as [[|] t2] eqn:T.
    + apply tok_skip_inv in T. subst t1.
      destruct (v1_addresses ipf t2) as [e|[[[[s sp] d] dp] lo]] eqn:V; [discriminate|].
      destruct lo as [|l0 lo]; [|discriminate]. cbn [bt_atEnd] in H. inversion H; subst h n'. clear H.
      change v1_maxInteriorLength with 100 in Hle.
      repeat (rewrite lenN_app in Hle || cbn [lenN] in Hle). change (lenN s_TCP) with 3 in Hle.
      apply v1_addresses_inv in V; [|unfold npos; lia].
      destruct V as (fam & st & dt & sps & dps & -> & Hf & Haf & Hst & Hsc & Hsa & Hdt & Hdc & Hda & Hs1 & Hs2 & Hs3 & Hs4 & Hd1 & Hd2 & Hd3 & Hd4 & _).
      exists fam, st, dt, sps, dps, q3. rewrite app_nil_r in *.
      destruct (enc_v1_tcp_len fam st dt sps dps) as [L1 _].
      repeat (rewrite lenN_app in Hle || cbn [lenN] in Hle).
      cbn [h_src h_dst h_sport h_dport h_cmd h_tlvs header_set_addrs header_new].
      split; [|split; [|split]]; [| | |repeat split; assumption].
      * rewrite <- Hr1. unfold enc_v1_tcp. repeat (rewrite <- app_assoc; cbn [app]). reflexivity.
      * rewrite L1. repeat (rewrite lenN_app || cbn [lenN]). change (lenN pp_magic1) with 5. change (lenN s_TCP) with 3. lia.
      * change v1_maxHeaderLength with 107. repeat (rewrite lenN_app || cbn [lenN]). change (lenN pp_magic1) with 5. change (lenN s_TCP) with 3. lia.
    + destruct (tok_skip s_UNKNOWN t1) as [[|] t3]; [|discriminate]. inversion H; subst. discriminate.
Qed.

(* a concrete IP text conversion for the Examples of Properties_C38.v: knows 1.1.1.1, ::1 and ::ffff:1.1.1.1 *)
Definition ex_ipf (t : bytes) : option ipaddr :=
  if list_eqb t b_1111 then Some a_1111 else if list_eqb t b_v6 then Some a_v6
  else if list_eqb t b_mapped then Some a_1111 else None.
