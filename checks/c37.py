"""C37: DNS message decoding is memory-safe and faithful."""
import random, re
from vlib import std, hbuild

PID = "C37"
META = {
    "text": "Theorems (Properties_C37.v) about the Gallina transcription of src/dns/rfc1035.cc, rfc3596.cc, rfc2671.cc "
            "(every datagram read a checked index, every name-buffer write checked against the real capacity, asserts and "
            "unsigned wrap-around as distinct outcomes): for EVERY datagram rfc1035MessageUnpack terminates within a fuel "
            "that does not depend on the datagram (pointer loops included) without out-of-bounds read/write, assertion "
            "failure or wrap-around, and every returned offset stays inside the datagram; a name laid out in the datagram as "
            "labels optionally ending in compression pointers (also pointers to a root label) decodes to its labels joined by dots; a message laid out as "
            "header/question/records (with or without compression) decodes to exactly that header, question and A/AAAA/CNAME/"
            "PTR records, in particular the output of the uncompressed and of the owner-compressing reference encoders; "
            "queries built by rfc1035BuildAQuery/BuildPTRQuery/rfc3596Build* decode back to the query they were built for. "
            "The model is tied to the code by differential runs of the extracted model against the real sources compiled "
            "from the working tree with ASan+UBSan (each datagram in an exact-size heap block).",
    "note": "Trusted: Coq kernel, extraction, gen/gen_dns.cc, harness/h_dns.cc (+ harness/dns_shim/cassert, which turns a "
            "failed assert() of the dns sources into an ASSERT result line); the hand-written DnsModel.v is validated against "
            "the code only on the generated cases. UBSan's nonnull-attribute check is switched off for the harness build "
            "because rfc2671RROptPack makes rfc1035RRPack call memcpy(dst, nullptr, 0) on every EDNS query (outside C37).",
    "technique": "Coq proof (fuel/measure argument for termination, invariants for bounds, induction over the wire layout "
                 "relation for the round trip) + extracted-model differential correspondence under ASan",
}

FRESH = ["src/dns/rfc3596.cc", "src/dns/rfc2671.cc"]   # src/dns/rfc1035.cc is compiled as part of the driver (textual include)
LINK = ["../compat/libcompatsquid.la"]
SANFLAGS = ["-O1", "-g", "-fsanitize=address,undefined", "-fno-sanitize=nonnull-attribute",
            "-fno-sanitize-recover=all", "-fno-omit-frame-pointer"]
A, CNAME, PTR, AAAA, OPT = 1, 5, 12, 28, 41
MAXEDNS = 16383


def impl():
    return hbuild.build("h_dns", "h_dns.cc", fresh=FRESH, link=LINK, sanitize=None,
                        flags=["-I" + hbuild.VERIF + "/harness/dns_shim"] + SANFLAGS,
                        syslibs=["-fsanitize=address,undefined"] + hbuild.SYSLIBS)


def prebuild():
    impl()


def hx(b):
    return bytes(b).hex() if len(b) else "-"


def unhx(h):
    return b"" if h == "-" else bytes.fromhex(h)


def be16(v):
    return bytes([(v >> 8) & 255, v & 255])


def be32(v):
    return bytes([(v >> 24) & 255, (v >> 16) & 255, (v >> 8) & 255, v & 255])


# ---------------------------------------------------------------- reference encoder
class Enc:
    """RFC 1035 reference encoder with optional name compression (suffix table)."""

    def __init__(self, rng, compress):
        self.rng = rng
        self.compress = compress      # probability of using an available pointer
        self.buf = bytearray()
        self.table = {}               # tuple(labels) -> offset

    def name(self, labels, allow_root_ptr=False):
        labels = [bytes(l) for l in labels]
        for i in range(len(labels) + 1):
            suf = tuple(labels[i:])
            if i == len(labels):
                if allow_root_ptr and () in self.table and self.rng.random() < self.compress:
                    self.buf += be16(0xC000 | self.table[()])
                    return
                if len(self.buf) < 0x4000:
                    self.table.setdefault((), len(self.buf))
                self.buf.append(0)
                return
            if suf in self.table and self.rng.random() < self.compress:
                self.buf += be16(0xC000 | self.table[suf])
                return
            if len(self.buf) < 0x4000:
                self.table.setdefault(suf, len(self.buf))
            self.buf.append(len(labels[i]))
            self.buf += labels[i]

    def header(self, h):
        t = (h["qr"] << 15) | (h["opcode"] << 11) | (h["aa"] << 10) | (h["tc"] << 9) | (h["rd"] << 8) | (h["ra"] << 7) | \
            (h["z"] << 4) | h["rcode"]
        self.buf += be16(h["id"]) + be16(t) + be16(h["qd"]) + be16(h["an"]) + be16(h["ns"]) + be16(h["ar"])

    def rr(self, r):
        self.name(r["name"], allow_root_ptr=self.rng.random() < 0.3)
        self.buf += be16(r["type"]) + be16(r["class"]) + be32(r["ttl"])
        if r["type"] in (PTR, CNAME) and "target" in r:
            at = len(self.buf)
            self.buf += b"\0\0"
            self.name(r["target"], allow_root_ptr=self.rng.random() < 0.3)
            n = len(self.buf) - at - 2
            self.buf[at:at + 2] = be16(n)
        else:
            self.buf += be16(len(r["rdata"])) + r["rdata"]


LDH = b"abcdefghijklmnopqrstuvwxyz0123456789-ABCXYZ_"


def rand_label(rng, maxlen=63):
    k = rng.random()
    n = rng.choice([1, 1, 2, 3, 3, 4, 5, 7, 10]) if k < 0.8 else rng.choice([1, 20, 62, 63, rng.randrange(1, 64)])
    n = max(1, min(n, maxlen))
    if rng.random() < 0.93:
        return bytes(rng.choice(LDH) for _ in range(n))
    return bytes(rng.choice([rng.randrange(256), 46, 0, 255, 192, 64]) if rng.random() < 0.3 else rng.choice(LDH) for _ in range(n))


def rand_name(rng, pool=None, budget=253):
    """labels with sum(len+1) <= budget+1 (wire form incl. root <= 255 for the default)"""
    if pool and rng.random() < 0.6:
        base = list(rng.choice(pool))
        if rng.random() < 0.5:
            return base
        pre = [rand_label(rng, 12)]
        if sum(len(l) + 1 for l in pre + base) <= budget + 1:
            return pre + base
        return base
    k = rng.choice([0, 1, 2, 2, 3, 3, 4, 5]) if rng.random() < 0.9 else rng.randrange(0, 40)
    out, used = [], 0
    for _ in range(k):
        l = rand_label(rng)
        if used + len(l) + 1 > budget + 1:
            break
        out.append(l); used += len(l) + 1
    return out


def rand_message(rng):
    compress = rng.choice([0.0, 0.0, 1.0, 1.0, 0.5, 0.8])
    e = Enc(rng, compress)
    q = rand_name(rng)
    pool = [q] + ([q[1:]] if len(q) > 1 else [])
    nan = rng.choice([0, 1, 1, 2, 3, 5]) if rng.random() < 0.95 else rng.randrange(0, 30)
    rrs = []
    for _ in range(nan):
        ty = rng.choice([A, A, AAAA, AAAA, PTR, PTR, CNAME, CNAME, rng.choice([2, 6, 15, 16, 33, 41, 255, 65535, 0])])
        r = {"name": rand_name(rng, pool), "type": ty, "class": rng.choice([1, 1, 1, 3, 255, rng.randrange(65536)]),
             "ttl": rng.choice([0, 1, 60, 3600, 0x7fffffff, 0x80000000, 0xffffffff, rng.randrange(1 << 32)])}
        if ty in (PTR, CNAME):
            r["target"] = rand_name(rng, pool)
            pool.append(r["target"])
        elif ty == A:
            r["rdata"] = bytes(rng.randrange(256) for _ in range(4))
        elif ty == AAAA:
            r["rdata"] = bytes(rng.randrange(256) for _ in range(16))
        else:
            r["rdata"] = bytes(rng.randrange(256) for _ in range(rng.choice([0, 1, 4, 13, 40, 300])))
        rrs.append(r)
    nns = rng.choice([0, 0, 0, 1, 2]); nar = rng.choice([0, 0, 1])
    h = {"id": rng.randrange(65536), "qr": rng.choice([1, 1, 1, 0]), "opcode": rng.choice([0, 0, 0, rng.randrange(16)]),
         "aa": rng.randrange(2), "tc": rng.choice([0, 0, 1]), "rd": rng.randrange(2), "ra": rng.randrange(2),
         "z": rng.choice([0, 0, 0, rng.randrange(8)]), "rcode": rng.choice([0, 0, 0, 0, 0, 3, 2, rng.randrange(16)]),
         "qd": 1, "an": nan, "ns": nns, "ar": nar}
    e.header(h)
    e.name(q)
    e.buf += be16(rng.choice([A, AAAA, PTR, rng.randrange(65536)])) + be16(rng.choice([1, 1, rng.randrange(65536)]))
    for r in rrs:
        e.rr(r)
    for _ in range(nns + nar):
        e.rr({"name": rand_name(rng, pool), "type": rng.choice([2, A, OPT]), "class": 1, "ttl": 5,
              "rdata": bytes(rng.randrange(256) for _ in range(rng.choice([0, 4, 9])))})
    return bytes(e.buf)


# ---------------------------------------------------------------- strict reference decoder (independent of the model)
class NotWellFormed(Exception):
    pass


def strict_name(buf, off, limit=None):
    """RFC 1035 name at `off`: labels of 1..63 octets ended by a root label or by a pointer to a PRIOR name.
    Returns (labels, end offset, followed_ptr_to_root_after_labels). Raises NotWellFormed."""
    labels, end, wire, hops = [], None, 1, 0
    seg_start = off
    quirk = False
    while True:
        if off >= len(buf):
            raise NotWellFormed("name runs past the end")
        c = buf[off]
        if c >= 192:
            if off + 2 > len(buf):
                raise NotWellFormed("pointer cut")
            ptr = ((c & 0x3f) << 8) | buf[off + 1]
            if ptr >= seg_start:
                raise NotWellFormed("pointer is not to a prior occurrence")
            if end is None:
                end = off + 2
            hops += 1
            if hops > 40:
                raise NotWellFormed("too many hops for this oracle")
            if labels and buf[ptr] == 0:
                quirk = True
            off = ptr; seg_start = ptr
            continue
        if c >= 64:
            raise NotWellFormed("reserved label type")
        if c == 0:
            if end is None:
                end = off + 1
            return labels, end, quirk
        if off + 1 + c > len(buf):
            raise NotWellFormed("label cut")
        lab = bytes(buf[off + 1:off + 1 + c])
        wire += c + 1
        if wire > 255:
            raise NotWellFormed("name longer than 255 octets")
        labels.append(lab)
        off += 1 + c


def text_of(labels):
    return b".".join(labels)


def strict_message(buf):
    """Expected decoding of a well-formed message: dict, or raises NotWellFormed."""
    if len(buf) < 12:
        raise NotWellFormed("short")
    w = [(buf[i] << 8) | buf[i + 1] for i in range(0, 12, 2)]
    t = w[1]
    h = [w[0], t >> 15, (t >> 11) & 15, (t >> 10) & 1, (t >> 9) & 1, (t >> 8) & 1, (t >> 7) & 1, t & 15, w[2], w[3], w[4], w[5]]
    if w[2] != 1:
        raise NotWellFormed("qdcount")
    quirks = []
    labels, off, qk = strict_name(buf, 12)
    if any(0 in l for l in labels):
        raise NotWellFormed("NUL in label")
    if off + 4 > len(buf):
        raise NotWellFormed("question cut")
    q = (text_of(labels), (buf[off] << 8) | buf[off + 1], (buf[off + 2] << 8) | buf[off + 3])
    quirks.append(qk)
    off += 4
    rrs = []
    if h[7] == 0:
        for _ in range(w[3]):
            labels, off, qk = strict_name(buf, off)
            if any(0 in l for l in labels):
                raise NotWellFormed("NUL in label")
            if off + 10 > len(buf):
                raise NotWellFormed("rr cut")
            ty = (buf[off] << 8) | buf[off + 1]; cl = (buf[off + 2] << 8) | buf[off + 3]
            ttl = int.from_bytes(buf[off + 4:off + 8], "big"); rdl = (buf[off + 8] << 8) | buf[off + 9]
            off += 10
            if off + rdl > len(buf):
                raise NotWellFormed("rdata cut")
            qk2 = False
            if ty == PTR:
                pl, pend, qk2 = strict_name(buf, off)
                if any(0 in l for l in pl):
                    raise NotWellFormed("NUL in label")
                if pend != off + rdl:
                    raise NotWellFormed("PTR rdata is not exactly one name")
                rd = text_of(pl)
            else:
                rd = bytes(buf[off:off + rdl])
            rrs.append((text_of(labels), ty, cl, ttl, rdl, rd))
            quirks.append(qk or qk2)
            off += rdl
    return {"h": h, "q": q, "rrs": rrs, "quirk": any(quirks)}


RR_RE = re.compile(r"^RR=([0-9a-f-]+),(\d+),(\d+),(\d+),(\d+),([0-9a-f-]+)$")


def parse_unpack_line(out):
    """-> dict rc, h (list) or None, q or None, rrs"""
    w = out.split()
    d = {"rc": None, "h": None, "q": None, "rrs": [], "cmp": None}
    for x in w:
        if x.startswith("rc="):
            d["rc"] = int(x[3:])
        elif x.startswith("H="):
            d["h"] = [int(v) for v in x[2:].split(",")]
        elif x.startswith("Q="):
            n, t, c = x[2:].split(",")
            d["q"] = (unhx(n), int(t), int(c))
        elif x.startswith("RR="):
            m = RR_RE.match(x)
            if not m:
                raise ValueError("bad RR field " + x)
            d["rrs"].append((unhx(m.group(1)), int(m.group(2)), int(m.group(3)), int(m.group(4)), int(m.group(5)), unhx(m.group(6))))
        elif x.startswith("cmp="):
            d["cmp"] = x[4:]
        else:
            raise ValueError("unexpected field " + x)
    if d["rc"] is None:
        raise ValueError("no rc")
    return d


BADWORDS = ("CRASH", "EXC", "ERR", "OOBR", "OOBW", "WRAP", "FUEL", "ASSERT")


def check_unpacked(buf, d):
    """the property on one decoded datagram; returns None or (sigsuffix, why)"""
    # internal consistency for EVERY datagram
    if d["rc"] > 0 and len(d["rrs"]) != d["rc"]:
        return ("count", "returned %d but %d records are present" % (d["rc"], len(d["rrs"])))
    if d["h"] is not None and d["rc"] > d["h"][9]:
        return ("count", "more records than ancount")
    for nm in ([d["q"][0]] if d["q"] else []) + [r[0] for r in d["rrs"]] + [r[5] for r in d["rrs"] if r[1] == PTR]:
        if len(nm) > 255:
            return ("namelen", "decoded name longer than the 256-byte name buffer")
    try:
        exp = strict_message(buf)
    except NotWellFormed:
        return None
    if d["h"] is None:
        return ("rejected", "well-formed message rejected (rc=%d)" % d["rc"])
    if d["h"] != exp["h"]:
        return ("header", "header %s, encoded %s" % (d["h"], exp["h"]))
    rcode = exp["h"][7]
    want_rc = -rcode if rcode else len(exp["rrs"])
    got = [d["q"]] + [(r[0], r[1], r[2], r[3], r[5]) + ((r[4],) if r[1] != PTR else ()) for r in d["rrs"]]
    want = [exp["q"]] + [(r[0], r[1], r[2], r[3], r[5]) + ((r[4],) if r[1] != PTR else ()) for r in exp["rrs"]]
    if d["rc"] == want_rc and got == want:
        return None
    if exp["quirk"] and d["rc"] == want_rc and len(got) == len(want):
        # is every difference a trailing dot on a name whose encoding ends in a pointer to a root label?
        def undot(x):
            return x[:-1] if x.endswith(b".") else x
        g2 = [tuple(undot(v) if isinstance(v, bytes) and i in (0, 4) and (i == 0 or (len(t) > 1 and t[1] == PTR)) else v
                    for i, v in enumerate(t)) for t in got]
        if g2 == want:
            return ("ptr-to-root-trailing-dot", "a name ending in a compression pointer to a root label decodes with a trailing dot")
    return ("mismatch", "decoded rc=%d %s, encoded rc=%d %s" % (d["rc"], got[:3], want_rc, want[:3]))


def host_tokens(host):
    return [t for t in host.split(b".") if t]


def wellformed_host(host):
    if not host or len(host) > 253 + (1 if host.endswith(b".") else 0):
        return False
    core = host[:-1] if host.endswith(b".") else host
    if not core:
        return False
    return all(1 <= len(t) <= 63 for t in core.split(b"."))


def ref_query(host, qid, qtype, edns, sz):
    """(expected message or None when the buffer is too small, reason)"""
    toks = [t[:63] for t in host_tokens(host)]
    qn = b"".join(bytes([len(t)]) + t for t in toks) + b"\0"
    if sz < 12:
        return None
    if sz - 12 < len(qn) + 4:
        return None
    msg = be16(qid) + be16(0x0100) + be16(1) + be16(0) + be16(0) + be16(1 if edns > 0 else 0) + qn + be16(qtype) + be16(1)
    if edns > 0:
        room = sz - len(msg)
        if room == 0:
            return None
        if room >= 11:
            msg += b"\0" + be16(OPT) + be16(min(edns, MAXEDNS)) + be32(0) + be16(0)
    return msg


def rev4(a, b, c, d):
    return ("%d.%d.%d.%d.in-addr.arpa." % (d, c, b, a)).encode()


def rev6(addr):
    return "".join("%x.%x." % (x & 15, x >> 4) for x in reversed(addr)).encode() + b"ip6.arpa."


def oracle(case, out):
    a = case.split()
    op = a[0]
    try:
        if op in ("unpack", "name"):
            if out.startswith(BADWORDS) or "BAD-" in out:
                return ("safety:" + op, "decoding crashed / went out of bounds / asserted: " + out[:200])
        if op == "unpack":
            buf = unhx(a[1])
            v = check_unpacked(buf, parse_unpack_line(out))
            return ("unpack:" + v[0], v[1]) if v else None
        if op == "name":
            ns, rdepth, off, buf = int(a[1]), int(a[2]), int(a[3]), unhx(a[4])
            if out != "err" and not out.startswith("ok "):
                return ("name:syntax", "unexpected answer " + out[:100])
            if out.startswith("ok "):
                w = out.split()
                if len(unhx(w[1])) >= ns or int(w[2]) > len(buf):
                    return ("name:bounds", "name does not fit its buffer or offset beyond the datagram")
            try:
                labels, end, quirk = strict_name(buf, off)
            except NotWellFormed:
                return None
            need = sum(len(l) + 1 for l in labels)
            if any(0 in l for l in labels) or rdepth > 20 or need >= ns:
                return None
            exp = "ok %s %d %d" % (hx(text_of(labels)), end, need)
            if out == exp:
                return None
            if quirk and out == "ok %s %d %d" % (hx(text_of(labels) + b"."), end, need):
                return ("name:ptr-to-root-trailing-dot", "a name ending in a compression pointer to a root label decodes with a trailing dot")
            return ("name:mismatch", "expected " + exp[:200])
        if op in ("aq", "pq", "hq", "p4", "p6"):
            if out.startswith(("CRASH", "EXC", "ERR")) or "BAD-" in out:
                return ("build:crash", "query builder crashed: " + out[:200])
            sz, qid, edns = int(a[1]), int(a[2]), int(a[3])
            if op == "aq":
                host, qtype = unhx(a[4]), A
            elif op == "hq":
                host, qtype = unhx(a[5]), int(a[4]) & 0xffff
            elif op in ("pq", "p4"):
                host, qtype = rev4(*[int(x) for x in a[4:8]]), PTR
            else:
                host, qtype = rev6(unhx(a[4])), PTR
            host = host.split(b"\0")[0]
            exp = ref_query(host, qid, qtype, edns, sz)
            if exp is None:
                if out in ("ASSERT", "OOBW"):
                    return None
                return ("build:small-buffer", "buffer too small for the query but the builder answered " + out[:100])
            if not out.startswith("ok "):
                return ("build:refused", "buffer large enough (%d) but builder answered %s" % (sz, out[:60]))
            left, right = out[3:].split(" | ")
            lw = left.split()
            if unhx(lw[0]) != exp:
                return ("build:bytes", "built %s, reference encoding %s" % (lw[0][:120], hx(exp)[:120]))
            n, t, c = lw[1][2:].split(",")
            if (unhx(n), int(t), int(c)) != (host[:255], qtype, 1):
                return ("build:query-struct", "query struct does not describe the request")
            if wellformed_host(host):
                d = parse_unpack_line(right)
                core = host[:-1] if host.endswith(b".") else host
                if d["rc"] != 0 or d["q"] != (core, qtype, 1) or d["cmp"] != "0" or d["h"] is None or d["h"][0] != qid:
                    return ("build:roundtrip", "packed query does not decode back to itself: " + right[:200])
            return None
        if op in ("rrpack", "opt", "hdr", "setid", "cmp"):
            if out.startswith(("CRASH", "EXC", "ERR")) or "BAD-" in out:
                return ("pack:crash", out[:200])
            if op == "hdr" and out.startswith("ok "):
                f = [int(x) for x in a[2:14]]
                d = parse_unpack_line(out.split(" | ")[1].rsplit(" ", 1)[0])
                if d["h"] != f:
                    return ("hdr:roundtrip", "header %s packed and unpacked as %s" % (f, d["h"]))
            if op == "cmp":
                na, nb = unhx(a[1]).split(b"\0")[0][:255], unhx(a[4]).split(b"\0")[0][:255]
                same = (a[2], a[3]) == (a[5], a[6])
                if len(na) != len(nb):
                    na, nb = na.rstrip(b"."), nb.rstrip(b".")

                def low(s):
                    return bytes(c + 32 if 65 <= c <= 90 else c for c in s)
                same = same and low(na) == low(nb)
                if out != ("0" if same else "1"):
                    return ("cmp", "QueryCompare answered %s" % out)
            return None
    except Exception as ex:
        return ("syntax", "unparsable implementation output %r (%s)" % (out[:120], ex))
    return None


def oracle_sig(case, out):
    v = oracle(case, out)
    return ("oracle:" + v[0], v[1]) if v else None


# ---------------------------------------------------------------- case generators
def header_bytes(rng, an=0, rcode=0, qd=1):
    return be16(rng.randrange(65536)) + be16(0x8180 | rcode) + be16(qd) + be16(an) + be16(0) + be16(0)


def boundary_messages(rng):
    """aimed at the case splits of the proofs: name length 254..257, label 63/64, pointer depth 63..67, loops, cuts"""
    out = []
    # total name sizes around the 256-byte buffer
    for total in (250, 253, 254, 255, 256, 257, 300):
        labels, used = [], 0
        while used < total:
            n = min(rng.choice([63, 63, 31, 7]), total - used - 1)
            if n <= 0:
                break
            labels.append(bytes(rng.choice(LDH) for _ in range(n))); used += n + 1
        qn = b"".join(bytes([len(l)]) + l for l in labels) + b"\0"
        out.append(header_bytes(rng) + qn + be16(1) + be16(1))
        out.append(header_bytes(rng, an=1) + b"\1a\0" + be16(1) + be16(1) + qn + be16(PTR) + be16(1) + be32(9) + be16(len(qn)) + qn)
        # same name reached through a pointer at the end
        body = header_bytes(rng, an=1) + qn + be16(1) + be16(1)
        out.append(body + b"\xc0\x0c" + be16(A) + be16(1) + be32(1) + be16(4) + b"\1\2\3\4")
        out.append(body + b"\3www\xc0\x0c" + be16(PTR) + be16(1) + be32(1) + be16(2) + b"\xc0\x0c")
    for n in (62, 63, 64, 65, 191, 192):
        out.append(header_bytes(rng) + bytes([n]) + b"x" * (n & 63 if n < 192 else 1) + b"\0" + be16(1) + be16(1))
    # pointer chains: question name = pointer to a chain of k pointers ending in a real name
    for k in (1, 2, 30, 62, 63, 64, 65, 66, 67, 100):
        base = header_bytes(rng, an=1) + b"\xc0" + bytes([12 + 2 + 4]) + be16(1) + be16(1)
        chain = b""
        start = len(base)
        for i in range(k):
            chain += be16(0xC000 | (start + 2 * (i + 1)))
        tail = b"\3abc\2de\0"
        out.append(base + chain + tail + b"\xc0\x0c" + be16(A) + be16(1) + be32(1) + be16(4) + b"\1\2\3\4")
    # loops
    out.append(header_bytes(rng) + b"\xc0\x0c" + be16(1) + be16(1))
    out.append(header_bytes(rng) + b"\xc0\x0e\xc0\x0c" + be16(1) + be16(1))
    out.append(header_bytes(rng) + b"\1a\xc0\x0c" + be16(1) + be16(1))
    out.append(header_bytes(rng) + b"\3abc\xc0\x10" + be16(1) + be16(1))
    # pointer to a root label (the zero high byte of qdcount at offset 4)
    out.append(header_bytes(rng) + b"\3www\xc0\x04" + be16(1) + be16(1))
    out.append(header_bytes(rng) + b"\xc0\x04" + be16(1) + be16(1))
    out.append(header_bytes(rng, an=1) + b"\3www\0" + be16(PTR) + be16(1) + b"\xc0\x0c" + be16(PTR) + be16(1) + be32(5) + be16(6) + b"\3abc\xc0\x04")
    # forward pointer, pointer past the end, pointer cut, datagram ending right after things
    out.append(header_bytes(rng) + b"\xc0\x12" + be16(1) + be16(1) + b"\3abc\0")
    out.append(header_bytes(rng) + b"\xff\xff" + be16(1) + be16(1))
    out.append(header_bytes(rng) + b"\xc0")
    out.append(header_bytes(rng) + b"\3ab")
    out.append(header_bytes(rng) + b"\3abc")
    out.append(header_bytes(rng) + b"\3abc\0" + b"\0\1\0")
    out.append(header_bytes(rng, an=2) + b"\1a\0" + be16(1) + be16(1) + b"\xc0\x0c" + be16(A) + be16(1) + be32(1) + be16(4) + b"\1\2\3")
    out.append(header_bytes(rng, an=65535) + b"\1a\0" + be16(1) + be16(1) + (b"\xc0\x0c" + be16(A) + be16(1) + be32(1) + be16(0)) * 40)
    # PTR whose name runs beyond its rdlength / uses less than it
    for rdl in (0, 1, 4, 5, 6, 9):
        out.append(header_bytes(rng, an=1) + b"\1a\0" + be16(PTR) + be16(1) + b"\xc0\x0c" + be16(PTR) + be16(1) + be32(5) + be16(rdl) + b"\3abc\0" + b"zzzz")
    # rcode set, qdcount variants
    out.append(header_bytes(rng, an=1, rcode=3) + b"\1a\0" + be16(1) + be16(1))
    for qd in (0, 2, 65535):
        out.append(header_bytes(rng, qd=qd) + b"\1a\0" + be16(1) + be16(1))
    return out


def gen_unpack(rng, n):
    cases = []
    bnd = boundary_messages(rng)
    for m in bnd:
        cases.append(m)
    # every truncation of a few messages
    for _ in range(3):
        m = rand_message(rng)
        for k in range(0, min(len(m), 120) + 1):
            cases.append(m[:k])
    while len(cases) < n:
        k = rng.random()
        m = rand_message(rng) if rng.random() < 0.9 else rng.choice(bnd)
        if k < 0.55:
            cases.append(m)
        elif k < 0.80:                       # byte-level mutations
            b = bytearray(m)
            for _ in range(rng.choice([1, 1, 1, 2, 3, 8])):
                if not b:
                    break
                i = rng.randrange(len(b)) if rng.random() < 0.5 else rng.randrange(min(len(b), 12), len(b)) if len(b) > 12 else 0
                r = rng.random()
                if r < 0.4:
                    b[i] = rng.choice([0, 1, 63, 64, 191, 192, 193, 255, 12, rng.randrange(256)])
                elif r < 0.6:
                    b[i] ^= 1 << rng.randrange(8)
                elif r < 0.75:
                    del b[i]
                elif r < 0.9:
                    b.insert(i, rng.choice([0, 192, 12, 63, rng.randrange(256)]))
                else:
                    b[i:i + 2] = be16(0xC000 | rng.choice([i, max(i - 2, 0), 12, rng.randrange(len(b) + 2)]))
            cases.append(bytes(b))
        elif k < 0.93:                       # truncations / extensions
            if rng.random() < 0.8:
                cases.append(m[:rng.randrange(len(m) + 1)])
            else:
                cases.append(m + bytes(rng.randrange(256) for _ in range(rng.choice([1, 2, 10]))))
        else:                                # noise behind a plausible header
            cases.append(header_bytes(rng, an=rng.choice([0, 1, 3])) +
                         bytes(rng.choice([0, 1, 2, 3, 12, 63, 192, 97, 98, rng.randrange(256)]) for _ in range(rng.choice([0, 1, 5, 20, 60]))))
    return ["unpack " + hx(m) for m in cases[:n]]


def gen_name(rng, n):
    cases = []
    for _ in range(n):
        m = bytearray(rand_message(rng))
        offs = [12] + [i for i in range(12, len(m)) if m[i] in (0xC0,) or m[i] < 64]
        off = rng.choice(offs) if rng.random() < 0.8 else rng.randrange(len(m) + 2)
        ns = rng.choice([256, 256, 256, 1, 2, 3, 4, 5, 8, 16, 64, 255, 257, 300, rng.randrange(1, 40)])
        rdepth = rng.choice([0, 0, 0, 1, 63, 64, 65, 66])
        if rng.random() < 0.2 and len(m) > 14:
            i = rng.randrange(12, len(m)); m[i] = rng.choice([0, 63, 64, 192, 255, rng.randrange(256)])
        cases.append("name %d %d %d %s" % (ns, rdepth, off, hx(m)))
    return cases


def rand_host(rng):
    k = rng.random()
    if k < 0.7:
        labels = [bytes(rng.choice(LDH) for _ in range(rng.choice([1, 2, 3, 5, 8, 12, 63]))) for _ in range(rng.choice([1, 2, 3, 4, 6]))]
        h = b".".join(labels)
        if rng.random() < 0.2:
            h += b"."
        return h[:254]
    if k < 0.8:                               # long names around the limits
        total = rng.choice([250, 252, 253, 254, 255, 256, 260])
        labels, used = [], 0
        while used < total:
            nn = min(rng.choice([63, 63, 40]), total - used)
            labels.append(b"x" * nn); used += nn + 1
        return b".".join(labels)[:total]
    if k < 0.9:                               # strtok quirks: empty labels, leading/trailing dots, over-long labels
        return rng.choice([b"", b".", b"..", b"a..b", b".a.b.", b"a" * 64 + b".com", b"a" * 70, b"a." * 50, b"a.b..", b"...a"])
    return bytes(rng.choice([46, 0, 97, 98, 255, 65, 45, rng.randrange(256)]) for _ in range(rng.choice([1, 5, 20])))


def need_size(host, edns):
    toks = [t[:63] for t in host.split(b"\0")[0].split(b".") if t]
    return 12 + sum(len(t) + 1 for t in toks) + 1 + 4


def gen_build(rng, n):
    cases = []
    for _ in range(n):
        op = rng.choice(["aq", "aq", "hq", "hq", "pq", "p4", "p6"])
        qid = rng.choice([0, 1, 65535, rng.randrange(65536)])
        edns = rng.choice([0, 0, -1, 1, 512, 4096, 16383, 16384, 65535, 100000])
        if op in ("aq", "hq"):
            host = rand_host(rng)
            need = need_size(host, edns)
        elif op in ("pq", "p4"):
            ad = [rng.choice([0, 1, 9, 10, 99, 100, 255, rng.randrange(256)]) for _ in range(4)]
            need = need_size(rev4(*ad), edns)
        else:
            a6 = bytes(rng.choice([0, 255, 0x1f, 0xf1, rng.randrange(256)]) for _ in range(16))
            need = need_size(rev6(a6), edns)
        sz = rng.choice([512, 512, 512, 1024, 6000]) if rng.random() < 0.8 else \
            max(0, need + rng.choice([-20, -5, -4, -3, -2, -1, 0, 1, 2, 10, 11, 12, -need, 11 - need, 12 - need]))
        if op == "aq":
            cases.append("aq %d %d %d %s" % (sz, qid, edns, hx(host)))
        elif op == "hq":
            cases.append("hq %d %d %d %d %s" % (sz, qid, edns, rng.choice([A, AAAA, PTR, 255, 65535, rng.randrange(65536)]), hx(host)))
        elif op in ("pq", "p4"):
            cases.append("%s %d %d %d %d %d %d %d" % (op, sz, qid, edns, ad[0], ad[1], ad[2], ad[3]))
        else:
            cases.append("p6 %d %d %d %s" % (sz, qid, edns, hx(a6)))
    return cases


def gen_misc(rng, n):
    cases = []
    for _ in range(n):
        k = rng.random()
        if k < 0.3:
            f = [rng.randrange(65536), rng.randrange(2), rng.randrange(16), rng.randrange(2), rng.randrange(2), rng.randrange(2),
                 rng.randrange(2), rng.randrange(16)] + [rng.choice([0, 1, 65535, rng.randrange(65536)]) for _ in range(4)]
            cases.append("hdr %d %s" % (rng.choice([12, 12, 13, 512, 11, 0]), " ".join(str(x) for x in f)))
        elif k < 0.55:
            host = rand_host(rng).split(b"\0")[0][:200]
            rd = bytes(rng.randrange(256) for _ in range(rng.choice([0, 0, 4, 16, 50])))
            need = need_size(host, 0) - 12 - 4 + 10 + len(rd)
            sz = rng.choice([512, need, need - 1, need + 1, max(need - 12, 1), 1, 2])
            cases.append("rrpack %d %s %d %d %d %s" % (max(sz, 0), hx(host), rng.randrange(65536), rng.randrange(65536), rng.randrange(1 << 32), hx(rd)))
        elif k < 0.7:
            cases.append("opt %d %d" % (rng.choice([0, 1, 2, 10, 11, 12, 512]), rng.choice([0, 1, 512, 16383, 16384, 65535, 1 << 20])))
        elif k < 0.8:
            cases.append("setid %d %s" % (rng.randrange(65536), hx(bytes(rng.randrange(256) for _ in range(rng.choice([2, 3, 12, 30]))))))
        else:
            x = rand_host(rng).split(b"\0")[0][:255]
            r = rng.random()
            if r < 0.3:
                y = x
            elif r < 0.5:
                y = x.swapcase()
            elif r < 0.7:
                y = x + b"." * rng.choice([1, 2]) if rng.random() < 0.5 else x.rstrip(b".")
            elif r < 0.85 and x:
                yb = bytearray(x); yb[rng.randrange(len(yb))] ^= rng.choice([1, 32, 128]); y = bytes(yb)
            else:
                y = rand_host(rng).split(b"\0")[0][:255]
            ta, ca = rng.choice([1, 28, 12]), 1
            tb, cb = (ta, ca) if rng.random() < 0.85 else (rng.choice([1, 28, 12]), rng.choice([1, 3]))
            cases.append("cmp %s %d %d %s %d %d" % (hx(x), ta, ca, hx(y), tb, cb))
    return cases


def gen_cases(rng, n):
    nu = int(n * 0.62); nn = int(n * 0.14); nb = int(n * 0.18)
    cases = gen_unpack(rng, nu) + gen_name(rng, nn) + gen_build(rng, nb) + gen_misc(rng, n - nu - nn - nb)
    return cases


def mutate(rng, case):
    a = case.split()
    if a[0] in ("unpack", "name") and a[-1] != "-":
        b = bytearray(unhx(a[-1]))
        r = rng.random()
        if r < 0.5:
            b[rng.randrange(len(b))] = rng.choice([0, 63, 64, 192, 255, 12, rng.randrange(256)])
        elif r < 0.75:
            b = b[:rng.randrange(len(b) + 1)]
        else:
            i = rng.randrange(len(b)); b[i:i + 2] = be16(0xC000 | rng.randrange(len(b) + 1))
        a[-1] = hx(b)
        return " ".join(a)
    if a[0] in ("aq", "hq", "pq", "p4", "p6", "rrpack", "opt"):
        a[1] = str(max(0, int(a[1]) + rng.choice([-12, -4, -2, -1, 1, 2, 11])))
    return " ".join(a)


def kind(case, out):
    op = case.split()[0]
    w = out.split()
    if not w:
        return op + ":empty"
    if op == "unpack":
        rc = w[0]
        if rc == "rc=-15" and len(w) == 1:
            return "unpack:rejected"
        if rc.startswith("rc=-"):
            return "unpack:rcode"
        if rc == "rc=0":
            return "unpack:no-answers"
        if rc.startswith("rc="):
            return "unpack:answers"
        return "unpack:" + w[0][:8]
    return op + ":" + (w[0] if w[0] in ("ok", "err", "zero", "ASSERT", "OOBW", "0", "1") else "val")


def nontrivial(case, out):
    op = case.split()[0]
    if op == "unpack":
        return " Q=" in out
    return out.startswith("ok") or op in ("cmp", "setid")


def run(res, tier):
    res.rule = ("unpack: messages of a reference encoder (random names, A/AAAA/PTR/CNAME/other records, no/partial/full name "
                "compression, extra NS/AR sections) + byte mutations, truncations at every prefix, extensions, noise behind a "
                "valid header + boundary stream (names of 250..300 octets, labels 62..65, pointer chains of depth 1..100, "
                "pointer loops, pointers to root labels / forward / past the end, PTR rdata shorter/longer than rdlength, "
                "qdcount/rcode variants); name: rfc1035NameUnpack directly with name buffers of 1..300 bytes and rdepth 0..66; "
                "builders: host names (well-formed, 250..260 octets, strtok quirks) x buffer sizes around the exact need; "
                "header/RR/OPT packers, QueryCompare. Non-trivial: the datagram decoded at least to a question / the builder "
                "produced a message")
    std.run_standard(res, PID, tier, area="dns", build_impl=impl, gen_cases=gen_cases, oracle=oracle_sig,
                     corr_name="DnsModel vs src/dns/rfc1035.cc, rfc3596.cc, rfc2671.cc (ASan+UBSan)",
                     gens=["dns"], n_quick=20000, n_thorough=500000, seed_salt=37, mutate=mutate,
                     kind_fn=kind, nontrivial_fn=nontrivial)
