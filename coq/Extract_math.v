(* Extract_math.v — extraction of the SquidMath model to OCaml (ExtrOcamlBasic only;
   Z, N, positive stay the extracted Coq datatypes). *)
Require Import ExtrOcamlBasic.
Require Import SquidV.Bytes SquidV.MathModel.
Extraction "m_math.ml"
  conv Less increase_sum2 natural_sum set_to_natural_sum_or_max natural_cast.
